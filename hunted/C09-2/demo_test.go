// SPDX-FileCopyrightText: 2026 The Pion community <https://pion.ly>
// SPDX-License-Identifier: MIT

package sctp

import (
	"io"
	"net"
	"sync"
	"testing"
	"time"

	"github.com/pion/logging"
)

// ---------------------------------------------------------------------------
// a minimal in-memory datagram connection pair (self contained)
// ---------------------------------------------------------------------------

type huntC09n2Conn struct {
	mu     sync.Mutex
	cond   *sync.Cond
	queue  [][]byte
	closed bool
	peer   *huntC09n2Conn
}

func newHuntC09n2ConnPair() (*huntC09n2Conn, *huntC09n2Conn) {
	a := &huntC09n2Conn{}
	b := &huntC09n2Conn{}
	a.cond = sync.NewCond(&a.mu)
	b.cond = sync.NewCond(&b.mu)
	a.peer, b.peer = b, a

	return a, b
}

func (c *huntC09n2Conn) Read(p []byte) (int, error) {
	c.mu.Lock()
	defer c.mu.Unlock()
	for {
		if len(c.queue) > 0 {
			pkt := c.queue[0]
			c.queue = c.queue[1:]

			return copy(p, pkt), nil
		}
		if c.closed {
			return 0, io.EOF
		}
		c.cond.Wait()
	}
}

func (c *huntC09n2Conn) Write(p []byte) (int, error) {
	c.mu.Lock()
	closed := c.closed
	c.mu.Unlock()
	if closed {
		return 0, net.ErrClosed
	}
	cp := append([]byte(nil), p...)
	c.peer.mu.Lock()
	if !c.peer.closed {
		c.peer.queue = append(c.peer.queue, cp)
		c.peer.cond.Broadcast()
	}
	c.peer.mu.Unlock()

	return len(p), nil
}

func (c *huntC09n2Conn) Close() error {
	c.mu.Lock()
	c.closed = true
	c.cond.Broadcast()
	c.mu.Unlock()

	return nil
}

func (c *huntC09n2Conn) LocalAddr() net.Addr              { return &net.UDPAddr{} }
func (c *huntC09n2Conn) RemoteAddr() net.Addr             { return &net.UDPAddr{} }
func (c *huntC09n2Conn) SetDeadline(time.Time) error      { return nil }
func (c *huntC09n2Conn) SetReadDeadline(time.Time) error  { return nil }
func (c *huntC09n2Conn) SetWriteDeadline(time.Time) error { return nil }

func huntC09n2Pair(t *testing.T, cfgA, cfgB Config) (*Association, *Association) {
	t.Helper()

	ca, cb := newHuntC09n2ConnPair()
	type res struct {
		a   *Association
		err error
	}
	chA := make(chan res, 1)
	chB := make(chan res, 1)
	lf := logging.NewDefaultLoggerFactory()
	cfgA.Name, cfgA.NetConn, cfgA.LoggerFactory = "A", ca, lf
	cfgB.Name, cfgB.NetConn, cfgB.LoggerFactory = "B", cb, lf
	go func() {
		a, err := Client(cfgA)
		chA <- res{a, err}
	}()
	go func() {
		b, err := Server(cfgB)
		chB <- res{b, err}
	}()

	var a, b *Association
	for a == nil || b == nil {
		select {
		case r := <-chA:
			if r.err != nil {
				t.Fatalf("client handshake: %v", r.err)
			}
			a = r.a
		case r := <-chB:
			if r.err != nil {
				t.Fatalf("server handshake: %v", r.err)
			}
			b = r.a
		case <-time.After(20 * time.Second):
			t.Fatal("handshake did not complete")
		}
	}

	return a, b
}

// Property C09: Close at any moment: "every blocked read, write, accept, connect and
// shutdown call returns promptly with an error or EOF".
//
// With Config.BlockWrite a Stream.Write waits until the data written before has left
// the pending queue. Such a write made from the stream's OnBufferedAmountLow callback
// (writing more data is what that callback is for) runs on the association's read
// loop. Association.Close never wakes blocked writers itself - it leaves that to the
// read loop's exit path and waits for it. The read loop is the goroutine sitting in
// the blocked write: Close hangs for ever and the write is never released.
func TestHuntC09n2_CloseDoesNotReleaseWriteBlockedInBufferedAmountLowCallback(t *testing.T) {
	a, b := huntC09n2Pair(t, Config{BlockWrite: true}, Config{})

	sa, err := a.OpenStream(1, PayloadTypeWebRTCBinary)
	if err != nil {
		t.Fatal(err)
	}

	const msgSize = 60000 // more than a dozen congestion windows: most of it stays pending

	type writeResult struct {
		n   int
		err error
	}
	inCallback := make(chan struct{})
	cbWrite := make(chan writeResult, 1)
	var once sync.Once
	sa.SetBufferedAmountLowThreshold(msgSize - 1000)
	sa.OnBufferedAmountLow(func() {
		once.Do(func() {
			close(inCallback)
			n, werr := sa.Write([]byte("more data"))
			cbWrite <- writeResult{n, werr}
		})
	})

	// BlockWrite lets the first write through at once (nothing is pending before it).
	if _, err = sa.Write(make([]byte, msgSize)); err != nil {
		t.Fatal(err)
	}

	select {
	case <-inCallback:
	case <-time.After(20 * time.Second):
		t.Fatal("OnBufferedAmountLow was never called")
	}

	// The write in the callback has to wait (BlockWrite): most of the first message is
	// still pending. Make sure that it is really blocked and did not simply return.
	select {
	case r := <-cbWrite:
		t.Fatalf("test assumption broken: the write in the callback did not block (n=%d err=%v)", r.n, r.err)
	case <-time.After(time.Second):
	}

	// Now the application closes the association from its own goroutine.
	closed := make(chan error, 1)
	go func() { closed <- a.Close() }()

	const bound = 10 * time.Second
	var closeReturned, writeReturned bool
	timeout := time.After(bound)
wait:
	for !closeReturned || !writeReturned {
		select {
		case <-closed:
			closeReturned = true
		case r := <-cbWrite:
			writeReturned = true
			if r.err == nil {
				t.Errorf("write blocked across Close returned without error (n=%d)", r.n)
			}
		case <-timeout:
			break wait
		}
	}

	if !closeReturned {
		t.Errorf("Association.Close did not return within %v", bound)
	}
	if !writeReturned {
		t.Errorf("the blocked Stream.Write was not released within %v of Association.Close", bound)
	}

	if !closeReturned || !writeReturned {
		// Diagnostics + clean-up: release the writer by other means (an expired write
		// deadline). As soon as it is gone the read loop can finish and Close returns,
		// which shows that Close was only waiting for the writer it failed to wake.
		_ = sa.SetWriteDeadline(time.Now())
		if !writeReturned {
			select {
			case r := <-cbWrite:
				t.Logf("after forcing a write deadline the blocked write returned: n=%d err=%v", r.n, r.err)
			case <-time.After(bound):
				t.Log("the write did not even return after an expired write deadline")
			}
		}
		if !closeReturned {
			select {
			case <-closed:
				t.Log("... and only then Association.Close returned")
			case <-time.After(bound):
				t.Log("Association.Close still has not returned")
			}
		}
	}

	_ = b.Close()
}
