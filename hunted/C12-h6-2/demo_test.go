package sctp

import (
	"bytes"
	"fmt"
	"net"
	"sync"
	"testing"
	"time"
)

// ---- a minimal in-memory datagram pipe that records everything written ----

type huntC12n2Conn struct {
	in     chan []byte
	peer   *huntC12n2Conn
	closed chan struct{}
	once   sync.Once

	mu   sync.Mutex
	sent [][]byte
}

func huntC12n2Pipe() (*huntC12n2Conn, *huntC12n2Conn) {
	a := &huntC12n2Conn{in: make(chan []byte, 1024), closed: make(chan struct{})}
	b := &huntC12n2Conn{in: make(chan []byte, 1024), closed: make(chan struct{})}
	a.peer, b.peer = b, a

	return a, b
}

func (c *huntC12n2Conn) Read(p []byte) (int, error) {
	select {
	case b := <-c.in:
		return copy(p, b), nil
	case <-c.closed:
		return 0, net.ErrClosed
	}
}

func (c *huntC12n2Conn) Write(p []byte) (int, error) {
	cp := append([]byte(nil), p...)
	c.mu.Lock()
	c.sent = append(c.sent, cp)
	c.mu.Unlock()
	select {
	case <-c.closed:
		return 0, net.ErrClosed
	default:
	}
	select {
	case c.peer.in <- cp:
	default:
	}

	return len(p), nil
}

func (c *huntC12n2Conn) Close() error                     { c.once.Do(func() { close(c.closed) }); return nil }
func (c *huntC12n2Conn) LocalAddr() net.Addr              { return &net.UDPAddr{} }
func (c *huntC12n2Conn) RemoteAddr() net.Addr             { return &net.UDPAddr{} }
func (c *huntC12n2Conn) SetDeadline(time.Time) error      { return nil }
func (c *huntC12n2Conn) SetReadDeadline(time.Time) error  { return nil }
func (c *huntC12n2Conn) SetWriteDeadline(time.Time) error { return nil }

func (c *huntC12n2Conn) packets() [][]byte {
	c.mu.Lock()
	defer c.mu.Unlock()

	return append([][]byte(nil), c.sent...)
}

// Codec level: an error cause with a variable-length part that does not fit the
// 16-bit cause length must not be encoded into something else. marshal() has an
// error result for exactly this; instead the length is computed in uint16 and wraps.
func TestHuntC12n2_ErrorCauseLengthWraps(t *testing.T) {
	for _, n := range []int{65531, 65532, 65533, 65535, 65536, 65546} {
		reason := bytes.Repeat([]byte{'r'}, n)
		abort := &chunkAbort{errorCauses: []errorCause{&errorCauseUserInitiatedAbort{upperLayerAbortReason: reason}}}
		pkt := &packet{sourcePort: 5000, destinationPort: 5000, verificationTag: 1, chunks: []chunk{abort}}

		var raw []byte
		var err error
		panicked := func() (p any) {
			defer func() { p = recover() }()
			raw, err = pkt.marshal(true)

			return nil
		}()
		if panicked != nil {
			t.Errorf("reason of %d bytes: marshal panics: %v", n, panicked)

			continue
		}
		if err != nil {
			continue // refusing to encode is fine
		}
		back := &packet{}
		if err = back.unmarshal(true, raw); err != nil {
			t.Errorf("reason of %d bytes: marshal succeeded (%d bytes) but the packet does not decode: %v", n, len(raw), err)

			continue
		}
		got, ok := back.chunks[0].(*chunkAbort)
		if !ok || len(got.errorCauses) != 1 {
			t.Errorf("reason of %d bytes: decodes to %v", n, back.chunks)

			continue
		}
		cause, ok := got.errorCauses[0].(*errorCauseUserInitiatedAbort)
		if !ok || !bytes.Equal(cause.upperLayerAbortReason, reason) {
			t.Errorf("reason of %d bytes: marshal succeeded, the packet (%d bytes) decodes to an ABORT with a reason of %d bytes",
				n, len(raw), len(cause.upperLayerAbortReason))
		}
	}
}

// Through the public API: Association.Abort(reason) with a long reason. The ABORT that
// reaches the wire must carry the reason it was built from (or nothing must be sent and
// the problem reported); instead an ABORT with the reason cut to len(reason) mod 65536
// bytes is sent. (With len(reason) in 65532..65535 the writeLoop goroutine panics and
// takes the whole process down; that variant is shown at codec level above.)
func TestHuntC12n2_AbortLongReason(t *testing.T) {
	c0, c1 := huntC12n2Pipe()
	defer c0.Close() //nolint:errcheck
	defer c1.Close() //nolint:errcheck

	type res struct {
		a   *Association
		err error
	}
	cliCh := make(chan res, 1)
	srvCh := make(chan res, 1)
	go func() {
		a, err := ClientWithOptions(WithName("cli"), WithNetConn(c0))
		cliCh <- res{a, err}
	}()
	go func() {
		a, err := ServerWithOptions(WithName("srv"), WithNetConn(c1))
		srvCh <- res{a, err}
	}()
	var cli, srv *Association
	for cli == nil || srv == nil {
		select {
		case r := <-cliCh:
			if r.err != nil {
				t.Fatalf("test problem: client: %v", r.err)
			}
			cli = r.a
		case r := <-srvCh:
			if r.err != nil {
				t.Fatalf("test problem: server: %v", r.err)
			}
			srv = r.a
		case <-time.After(20 * time.Second):
			t.Fatal("test problem: handshake timed out")
		}
	}
	defer srv.Close() //nolint:errcheck

	reason := fmt.Sprintf("%-65546s", "the application gives a long explanation") // 65536+10 bytes
	before := len(c0.packets())
	cli.Abort(reason)

	var abortRaw []byte
	for _, raw := range c0.packets()[before:] {
		if len(raw) > 12 && raw[12] == byte(ctAbort) {
			abortRaw = raw
		}
	}
	if abortRaw == nil {
		t.Log("no ABORT was emitted (acceptable if the reason cannot be encoded)")

		return
	}
	p := &packet{}
	if err := p.unmarshal(true, abortRaw); err != nil {
		t.Fatalf("emitted ABORT packet (%d bytes) does not decode: %v", len(abortRaw), err)
	}
	ab := p.chunks[0].(*chunkAbort) //nolint:forcetypeassert
	if len(ab.errorCauses) != 1 {
		t.Fatalf("emitted ABORT has %d causes", len(ab.errorCauses))
	}
	cause, ok := ab.errorCauses[0].(*errorCauseUserInitiatedAbort)
	if !ok {
		t.Fatalf("emitted ABORT has cause %T", ab.errorCauses[0])
	}
	if string(cause.upperLayerAbortReason) != reason {
		t.Errorf("Abort() was given a reason of %d bytes; the ABORT on the wire (%d bytes) decodes to a reason of %d bytes: %q",
			len(reason), len(abortRaw), len(cause.upperLayerAbortReason), cause.upperLayerAbortReason)
	}
}
