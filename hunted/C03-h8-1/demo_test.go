//go:build !js

package sctp

import (
	"errors"
	"testing"
	"time"

	"github.com/pion/logging"
	"github.com/stretchr/testify/require"
)

// C03 finding 1
//
// A FORWARD-TSN / I-FORWARD-TSN whose New Cumulative TSN lies exactly 2^31 away from the
// receiver's cumulative TSN point is not ahead of that point (the receive queue refuses to
// move, the SACKs keep carrying the old cumulative TSN), but it is not dropped either: the
// per-stream part of the chunk is applied all the same. The stream cursors (next MID / next
// SSN / highest skipped unordered MID) jump to whatever the chunk names, and the messages the
// peer sends afterwards are thrown away (I-DATA: after having been acknowledged) or refused
// for ever (DATA: never acknowledged, the whole association stalls behind them).

type zzHuntC03Pair struct {
	client, server         *Association
	clientConn, serverConn *dumbConn2
}

func zzHuntC03NewPair(t *testing.T, interleaving bool) *zzHuntC03Pair {
	t.Helper()

	c1, c2 := createUDPConnPair()
	lf := logging.NewDefaultLoggerFactory()
	lf.DefaultLogLevel = logging.LogLevelDisabled

	type res struct {
		a   *Association
		err error
	}
	cch := make(chan res, 1)
	sch := make(chan res, 1)
	go func() {
		a, err := ClientWithOptions(WithName("client"), WithNetConn(c1), WithLoggerFactory(lf),
			WithEnableInterleaving(interleaving))
		cch <- res{a, err}
	}()
	go func() {
		a, err := ServerWithOptions(WithName("server"), WithNetConn(c2), WithLoggerFactory(lf),
			WithEnableInterleaving(interleaving))
		sch <- res{a, err}
	}()

	p := &zzHuntC03Pair{}
	p.clientConn, _ = c1.(*dumbConn2) //nolint:forcetypeassert
	p.serverConn, _ = c2.(*dumbConn2) //nolint:forcetypeassert
	for i := 0; i < 2; i++ {
		select {
		case r := <-cch:
			require.NoError(t, r.err)
			p.client = r.a
		case r := <-sch:
			require.NoError(t, r.err)
			p.server = r.a
		case <-time.After(20 * time.Second):
			require.FailNow(t, "handshake did not complete")
		}
	}

	return p
}

// inject hands raw bytes to the server's transport, as if they had come from the network.
func (p *zzHuntC03Pair) injectIntoServer(t *testing.T, c chunk) {
	t.Helper()

	p.server.lock.RLock()
	pkt := &packet{
		sourcePort:      p.server.destinationPort,
		destinationPort: p.server.sourcePort,
		verificationTag: p.server.myVerificationTag,
		chunks:          []chunk{c},
	}
	p.server.lock.RUnlock()
	raw, err := pkt.marshal(true)
	require.NoError(t, err)

	before := p.server.stats.getNumPacketsReceived()
	p.serverConn.inboundHandler(raw)
	require.Eventually(t, func() bool {
		if p.server.stats.getNumPacketsReceived() <= before {
			return false
		}
		// the packet has been taken up; wait until its chunks have been handled as well
		p.server.lock.Lock()
		p.server.lock.Unlock() //nolint:staticcheck

		return true
	}, 10*time.Second, 5*time.Millisecond, "the injected packet was not read")
	time.Sleep(50 * time.Millisecond)
}

func (p *zzHuntC03Pair) serverCumTSN() uint32 {
	p.server.lock.RLock()
	defer p.server.lock.RUnlock()

	return p.server.peerLastTSN()
}

// openStreams makes the client send a first message on stream 1 and the server read it.
func (p *zzHuntC03Pair) openStreams(t *testing.T) (*Stream, *Stream) {
	t.Helper()

	cs, err := p.client.OpenStream(1, PayloadTypeWebRTCBinary)
	require.NoError(t, err)
	_, err = cs.Write([]byte("first"))
	require.NoError(t, err)

	acceptCh := make(chan *Stream, 1)
	go func() {
		s, _ := p.server.AcceptStream()
		acceptCh <- s
	}()
	var ss *Stream
	select {
	case ss = <-acceptCh:
		require.NotNil(t, ss)
	case <-time.After(20 * time.Second):
		require.FailNow(t, "stream not accepted")
	}

	buf := make([]byte, 1500)
	require.NoError(t, ss.SetReadDeadline(time.Now().Add(20*time.Second)))
	n, err := ss.Read(buf)
	require.NoError(t, err)
	require.Equal(t, "first", string(buf[:n]))
	require.NoError(t, ss.SetReadDeadline(time.Time{}))

	require.Eventually(t, func() bool { return p.client.BufferedAmount() == 0 },
		20*time.Second, 5*time.Millisecond)

	return cs, ss
}

func (p *zzHuntC03Pair) close() {
	_ = p.client.Close()
	_ = p.server.Close()
}

func zzHuntC03ReadWithin(t *testing.T, s *Stream, d time.Duration) (string, error) {
	t.Helper()

	buf := make([]byte, 1500)
	require.NoError(t, s.SetReadDeadline(time.Now().Add(d)))
	n, err := s.Read(buf)

	return string(buf[:n]), err
}

// Interleaving negotiated (the default of this library on both sides): I-FORWARD-TSN.
func TestZZHuntC03_1_IForwardTSNHalfSpaceAway(t *testing.T) {
	p := zzHuntC03NewPair(t, true)
	defer p.close()

	cs, ss := p.openStreams(t)
	require.True(t, p.server.useInterleaving, "interleaving expected")

	cumBefore := p.serverCumTSN()

	// "skip everything up to ordered message 9 of stream 1", new cumulative TSN = cum + 2^31
	p.injectIntoServer(t, &chunkIForwardTSN{
		newCumulativeTSN: cumBefore + 1<<31,
		streams: []chunkIForwardTSNStream{
			{identifier: 1, unordered: false, messageIdentifier: 9},
		},
	})

	// The chunk was not taken as an advance of the cumulative TSN point ...
	require.Equal(t, cumBefore, p.serverCumTSN(),
		"the New Cumulative TSN is not ahead of the cumulative point: the point does not move")
	require.Equal(t, established, p.server.getState(), "no ABORT either")

	// ... so nothing of it may have been applied: what the peer sends next has to arrive.
	for _, m := range []string{"second", "third", "fourth"} {
		_, err := cs.Write([]byte(m))
		require.NoError(t, err)
	}

	// the server acknowledges all three messages to the sender
	require.Eventually(t, func() bool { return p.client.BufferedAmount() == 0 },
		20*time.Second, 10*time.Millisecond, "messages were not acknowledged")
	require.Equal(t, cumBefore+3, p.serverCumTSN())

	got, err := zzHuntC03ReadWithin(t, ss, 5*time.Second)
	if errors.Is(err, ErrReadDeadlineExceeded) {
		ss.lock.RLock()
		nextMID := ss.reassemblyQueue.nextMID
		queued := ss.reassemblyQueue.getNumBytes()
		ss.lock.RUnlock()
		require.FailNowf(t, "acknowledged messages were thrown away",
			"the I-FORWARD-TSN that did not move the cumulative TSN moved the stream cursor: "+
				"nextMID=%d, bytes queued=%d; 3 messages acknowledged to the sender, none readable", nextMID, queued)
	}
	require.NoError(t, err)
	require.Equal(t, "second", got)
}

// No interleaving: FORWARD-TSN. Here the messages that follow are not even acknowledged
// ("not placeable yet"), the sender retransmits them for ever and nothing sent on any
// stream after them can be delivered.
func TestZZHuntC03_1_ForwardTSNHalfSpaceAway(t *testing.T) {
	p := zzHuntC03NewPair(t, false)
	defer p.close()

	cs, ss := p.openStreams(t)
	require.False(t, p.server.useInterleaving)
	require.True(t, p.server.useForwardTSN)

	cumBefore := p.serverCumTSN()

	p.injectIntoServer(t, &chunkForwardTSN{
		newCumulativeTSN: cumBefore + 1<<31,
		streams:          []chunkForwardTSNStream{{identifier: 1, sequence: 9}},
	})

	require.Equal(t, cumBefore, p.serverCumTSN(),
		"the New Cumulative TSN is not ahead of the cumulative point: the point does not move")
	require.Equal(t, established, p.server.getState(), "no ABORT either")

	_, err := cs.Write([]byte("second"))
	require.NoError(t, err)

	got, err := zzHuntC03ReadWithin(t, ss, 8*time.Second)
	if errors.Is(err, ErrReadDeadlineExceeded) {
		ss.lock.RLock()
		nextSSN := ss.reassemblyQueue.nextSSN
		ss.lock.RUnlock()
		require.FailNowf(t, "the stream is stuck",
			"the FORWARD-TSN that did not move the cumulative TSN moved the stream cursor: nextSSN=%d; "+
				"server cumulative TSN %d (was %d), sender still has %d bytes unacknowledged",
			nextSSN, p.serverCumTSN(), cumBefore, p.client.BufferedAmount())
	}
	require.NoError(t, err)
	require.Equal(t, "second", got)
}
