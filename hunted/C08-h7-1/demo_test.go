package sctp

import (
	"context"
	"errors"
	"net"
	"sync"
	"sync/atomic"
	"testing"
	"time"
)

// huntC08DropConn drops the packets written to it for which drop() says so.
type huntC08DropConn struct {
	net.Conn
	drop func(raw []byte) bool
}

func (c *huntC08DropConn) Write(p []byte) (int, error) {
	if c.drop != nil && c.drop(p) {
		return len(p), nil // lost on the wire
	}

	return c.Conn.Write(p)
}

func huntC08IsData(raw []byte) bool {
	if len(raw) <= int(commonHeaderSize) {
		return false
	}
	ct := chunkType(raw[commonHeaderSize])

	return ct == ctPayloadData || ct == ctIData
}

// Crossed shutdown, deterministic variant.
//
// A has written 20 messages; every DATA packet of A is lost for a while, so the
// messages stay outstanding. B (nothing outstanding) calls Shutdown; its SHUTDOWN
// reaches A, which enters SHUTDOWN-RECEIVED and goes on delivering its data. Now A's
// application calls Shutdown as well (it cannot know that the peer was a few
// milliseconds faster) - and the loss ends. Both shutdowns were started while the
// association was up and before either had completed: both must complete, A's call
// must return nil once everything A wrote has been delivered and the association
// is closed.
func TestZZHuntC08_1_ShutdownWhilePeerShutdownInProgress(t *testing.T) {
	c1, c2 := createUDPConnPair()
	var lose atomic.Bool
	ca := &huntC08DropConn{Conn: c1, drop: func(raw []byte) bool { return lose.Load() && huntC08IsData(raw) }}

	a, b, err := createAssociationPairWithConfig(ca, c2, Config{})
	if err != nil {
		t.Fatal(err)
	}
	defer func() {
		_ = a.Close()
		_ = b.Close()
	}()

	// B's application reads whatever arrives, until its streams report closure.
	var (
		mu   sync.Mutex
		got  []string
		rerr error
	)
	readerDone := make(chan struct{})
	go func() {
		defer close(readerDone)
		s, aerr := b.AcceptStream()
		if aerr != nil {
			rerr = aerr

			return
		}
		buf := make([]byte, 2048)
		for {
			n, e := s.Read(buf)
			if e != nil {
				rerr = e

				return
			}
			mu.Lock()
			got = append(got, string(buf[:n]))
			mu.Unlock()
		}
	}()

	sa, err := a.OpenStream(1, PayloadTypeWebRTCBinary)
	if err != nil {
		t.Fatal(err)
	}
	lose.Store(true)
	const nMsgs = 20
	for i := 0; i < nMsgs; i++ {
		if _, err = sa.Write([]byte{'m', byte('a' + i)}); err != nil {
			t.Fatalf("write %d: %v", i, err)
		}
	}

	ctx, cancel := context.WithTimeout(context.Background(), 60*time.Second)
	defer cancel()

	bRes := make(chan error, 1)
	go func() { bRes <- b.Shutdown(ctx) }()

	// wait until B's SHUTDOWN has arrived at A (A is still busy with its own data)
	deadline := time.Now().Add(20 * time.Second)
	for a.getState() != shutdownReceived {
		if time.Now().After(deadline) {
			t.Fatalf("A never saw the peer's SHUTDOWN (state %s)", getAssociationStateString(a.getState()))
		}
		time.Sleep(time.Millisecond)
	}
	if n := a.BufferedAmount(); n == 0 {
		t.Fatalf("test assumption: A's data should still be outstanding")
	}

	aRes := make(chan error, 1)
	go func() { aRes <- a.Shutdown(ctx) }()
	time.Sleep(50 * time.Millisecond)
	lose.Store(false) // the network recovers

	var aErr, bErr error
	select {
	case aErr = <-aRes:
	case <-time.After(70 * time.Second):
		t.Fatal("A.Shutdown did not return")
	}
	select {
	case bErr = <-bRes:
	case <-time.After(70 * time.Second):
		t.Fatal("B.Shutdown did not return")
	}
	t.Logf("A.Shutdown: %v", aErr)
	t.Logf("B.Shutdown: %v", bErr)

	// the association does shut down gracefully and everything is delivered ...
	select {
	case <-readerDone:
	case <-time.After(30 * time.Second):
		t.Fatal("B's reader did not see closure")
	}
	mu.Lock()
	nGot := len(got)
	mu.Unlock()
	t.Logf("B read %d of %d messages, then: %v", nGot, nMsgs, rerr)
	if nGot != nMsgs {
		t.Errorf("B read %d of %d messages", nGot, nMsgs)
	}
	if bErr != nil {
		t.Errorf("B.Shutdown: %v", bErr)
	}
	// ... but A's call did not take part in it
	if aErr != nil {
		t.Errorf("A.Shutdown, called while the association was shutting down gracefully with A's data "+
			"still outstanding, did not complete: %v (ErrShutdownNonEstablished=%v)",
			aErr, errors.Is(aErr, ErrShutdownNonEstablished))
	}
}

// The same through the public API only: both applications call Shutdown at the same
// moment (two goroutines released by one channel close). No packet is lost.
func TestZZHuntC08_1_ShutdownAtOnce(t *testing.T) {
	const rounds = 30
	failed := 0
	for i := 0; i < rounds; i++ {
		c1, c2 := createUDPConnPair()
		a, b, err := createAssociationPairWithConfig(c1, c2, Config{})
		if err != nil {
			t.Fatal(err)
		}
		ctx, cancel := context.WithTimeout(context.Background(), 30*time.Second)
		start := make(chan struct{})
		var wg sync.WaitGroup
		var aErr, bErr error
		wg.Add(2)
		go func() { defer wg.Done(); <-start; aErr = a.Shutdown(ctx) }()
		go func() { defer wg.Done(); <-start; bErr = b.Shutdown(ctx) }()
		close(start)
		wg.Wait()
		cancel()
		if aErr != nil || bErr != nil {
			failed++
			if failed <= 3 {
				t.Logf("round %d: A.Shutdown=%v B.Shutdown=%v", i, aErr, bErr)
			}
		}
		_ = a.Close()
		_ = b.Close()
	}
	if failed > 0 {
		t.Errorf("in %d of %d rounds one of two Shutdown calls made at once failed", failed, rounds)
	}
}
