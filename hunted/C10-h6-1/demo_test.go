// SPDX-FileCopyrightText: 2026 The Pion community <https://pion.ly>
// SPDX-License-Identifier: MIT

package sctp

import (
	"io"
	"net"
	"sync"
	"testing"
	"time"

	"github.com/pion/logging"
	"github.com/stretchr/testify/require"
)

// Property C10 (last clause): "the congestion window is cut on every loss signal yet
// never falls below one MTU".
//
// Demonstration: the loss signal "three miss indications from SACK gap reports"
// (entry into fast recovery) RAISES the congestion window whenever cwnd < 4*MTU:
//   - on a fresh association with the default MTU (1191) the initial cwnd is 4380 and
//     the first loss signal makes it 4764;
//   - right after a T3-rtx timeout (cwnd == 1 MTU == 1191) the next loss signal makes it
//     4764, i.e. four times larger.
//
// The library under test talks to a fully scripted peer (this test), so every inbound
// packet is chosen by the test and nothing depends on scheduling.

// ---- scripted peer plumbing -------------------------------------------------

type huntC10aConn struct {
	in     chan []byte // packets towards the association under test
	out    chan []byte // packets written by the association under test
	closed chan struct{}
	once   sync.Once
}

func newHuntC10aConn() *huntC10aConn {
	return &huntC10aConn{
		in:     make(chan []byte, 1024),
		out:    make(chan []byte, 1024),
		closed: make(chan struct{}),
	}
}

func (c *huntC10aConn) Read(p []byte) (int, error) {
	select {
	case b := <-c.in:
		return copy(p, b), nil
	case <-c.closed:
		return 0, io.EOF
	}
}

func (c *huntC10aConn) Write(p []byte) (int, error) {
	b := append([]byte(nil), p...)
	select {
	case c.out <- b:
		return len(p), nil
	case <-c.closed:
		return 0, io.ErrClosedPipe
	}
}

func (c *huntC10aConn) Close() error {
	c.once.Do(func() { close(c.closed) })

	return nil
}
func (c *huntC10aConn) LocalAddr() net.Addr              { return &net.UDPAddr{} }
func (c *huntC10aConn) RemoteAddr() net.Addr             { return &net.UDPAddr{} }
func (c *huntC10aConn) SetDeadline(time.Time) error      { return nil }
func (c *huntC10aConn) SetReadDeadline(time.Time) error  { return nil }
func (c *huntC10aConn) SetWriteDeadline(time.Time) error { return nil }

type huntC10aPeer struct {
	t       *testing.T
	conn    *huntC10aConn
	peerTag uint32 // verification tag the association under test expects
	a       *Association
	// first TSN the association under test will use
	firstTSN uint32
}

const huntC10aWait = 20 * time.Second

// next returns the next packet written by the association under test.
func (p *huntC10aPeer) next() *packet {
	p.t.Helper()
	select {
	case raw := <-p.conn.out:
		pkt := &packet{}
		require.NoError(p.t, pkt.unmarshal(true, raw))

		return pkt
	case <-time.After(huntC10aWait):
		require.FailNow(p.t, "timed out waiting for a packet from the association")

		return nil
	}
}

// nextData returns the DATA chunks of the next packet that carries DATA.
func (p *huntC10aPeer) nextData() []*chunkPayloadData {
	p.t.Helper()
	for {
		pkt := p.next()
		var res []*chunkPayloadData
		for _, c := range pkt.chunks {
			if d, ok := c.(*chunkPayloadData); ok {
				res = append(res, d)
			}
		}
		if len(res) > 0 {
			return res
		}
	}
}

func (p *huntC10aPeer) send(chunks ...chunk) {
	p.t.Helper()
	pkt := &packet{
		sourcePort:      defaultSCTPSrcDstPort,
		destinationPort: defaultSCTPSrcDstPort,
		verificationTag: p.peerTag,
		chunks:          chunks,
	}
	raw, err := pkt.marshal(true)
	require.NoError(p.t, err)
	p.conn.in <- raw
}

func (p *huntC10aPeer) sack(cumTSN uint32, arwnd uint32, gaps ...gapAckBlock) {
	p.t.Helper()
	p.send(&chunkSelectiveAck{
		cumulativeTSNAck:               cumTSN,
		advertisedReceiverWindowCredit: arwnd,
		gapAckBlocks:                   gaps,
	})
}

// huntC10aConnect creates a client association and plays the server side of the
// handshake by hand.
func huntC10aConnect(t *testing.T, arwnd uint32) *huntC10aPeer {
	t.Helper()

	conn := newHuntC10aConn()
	peer := &huntC10aPeer{t: t, conn: conn}

	type res struct {
		a   *Association
		err error
	}
	ch := make(chan res, 1)
	go func() {
		a, err := ClientWithOptions(
			WithNetConn(conn),
			WithName("hunted"),
			WithLoggerFactory(logging.NewDefaultLoggerFactory()),
			WithEnableInterleaving(false),
		)
		ch <- res{a, err}
	}()

	// INIT
	pkt := peer.next()
	init, ok := pkt.chunks[0].(*chunkInit)
	require.True(t, ok, "expected INIT")
	peer.peerTag = init.initiateTag
	peer.firstTSN = init.initialTSN

	// INIT ACK
	initAck := &chunkInitAck{}
	initAck.initiateTag = 0x12345678
	initAck.advertisedReceiverWindowCredit = arwnd
	initAck.numOutboundStreams = 1024
	initAck.numInboundStreams = 1024
	initAck.initialTSN = 1000
	cookie, err := newRandomStateCookie()
	require.NoError(t, err)
	initAck.params = []param{cookie}
	setSupportedExtensions(&initAck.chunkInitCommon, false)
	peer.send(initAck)

	// COOKIE ECHO
	pkt = peer.next()
	_, ok = pkt.chunks[0].(*chunkCookieEcho)
	require.True(t, ok, "expected COOKIE ECHO")

	// COOKIE ACK
	peer.send(&chunkCookieAck{})

	select {
	case r := <-ch:
		require.NoError(t, r.err)
		peer.a = r.a
	case <-time.After(huntC10aWait):
		require.FailNow(t, "handshake did not complete")
	}

	t.Cleanup(func() {
		_ = conn.Close()
		_ = peer.a.Close()
	})

	return peer
}

func huntC10aSnapshot(a *Association) (cwnd uint32, inFR bool, t3 uint64) {
	a.lock.RLock()
	defer a.lock.RUnlock()

	return a.CWND(), a.inFastRecovery, a.stats.getNumT3Timeouts()
}

func huntC10aWaitFor(t *testing.T, what string, cond func() bool) {
	t.Helper()
	deadline := time.Now().Add(huntC10aWait)
	for !cond() {
		if time.Now().After(deadline) {
			require.FailNow(t, "timed out waiting for "+what)
		}
		time.Sleep(2 * time.Millisecond)
	}
}

// ---- the demonstrations -------------------------------------------------------

func TestHuntC10_1_LossSignalRaisesCwnd(t *testing.T) {
	msg := make([]byte, 1000)

	t.Run("first loss on a fresh association", func(t *testing.T) {
		peer := huntC10aConnect(t, 1024*1024)
		a := peer.a
		mtu := a.MTU()

		s, err := a.OpenStream(1, PayloadTypeWebRTCBinary)
		require.NoError(t, err)

		// Four messages of 1000 bytes fit the initial cwnd (4380).
		for i := 0; i < 4; i++ {
			_, err = s.WriteSCTP(msg, PayloadTypeWebRTCBinary)
			require.NoError(t, err)
		}
		seen := map[uint32]bool{}
		for len(seen) < 4 {
			for _, d := range peer.nextData() {
				seen[d.tsn] = true
			}
		}
		t0 := peer.firstTSN
		for i := uint32(0); i < 4; i++ {
			require.True(t, seen[t0+i], "TSN %d not seen", t0+i)
		}

		before, inFR, _ := huntC10aSnapshot(a)
		require.False(t, inFR)
		t.Logf("mtu=%d cwnd before the loss signal=%d", mtu, before)

		// The first DATA chunk was "lost": the peer reports TSN t0 missing three times
		// (t0+1..t0+3 arrived one after the other).
		peer.sack(t0-1, 1024*1024, gapAckBlock{start: 2, end: 2})
		peer.sack(t0-1, 1024*1024, gapAckBlock{start: 2, end: 3})
		peer.sack(t0-1, 1024*1024, gapAckBlock{start: 2, end: 4})

		huntC10aWaitFor(t, "fast recovery", func() bool {
			_, fr, _ := huntC10aSnapshot(a)

			return fr
		})

		after, _, t3 := huntC10aSnapshot(a)
		t.Logf("cwnd after the loss signal=%d (T3 timeouts so far: %d)", after, t3)

		require.GreaterOrEqual(t, after, mtu, "cwnd fell below one MTU")
		require.Less(t, after, before,
			"loss signal (3 miss indications, fast recovery entered) must CUT cwnd: before=%d after=%d",
			before, after)
	})

	t.Run("loss signal right after a T3-rtx timeout", func(t *testing.T) {
		peer := huntC10aConnect(t, 1024*1024)
		a := peer.a
		mtu := a.MTU()

		s, err := a.OpenStream(1, PayloadTypeWebRTCBinary)
		require.NoError(t, err)

		for i := 0; i < 4; i++ {
			_, err = s.WriteSCTP(msg, PayloadTypeWebRTCBinary)
			require.NoError(t, err)
		}
		seen := map[uint32]bool{}
		for len(seen) < 4 {
			for _, d := range peer.nextData() {
				seen[d.tsn] = true
			}
		}
		t0 := peer.firstTSN

		// Nothing is acknowledged: T3-rtx fires after the initial RTO (1 s) and cwnd
		// collapses to one MTU.
		huntC10aWaitFor(t, "T3-rtx timeout", func() bool {
			_, _, t3 := huntC10aSnapshot(a)

			return t3 >= 1
		})
		before, inFR, _ := huntC10aSnapshot(a)
		require.False(t, inFR)
		require.Equal(t, mtu, before, "cwnd after T3-rtx should be one MTU")
		t.Logf("mtu=%d cwnd after T3-rtx=%d", mtu, before)

		// The retransmission of t0 is lost again, the three chunks behind it arrive.
		peer.sack(t0-1, 1024*1024, gapAckBlock{start: 2, end: 2})
		peer.sack(t0-1, 1024*1024, gapAckBlock{start: 2, end: 3})
		peer.sack(t0-1, 1024*1024, gapAckBlock{start: 2, end: 4})

		huntC10aWaitFor(t, "fast recovery", func() bool {
			_, fr, _ := huntC10aSnapshot(a)

			return fr
		})

		after, _, t3 := huntC10aSnapshot(a)
		t.Logf("cwnd after the loss signal=%d (T3 timeouts so far: %d)", after, t3)
		require.EqualValues(t, 1, t3, "a second T3 timeout would blur the picture")

		require.LessOrEqual(t, after, before,
			"a loss signal must never enlarge cwnd: before=%d after=%d", before, after)
	})
}
