package sctp

import (
	"errors"
	"net"
	"sync"
	"testing"
	"time"

	"github.com/pion/logging"
)

// hc03Conn is an in-memory net.Conn whose other end is driven by the test,
// packet by packet.
type hc03Conn struct {
	in        chan []byte // test -> association
	out       chan []byte // association -> test
	closed    chan struct{}
	closeOnce sync.Once
}

func newHC03Conn() *hc03Conn {
	return &hc03Conn{in: make(chan []byte, 1024), out: make(chan []byte, 1024), closed: make(chan struct{})}
}

func (c *hc03Conn) Read(p []byte) (int, error) {
	select {
	case b := <-c.in:
		return copy(p, b), nil
	case <-c.closed:
		return 0, errors.New("hc03Conn closed")
	}
}

func (c *hc03Conn) Write(p []byte) (int, error) {
	b := append([]byte(nil), p...)
	select {
	case c.out <- b:
		return len(p), nil
	case <-c.closed:
		return 0, errors.New("hc03Conn closed")
	}
}

func (c *hc03Conn) Close() error                     { c.closeOnce.Do(func() { close(c.closed) }); return nil }
func (c *hc03Conn) LocalAddr() net.Addr              { return nil }
func (c *hc03Conn) RemoteAddr() net.Addr             { return nil }
func (c *hc03Conn) SetDeadline(time.Time) error      { return nil }
func (c *hc03Conn) SetReadDeadline(time.Time) error  { return nil }
func (c *hc03Conn) SetWriteDeadline(time.Time) error { return nil }

// inject marshals the packet (with a valid checksum) and hands it to the association.
func (c *hc03Conn) inject(t *testing.T, p *packet) {
	t.Helper()
	raw, err := p.marshal(true)
	if err != nil {
		t.Fatalf("marshal: %v", err)
	}
	c.in <- raw
}

// expect waits for the next outbound packet whose first chunk satisfies match.
func (c *hc03Conn) expect(t *testing.T, what string, match func(chunk) bool) *packet {
	t.Helper()
	deadline := time.After(20 * time.Second)
	for {
		select {
		case raw := <-c.out:
			p := &packet{}
			if err := p.unmarshal(true, raw); err != nil {
				t.Fatalf("association sent an unparsable packet: %v", err)
			}
			for _, ch := range p.chunks {
				if match(ch) {
					return p
				}
			}
		case <-deadline:
			t.Fatalf("timed out waiting for %s from the association", what)
		}
	}
}

// An INIT received in COOKIE-ECHOED state (RFC 9260 5.2.1: answer with INIT ACK, do not
// touch the TCB) overwrites the peer's initial TSN and verification tag learned from the
// INIT ACK. The association then becomes ESTABLISHED but never accepts the peer's DATA.
func TestHuntC03_1_InitInCookieEchoedCorruptsPeerTSN(t *testing.T) {
	conn := newHC03Conn()
	type res struct {
		a   *Association
		err error
	}
	done := make(chan res, 1)
	go func() {
		a, err := Client(Config{NetConn: conn, LoggerFactory: logging.NewDefaultLoggerFactory(), Name: "client"})
		done <- res{a, err}
	}()

	const (
		peerTag = uint32(0x11111111)
		peerTSN = uint32(1000)
	)

	// 1. the client's INIT
	initPkt := conn.expect(t, "INIT", func(c chunk) bool { _, ok := c.(*chunkInit); return ok })
	clientInit := initPkt.chunks[0].(*chunkInit) //nolint:forcetypeassert
	clientTag := clientInit.initiateTag

	// 2. the peer's INIT ACK: tag 0x11111111, initial TSN 1000
	initAck := &chunkInitAck{}
	initAck.initiateTag = peerTag
	initAck.initialTSN = peerTSN
	initAck.numOutboundStreams = 100
	initAck.numInboundStreams = 100
	initAck.advertisedReceiverWindowCredit = 512 * 1024
	initAck.params = []param{&paramStateCookie{cookie: []byte("peer-cookie-0123456789")}}
	setSupportedExtensions(&initAck.chunkInitCommon, false)
	conn.inject(t, &packet{sourcePort: 5000, destinationPort: 5000, verificationTag: clientTag, chunks: []chunk{initAck}})

	// 3. the client's COOKIE ECHO: it is in COOKIE-ECHOED now
	conn.expect(t, "COOKIE ECHO", func(c chunk) bool { _, ok := c.(*chunkCookieEcho); return ok })

	// 4. a stray INIT with arbitrary field values (another tag, another initial TSN)
	stray := &chunkInit{}
	stray.initiateTag = 0x22222222
	stray.initialTSN = 0x70000000
	stray.numOutboundStreams = 100
	stray.numInboundStreams = 100
	stray.advertisedReceiverWindowCredit = 512 * 1024
	setSupportedExtensions(&stray.chunkInitCommon, false)
	conn.inject(t, &packet{sourcePort: 5000, destinationPort: 5000, verificationTag: 0, chunks: []chunk{stray}})
	// (the client answers it with an INIT ACK, that is fine)
	conn.expect(t, "INIT ACK", func(c chunk) bool { _, ok := c.(*chunkInitAck); return ok })

	// 5. the peer's COOKIE ACK completes the handshake
	conn.inject(t, &packet{sourcePort: 5000, destinationPort: 5000, verificationTag: clientTag, chunks: []chunk{&chunkCookieAck{}}})
	var assoc *Association
	select {
	case r := <-done:
		if r.err != nil {
			t.Fatalf("handshake failed: %v", r.err)
		}
		assoc = r.a
	case <-time.After(20 * time.Second):
		t.Fatal("handshake did not complete")
	}
	defer assoc.Close() //nolint:errcheck

	// 6. the peer's first DATA chunk carries the initial TSN it announced in its INIT ACK
	conn.inject(t, &packet{
		sourcePort: 5000, destinationPort: 5000, verificationTag: clientTag,
		chunks: []chunk{&chunkPayloadData{
			tsn: peerTSN, streamIdentifier: 1, streamSequenceNumber: 0,
			beginningFragment: true, endingFragment: true, immediateSack: true,
			payloadType: PayloadTypeWebRTCBinary, userData: []byte("hello"),
		}},
	})

	sackPkt := conn.expect(t, "SACK", func(c chunk) bool { _, ok := c.(*chunkSelectiveAck); return ok })
	var sack *chunkSelectiveAck
	for _, c := range sackPkt.chunks {
		if s, ok := c.(*chunkSelectiveAck); ok {
			sack = s
		}
	}
	t.Logf("SACK cumulativeTSNAck=%d (peer's DATA had TSN %d), packet verification tag=%#x (peer's tag %#x)",
		sack.cumulativeTSNAck, peerTSN, sackPkt.verificationTag, peerTag)

	accepted := make(chan *Stream, 1)
	go func() {
		s, err := assoc.AcceptStream()
		if err == nil {
			accepted <- s
		}
	}()

	var failed bool
	if sack.cumulativeTSNAck != peerTSN {
		t.Errorf("the peer's DATA (TSN %d, the initial TSN of its INIT ACK) is not acknowledged: SACK cumulative TSN ack = %d",
			peerTSN, sack.cumulativeTSNAck)
		failed = true
	}
	if sackPkt.verificationTag != peerTag {
		t.Errorf("packets to the peer carry verification tag %#x instead of the peer's tag %#x", sackPkt.verificationTag, peerTag)
		failed = true
	}
	select {
	case s := <-accepted:
		buf := make([]byte, 64)
		n, _, err := s.ReadSCTP(buf)
		if err != nil || string(buf[:n]) != "hello" {
			t.Errorf("read %q, %v", buf[:n], err)
		}
	case <-time.After(5 * time.Second):
		t.Errorf("the peer's first message was never delivered (no stream accepted within 5 s)")
		failed = true
	}
	_ = failed
}
