package sctp

// C20 finding 1: SetReliabilityParams called after a message was written changes the
// delivery guarantee of that earlier message. A message written (and already
// transmitted once) while the stream was reliable is abandoned at its next
// retransmission because the policy is looked up on the stream at retransmission time.

import (
	"bytes"
	"io"
	"net"
	"os"
	"sync"
	"testing"
	"time"

	"github.com/pion/logging"
)

type h20aConn struct {
	mu      sync.Mutex
	cond    *sync.Cond
	packets [][]byte
	closed  bool
	peer    *h20aConn
	filter  func(p []byte) bool // false = drop
	rdl     time.Time
}

func h20aNewPair() (*h20aConn, *h20aConn) {
	a := &h20aConn{}
	b := &h20aConn{}
	a.cond = sync.NewCond(&a.mu)
	b.cond = sync.NewCond(&b.mu)
	a.peer = b
	b.peer = a

	return a, b
}

func (c *h20aConn) Read(b []byte) (int, error) {
	c.mu.Lock()
	defer c.mu.Unlock()
	for {
		if len(c.packets) > 0 {
			p := c.packets[0]
			c.packets = c.packets[1:]

			return copy(b, p), nil
		}
		if c.closed {
			return 0, io.EOF
		}
		if !c.rdl.IsZero() && !time.Now().Before(c.rdl) {
			return 0, os.ErrDeadlineExceeded
		}
		c.cond.Wait()
	}
}

func (c *h20aConn) Write(b []byte) (int, error) {
	c.mu.Lock()
	closed := c.closed
	f := c.filter
	c.mu.Unlock()
	if closed {
		return 0, net.ErrClosed
	}
	cp := append([]byte(nil), b...)
	if f != nil && !f(cp) {
		return len(b), nil
	}
	p := c.peer
	p.mu.Lock()
	if !p.closed {
		p.packets = append(p.packets, cp)
		p.cond.Broadcast()
	}
	p.mu.Unlock()

	return len(b), nil
}

func (c *h20aConn) Close() error {
	c.mu.Lock()
	defer c.mu.Unlock()
	c.closed = true
	c.cond.Broadcast()

	return nil
}
func (c *h20aConn) LocalAddr() net.Addr              { return &net.IPAddr{} }
func (c *h20aConn) RemoteAddr() net.Addr             { return &net.IPAddr{} }
func (c *h20aConn) SetDeadline(time.Time) error      { return nil }
func (c *h20aConn) SetWriteDeadline(time.Time) error { return nil }
func (c *h20aConn) SetReadDeadline(t time.Time) error {
	c.mu.Lock()
	defer c.mu.Unlock()
	c.rdl = t
	if !t.IsZero() {
		time.AfterFunc(time.Until(t), func() {
			c.mu.Lock()
			c.cond.Broadcast()
			c.mu.Unlock()
		})
	}
	c.cond.Broadcast()

	return nil
}

func h20aPair(t *testing.T) (*Association, *Association, *h20aConn) {
	t.Helper()
	ca, cb := h20aNewPair()
	type res struct {
		a   *Association
		err error
	}
	ra := make(chan res, 1)
	rb := make(chan res, 1)
	go func() {
		a, err := Client(Config{NetConn: ca, LoggerFactory: logging.NewDefaultLoggerFactory()})
		ra <- res{a, err}
	}()
	go func() {
		a, err := Server(Config{NetConn: cb, LoggerFactory: logging.NewDefaultLoggerFactory()})
		rb <- res{a, err}
	}()
	var a, b *Association
	for i := 0; i < 2; i++ {
		select {
		case r := <-ra:
			if r.err != nil {
				t.Fatalf("client: %v", r.err)
			}
			a = r.a
		case r := <-rb:
			if r.err != nil {
				t.Fatalf("server: %v", r.err)
			}
			b = r.a
		case <-time.After(30 * time.Second):
			t.Fatal("handshake timeout")
		}
	}

	return a, b, ca
}

// h20aRun writes M1 on a reliable ordered stream, has the network lose the first two
// transmissions of M1, then (optionally) switches the stream to "no retransmissions"
// for the messages that follow and writes M2. It reports what the peer reads.
func h20aRun(t *testing.T, changePolicy bool) (gotM1, gotM2 bool) {
	t.Helper()
	a, b, ca := h20aPair(t)
	defer func() {
		_ = a.Close()
		_ = b.Close()
	}()

	s, err := a.OpenStream(1, PayloadTypeWebRTCBinary)
	if err != nil {
		t.Fatal(err)
	}
	// the stream is reliable and ordered (this is also the default)
	s.SetReliabilityParams(false, ReliabilityTypeReliable, 0)

	// warm-up message so that the peer has the stream
	if _, err = s.WriteSCTP([]byte("hello"), PayloadTypeWebRTCBinary); err != nil {
		t.Fatal(err)
	}
	sb, err := b.AcceptStream()
	if err != nil {
		t.Fatal(err)
	}
	buf := make([]byte, 4096)
	n, _, err := sb.ReadSCTP(buf)
	if err != nil || string(buf[:n]) != "hello" {
		t.Fatalf("warm-up: %q %v", buf[:n], err)
	}

	m1 := append([]byte("M1-written-while-reliable"), bytes.Repeat([]byte{'x'}, 200)...)
	m2 := append([]byte("M2-written-after-the-change"), bytes.Repeat([]byte{'y'}, 200)...)

	// lose the first two transmissions of M1
	var fmu sync.Mutex
	dropped := 0
	firstDrop := make(chan struct{})
	ca.mu.Lock()
	ca.filter = func(raw []byte) bool {
		p := &packet{}
		if err := p.unmarshal(true, raw); err != nil {
			return true
		}
		for _, c := range p.chunks {
			if d, ok := c.(*chunkPayloadData); ok && bytes.HasPrefix(d.userData, []byte("M1-")) {
				fmu.Lock()
				defer fmu.Unlock()
				if dropped < 2 {
					dropped++
					if dropped == 1 {
						close(firstDrop)
					}

					return false
				}
			}
		}

		return true
	}
	ca.mu.Unlock()

	if _, err = s.WriteSCTP(m1, PayloadTypeWebRTCBinary); err != nil {
		t.Fatal(err)
	}
	// M1 has been accepted and transmitted once under the reliable policy
	select {
	case <-firstDrop:
	case <-time.After(20 * time.Second):
		t.Fatal("M1 was never transmitted")
	}

	if changePolicy {
		// from now on: messages are sent once and never retransmitted
		s.SetReliabilityParams(false, ReliabilityTypeRexmit, 0)
	}
	if _, err = s.WriteSCTP(m2, PayloadTypeWebRTCBinary); err != nil {
		t.Fatal(err)
	}

	// read what arrives within a generous bound (RTO starts at 1 s and doubles)
	_ = sb.SetReadDeadline(time.Now().Add(25 * time.Second))
	for !(gotM1 && gotM2) {
		n, _, err := sb.ReadSCTP(buf)
		if err != nil {
			break
		}
		switch {
		case bytes.Equal(buf[:n], m1):
			gotM1 = true
		case bytes.Equal(buf[:n], m2):
			gotM2 = true
			if !gotM1 {
				// ordered stream: M1 can no longer arrive once M2 was delivered.
				return gotM1, gotM2
			}
		}
	}

	return gotM1, gotM2
}

func TestHuntC20_1_ReliabilityChangeAbandonsEarlierReliableMessage(t *testing.T) {
	// control: same losses, policy left alone -> M1 is retransmitted until it arrives
	gotM1, gotM2 := h20aRun(t, false)
	if !gotM1 || !gotM2 {
		t.Fatalf("control run (no policy change): gotM1=%v gotM2=%v - test assumptions broken", gotM1, gotM2)
	}

	gotM1, gotM2 = h20aRun(t, true)
	t.Logf("with SetReliabilityParams after the write of M1: gotM1=%v gotM2=%v", gotM1, gotM2)
	if !gotM1 {
		t.Fatalf("M1 was written (WriteSCTP returned success) while the stream was reliable, "+
			"but it was abandoned after a later SetReliabilityParams and never delivered (gotM2=%v)", gotM2)
	}
}
