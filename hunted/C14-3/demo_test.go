package sctp

import (
	"errors"
	"io"
	"net"
	"sync"
	"testing"
	"time"

	"github.com/pion/logging"
)

// ---- minimal in-memory packet link with a per-direction filter ----

type h3Link struct {
	mu     sync.Mutex
	filter [2]func(raw []byte) bool // return false to swallow the packet
	conns  [2]*h3Conn
}

type h3Conn struct {
	id     int
	link   *h3Link
	inbox  chan []byte
	closed chan struct{}
	once   sync.Once
}

func newH3Link() *h3Link {
	l := &h3Link{}
	for i := 0; i < 2; i++ {
		l.conns[i] = &h3Conn{id: i, link: l, inbox: make(chan []byte, 1<<16), closed: make(chan struct{})}
	}

	return l
}

func (l *h3Link) setFilter(from int, f func(raw []byte) bool) {
	l.mu.Lock()
	l.filter[from] = f
	l.mu.Unlock()
}

func (l *h3Link) deliver(from int, raw []byte) {
	peer := l.conns[1-from]
	select {
	case peer.inbox <- raw:
	case <-peer.closed:
	}
}

func (c *h3Conn) Read(p []byte) (int, error) {
	select {
	case raw := <-c.inbox:
		return copy(p, raw), nil
	case <-c.closed:
		return 0, io.EOF
	}
}

func (c *h3Conn) Write(p []byte) (int, error) {
	select {
	case <-c.closed:
		return 0, io.ErrClosedPipe
	default:
	}
	raw := append([]byte(nil), p...)
	c.link.mu.Lock()
	f := c.link.filter[c.id]
	c.link.mu.Unlock()
	if f == nil || f(raw) {
		c.link.deliver(c.id, raw)
	}

	return len(p), nil
}

func (c *h3Conn) Close() error {
	c.once.Do(func() { close(c.closed) })

	return nil
}
func (c *h3Conn) LocalAddr() net.Addr              { return &net.IPAddr{} }
func (c *h3Conn) RemoteAddr() net.Addr             { return &net.IPAddr{} }
func (c *h3Conn) SetDeadline(time.Time) error      { return nil }
func (c *h3Conn) SetReadDeadline(time.Time) error  { return nil }
func (c *h3Conn) SetWriteDeadline(time.Time) error { return nil }

func h3Pair(t *testing.T, l *h3Link, cfgA, cfgB Config) (*Association, *Association) {
	t.Helper()
	lf := logging.NewDefaultLoggerFactory()
	cfgA.LoggerFactory, cfgB.LoggerFactory = lf, lf
	cfgA.NetConn, cfgB.NetConn = l.conns[0], l.conns[1]
	cfgA.Name, cfgB.Name = "A", "B"
	type res struct {
		a   *Association
		err error
	}
	chA := make(chan res, 1)
	chB := make(chan res, 1)
	go func() {
		a, err := Client(cfgA)
		chA <- res{a, err}
	}()
	go func() {
		a, err := Server(cfgB)
		chB <- res{a, err}
	}()
	var a, b *Association
	for a == nil || b == nil {
		select {
		case r := <-chA:
			if r.err != nil {
				t.Fatalf("client: %v", r.err)
			}
			a = r.a
		case r := <-chB:
			if r.err != nil {
				t.Fatalf("server: %v", r.err)
			}
			b = r.a
		case <-time.After(30 * time.Second):
			t.Fatalf("handshake timeout")
		}
	}

	return a, b
}

// h3ReadAll reads messages until an error (EOF) or the timeout.
func h3ReadAll(s *Stream, timeout time.Duration) ([][]byte, error) {
	var msgs [][]byte
	buf := make([]byte, 70000)
	_ = s.SetReadDeadline(time.Now().Add(timeout))
	for {
		n, _, err := s.ReadSCTP(buf)
		if err != nil {
			return msgs, err
		}
		msgs = append(msgs, append([]byte(nil), buf[:n]...))
	}
}

// 4200 streams are closed "at once" while some data is still queued in front of the
// end-of-stream markers (the peer's SACKs are delayed for a moment, nothing is lost).
// When the queue drains, all the markers are popped in one pass and the association
// sends ONE outgoing-reset request listing all 4200 identifiers: a packet of more than
// 8400 bytes, more than the 8192-byte buffer (receiveMTU) its own peer reads packets with
// and seven times the path MTU. The request can never be received, it is retransmitted for
// ever, and none of the closed streams ever reports EOF to its reader.
func TestHuntC14_3_ManyStreamsClosedAtOnceNeverReset(t *testing.T) {
	l := newH3Link()
	a, b := h3Pair(t, l, Config{}, Config{})
	defer func() {
		_ = a.Close()
		_ = b.Close()
	}()

	const nStreams = 4200
	streams := make([]*Stream, nStreams)
	for i := range streams {
		s, err := a.OpenStream(uint16(i+1), PayloadTypeWebRTCBinary)
		if err != nil {
			t.Fatal(err)
		}
		streams[i] = s
	}
	// stream 1 carries a message, so B has a reader on it
	if _, err := streams[0].Write([]byte("hello")); err != nil {
		t.Fatal(err)
	}
	sb, err := b.AcceptStream()
	if err != nil {
		t.Fatal(err)
	}
	if sb.StreamIdentifier() != 1 {
		t.Fatalf("unexpected stream %d", sb.StreamIdentifier())
	}

	// Delay what B sends (its SACKs): the 30000 bytes written next fill the congestion
	// window and the rest stays queued.
	var hmu sync.Mutex
	var held [][]byte
	holding := true
	l.setFilter(1, func(raw []byte) bool {
		hmu.Lock()
		defer hmu.Unlock()
		if holding {
			held = append(held, raw)

			return false
		}

		return true
	})
	if _, err = streams[1].Write(make([]byte, 30000)); err != nil {
		t.Fatal(err)
	}
	time.Sleep(100 * time.Millisecond)

	for _, s := range streams { // all streams are closed at once
		if err = s.Close(); err != nil {
			t.Fatal(err)
		}
	}

	hmu.Lock()
	holding = false
	for _, raw := range held {
		l.deliver(1, raw)
	}
	hmu.Unlock()

	go func() { // somebody reads stream 2 as well
		s2, err := b.AcceptStream()
		if err != nil {
			return
		}
		_, _ = h3ReadAll(s2, 60*time.Second)
	}()

	msgs, err := h3ReadAll(sb, 20*time.Second)
	if len(msgs) != 1 || string(msgs[0]) != "hello" {
		t.Fatalf("B, stream 1: unexpected messages (%d)", len(msgs))
	}
	if !errors.Is(err, io.EOF) {
		a.lock.RLock()
		defer a.lock.RUnlock()
		sizes := []int{}
		for _, c := range a.reconfigs {
			raw, _ := c.marshal()
			sizes = append(sizes, len(raw))
		}
		t.Fatalf("B, stream 1: the stream was closed by its writer 20 s ago and nothing is lost, but the reader got %v instead of EOF "+
			"(A: pending=%d inflight=%d, unanswered reset requests=%d with RECONFIG chunk sizes %v; receiveMTU=%d)",
			err, a.pendingQueue.size(), a.inflightQueue.size(), len(a.reconfigs), sizes, receiveMTU)
	}
}
