package sctp

import (
	"bytes"
	"errors"
	"io"
	"net"
	"sync"
	"sync/atomic"
	"testing"
	"time"

	"github.com/pion/logging"
)

// C07 finding 1: a (I-)FORWARD-TSN that still names an abandoned message of a stream
// which has meanwhile been closed (outgoing reset performed by the peer, identifier no
// longer open at the sender) makes the receiver create a "ghost" stream whose cursor
// already stands behind the skipped SSN/MID. When the identifier is opened again later
// (after the reset was performed by both sides), the first reliable, ordered messages
// of the new stream (SSN/MID 0, 1, ...) are acknowledged and thrown away by the ghost.
//
// Two schedules are shown:
//   - ...LostSack: the SACK that answers the first FORWARD-TSN is lost (3 lost packets in all);
//   - ...CrossingSack: nothing but ONE data packet is lost; a delayed SACK merely crosses
//     the sender's next packets on the wire (it is delivered a little later, in order).

const (
	h1Deliver = iota
	h1Drop
	h1Hold
)

type h1Link struct {
	mu     sync.Mutex
	filter func(dir int, p *packet) int // dir 0: A->B, 1: B->A
	held   [][]byte                     // B->A packets held back (delivered later, in order)
	toA    func([]byte)
}

func (l *h1Link) pass(dir int, raw []byte) bool {
	l.mu.Lock()
	defer l.mu.Unlock()
	if l.filter == nil {
		return true
	}
	p := &packet{}
	if err := p.unmarshal(false, raw); err != nil {
		return true
	}
	switch l.filter(dir, p) {
	case h1Drop:
		return false
	case h1Hold:
		l.held = append(l.held, append([]byte(nil), raw...))

		return false
	default:
		return true
	}
}

// releaseHeld delivers the n oldest held B->A packets (all of them if n <= 0).
func (l *h1Link) releaseHeld(n int) {
	l.mu.Lock()
	if n <= 0 || n > len(l.held) {
		n = len(l.held)
	}
	out := l.held[:n]
	l.held = l.held[n:]
	l.mu.Unlock()
	for _, raw := range out {
		l.toA(raw)
	}
}

func (l *h1Link) nHeld() int {
	l.mu.Lock()
	defer l.mu.Unlock()

	return len(l.held)
}

func h1Pair(t *testing.T, interleaving bool) (*Association, *Association, *h1Link) {
	t.Helper()
	addr1 := &net.UDPAddr{IP: net.ParseIP("127.0.0.1"), Port: 1234}
	addr2 := &net.UDPAddr{IP: net.ParseIP("127.0.0.1"), Port: 5678}
	c1 := newDumbConn2(addr1, addr2)
	c2 := newDumbConn2(addr2, addr1)
	link := &h1Link{toA: c1.inboundHandler}
	c1.setRemoteHandler(func(b []byte) {
		if link.pass(0, b) {
			c2.inboundHandler(append([]byte(nil), b...))
		}
	})
	c2.setRemoteHandler(func(b []byte) {
		if link.pass(1, b) {
			c1.inboundHandler(append([]byte(nil), b...))
		}
	})
	lf := logging.NewDefaultLoggerFactory()
	type res struct {
		a   *Association
		err error
	}
	ch0 := make(chan res, 1)
	ch1 := make(chan res, 1)
	go func() {
		a, err := ClientWithOptions(WithName("A"), WithNetConn(c1), WithLoggerFactory(lf),
			WithEnableInterleaving(interleaving))
		ch0 <- res{a, err}
	}()
	go func() {
		a, err := ServerWithOptions(WithName("B"), WithNetConn(c2), WithLoggerFactory(lf),
			WithEnableInterleaving(interleaving))
		ch1 <- res{a, err}
	}()
	var a, b *Association
	for a == nil || b == nil {
		select {
		case r := <-ch0:
			if r.err != nil {
				t.Fatalf("client: %v", r.err)
			}
			a = r.a
		case r := <-ch1:
			if r.err != nil {
				t.Fatalf("server: %v", r.err)
			}
			b = r.a
		case <-time.After(20 * time.Second):
			t.Fatalf("handshake timeout")
		}
	}

	return a, b, link
}

type h1Rx struct {
	sid uint16
	msg string
	eof bool
}

func h1WaitFor(t *testing.T, what string, d time.Duration, cond func() bool) {
	t.Helper()
	deadline := time.Now().Add(d)
	for time.Now().Before(deadline) {
		if cond() {
			return
		}
		time.Sleep(5 * time.Millisecond)
	}
	t.Fatalf("test setup: timed out waiting for %s", what)
}

// h1Receiver is B's application: it accepts every stream, reads everything, and closes
// a stream when the peer has closed it (what the data channel layer does).
func h1Receiver(b *Association) chan h1Rx {
	rxCh := make(chan h1Rx, 100)
	go func() {
		for {
			s, err := b.AcceptStream()
			if err != nil {
				return
			}
			go func(s *Stream) {
				buf := make([]byte, 65536)
				for {
					n, _, err := s.ReadSCTP(buf)
					if err != nil {
						if errors.Is(err, io.EOF) {
							_ = s.Close()
							rxCh <- h1Rx{sid: s.StreamIdentifier(), eof: true}
						}

						return
					}
					rxCh <- h1Rx{sid: s.StreamIdentifier(), msg: string(buf[:n])}
				}
			}(s)
		}
	}()

	return rxCh
}

func h1Expect(t *testing.T, rxCh chan h1Rx, sid uint16, msg string, eof bool, d time.Duration) bool {
	t.Helper()
	timer := time.After(d)
	for {
		select {
		case r := <-rxCh:
			if r.sid == sid && r.eof == eof && r.msg == msg {
				return true
			}
			t.Logf("(B received sid=%d msg=%q eof=%v meanwhile)", r.sid, r.msg, r.eof)
		case <-timer:
			return false
		}
	}
}

func h1InflightEmpty(a *Association) bool {
	a.lock.RLock()
	defer a.lock.RUnlock()

	return a.inflightQueue.size() == 0 && a.pendingQueue.size() == 0
}

func h1HasStream(a *Association, sid uint16) bool {
	a.lock.RLock()
	defer a.lock.RUnlock()
	_, ok := a.streams[sid]

	return ok
}

func h1NoReconfigPending(a, b *Association) bool {
	a.lock.RLock()
	nA := len(a.reconfigs)
	a.lock.RUnlock()
	b.lock.RLock()
	nB := len(b.reconfigs)
	b.lock.RUnlock()

	return nA == 0 && nB == 0
}

// h1Reopen is the last act of both schedules: the network is perfect, nothing is in
// flight, identifier 1 was closed by both sides long ago and is opened again.
func h1Reopen(t *testing.T, a, b *Association, rxCh chan h1Rx, old *Stream) {
	t.Helper()
	h1WaitFor(t, "A drained", 60*time.Second, func() bool { return h1InflightEmpty(a) })
	h1WaitFor(t, "stream 1 closed (reset performed by both sides)", 60*time.Second, func() bool {
		return !h1HasStream(a, 1) && h1NoReconfigPending(a, b)
	})

	s1b, err := a.OpenStream(1, PayloadTypeWebRTCBinary)
	if err != nil {
		t.Fatal(err)
	}
	if s1b == old {
		t.Fatalf("test setup: got the old stream object")
	}
	for _, m := range []string{"reliable-0", "reliable-1", "reliable-2"} {
		if _, err = s1b.Write([]byte(m)); err != nil {
			t.Fatal(err)
		}
	}
	if !h1Expect(t, rxCh, 1, "reliable-0", false, 15*time.Second) {
		b.lock.RLock()
		st := b.streams[1]
		b.lock.RUnlock()
		if st != nil {
			st.lock.RLock()
			t.Logf("B's stream 1: nextSSN=%d nextMID=%d", st.reassemblyQueue.nextSSN, st.reassemblyQueue.nextMID)
			st.lock.RUnlock()
		}
		a.lock.RLock()
		nInflight := a.inflightQueue.size()
		a.lock.RUnlock()
		if nInflight == 0 {
			t.Fatalf("the reliable ordered message written first on the re-opened stream 1 was never " +
				"delivered, although A has nothing in flight: B acknowledged it and threw it away")
		}
		t.Fatalf("the reliable ordered message written first on the re-opened stream 1 was never "+
			"delivered: B turns it away without acknowledging it, A retransmits it for ever "+
			"(%d chunks in flight, the cumulative TSN of the association no longer advances)", nInflight)
	}
}

func h1RunLostSack(t *testing.T, interleaving bool) {
	t.Helper()
	a, b, link := h1Pair(t, interleaving)
	defer func() {
		_ = a.Close()
		_ = b.Close()
	}()

	var dropSack atomic.Bool
	var fwdSeen, fwdCoversLost2 atomic.Int64
	var lost2TSN atomic.Uint32
	var lost2Seen atomic.Bool
	link.mu.Lock()
	link.filter = func(dir int, p *packet) int {
		for _, c := range p.chunks {
			switch v := c.(type) {
			case *chunkPayloadData:
				if dir == 0 && bytes.HasPrefix(v.userData, []byte("LOST")) {
					if bytes.HasPrefix(v.userData, []byte("LOST-2")) {
						lost2TSN.Store(v.tsn)
						lost2Seen.Store(true)
					}

					return h1Drop
				}
			case *chunkSelectiveAck:
				if dir == 1 && dropSack.Load() {
					return h1Drop
				}
			case *chunkForwardTSN:
				if dir == 0 {
					fwdSeen.Add(1)
					if lost2Seen.Load() && sna32GTE(v.newCumulativeTSN, lost2TSN.Load()) {
						fwdCoversLost2.Add(1)
					}
				}
			case *chunkIForwardTSN:
				if dir == 0 {
					fwdSeen.Add(1)
					if lost2Seen.Load() && sna32GTE(v.newCumulativeTSN, lost2TSN.Load()) {
						fwdCoversLost2.Add(1)
					}
				}
			}
		}

		return h1Deliver
	}
	link.mu.Unlock()
	rxCh := h1Receiver(b)

	// 1. stream 1, no retransmissions, ordered. One message gets through.
	s1, err := a.OpenStream(1, PayloadTypeWebRTCBinary)
	if err != nil {
		t.Fatal(err)
	}
	s1.SetReliabilityParams(false, ReliabilityTypeRexmit, 0)
	if _, err = s1.Write([]byte("hello")); err != nil {
		t.Fatal(err)
	}
	if !h1Expect(t, rxCh, 1, "hello", false, 10*time.Second) {
		t.Fatalf("test setup: hello not received")
	}
	h1WaitFor(t, "A drained", 10*time.Second, func() bool { return h1InflightEmpty(a) })

	// 2. the second message is lost and abandoned; the FORWARD-TSN arrives, its SACK is lost.
	dropSack.Store(true)
	if _, err = s1.Write([]byte("LOST-1")); err != nil {
		t.Fatal(err)
	}
	h1WaitFor(t, "first FORWARD-TSN", 20*time.Second, func() bool { return fwdSeen.Load() >= 1 })

	// 3. stream 1 is closed by A; B sees EOF and closes its side: reset performed by both sides.
	if err = s1.Close(); err != nil {
		t.Fatal(err)
	}
	if !h1Expect(t, rxCh, 1, "", true, 20*time.Second) {
		t.Fatalf("test setup: B did not see EOF on stream 1")
	}
	h1WaitFor(t, "stream 1 closed on both sides", 20*time.Second, func() bool {
		return !h1HasStream(a, 1) && !h1HasStream(b, 1) && h1NoReconfigPending(a, b)
	})

	// 4. another stream loses (and abandons) a message while A has still not seen a SACK.
	s2, err := a.OpenStream(2, PayloadTypeWebRTCBinary)
	if err != nil {
		t.Fatal(err)
	}
	s2.SetReliabilityParams(false, ReliabilityTypeRexmit, 0)
	if _, err = s2.Write([]byte("LOST-2")); err != nil {
		t.Fatal(err)
	}
	h1WaitFor(t, "FORWARD-TSN covering both abandoned messages", 60*time.Second, func() bool {
		return fwdCoversLost2.Load() >= 1
	})
	dropSack.Store(false) // from here on the network is perfect

	// 5. identifier 1 is opened again
	h1Reopen(t, a, b, rxCh, s1)
}

func h1RunCrossingSack(t *testing.T, interleaving bool) {
	t.Helper()
	a, b, link := h1Pair(t, interleaving)
	defer func() {
		_ = a.Close()
		_ = b.Close()
	}()

	var holdSack atomic.Bool
	var lostSeen atomic.Int64
	link.mu.Lock()
	link.filter = func(dir int, p *packet) int {
		for _, c := range p.chunks {
			switch v := c.(type) {
			case *chunkPayloadData:
				if dir == 0 && bytes.HasPrefix(v.userData, []byte("LOST")) {
					lostSeen.Add(1)

					return h1Drop // the only packet that is ever lost
				}
			case *chunkSelectiveAck:
				if dir == 1 && holdSack.Load() {
					return h1Hold // slow, not lost
				}
			}
		}

		return h1Deliver
	}
	link.mu.Unlock()
	rxCh := h1Receiver(b)

	s1, err := a.OpenStream(1, PayloadTypeWebRTCBinary)
	if err != nil {
		t.Fatal(err)
	}
	s1.SetReliabilityParams(false, ReliabilityTypeRexmit, 0)
	s2, err := a.OpenStream(2, PayloadTypeWebRTCBinary)
	if err != nil {
		t.Fatal(err)
	}
	s2.SetReliabilityParams(false, ReliabilityTypeRexmit, 0)
	if _, err = s1.Write([]byte("hello")); err != nil {
		t.Fatal(err)
	}
	if !h1Expect(t, rxCh, 1, "hello", false, 10*time.Second) {
		t.Fatalf("test setup: hello not received")
	}
	h1WaitFor(t, "A drained", 10*time.Second, func() bool { return h1InflightEmpty(a) })

	// 1. "m0" arrives; B's (delayed) SACK for it is on its way back, slowly.
	holdSack.Store(true)
	if _, err = s1.Write([]byte("m0")); err != nil {
		t.Fatal(err)
	}
	if !h1Expect(t, rxCh, 1, "m0", false, 10*time.Second) {
		t.Fatalf("test setup: m0 not received")
	}
	h1WaitFor(t, "SACK for m0 on the wire", 10*time.Second, func() bool { return link.nHeld() >= 1 })

	// 2. before that SACK arrives, A sends "m1" on stream 1 (arrives), closes stream 1
	// (the reset request arrives and is performed), and sends a message on stream 2 (lost).
	if _, err = s1.Write([]byte("m1")); err != nil {
		t.Fatal(err)
	}
	if !h1Expect(t, rxCh, 1, "m1", false, 10*time.Second) {
		t.Fatalf("test setup: m1 not received")
	}
	if err = s1.Close(); err != nil {
		t.Fatal(err)
	}
	if !h1Expect(t, rxCh, 1, "", true, 20*time.Second) {
		t.Fatalf("test setup: B did not see EOF on stream 1")
	}
	if _, err = s2.Write([]byte("LOST-2")); err != nil {
		t.Fatal(err)
	}
	h1WaitFor(t, "the lost packet to be sent", 10*time.Second, func() bool { return lostSeen.Load() >= 1 })

	// 3. now the SACK for m0 arrives at A, then everything else; the network is perfect from here on.
	link.releaseHeld(1)
	time.Sleep(200 * time.Millisecond)
	holdSack.Store(false)
	link.releaseHeld(0)

	// 4. identifier 1 is opened again
	h1Reopen(t, a, b, rxCh, s1)
}

func TestZZHuntC07_1_GhostStream_LostSack_DATA(t *testing.T)      { h1RunLostSack(t, false) }
func TestZZHuntC07_1_GhostStream_LostSack_IDATA(t *testing.T)     { h1RunLostSack(t, true) }
func TestZZHuntC07_1_GhostStream_CrossingSack_DATA(t *testing.T)  { h1RunCrossingSack(t, false) }
func TestZZHuntC07_1_GhostStream_CrossingSack_IDATA(t *testing.T) { h1RunCrossingSack(t, true) }
