// SPDX-FileCopyrightText: 2026 The Pion community <https://pion.ly>
// SPDX-License-Identifier: MIT

package sctp

import (
	"bytes"
	"sync"
	"sync/atomic"
	"testing"
	"time"

	"github.com/pion/transport/v4/test"
	"github.com/stretchr/testify/require"
)

// C06 / finding 3
//
// Default configuration on both sides (user message interleaving is on by
// default, receive buffer 1 MiB, max message size 64 KiB), a perfect network (no
// loss, no reordering, no duplication). 24 reliable unordered streams write ONE
// message of 64 KiB each at about the same time; every stream has a reader
// blocked in ReadSCTP with a large enough buffer.
//
// Property: reliable unordered streams deliver every message exactly once - for
// all message sizes, interleaving on/off.
//
// Observed: no message (or only a few of them) is ever delivered, the
// association is dead-locked for good: the sender's scheduler interleaves the
// fragments of all 24 messages, the receiver accounts every fragment of an
// incomplete message against its receive buffer, and when the buffer (1 MiB) is
// full each of the 24 messages (24 x 64 KiB = 1.5 MiB) is still incomplete.
// From then on the receiver discards every new fragment ("receive buffer full"),
// nothing can ever be completed, hence nothing read, hence the window never
// re-opens. The same messages are delivered without any problem when
// interleaving is disabled (control run below).
func TestHuntC06_3_InterleavedReliableMessagesNeverDelivered(t *testing.T) {
	t.Run("control-no-interleaving", func(t *testing.T) {
		delivered := huntC06Run3(t, false)
		require.Equal(t, 24, delivered, "control: all messages are delivered without interleaving")
	})
	t.Run("default-interleaving", func(t *testing.T) {
		delivered := huntC06Run3(t, true)
		require.Equal(t, 24, delivered,
			"every message written on a reliable stream must be delivered exactly once")
	})
}

func huntC06Run3(t *testing.T, interleaving bool) int {
	t.Helper()

	lim := test.TimeOut(120 * time.Second)
	defer lim.Stop()

	const (
		nStreams = 24
		msgSize  = 64 * 1024
	)

	br := test.NewBridge()
	a0, a1, err := createNewAssociationPairWithInterleaving(br, ackModeNormal, 0, interleaving, interleaving)
	require.NoError(t, err)
	require.Equal(t, interleaving, a0.useInterleaving)

	// T3-rtx / zero-window probing starts at 200 ms: the 25 s of waiting below are
	// dozens of attempts of the sender, not a slow start
	a0.rtoMgr.setRTO(200.0, true)

	stop := make(chan struct{})
	var pump sync.WaitGroup
	pump.Add(1)
	go func() {
		defer pump.Done()
		for {
			select {
			case <-stop:
				return
			default:
			}
			if br.Tick() == 0 {
				time.Sleep(200 * time.Microsecond)
			}
		}
	}()

	var delivered, bad int32
	mkMsg := func(sid uint16) []byte {
		m := make([]byte, msgSize)
		for i := range m {
			m[i] = byte(int(sid)*31 + i*7)
		}

		return m
	}

	// readers on the receiving side
	go func() {
		for {
			s, err := a1.AcceptStream()
			if err != nil {
				return
			}
			go func(s *Stream) {
				buf := make([]byte, 2*msgSize)
				for {
					n, _, err := s.ReadSCTP(buf)
					if err != nil {
						return
					}
					if bytes.Equal(buf[:n], mkMsg(s.StreamIdentifier())) {
						atomic.AddInt32(&delivered, 1)
					} else {
						atomic.AddInt32(&bad, 1)
					}
				}
			}(s)
		}
	}()

	streams := make([]*Stream, 0, nStreams)
	for sid := uint16(0); sid < nStreams; sid++ {
		s, err := a0.OpenStream(sid, PayloadTypeWebRTCBinary)
		require.NoError(t, err)
		s.SetReliabilityParams(true, ReliabilityTypeReliable, 0)
		streams = append(streams, s)
	}
	for _, s := range streams {
		n, err := s.WriteSCTP(mkMsg(s.StreamIdentifier()), PayloadTypeWebRTCBinary)
		require.NoError(t, err)
		require.Equal(t, msgSize, n)
	}

	deadline := time.Now().Add(25 * time.Second)
	for atomic.LoadInt32(&delivered) < nStreams && time.Now().Before(deadline) {
		time.Sleep(50 * time.Millisecond)
	}

	a1.lock.RLock()
	credit := a1.getMyReceiverWindowCredit()
	a1.lock.RUnlock()
	t.Logf("interleaving=%v: delivered=%d of %d, corrupted=%d, sender still buffers %d bytes, receiver window credit=%d",
		interleaving, atomic.LoadInt32(&delivered), nStreams, atomic.LoadInt32(&bad), a0.BufferedAmount(), credit)

	require.Zero(t, atomic.LoadInt32(&bad))

	close(stop)
	pump.Wait()
	closeAssociationPair(br, a0, a1)

	return int(atomic.LoadInt32(&delivered))
}
