package sctp

import (
	"context"
	"net"
	"os"
	"sync"
	"testing"
	"time"

	"github.com/pion/logging"
)

// A lossless, in-order, in-memory datagram link (no faults at all). Writes on an
// end can be held up for a moment (a transport that stalls briefly), so that the
// application gets its messages queued before the first one leaves.

type c081End struct {
	in     chan []byte
	peer   *c081End
	closed chan struct{}
	once   sync.Once

	mu   sync.Mutex
	gate chan struct{} // non-nil: writes wait until it is closed
}

func (e *c081End) holdWrites() (release func()) {
	g := make(chan struct{})
	e.mu.Lock()
	e.gate = g
	e.mu.Unlock()

	return func() {
		e.mu.Lock()
		e.gate = nil
		e.mu.Unlock()
		close(g)
	}
}

type c081Addr struct{}

func (c081Addr) Network() string { return "mem" }
func (c081Addr) String() string  { return "mem" }

func newC081Link() (*c081End, *c081End) {
	a := &c081End{in: make(chan []byte, 1<<16), closed: make(chan struct{})}
	b := &c081End{in: make(chan []byte, 1<<16), closed: make(chan struct{})}
	a.peer, b.peer = b, a

	return a, b
}

func (e *c081End) Read(p []byte) (int, error) {
	select {
	case raw := <-e.in:
		return copy(p, raw), nil
	case <-e.closed:
		return 0, net.ErrClosed
	}
}

func (e *c081End) Write(p []byte) (int, error) {
	select {
	case <-e.closed:
		return 0, net.ErrClosed
	default:
	}
	e.mu.Lock()
	g := e.gate
	e.mu.Unlock()
	if g != nil {
		select {
		case <-g:
		case <-e.closed:
			return 0, net.ErrClosed
		}
	}
	select {
	case e.peer.in <- append([]byte(nil), p...): // never full in this test
	case <-e.peer.closed: // the peer is gone, the datagram is lost
	}

	return len(p), nil
}

func (e *c081End) Close() error                     { e.once.Do(func() { close(e.closed) }); return nil }
func (e *c081End) LocalAddr() net.Addr              { return c081Addr{} }
func (e *c081End) RemoteAddr() net.Addr             { return c081Addr{} }
func (e *c081End) SetDeadline(time.Time) error      { return nil }
func (e *c081End) SetReadDeadline(time.Time) error  { return nil }
func (e *c081End) SetWriteDeadline(time.Time) error { return nil }

func c081Pair(t *testing.T) (*Association, *Association, *c081End) {
	t.Helper()
	ca, cb := newC081Link()
	type res struct {
		a   *Association
		err error
	}
	chA := make(chan res, 1)
	chB := make(chan res, 1)
	// Default configuration on both sides (nothing but the transport and a name).
	go func() {
		a, err := Client(Config{Name: "A", NetConn: ca, LoggerFactory: logging.NewDefaultLoggerFactory()})
		chA <- res{a, err}
	}()
	go func() {
		b, err := Server(Config{Name: "B", NetConn: cb, LoggerFactory: logging.NewDefaultLoggerFactory()})
		chB <- res{b, err}
	}()
	ra, rb := <-chA, <-chB
	if ra.err != nil || rb.err != nil {
		t.Fatalf("handshake: %v / %v", ra.err, rb.err)
	}

	return ra.a, rb.a, ca
}

// c081Run writes one message of msgSize bytes on each of nStreams streams, then
// calls Shutdown. The peer reads every stream it is offered, with a buffer that
// is large enough for any message. It returns the Shutdown error and the number
// of messages the peer could read until its streams reported closure.
func c081Run(t *testing.T, nStreams, msgSize int, timeout time.Duration) (error, int) {
	t.Helper()
	a, b, connA := c081Pair(t)
	defer func() {
		_ = a.Close()
		_ = b.Close()
	}()

	var mu sync.Mutex
	nRead := 0
	var wg sync.WaitGroup
	wg.Add(1)
	go func() {
		defer wg.Done()
		for {
			s, err := b.AcceptStream()
			if err != nil {
				return
			}
			wg.Add(1)
			go func() {
				defer wg.Done()
				buf := make([]byte, 1<<17)
				for {
					n, err := s.Read(buf)
					if err != nil {
						return
					}
					if n != msgSize {
						t.Errorf("short message: %d", n)
					}
					mu.Lock()
					nRead++
					mu.Unlock()
				}
			}()
		}
	}()

	msg := make([]byte, msgSize)
	release := connA.holdWrites()
	for i := 0; i < nStreams; i++ {
		s, err := a.OpenStream(uint16(i), PayloadTypeWebRTCBinary) //nolint:gosec
		if err != nil {
			t.Fatalf("OpenStream: %v", err)
		}
		if _, err = s.Write(msg); err != nil {
			t.Fatalf("Write was not accepted: %v", err)
		}
	}

	release()

	ctx, cancel := context.WithTimeout(context.Background(), timeout)
	defer cancel()
	err := a.Shutdown(ctx)

	if err != nil {
		// show where things stand
		b.lock.Lock()
		complete := 0
		queued := 0
		for _, s := range b.streams {
			queued += s.getNumBytesInReassemblyQueue()
			s.lock.Lock()
			if s.reassemblyQueue.isReadable() {
				complete++
			}
			s.lock.Unlock()
		}
		t.Logf("peer B: state=%s advertises a_rwnd=%d, holds %d bytes in %d streams, %d complete messages readable",
			getAssociationStateString(b.getState()), b.getMyReceiverWindowCredit(), queued, len(b.streams), complete)
		b.lock.Unlock()
		a.lock.Lock()
		t.Logf("caller A: state=%s pending chunks=%d inflight chunks=%d rwnd=%d",
			getAssociationStateString(a.getState()), a.pendingQueue.size(), a.inflightQueue.size(), a.RWND())
		a.lock.Unlock()
	}

	_ = a.Close()
	_ = b.Close()
	wg.Wait()
	mu.Lock()
	defer mu.Unlock()

	return err, nRead
}

// Default configuration, perfect network. Twenty streams carry one 60000-byte
// message each (1.2 MB in all, each message is below the default maximum message
// size of 65536 and far below the default receive buffer of 1 MiB). The messages are accepted by Write, then
// Shutdown is called. The property demands that Shutdown completes after
// everything has been delivered.
func TestZZHuntC08_1_ShutdownNeverCompletesInterleavedMessagesFillReceiveBuffer(t *testing.T) {
	if os.Getenv("C08_1_CONTROL") != "" {
		// control: 12 streams (720 kB) complete in well under a second.
		err, n := c081Run(t, 12, 60000, 30*time.Second)
		if err != nil || n != 12 {
			t.Fatalf("control failed: err=%v read=%d", err, n)
		}

		return
	}

	const nStreams = 20
	start := time.Now()
	err, n := c081Run(t, nStreams, 60000, 30*time.Second)
	if err != nil {
		t.Errorf("Shutdown did not complete within %v on a lossless link: %v", time.Since(start).Round(time.Second), err)
	}
	if n != nStreams {
		t.Errorf("peer could read %d of %d accepted messages", n, nStreams)
	}
}
