package sctp

import (
	"bytes"
	"encoding/binary"
	"testing"
)

func huntC12Packet3(tag uint32, chunks ...[]byte) []byte {
	raw := []byte{0x13, 0x88, 0x13, 0x88, 0, 0, 0, 0, 0, 0, 0, 0}
	binary.BigEndian.PutUint32(raw[4:], tag)
	for _, c := range chunks {
		raw = append(raw, c...)
		raw = append(raw, make([]byte, getPadding(len(c)))...)
	}
	binary.LittleEndian.PutUint32(raw[8:], generatePacketChecksum(raw))

	return raw
}

func huntC12InitLike(typ byte, params ...[]byte) []byte {
	body := []byte{
		0, 0, 0, 1, // initiate tag
		0, 2, 0, 0, // a_rwnd 131072
		0, 10, 0, 10, // streams
		0, 0, 0, 7, // initial TSN
	}
	for i, p := range params {
		body = append(body, p...)
		if i != len(params)-1 {
			body = append(body, make([]byte, getPadding(len(p)))...)
		}
	}
	c := []byte{typ, 0, 0, 0}
	binary.BigEndian.PutUint16(c[2:], uint16(4+len(body))) //nolint:gosec
	return append(c, body...)
}

// An INIT / INIT-ACK that carries a parameter the library has no type for is
// accepted; the decoder even keeps the parameter (chunkInitCommon.unrecognizedParams)
// and chunkInit.check() bases its verdict on it. The encoder writes only
// chunkInitCommon.params: after decode + encode the parameter is gone.
func TestHuntC12_3_InitUnrecognizedParamsLostByEncoder(t *testing.T) {
	supportedExt := []byte{0x80, 0x08, 0x00, 0x06, 0x82, 0xc0}        // RE-CONFIG, FORWARD-TSN
	adaptation := []byte{0xc0, 0x06, 0x00, 0x08, 0, 0, 0, 0x2a}       // Adaptation Layer Indication (skip + report)
	cookiePreserv := []byte{0x00, 0x09, 0x00, 0x08, 0, 0, 0x27, 0x10} // Cookie Preservative (stop)
	cookie := []byte{0x00, 0x07, 0x00, 0x08, 1, 2, 3, 4}
	unrecognized := []byte{0x00, 0x08, 0x00, 0x08, 0xc0, 0x07, 0x00, 0x04} // Unrecognized Parameter reporting c007

	roundTrip := func(name string, raw []byte) (*packet, *packet, []byte) {
		t.Helper()
		p1 := &packet{}
		if err := p1.unmarshal(true, raw); err != nil {
			t.Fatalf("%s: the decoder refuses the packet: %v", name, err)
		}
		again, err := p1.marshal(true)
		if err != nil {
			t.Fatalf("%s: re-encode: %v", name, err)
		}
		p2 := &packet{}
		if err = p2.unmarshal(true, again); err != nil {
			t.Fatalf("%s: decode of the re-encoded packet: %v", name, err)
		}

		return p1, p2, again
	}

	// (a) INIT with a skip-and-report parameter: fully acceptable INIT
	raw := huntC12Packet3(0, huntC12InitLike(byte(ctInit), adaptation, supportedExt))
	p1, p2, again := roundTrip("INIT+adaptation", raw)
	i1, _ := p1.chunks[0].(*chunkInit)
	i2, _ := p2.chunks[0].(*chunkInit)
	if abort, err := i1.check(); abort || err != nil {
		t.Fatalf("INIT with an Adaptation Layer Indication is not acceptable: %v", err)
	}
	if len(i1.unrecognizedParams) != 1 || len(i1.params) != 1 {
		t.Fatalf("unexpected decode: %d params %d unrecognized", len(i1.params), len(i1.unrecognizedParams))
	}
	if !bytes.Equal(again, raw) {
		t.Errorf("INIT is not stable under decode + encode (parameter c006 dropped):\n in  % x\n out % x", raw[12:], again[12:])
	}
	if len(i2.unrecognizedParams) != len(i1.unrecognizedParams) {
		t.Errorf("decode(encode(decode(x))) has %d unrecognized parameters, decode(x) has %d",
			len(i2.unrecognizedParams), len(i1.unrecognizedParams))
	}

	// (b) INIT with a 'stop' parameter: check() refuses the decoded chunk, and accepts
	// the chunk obtained by encoding and decoding it once more.
	raw = huntC12Packet3(0, huntC12InitLike(byte(ctInit), supportedExt, cookiePreserv))
	p1, p2, again = roundTrip("INIT+cookie preservative", raw)
	i1, _ = p1.chunks[0].(*chunkInit)
	i2, _ = p2.chunks[0].(*chunkInit)
	abort1, err1 := i1.check()
	abort2, err2 := i2.check()
	if abort1 != abort2 || (err1 == nil) != (err2 == nil) {
		t.Errorf("chunkInit.check() changes its verdict across encode + decode: before (%v, %v), after (%v, %v)\n in  % x\n out % x",
			abort1, err1, abort2, err2, raw[12:], again[12:])
	}

	// (c) INIT-ACK: the Unrecognized Parameter by which a peer reports what it skipped
	raw = huntC12Packet3(1, huntC12InitLike(byte(ctInitAck), cookie, unrecognized, supportedExt))
	_, _, again = roundTrip("INIT-ACK+unrecognized parameter", raw)
	if !bytes.Equal(again, raw) {
		t.Errorf("INIT-ACK is not stable under decode + encode (parameter 0008 dropped):\n in  % x\n out % x", raw[12:], again[12:])
	}

	// Control: the same INIT without the foreign parameter is reproduced byte for byte.
	raw = huntC12Packet3(0, huntC12InitLike(byte(ctInit), supportedExt))
	if _, _, again = roundTrip("control", raw); !bytes.Equal(again, raw) {
		t.Fatalf("control: plain INIT not reproduced:\n in  % x\n out % x", raw, again)
	}
}
