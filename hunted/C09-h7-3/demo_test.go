package sctp

import (
	"fmt"
	"net"
	"strings"
	"sync"
	"sync/atomic"
	"testing"
	"time"

	"github.com/pion/logging"
)

// c09d3Conn is a plain in-memory datagram transport (deadlines are accepted and
// ignored, like the transports used by the package's own tests). `lose` drops
// packets in this direction, `slow` makes every Write take that long (a slow,
// congested path).
type c09d3Conn struct {
	peer   *c09d3Conn
	mu     sync.Mutex
	cond   *sync.Cond
	q      [][]byte
	closed bool
	lose   bool
	slow   time.Duration
	aborts int32
}

func newC09d3Pair() (*c09d3Conn, *c09d3Conn) {
	a, b := &c09d3Conn{}, &c09d3Conn{}
	a.cond, b.cond = sync.NewCond(&a.mu), sync.NewCond(&b.mu)
	a.peer, b.peer = b, a

	return a, b
}

func (c *c09d3Conn) Read(p []byte) (int, error) {
	c.mu.Lock()
	defer c.mu.Unlock()
	for {
		if c.closed {
			return 0, net.ErrClosed
		}
		if len(c.q) > 0 {
			pkt := c.q[0]
			c.q = c.q[1:]

			return copy(p, pkt), nil
		}
		c.cond.Wait()
	}
}

func (c *c09d3Conn) Write(p []byte) (int, error) {
	c.mu.Lock()
	closed, lose, slow := c.closed, c.lose, c.slow
	c.mu.Unlock()
	if closed {
		return 0, net.ErrClosed
	}
	if slow > 0 {
		time.Sleep(slow)
	}
	if len(p) > int(commonHeaderSize) && p[commonHeaderSize] == byte(ctAbort) {
		atomic.AddInt32(&c.aborts, 1)
	}
	if lose {
		return len(p), nil
	}
	raw := append([]byte(nil), p...)
	c.peer.mu.Lock()
	if !c.peer.closed {
		c.peer.q = append(c.peer.q, raw)
		c.peer.cond.Broadcast()
	}
	c.peer.mu.Unlock()

	return len(p), nil
}

func (c *c09d3Conn) Close() error {
	c.mu.Lock()
	c.closed = true
	c.cond.Broadcast()
	c.mu.Unlock()

	return nil
}

func (c *c09d3Conn) set(f func()) {
	c.mu.Lock()
	f()
	c.mu.Unlock()
}

func (c *c09d3Conn) LocalAddr() net.Addr              { return &net.IPAddr{} }
func (c *c09d3Conn) RemoteAddr() net.Addr             { return &net.IPAddr{} }
func (c *c09d3Conn) SetDeadline(time.Time) error      { return nil }
func (c *c09d3Conn) SetReadDeadline(time.Time) error  { return nil }
func (c *c09d3Conn) SetWriteDeadline(time.Time) error { return nil }

// Blocking-write mode. A has a message queued that cannot be sent completely (no
// acknowledgements arrive), so a second Write is blocked waiting for its turn.
// The application calls Abort while the path is slow (writing the ABORT takes
// longer than Abort's 200 ms flush bound). Abort then wakes the blocked writers
// while the association is still ESTABLISHED: the blocked Write is accepted and
// returns nil - success - for a message of an association that is being aborted
// and that will never be sent.
func TestHuntC09_3_BlockedWriteReturnsSuccessOnAbort(t *testing.T) {
	ca, cb := newC09d3Pair()
	lf := logging.NewDefaultLoggerFactory()

	type res struct {
		a   *Association
		err error
	}
	chA, chB := make(chan res, 1), make(chan res, 1)
	go func() {
		x, err := Client(Config{NetConn: ca, LoggerFactory: lf, Name: "A", BlockWrite: true})
		chA <- res{x, err}
	}()
	go func() {
		x, err := Server(Config{NetConn: cb, LoggerFactory: lf, Name: "B"})
		chB <- res{x, err}
	}()
	var a, b *Association
	for a == nil || b == nil {
		select {
		case r := <-chA:
			if r.err != nil {
				t.Fatalf("client: %v", r.err)
			}
			a = r.a
		case r := <-chB:
			if r.err != nil {
				t.Fatalf("server: %v", r.err)
			}
			b = r.a
		case <-time.After(20 * time.Second):
			t.Fatal("handshake did not complete")
		}
	}
	defer func() {
		_ = a.Close()
		_ = b.Close()
	}()

	sa, err := a.OpenStream(1, PayloadTypeWebRTCBinary)
	if err != nil {
		t.Fatal(err)
	}
	if _, err = sa.Write([]byte("ping")); err != nil {
		t.Fatal(err)
	}
	sb, err := b.AcceptStream()
	if err != nil {
		t.Fatal(err)
	}
	buf := make([]byte, 1500)
	if _, err = sb.Read(buf); err != nil {
		t.Fatal(err)
	}
	time.Sleep(300 * time.Millisecond) // the (delayed) SACK for "ping" has arrived

	// nothing from B reaches A any more: what A sends stays unacknowledged
	cb.set(func() { cb.lose = true })

	// 30000 bytes do not fit the congestion window: the rest of the message stays
	// in the pending queue and the association stays "write pending"
	if _, err = sa.Write(make([]byte, 30000)); err != nil {
		t.Fatal(err)
	}

	type wres struct {
		n   int
		err error
	}
	blocked := make(chan wres, 1)
	go func() {
		n, e := sa.Write([]byte("second message"))
		blocked <- wres{n, e}
	}()
	select {
	case r := <-blocked:
		t.Fatalf("test assumption: the second Write should block, it returned n=%d err=%v", r.n, r.err)
	case <-time.After(500 * time.Millisecond):
	}

	// the path is slow now: a packet takes 700 ms to write
	ca.set(func() { ca.slow = 700 * time.Millisecond })

	abortDone := make(chan struct{})
	t0 := time.Now()
	go func() {
		a.Abort("c09 abort")
		close(abortDone)
	}()

	select {
	case r := <-blocked:
		t.Logf("blocked Write returned %v after Abort was called: n=%d err=%v (state now %s, ABORTs written so far: %d)",
			time.Since(t0).Round(time.Millisecond), r.n, r.err,
			getAssociationStateString(a.getState()), atomic.LoadInt32(&ca.aborts))
		if r.err == nil {
			t.Errorf("a Write that was blocked when Abort was called returned success (n=%d, err=nil): "+
				"the message was accepted by an association that is being aborted and is never sent", r.n)
		}
	case <-time.After(20 * time.Second):
		t.Fatal("blocked Write was not released by Abort")
	}

	select {
	case <-abortDone:
	case <-time.After(20 * time.Second):
		t.Fatal("Abort did not return")
	}
	if _, err = sa.Write([]byte("after")); err == nil {
		t.Errorf("Write after Abort returned succeeded")
	}
}

// c09d3Logger lets the test hold a goroutine at a particular debug message.
type c09d3Logger struct {
	logging.LeveledLogger
	hook func(msg string)
}

func (l *c09d3Logger) Debugf(format string, args ...any) {
	if l.hook != nil {
		l.hook(fmt.Sprintf(format, args...))
	}
}

type c09d3LoggerFactory struct {
	inner logging.LoggerFactory
	hook  func(msg string)
}

func (f *c09d3LoggerFactory) NewLogger(scope string) logging.LeveledLogger {
	return &c09d3Logger{LeveledLogger: f.inner.NewLogger(scope), hook: f.hook}
}

// The same defect with a fast transport: writeLoop has written the ABORT and is
// about to mark the association closed (it is held at the first debug message of
// close()) when Abort, woken by "ABORT sent", releases the blocked writers.
func TestHuntC09_3b_BlockedWriteReturnsSuccessOnAbort_FastTransport(t *testing.T) {
	ca, cb := newC09d3Pair()

	var armed atomic.Bool
	held := make(chan struct{})
	release := make(chan struct{})
	var once sync.Once
	lf := &c09d3LoggerFactory{inner: logging.NewDefaultLoggerFactory(), hook: func(msg string) {
		if armed.Load() && strings.Contains(msg, "[A] closing association..") {
			once.Do(func() {
				close(held)
				<-release
			})
		}
	}}
	defer func() {
		select {
		case <-release:
		default:
			close(release)
		}
	}()

	type res struct {
		a   *Association
		err error
	}
	chA, chB := make(chan res, 1), make(chan res, 1)
	go func() {
		x, err := Client(Config{NetConn: ca, LoggerFactory: lf, Name: "A", BlockWrite: true})
		chA <- res{x, err}
	}()
	go func() {
		x, err := Server(Config{NetConn: cb, LoggerFactory: logging.NewDefaultLoggerFactory(), Name: "B"})
		chB <- res{x, err}
	}()
	var a, b *Association
	for a == nil || b == nil {
		select {
		case r := <-chA:
			if r.err != nil {
				t.Fatalf("client: %v", r.err)
			}
			a = r.a
		case r := <-chB:
			if r.err != nil {
				t.Fatalf("server: %v", r.err)
			}
			b = r.a
		case <-time.After(20 * time.Second):
			t.Fatal("handshake did not complete")
		}
	}
	defer func() { _ = b.Close() }()

	sa, err := a.OpenStream(1, PayloadTypeWebRTCBinary)
	if err != nil {
		t.Fatal(err)
	}
	if _, err = sa.Write([]byte("ping")); err != nil {
		t.Fatal(err)
	}
	sb, err := b.AcceptStream()
	if err != nil {
		t.Fatal(err)
	}
	buf := make([]byte, 1500)
	if _, err = sb.Read(buf); err != nil {
		t.Fatal(err)
	}
	time.Sleep(300 * time.Millisecond)

	cb.set(func() { cb.lose = true })
	if _, err = sa.Write(make([]byte, 30000)); err != nil {
		t.Fatal(err)
	}

	type wres struct {
		n   int
		err error
	}
	blocked := make(chan wres, 1)
	go func() {
		n, e := sa.Write([]byte("second message"))
		blocked <- wres{n, e}
	}()
	select {
	case r := <-blocked:
		t.Fatalf("test assumption: the second Write should block, it returned n=%d err=%v", r.n, r.err)
	case <-time.After(500 * time.Millisecond):
	}

	armed.Store(true)
	abortDone := make(chan struct{})
	go func() {
		a.Abort("c09 abort")
		close(abortDone)
	}()

	select {
	case <-held:
	case <-time.After(20 * time.Second):
		t.Fatal("test assumption: writeLoop should reach close() after writing the ABORT")
	}
	if n := atomic.LoadInt32(&ca.aborts); n != 1 {
		t.Fatalf("test assumption: the ABORT should have been written, got %d", n)
	}

	select {
	case r := <-blocked:
		t.Logf("blocked Write returned after the ABORT was on the wire: n=%d err=%v (state %s)",
			r.n, r.err, getAssociationStateString(a.getState()))
		if r.err == nil {
			t.Errorf("a Write that was blocked when Abort was called returned success (n=%d, err=nil) "+
				"after the ABORT had already been sent", r.n)
		}
	case <-time.After(3 * time.Second):
		// it is still blocked: fine, it will be released with an error below
	}

	close(release)
	select {
	case <-abortDone:
	case <-time.After(20 * time.Second):
		t.Fatal("Abort did not return")
	}
}
