package sctp

// C20 finding 2: Abort() hangs for ever (and so does a Write) in blocking-write mode when
// an OnBufferedAmountLow callback is refilling the stream: Abort releases the blocked
// writers while the association is still ESTABLISHED, so the released write is accepted
// instead of failing, the callback's next write blocks again, and nobody is left to
// release it: writeLoop has sent the ABORT and gone, readLoop is the goroutine that runs
// the callback, and Abort waits for readLoop.

import (
	"bytes"
	"io"
	"net"
	"os"
	"strings"
	"sync"
	"sync/atomic"
	"testing"
	"time"

	"github.com/pion/logging"
)

type h20bConn struct {
	mu      sync.Mutex
	cond    *sync.Cond
	packets [][]byte
	closed  bool
	peer    *h20bConn
	rdl     time.Time
}

func h20bNewPair() (*h20bConn, *h20bConn) {
	a := &h20bConn{}
	b := &h20bConn{}
	a.cond = sync.NewCond(&a.mu)
	b.cond = sync.NewCond(&b.mu)
	a.peer = b
	b.peer = a

	return a, b
}

func (c *h20bConn) Read(b []byte) (int, error) {
	c.mu.Lock()
	defer c.mu.Unlock()
	for {
		if len(c.packets) > 0 {
			p := c.packets[0]
			c.packets = c.packets[1:]

			return copy(b, p), nil
		}
		if c.closed {
			return 0, io.EOF
		}
		if !c.rdl.IsZero() && !time.Now().Before(c.rdl) {
			return 0, os.ErrDeadlineExceeded
		}
		c.cond.Wait()
	}
}

func (c *h20bConn) Write(b []byte) (int, error) {
	c.mu.Lock()
	closed := c.closed
	c.mu.Unlock()
	if closed {
		return 0, net.ErrClosed
	}
	cp := append([]byte(nil), b...)
	p := c.peer
	p.mu.Lock()
	if !p.closed {
		p.packets = append(p.packets, cp)
		p.cond.Broadcast()
	}
	p.mu.Unlock()

	return len(b), nil
}

func (c *h20bConn) Close() error {
	c.mu.Lock()
	defer c.mu.Unlock()
	c.closed = true
	c.cond.Broadcast()

	return nil
}
func (c *h20bConn) LocalAddr() net.Addr              { return &net.IPAddr{} }
func (c *h20bConn) RemoteAddr() net.Addr             { return &net.IPAddr{} }
func (c *h20bConn) SetDeadline(time.Time) error      { return nil }
func (c *h20bConn) SetWriteDeadline(time.Time) error { return nil }
func (c *h20bConn) SetReadDeadline(t time.Time) error {
	c.mu.Lock()
	defer c.mu.Unlock()
	c.rdl = t
	if !t.IsZero() {
		time.AfterFunc(time.Until(t), func() {
			c.mu.Lock()
			c.cond.Broadcast()
			c.mu.Unlock()
		})
	}
	c.cond.Broadcast()

	return nil
}

// h20bLogger delays (once, when armed) the goroutine that logs a message containing
// `match`: this stands for that goroutine being descheduled at that point.
type h20bLogger struct {
	armed   atomic.Bool
	match   string
	reached chan struct{}
	release chan struct{}
}

func (l *h20bLogger) hook(format string) {
	if strings.Contains(format, l.match) && l.armed.CompareAndSwap(true, false) {
		close(l.reached)
		<-l.release
	}
}
func (l *h20bLogger) Trace(string)                   {}
func (l *h20bLogger) Tracef(string, ...any)          {}
func (l *h20bLogger) Debug(string)                   {}
func (l *h20bLogger) Debugf(format string, _ ...any) { l.hook(format) }
func (l *h20bLogger) Info(string)                    {}
func (l *h20bLogger) Infof(string, ...any)           {}
func (l *h20bLogger) Warn(string)                    {}
func (l *h20bLogger) Warnf(string, ...any)           {}
func (l *h20bLogger) Error(string)                   {}
func (l *h20bLogger) Errorf(string, ...any)          {}

type h20bLoggerFactory struct{ l *h20bLogger }

func (f *h20bLoggerFactory) NewLogger(string) logging.LeveledLogger { return f.l }

func TestHuntC20_2_AbortHangsWithRefillingCallbackInBlockingWriteMode(t *testing.T) {
	ca, cb := h20bNewPair()
	hl := &h20bLogger{
		match:   "closing association..",
		reached: make(chan struct{}),
		release: make(chan struct{}),
	}
	type res struct {
		a   *Association
		err error
	}
	ra := make(chan res, 1)
	rb := make(chan res, 1)
	go func() {
		a, err := Client(Config{NetConn: ca, BlockWrite: true, LoggerFactory: &h20bLoggerFactory{hl}})
		ra <- res{a, err}
	}()
	go func() {
		a, err := Server(Config{NetConn: cb, LoggerFactory: logging.NewDefaultLoggerFactory()})
		rb <- res{a, err}
	}()
	var a, b *Association
	for i := 0; i < 2; i++ {
		select {
		case r := <-ra:
			if r.err != nil {
				t.Fatalf("client: %v", r.err)
			}
			a = r.a
		case r := <-rb:
			if r.err != nil {
				t.Fatalf("server: %v", r.err)
			}
			b = r.a
		case <-time.After(30 * time.Second):
			t.Fatal("handshake timeout")
		}
	}
	defer func() { _ = b.Close() }()

	// the peer reads whatever comes
	go func() {
		for {
			sb, err := b.AcceptStream()
			if err != nil {
				return
			}
			go func() {
				buf := make([]byte, 70000)
				for {
					if _, _, err := sb.ReadSCTP(buf); err != nil {
						return
					}
				}
			}()
		}
	}()

	s, err := a.OpenStream(1, PayloadTypeWebRTCBinary)
	if err != nil {
		t.Fatal(err)
	}

	// The usual flow-control pattern: when the buffered amount falls below the
	// threshold, refill (here: two more messages), giving up at the first error.
	inCallback := make(chan struct{})
	writeResults := make(chan error, 4)
	callbackReturned := make(chan struct{})
	var once sync.Once
	refill := bytes.Repeat([]byte{'r'}, 1000)
	s.SetBufferedAmountLowThreshold(19000)
	s.OnBufferedAmountLow(func() {
		first := false
		once.Do(func() { first = true })
		if !first {
			return
		}
		close(inCallback)
		defer close(callbackReturned)
		for i := 0; i < 2; i++ {
			_, err := s.WriteSCTP(refill, PayloadTypeWebRTCBinary)
			writeResults <- err
			if err != nil {
				return
			}
		}
	})

	// 20 kB: far more than the initial congestion window, the queue stays non-empty
	// for several round trips. This first write does not block (nothing is pending).
	if _, err = s.WriteSCTP(bytes.Repeat([]byte{'d'}, 20000), PayloadTypeWebRTCBinary); err != nil {
		t.Fatal(err)
	}

	select {
	case <-inCallback:
	case <-time.After(20 * time.Second):
		t.Fatal("callback never ran")
	}
	// the callback's first write is now waiting for the pending queue to drain
	select {
	case err := <-writeResults:
		t.Fatalf("test assumption broken: the write in the callback did not block (err=%v)", err)
	case <-time.After(500 * time.Millisecond):
	}

	// Abort from another goroutine. One schedule deviation: writeLoop is delayed
	// between writing the ABORT packet and marking the association closed (it logs
	// "closing association.." there).
	hl.armed.Store(true)
	abortDone := make(chan struct{})
	go func() {
		a.Abort("bye")
		close(abortDone)
	}()

	select {
	case <-hl.reached:
	case <-abortDone:
		t.Fatal("test assumption broken: Abort returned before writeLoop closed the association")
	case <-time.After(20 * time.Second):
		t.Fatal("writeLoop never got to close the association")
	}

	// Abort releases the blocked writers. What does the released write report?
	var firstErr error
	select {
	case firstErr = <-writeResults:
	case <-time.After(20 * time.Second):
		close(hl.release)
		t.Fatal("the write blocked inside the callback was not released by Abort")
	}
	t.Logf("write released by Abort returned err=%v", firstErr)

	// end of the schedule deviation: writeLoop goes on and closes the association
	time.Sleep(50 * time.Millisecond)
	close(hl.release)

	select {
	case <-abortDone:
	case <-time.After(15 * time.Second):
		hung := "callback still running"
		select {
		case <-callbackReturned:
			hung = "callback returned"
		default:
		}
		// get everything unstuck again (Close marks the association closed first)
		go func() { _ = a.Close() }()
		select {
		case <-abortDone:
		case <-time.After(15 * time.Second):
		}
		t.Fatalf("Abort did not return within 15 s after writeLoop had closed the association (%s; "+
			"the write released by Abort returned err=%v instead of failing, the callback's next write blocked for good)",
			hung, firstErr)
	}
}
