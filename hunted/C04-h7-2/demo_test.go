package sctp

import (
	"context"
	"net"
	"sync"
	"sync/atomic"
	"testing"
	"time"

	"github.com/pion/logging"
)

// Finding C04/2: a single lost COOKIE ACK makes the handshake fail for good when the
// side that is already ESTABLISHED starts a graceful Shutdown before the retransmitted
// COOKIE ECHO arrives.
//
// handleCookieEcho answers a duplicate COOKIE ECHO (same cookie) with COOKIE ACK only in
// the ESTABLISHED state; in SHUTDOWN-PENDING / SHUTDOWN-SENT it drops it silently. The
// client retransmits COOKIE ECHO eight times, every one of them arrives, none is
// answered: the connect call fails with "handshake failed (COOKIE ECHO)" and the
// server's Shutdown never completes (its SHUTDOWN is ignored by a peer that is still in
// COOKIE-ECHOED).

type c04h2Conn struct {
	in     chan []byte
	out    func([]byte)
	closed chan struct{}
	once   sync.Once
}

func newC04h2Conn() *c04h2Conn {
	return &c04h2Conn{in: make(chan []byte, 256), closed: make(chan struct{})}
}

func (c *c04h2Conn) Read(b []byte) (int, error) {
	select {
	case p := <-c.in:
		return copy(b, p), nil
	case <-c.closed:
		return 0, net.ErrClosed
	}
}

func (c *c04h2Conn) Write(b []byte) (int, error) {
	select {
	case <-c.closed:
		return 0, net.ErrClosed
	default:
	}
	cp := make([]byte, len(b))
	copy(cp, b)
	c.out(cp)

	return len(b), nil
}

func (c *c04h2Conn) deliver(p []byte) {
	select {
	case c.in <- p:
	case <-c.closed:
	}
}

func (c *c04h2Conn) Close() error                     { c.once.Do(func() { close(c.closed) }); return nil }
func (c *c04h2Conn) LocalAddr() net.Addr              { return nil }
func (c *c04h2Conn) RemoteAddr() net.Addr             { return nil }
func (c *c04h2Conn) SetDeadline(time.Time) error      { return nil }
func (c *c04h2Conn) SetReadDeadline(time.Time) error  { return nil }
func (c *c04h2Conn) SetWriteDeadline(time.Time) error { return nil }

func TestZZHuntC04_2_LostCookieAckAndEarlyShutdown(t *testing.T) {
	const rtoMax = 100 // ms; T1-cookie: 1 + 8 COOKIE ECHOs, 100 ms apart

	silent := logging.NewDefaultLoggerFactory()
	silent.DefaultLogLevel = logging.LogLevelDisabled

	ca, cb := newC04h2Conn(), newC04h2Conn()
	defer ca.Close() //nolint:errcheck
	defer cb.Close() //nolint:errcheck

	var nCookieEchoDelivered, nCookieAckSeen, nCookieAckLost int32
	ca.out = func(p []byte) { // client -> server: nothing is lost
		if len(p) > 12 && chunkType(p[12]) == ctCookieEcho {
			atomic.AddInt32(&nCookieEchoDelivered, 1)
		}
		cb.deliver(p)
	}
	cb.out = func(p []byte) { // server -> client: only the first COOKIE ACK is lost
		if len(p) > 12 && chunkType(p[12]) == ctCookieAck {
			if atomic.AddInt32(&nCookieAckSeen, 1) == 1 {
				atomic.AddInt32(&nCookieAckLost, 1)

				return
			}
		}
		ca.deliver(p)
	}

	type result struct {
		a   *Association
		err error
	}
	cliCh := make(chan result, 1)
	go func() {
		a, err := ClientWithOptions(WithNetConn(ca), WithLoggerFactory(silent), WithName("client"),
			WithRTOMax(rtoMax))
		cliCh <- result{a, err}
	}()

	srv, err := ServerWithOptions(WithNetConn(cb), WithLoggerFactory(silent), WithName("server"),
		WithRTOMax(rtoMax))
	if err != nil {
		t.Fatalf("server: %v", err)
	}

	// The server application is done at once (nothing to send) and shuts down gracefully.
	shutCh := make(chan error, 1)
	go func() {
		ctx, cancel := context.WithTimeout(context.Background(), 6*time.Second)
		defer cancel()
		shutCh <- srv.Shutdown(ctx)
	}()

	var cli result
	select {
	case cli = <-cliCh:
	case <-time.After(20 * time.Second):
		t.Fatal("client connect call did not return")
	}
	t.Logf("client connect returned: err=%v; COOKIE ECHOs delivered to the server: %d, "+
		"COOKIE ACKs sent by the server: %d (lost: %d)",
		cli.err, atomic.LoadInt32(&nCookieEchoDelivered), atomic.LoadInt32(&nCookieAckSeen),
		atomic.LoadInt32(&nCookieAckLost))
	if cli.err != nil {
		t.Errorf("one lost COOKIE ACK: the client's connect call failed with %q although each of its %d COOKIE ECHOs "+
			"reached a live server (which sent %d COOKIE ACK in total)",
			cli.err, atomic.LoadInt32(&nCookieEchoDelivered), atomic.LoadInt32(&nCookieAckSeen))
	}

	select {
	case err := <-shutCh:
		if err != nil {
			t.Errorf("server Shutdown did not complete: %v", err)
		}
	case <-time.After(10 * time.Second):
		t.Error("server Shutdown did not return")
	}
	if cli.a != nil {
		_ = cli.a.Close()
	}
	_ = srv.Close()
}
