package sctp

import (
	"encoding/binary"
	"errors"
	"net"
	"sync"
	"testing"
	"time"

	"github.com/pion/logging"
)

// hc03bConn is an in-memory net.Conn whose other end is driven by the test.
type hc03bConn struct {
	in        chan []byte // test -> association
	out       chan []byte // association -> test
	closed    chan struct{}
	closeOnce sync.Once
}

func newHC03bConn() *hc03bConn {
	return &hc03bConn{in: make(chan []byte, 1024), out: make(chan []byte, 1024), closed: make(chan struct{})}
}

func (c *hc03bConn) Read(p []byte) (int, error) {
	select {
	case b := <-c.in:
		return copy(p, b), nil
	case <-c.closed:
		return 0, errors.New("hc03bConn closed")
	}
}

func (c *hc03bConn) Write(p []byte) (int, error) {
	b := append([]byte(nil), p...)
	select {
	case c.out <- b:
		return len(p), nil
	case <-c.closed:
		return 0, errors.New("hc03bConn closed")
	}
}

func (c *hc03bConn) Close() error                     { c.closeOnce.Do(func() { close(c.closed) }); return nil }
func (c *hc03bConn) LocalAddr() net.Addr              { return nil }
func (c *hc03bConn) RemoteAddr() net.Addr             { return nil }
func (c *hc03bConn) SetDeadline(time.Time) error      { return nil }
func (c *hc03bConn) SetReadDeadline(time.Time) error  { return nil }
func (c *hc03bConn) SetWriteDeadline(time.Time) error { return nil }

func (c *hc03bConn) inject(t *testing.T, p *packet) {
	t.Helper()
	raw, err := p.marshal(true)
	if err != nil {
		t.Fatalf("marshal: %v", err)
	}
	c.in <- raw
}

// next returns the next outbound packet containing a chunk accepted by match, or nil after d.
func (c *hc03bConn) next(t *testing.T, d time.Duration, match func(chunk) bool) *packet {
	t.Helper()
	deadline := time.After(d)
	for {
		select {
		case raw := <-c.out:
			p := &packet{}
			if err := p.unmarshal(true, raw); err != nil {
				t.Fatalf("association sent an unparsable packet: %v", err)
			}
			for _, ch := range p.chunks {
				if match(ch) {
					return p
				}
			}
		case <-deadline:
			return nil
		}
	}
}

// hc03bEstablish runs the client handshake against the test and returns the association
// together with the tag to put into packets sent to it.
func hc03bEstablish(t *testing.T, conn *hc03bConn) (*Association, uint32) {
	t.Helper()
	type res struct {
		a   *Association
		err error
	}
	done := make(chan res, 1)
	go func() {
		a, err := Client(Config{NetConn: conn, LoggerFactory: logging.NewDefaultLoggerFactory(), Name: "client"})
		done <- res{a, err}
	}()

	initPkt := conn.next(t, 20*time.Second, func(c chunk) bool { _, ok := c.(*chunkInit); return ok })
	if initPkt == nil {
		t.Fatal("no INIT")
	}
	clientTag := initPkt.chunks[0].(*chunkInit).initiateTag //nolint:forcetypeassert

	initAck := &chunkInitAck{}
	initAck.initiateTag = 0x11111111
	initAck.initialTSN = 1000
	initAck.numOutboundStreams = 100
	initAck.numInboundStreams = 100
	initAck.advertisedReceiverWindowCredit = 512 * 1024
	initAck.params = []param{&paramStateCookie{cookie: []byte("peer-cookie-0123456789")}}
	setSupportedExtensions(&initAck.chunkInitCommon, false)
	conn.inject(t, &packet{sourcePort: 5000, destinationPort: 5000, verificationTag: clientTag, chunks: []chunk{initAck}})
	if conn.next(t, 20*time.Second, func(c chunk) bool { _, ok := c.(*chunkCookieEcho); return ok }) == nil {
		t.Fatal("no COOKIE ECHO")
	}
	conn.inject(t, &packet{sourcePort: 5000, destinationPort: 5000, verificationTag: clientTag, chunks: []chunk{&chunkCookieAck{}}})
	select {
	case r := <-done:
		if r.err != nil {
			t.Fatalf("handshake failed: %v", r.err)
		}

		return r.a, clientTag
	case <-time.After(20 * time.Second):
		t.Fatal("handshake did not complete")
	}

	return nil, 0
}

func hc03bIsData(c chunk) bool { _, ok := c.(*chunkPayloadData); return ok }

// timeToRetransmission writes one message, lets the peer "lose" it and measures how long
// the association takes to send it again.
func hc03bTimeToRetransmission(t *testing.T, conn *hc03bConn, assoc *Association, limit time.Duration) (time.Duration, bool) {
	t.Helper()
	s, err := assoc.OpenStream(1, PayloadTypeWebRTCBinary)
	if err != nil {
		t.Fatal(err)
	}
	if _, err = s.WriteSCTP([]byte("hello"), PayloadTypeWebRTCBinary); err != nil {
		t.Fatal(err)
	}
	first := conn.next(t, 20*time.Second, hc03bIsData)
	if first == nil {
		t.Fatal("the message was not sent at all")
	}
	start := time.Now()
	// the peer never saw it (lost on the wire): wait for the retransmission
	if conn.next(t, limit, hc03bIsData) == nil {
		return limit, false
	}

	return time.Since(start), true
}

// A HEARTBEAT ACK that answers no HEARTBEAT this endpoint ever sent is taken as an RTT
// sample: the 8 bytes of its Heartbeat Info are read as the send time. One such packet
// (info = 1 ns after the Unix epoch) sets SRTT to ~56 years and RTO to RTO.Max (60 s), and
// pushes the tail-loss probe out of reach: loss recovery, which takes 1 s on an untouched
// association, takes a minute from then on, for hundreds of round trips.
func TestHuntC03_2_UnsolicitedHeartbeatAckPoisonsRTO(t *testing.T) {
	t.Run("control: no HEARTBEAT ACK", func(t *testing.T) {
		conn := newHC03bConn()
		assoc, _ := hc03bEstablish(t, conn)
		defer assoc.Close() //nolint:errcheck
		d, ok := hc03bTimeToRetransmission(t, conn, assoc, 10*time.Second)
		if !ok {
			t.Fatalf("control run: no retransmission within 10 s")
		}
		t.Logf("control run: lost DATA retransmitted after %v (RTO=%v ms)", d, assoc.rtoMgr.getRTO())
	})

	t.Run("after an unsolicited HEARTBEAT ACK", func(t *testing.T) {
		conn := newHC03bConn()
		assoc, tag := hc03bEstablish(t, conn)
		defer assoc.Close() //nolint:errcheck

		rtoBefore, srttBefore := assoc.rtoMgr.getRTO(), assoc.SRTT()

		// this endpoint has sent no HEARTBEAT at all
		info := make([]byte, 8)
		binary.BigEndian.PutUint64(info, 1)
		conn.inject(t, &packet{
			sourcePort: 5000, destinationPort: 5000, verificationTag: tag,
			chunks: []chunk{&chunkHeartbeatAck{params: []param{&paramHeartbeatInfo{heartbeatInformation: info}}}},
		})
		// a HEARTBEAT behind it, to know when the HEARTBEAT ACK has been processed
		conn.inject(t, &packet{
			sourcePort: 5000, destinationPort: 5000, verificationTag: tag,
			chunks: []chunk{&chunkHeartbeat{params: []param{&paramHeartbeatInfo{heartbeatInformation: []byte("sync")}}}},
		})
		if conn.next(t, 20*time.Second, func(c chunk) bool { _, ok := c.(*chunkHeartbeatAck); return ok }) == nil {
			t.Fatal("no answer to the HEARTBEAT")
		}

		rtoAfter, srttAfter := assoc.rtoMgr.getRTO(), assoc.SRTT()
		t.Logf("RTO %v ms -> %v ms, SRTT %v ms -> %v ms", rtoBefore, rtoAfter, srttBefore, srttAfter)
		if rtoAfter != rtoBefore || srttAfter != srttBefore {
			t.Errorf("a HEARTBEAT ACK for a HEARTBEAT that was never sent changed the retransmission timer state: "+
				"RTO %v ms -> %v ms, SRTT %v ms -> %v ms", rtoBefore, rtoAfter, srttBefore, srttAfter)
		}

		d, ok := hc03bTimeToRetransmission(t, conn, assoc, 10*time.Second)
		if !ok {
			t.Errorf("lost DATA not retransmitted within 10 s (the control run needs about 1 s)")
		} else {
			t.Logf("lost DATA retransmitted after %v", d)
		}
	})
}
