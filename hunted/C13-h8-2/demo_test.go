// SPDX-FileCopyrightText: 2026 The Pion community <https://pion.ly>
// SPDX-License-Identifier: MIT

package sctp

import (
	"encoding/binary"
	"io"
	"net"
	"sync"
	"testing"
	"time"

	"github.com/pion/logging"
	"github.com/stretchr/testify/require"
)

// huntC13bConn is an in-memory packet conn with NO buffering in either direction:
// a Write blocks until the test takes the packet (a transport exerting back
// pressure), and a push into in returns only when the read loop is back in Read,
// that is when everything pushed before has been handled completely.
type huntC13bConn struct {
	in      chan []byte
	out     chan []byte
	writing chan struct{} // one token per Write entered
	closed  chan struct{}
	once    sync.Once
}

func newHuntC13bConn() *huntC13bConn {
	return &huntC13bConn{
		in:      make(chan []byte),
		out:     make(chan []byte),
		writing: make(chan struct{}, 64),
		closed:  make(chan struct{}),
	}
}

func (c *huntC13bConn) Read(b []byte) (int, error) {
	select {
	case p := <-c.in:
		return copy(b, p), nil
	case <-c.closed:
		return 0, io.EOF
	}
}

func (c *huntC13bConn) Write(b []byte) (int, error) {
	cp := append([]byte{}, b...)
	c.writing <- struct{}{}
	select {
	case c.out <- cp:
		return len(b), nil
	case <-c.closed:
		return 0, io.ErrClosedPipe
	}
}

func (c *huntC13bConn) Close() error {
	c.once.Do(func() { close(c.closed) })

	return nil
}

func (c *huntC13bConn) LocalAddr() net.Addr              { return &net.UDPAddr{} }
func (c *huntC13bConn) RemoteAddr() net.Addr             { return &net.UDPAddr{} }
func (c *huntC13bConn) SetDeadline(time.Time) error      { return nil }
func (c *huntC13bConn) SetReadDeadline(time.Time) error  { return nil }
func (c *huntC13bConn) SetWriteDeadline(time.Time) error { return nil }

func huntC13bInit(t *testing.T, tag uint32, zeroChecksumAcceptable bool) []byte {
	t.Helper()
	init := &chunkInit{}
	init.initiateTag = tag
	init.initialTSN = tag + 7
	init.numOutboundStreams = 1024
	init.numInboundStreams = 1024
	init.advertisedReceiverWindowCredit = 128 * 1024
	setSupportedExtensions(&init.chunkInitCommon, false)
	if zeroChecksumAcceptable {
		init.params = append(init.params, &paramZeroChecksumAcceptable{edmid: dtlsErrorDetectionMethod})
	}
	pkt := &packet{
		sourcePort:      defaultSCTPSrcDstPort,
		destinationPort: defaultSCTPSrcDstPort,
		chunks:          []chunk{init},
	}
	raw, err := pkt.marshal(true)
	require.NoError(t, err)

	return raw
}

func huntC13bPush(t *testing.T, c *huntC13bConn, raw []byte, what string) {
	t.Helper()
	select {
	case c.in <- raw:
	case <-time.After(20 * time.Second):
		require.FailNow(t, "the read loop did not take "+what)
	}
}

func huntC13bPull(t *testing.T, c *huntC13bConn, what string) []byte {
	t.Helper()
	select {
	case raw := <-c.out:
		return raw
	case <-time.After(20 * time.Second):
		require.FailNow(t, "the write loop did not emit "+what)
	}

	return nil
}

// The checksum mode of a queued control packet is decided when the write loop
// serializes it, with whatever the association-wide flag says at that moment,
// not with what the addressee of the packet advertised. Peer A (INIT without
// Zero Checksum Acceptable, initiate tag 0xA...) retransmits its INIT because
// the first INIT ACK is stuck in a back-pressured transport; before the write
// loop comes back, an INIT that does declare acceptance (another incarnation,
// tag 0xB...) is handled too. The second INIT ACK addressed to A (verification
// tag 0xA...) leaves with a zero checksum although A never advertised acceptance:
// A has to discard it.
func TestHuntC13_InitAckSerializedWithLaterInitsChecksumMode(t *testing.T) {
	const (
		tagA uint32 = 0xA0A0A0A0
		tagB uint32 = 0xB0B0B0B0
	)

	conn := newHuntC13bConn()
	defer conn.Close() //nolint:errcheck

	go func() {
		a, err := Server(Config{Name: "server", NetConn: conn, LoggerFactory: logging.NewDefaultLoggerFactory()})
		if err == nil {
			_ = a.Close()
		}
	}()

	initA := huntC13bInit(t, tagA, false)
	initB := huntC13bInit(t, tagB, true)

	// A's INIT; the write loop serializes INIT ACK #1 and blocks in Write
	huntC13bPush(t, conn, initA, "INIT A")
	select {
	case <-conn.writing:
	case <-time.After(20 * time.Second):
		require.FailNow(t, "write loop never tried to send INIT ACK #1")
	}

	// A retransmits its INIT (it has no answer yet), then the other INIT arrives.
	huntC13bPush(t, conn, initA, "INIT A (retransmission)")
	huntC13bPush(t, conn, initB, "INIT B")
	// a runt that is discarded: once it has been taken, INIT B is handled completely
	huntC13bPush(t, conn, []byte{1, 2, 3, 4}, "the runt")

	// now the transport drains
	first := huntC13bPull(t, conn, "INIT ACK #1")
	require.Equal(t, ctInitAck, chunkType(first[packetHeaderSize]))
	require.Equal(t, tagA, binary.BigEndian.Uint32(first[4:]))
	require.Equal(t, generatePacketChecksum(first), binary.LittleEndian.Uint32(first[8:]),
		"INIT ACK #1 (serialized before INIT B was seen) carries a CRC32c")

	var toA, toB []byte
	for toA == nil || toB == nil {
		raw := huntC13bPull(t, conn, "the queued INIT ACKs")
		require.Equal(t, ctInitAck, chunkType(raw[packetHeaderSize]))
		switch binary.BigEndian.Uint32(raw[4:]) {
		case tagA:
			toA = raw
		case tagB:
			toB = raw
		default:
			require.FailNow(t, "unexpected verification tag")
		}
	}

	t.Logf("INIT ACK to B (advertised acceptance): checksum field %#08x", binary.LittleEndian.Uint32(toB[8:]))
	t.Logf("INIT ACK to A (did NOT advertise)    : checksum field %#08x, correct CRC32c %#08x",
		binary.LittleEndian.Uint32(toA[8:]), generatePacketChecksum(toA))

	// what A, which verifies checksums, does with it
	p := &packet{}
	errA := p.unmarshal(true, toA)

	require.Equal(t, generatePacketChecksum(toA), binary.LittleEndian.Uint32(toA[8:]),
		"the INIT ACK addressed to A (verification tag = A's initiate tag) must carry a correct CRC32c: "+
			"A's INIT had no Zero Checksum Acceptable parameter")
	require.NoError(t, errA)
}
