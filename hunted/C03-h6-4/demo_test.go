package sctp

import (
	"errors"
	"net"
	"sync"
	"testing"
	"time"

	"github.com/pion/logging"
)

// hc03dConn is an in-memory net.Conn whose other end is driven by the test,
// packet by packet.
type hc03dConn struct {
	in        chan []byte // test -> association
	out       chan []byte // association -> test
	closed    chan struct{}
	closeOnce sync.Once
}

func newHC03dConn() *hc03dConn {
	return &hc03dConn{in: make(chan []byte, 1024), out: make(chan []byte, 1024), closed: make(chan struct{})}
}

func (c *hc03dConn) Read(p []byte) (int, error) {
	select {
	case b := <-c.in:
		return copy(p, b), nil
	case <-c.closed:
		return 0, errors.New("hc03dConn closed")
	}
}

func (c *hc03dConn) Write(p []byte) (int, error) {
	b := append([]byte(nil), p...)
	select {
	case c.out <- b:
		return len(p), nil
	case <-c.closed:
		return 0, errors.New("hc03dConn closed")
	}
}

func (c *hc03dConn) Close() error                     { c.closeOnce.Do(func() { close(c.closed) }); return nil }
func (c *hc03dConn) LocalAddr() net.Addr              { return nil }
func (c *hc03dConn) RemoteAddr() net.Addr             { return nil }
func (c *hc03dConn) SetDeadline(time.Time) error      { return nil }
func (c *hc03dConn) SetReadDeadline(time.Time) error  { return nil }
func (c *hc03dConn) SetWriteDeadline(time.Time) error { return nil }

// inject marshals the packet (with a valid checksum) and hands it to the association.
func (c *hc03dConn) inject(t *testing.T, p *packet) {
	t.Helper()
	raw, err := p.marshal(true)
	if err != nil {
		t.Fatalf("marshal: %v", err)
	}
	c.in <- raw
}

// expect waits for the next outbound packet whose first chunk satisfies match.
func (c *hc03dConn) expect(t *testing.T, what string, match func(chunk) bool) *packet {
	t.Helper()
	deadline := time.After(20 * time.Second)
	for {
		select {
		case raw := <-c.out:
			p := &packet{}
			if err := p.unmarshal(true, raw); err != nil {
				t.Fatalf("association sent an unparsable packet: %v", err)
			}
			for _, ch := range p.chunks {
				if match(ch) {
					return p
				}
			}
		case <-deadline:
			t.Fatalf("timed out waiting for %s from the association", what)
		}
	}
}

// FORWARD TSN is handled in every association state: handleForwardTSN has no state check
// (DATA and SACK are ignored outside the states in which data can flow). A FORWARD TSN that
// arrives while the client is still in COOKIE-ECHOED moves the cumulative TSN point that was
// just initialised from the peer's INIT ACK. Once the handshake completes, the peer's real
// DATA (starting at its initial TSN) is taken for duplicates and never delivered.
func TestHuntC03_4_ForwardTSNBeforeEstablishedMovesCumulativeTSN(t *testing.T) {
	conn := newHC03dConn()
	type res struct {
		a   *Association
		err error
	}
	done := make(chan res, 1)
	go func() {
		a, err := Client(Config{NetConn: conn, LoggerFactory: logging.NewDefaultLoggerFactory(), Name: "client"})
		done <- res{a, err}
	}()

	const (
		peerTag = uint32(0x11111111)
		peerTSN = uint32(1000)
	)

	initPkt := conn.expect(t, "INIT", func(c chunk) bool { _, ok := c.(*chunkInit); return ok })
	clientTag := initPkt.chunks[0].(*chunkInit).initiateTag //nolint:forcetypeassert

	initAck := &chunkInitAck{}
	initAck.initiateTag = peerTag
	initAck.initialTSN = peerTSN
	initAck.numOutboundStreams = 100
	initAck.numInboundStreams = 100
	initAck.advertisedReceiverWindowCredit = 512 * 1024
	initAck.params = []param{&paramStateCookie{cookie: []byte("peer-cookie-0123456789")}}
	setSupportedExtensions(&initAck.chunkInitCommon, false)
	conn.inject(t, &packet{sourcePort: 5000, destinationPort: 5000, verificationTag: clientTag, chunks: []chunk{initAck}})

	// the client is in COOKIE-ECHOED now
	conn.expect(t, "COOKIE ECHO", func(c chunk) bool { _, ok := c.(*chunkCookieEcho); return ok })

	// a FORWARD TSN before the association exists (say, a left-over of an earlier
	// association on the same transport)
	conn.inject(t, &packet{
		sourcePort: 5000, destinationPort: 5000, verificationTag: 0x0badbad0,
		chunks: []chunk{&chunkForwardTSN{newCumulativeTSN: 5000}},
	})
	// a HEARTBEAT behind it, to know when it has been processed
	conn.inject(t, &packet{
		sourcePort: 5000, destinationPort: 5000, verificationTag: clientTag,
		chunks: []chunk{&chunkHeartbeat{params: []param{&paramHeartbeatInfo{heartbeatInformation: []byte("sync")}}}},
	})
	conn.expect(t, "HEARTBEAT ACK", func(c chunk) bool { _, ok := c.(*chunkHeartbeatAck); return ok })

	conn.inject(t, &packet{sourcePort: 5000, destinationPort: 5000, verificationTag: clientTag, chunks: []chunk{&chunkCookieAck{}}})
	var assoc *Association
	select {
	case r := <-done:
		if r.err != nil {
			t.Fatalf("handshake failed: %v", r.err)
		}
		assoc = r.a
	case <-time.After(20 * time.Second):
		t.Fatal("handshake did not complete")
	}
	defer assoc.Close() //nolint:errcheck

	// the peer's first DATA chunk carries the initial TSN announced in its INIT ACK
	conn.inject(t, &packet{
		sourcePort: 5000, destinationPort: 5000, verificationTag: clientTag,
		chunks: []chunk{&chunkPayloadData{
			tsn: peerTSN, streamIdentifier: 1, streamSequenceNumber: 0,
			beginningFragment: true, endingFragment: true, immediateSack: true,
			payloadType: PayloadTypeWebRTCBinary, userData: []byte("hello"),
		}},
	})

	sackPkt := conn.expect(t, "SACK", func(c chunk) bool { _, ok := c.(*chunkSelectiveAck); return ok })
	var sack *chunkSelectiveAck
	for _, c := range sackPkt.chunks {
		if s, ok := c.(*chunkSelectiveAck); ok {
			sack = s
		}
	}
	if sack.cumulativeTSNAck != peerTSN {
		t.Errorf("the peer's first DATA (TSN %d, the initial TSN of its INIT ACK) is answered with cumulative TSN ack %d: "+
			"the FORWARD TSN received in COOKIE-ECHOED moved the cumulative TSN point", peerTSN, sack.cumulativeTSNAck)
	}

	accepted := make(chan *Stream, 1)
	go func() {
		if s, err := assoc.AcceptStream(); err == nil {
			accepted <- s
		}
	}()
	select {
	case s := <-accepted:
		buf := make([]byte, 64)
		n, _, err := s.ReadSCTP(buf)
		if err != nil || string(buf[:n]) != "hello" {
			t.Errorf("read %q, %v", buf[:n], err)
		}
	case <-time.After(5 * time.Second):
		t.Errorf("the peer's first message was never delivered (no stream accepted within 5 s)")
	}
}
