// SPDX-FileCopyrightText: 2026 The Pion community <https://pion.ly>
// SPDX-License-Identifier: MIT

// Property C01 - finding 1: a SACK is built with one gap ack block per hole, however
// many there are. With more than ~2040 holes the SACK packet is larger than the
// 8192-byte buffer (receiveMTU) the peer reads inbound packets into - and larger than
// the MTU - so the data sender can never read a SACK again and the transfer stops for
// good.
//
//   TestHuntC01_1_SackLargerThanReceiveBuffer_NoLossPausedReader  no packet loss at all (FAILS)
//   TestHuntC01_1_Control_PausedReaderFewHoles                    its control            (passes)
//   TestHuntC01_1_SackLargerThanReceiveBuffer                     bounded loss, MTU 48    (FAILS)
//   TestHuntC01_1_SackLargerThanReceiveBuffer_DefaultMTU          bounded loss, MTU 1191  (FAILS)
//   TestHuntC01_1_Control_FewHoles                                their control          (passes)

package sctp

import (
	"encoding/binary"
	"fmt"
	"io"
	"net"
	"sync"
	"sync/atomic"
	"testing"
	"time"

	"github.com/pion/logging"
)

// hunt1End is one end of an in-memory datagram pipe. Like a UDP socket it keeps
// datagram boundaries and silently truncates a datagram that is larger than the
// buffer handed to Read. inFilter decides, at the moment a datagram is about to be
// received by this end, whether it arrives (true) or was lost on the way (false).
type hunt1End struct {
	mu       sync.Mutex
	cond     *sync.Cond
	q        [][]byte
	closed   bool
	peer     *hunt1End
	inFilter func(p []byte) bool
}

func newHunt1Pipe() (*hunt1End, *hunt1End) {
	a, b := &hunt1End{}, &hunt1End{}
	a.cond = sync.NewCond(&a.mu)
	b.cond = sync.NewCond(&b.mu)
	a.peer, b.peer = b, a

	return a, b
}

func (c *hunt1End) Read(b []byte) (int, error) {
	c.mu.Lock()
	defer c.mu.Unlock()
	for {
		if len(c.q) > 0 {
			p := c.q[0]
			c.q = c.q[1:]
			if c.inFilter != nil && !c.inFilter(p) {
				continue // lost on the way
			}

			return copy(b, p), nil
		}
		if c.closed {
			return 0, io.EOF
		}
		c.cond.Wait()
	}
}

func (c *hunt1End) Write(b []byte) (int, error) {
	c.mu.Lock()
	closed := c.closed
	c.mu.Unlock()
	if closed {
		return 0, io.ErrClosedPipe
	}
	p := append([]byte(nil), b...)
	c.peer.mu.Lock()
	if !c.peer.closed {
		c.peer.q = append(c.peer.q, p)
		c.peer.cond.Signal()
	}
	c.peer.mu.Unlock()

	return len(b), nil
}

func (c *hunt1End) Close() error {
	c.mu.Lock()
	c.closed = true
	c.cond.Broadcast()
	c.mu.Unlock()

	return nil
}

func (c *hunt1End) LocalAddr() net.Addr              { return &net.UDPAddr{} }
func (c *hunt1End) RemoteAddr() net.Addr             { return &net.UDPAddr{} }
func (c *hunt1End) SetDeadline(time.Time) error      { return nil }
func (c *hunt1End) SetReadDeadline(time.Time) error  { return nil }
func (c *hunt1End) SetWriteDeadline(time.Time) error { return nil }

// hunt1FirstDataTSN returns the TSN of the first chunk of the packet if that is a
// DATA / I-DATA chunk.
func hunt1FirstDataTSN(p []byte) (uint32, bool) {
	if len(p) < 12+4+4 {
		return 0, false
	}
	if t := chunkType(p[12]); t != ctPayloadData && t != ctIData {
		return 0, false
	}

	return binary.BigEndian.Uint32(p[16:]), true
}

type hunt1Result struct {
	delivered     int   // messages read, in order and intact
	atLossEnd     int   // messages read at the moment the network became perfect
	maxFromB      int   // largest packet the receiver sent
	tooBigFromB   int64 // packets the receiver sent that exceed the sender's 8192-byte read buffer
	tooBigAfter   int64 // ... of which after the network became perfect
	t3AfterLoss   uint64
	distinctDrops int
}

// hunt1Run sends nMsgs small messages on one reliable ordered stream from A to B
// (one DATA chunk per packet at this MTU). All writes are accepted up front.
//
// Phase 1 (clean): until slow start has opened A's congestion window.
// Phase 2 (lossy): DATA packets A->B with an odd TSN are lost, originals and
// retransmissions alike, but at most maxDistinctDrops different TSNs are affected.
// The phase lasts until A's T3-rtx timer has expired twice.
// Phase 3 (perfect): nothing is lost, duplicated, reordered or delayed any more, in
// either direction, for `wait`.
//
// Packets B->A are never lost in any phase.
func hunt1Run(t *testing.T, mtu, recvBuf, startCwnd uint32, msgSize, nMsgs, maxDistinctDrops int, wait time.Duration) hunt1Result {
	t.Helper()

	ca, cb := newHunt1Pipe()

	var lossy, lossOver atomic.Bool
	var maxFromB, tooBigFromB, tooBigAfter atomic.Int64
	var dropMu sync.Mutex
	dropped := map[uint32]struct{}{}

	cb.inFilter = func(p []byte) bool { // A -> B
		if !lossy.Load() {
			return true
		}
		tsn, ok := hunt1FirstDataTSN(p)
		if !ok || tsn%2 == 0 {
			return true
		}
		dropMu.Lock()
		defer dropMu.Unlock()
		if _, hit := dropped[tsn]; hit {
			return false
		}
		if len(dropped) < maxDistinctDrops {
			dropped[tsn] = struct{}{}

			return false
		}

		return true
	}
	ca.inFilter = func(p []byte) bool { // B -> A : never lost, only observed
		if int64(len(p)) > maxFromB.Load() {
			maxFromB.Store(int64(len(p)))
		}
		if len(p) > int(receiveMTU) {
			tooBigFromB.Add(1)
			if lossOver.Load() {
				tooBigAfter.Add(1)
			}
		}

		return true
	}

	lf := logging.NewDefaultLoggerFactory()
	lf.DefaultLogLevel = logging.LogLevelDisabled

	type res struct {
		a   *Association
		err error
	}
	chA, chB := make(chan res, 1), make(chan res, 1)
	go func() {
		a, err := ClientWithOptions(WithName("A"), WithNetConn(ca), WithLoggerFactory(lf),
			WithMTU(mtu), WithMaxReceiveBufferSize(recvBuf), WithEnableInterleaving(false), WithRTOMax(2000))
		chA <- res{a, err}
	}()
	go func() {
		a, err := ServerWithOptions(WithName("B"), WithNetConn(cb), WithLoggerFactory(lf),
			WithMTU(mtu), WithMaxReceiveBufferSize(recvBuf), WithEnableInterleaving(false), WithRTOMax(2000))
		chB <- res{a, err}
	}()
	ra, rb := <-chA, <-chB
	if ra.err != nil || rb.err != nil {
		t.Fatalf("handshake failed: %v %v", ra.err, rb.err)
	}
	a, b := ra.a, rb.a
	defer func() {
		_ = ca.Close()
		_ = cb.Close()
		_ = a.Close()
		_ = b.Close()
	}()

	sa, err := a.OpenStream(1, PayloadTypeWebRTCBinary)
	if err != nil {
		t.Fatal(err)
	}

	// reader: checks order, size, content and PPI of every message
	var nRead atomic.Int64
	readErr := make(chan error, 1)
	go func() {
		sb, err := b.AcceptStream()
		if err != nil {
			readErr <- err

			return
		}
		buf := make([]byte, 65536)
		for i := 0; i < nMsgs; i++ {
			n, ppi, err := sb.ReadSCTP(buf)
			if err != nil {
				readErr <- fmt.Errorf("read %d: %w", i, err)

				return
			}
			if n != msgSize || ppi != PayloadTypeWebRTCBinary || binary.BigEndian.Uint32(buf) != uint32(i) {
				readErr <- fmt.Errorf("message %d: got n=%d ppi=%d seq=%d", i, n, ppi, binary.BigEndian.Uint32(buf))

				return
			}
			nRead.Add(1)
		}
		readErr <- nil
	}()

	// writer: every write is accepted at once (non-blocking mode)
	msg := make([]byte, msgSize)
	for i := 0; i < nMsgs; i++ {
		binary.BigEndian.PutUint32(msg, uint32(i))
		if n, err := sa.WriteSCTP(msg, PayloadTypeWebRTCBinary); err != nil || n != msgSize {
			t.Fatalf("write %d: n=%d err=%v", i, n, err)
		}
	}

	// phase 1
	deadline := time.Now().Add(90 * time.Second)
	for a.CWND() < startCwnd && time.Now().Before(deadline) {
		time.Sleep(time.Millisecond)
	}
	if a.CWND() < startCwnd {
		t.Fatalf("cwnd did not grow (cwnd=%d read=%d)", a.CWND(), nRead.Load())
	}
	t.Logf("phase 2 (loss) begins: cwnd=%d, delivered so far %d/%d", a.CWND(), nRead.Load(), nMsgs)
	t3Before := a.stats.getNumT3Timeouts()
	lossy.Store(true)

	// phase 2
	for a.stats.getNumT3Timeouts() < t3Before+2 && time.Now().Before(deadline) {
		time.Sleep(5 * time.Millisecond)
	}
	if a.stats.getNumT3Timeouts() < t3Before+2 {
		t.Fatalf("T3-rtx did not expire twice during the lossy phase")
	}
	// ... and until nothing is on its way to B any more, so that every packet sent
	// during the lossy phase has met its fate before the phase ends
	for quiet := 0; quiet < 40 && time.Now().Before(deadline); {
		cb.mu.Lock()
		n := len(cb.q)
		cb.mu.Unlock()
		if n == 0 {
			quiet++
		} else {
			quiet = 0
		}
		time.Sleep(5 * time.Millisecond)
	}
	lossOver.Store(true)
	lossy.Store(false)
	t3AtEnd := a.stats.getNumT3Timeouts()
	atLossEnd := int(nRead.Load())
	dropMu.Lock()
	nDrops := len(dropped)
	dropMu.Unlock()
	t.Logf("phase 3 (perfect network) begins: %d distinct TSNs were lost, delivered so far %d/%d, largest packet B->A so far %d bytes",
		nDrops, atLossEnd, nMsgs, maxFromB.Load())

	// phase 3
	select {
	case err := <-readErr:
		if err != nil {
			t.Fatalf("reader: %v", err)
		}
	case <-time.After(wait):
	}

	return hunt1Result{
		delivered:     int(nRead.Load()),
		atLossEnd:     atLossEnd,
		maxFromB:      int(maxFromB.Load()),
		tooBigFromB:   tooBigFromB.Load(),
		tooBigAfter:   tooBigAfter.Load(),
		t3AfterLoss:   a.stats.getNumT3Timeouts() - t3AtEnd,
		distinctDrops: nDrops,
	}
}

const (
	hunt1MTU   = 48 // one 4-byte DATA chunk (20 bytes) per packet
	hunt1Size  = 4
	hunt1NMsgs = 120000
	hunt1Wait  = 45 * time.Second
)

// Control: the same workload, the same kind and duration of loss, but only 500
// different TSNs are hit, so the receiver's SACK stays near 2 KiB. Once the network
// is perfect everything is delivered quickly.
func TestHuntC01_1_Control_FewHoles(t *testing.T) {
	r := hunt1Run(t, hunt1MTU, initialRecvBufSize, 32*1024, hunt1Size, hunt1NMsgs, 500, hunt1Wait)
	t.Logf("%+v", r)
	if r.delivered != hunt1NMsgs {
		t.Fatalf("control: only %d of %d messages delivered", r.delivered, hunt1NMsgs)
	}
}

// Finding: 3000 different TSNs are hit. The receiver's SACK needs 3000 gap ack
// blocks (12 KiB) and no longer fits the 8192-byte buffer the sender reads packets
// into: the sender cannot read a single SACK any more and never learns what arrived.
func TestHuntC01_1_SackLargerThanReceiveBuffer(t *testing.T) {
	r := hunt1Run(t, hunt1MTU, initialRecvBufSize, 32*1024, hunt1Size, hunt1NMsgs, 3000, hunt1Wait)
	t.Logf("%+v", r)
	if r.delivered != hunt1NMsgs {
		t.Fatalf("only %d of %d accepted messages were delivered %v after the last packet loss "+
			"(%d delivered in that time; T3-rtx expired %d times in it; the receiver sent %d SACK packets "+
			"larger than the sender's %d-byte read buffer in it, largest %d bytes)",
			r.delivered, hunt1NMsgs, hunt1Wait, r.delivered-r.atLossEnd, r.t3AfterLoss, r.tooBigAfter, receiveMTU, r.maxFromB)
	}
}

// The same with the default MTU (1191) and 8 MiB receive buffers: 600-byte messages
// travel one per packet.
func TestHuntC01_1_SackLargerThanReceiveBuffer_DefaultMTU(t *testing.T) {
	const nMsgs = 90000
	r := hunt1Run(t, initialMTU, 8<<20, 5<<20, 600, nMsgs, 3000, hunt1Wait)
	t.Logf("%+v", r)
	if r.delivered != nMsgs {
		t.Fatalf("only %d of %d accepted messages were delivered %v after the last packet loss "+
			"(%d delivered in that time; T3-rtx expired %d times in it; the receiver sent %d SACK packets "+
			"larger than the sender's %d-byte read buffer in it, largest %d bytes)",
			r.delivered, nMsgs, hunt1Wait, r.delivered-r.atLossEnd, r.t3AfterLoss, r.tooBigAfter, receiveMTU, r.maxFromB)
	}
}

// hunt1PausedReader needs no packet loss at all. Two ordered reliable streams, DATA
// mode (interleaving is enabled on one side only). The reader of stream 1 is paused
// while 32768 small messages pile up for it; the reader of stream 2 keeps reading.
// Then nAlt more messages are written alternately on stream 1 and on stream 2. The
// receiver cannot place the new stream-1 chunks yet (they are 2^15 or more sequence
// numbers ahead of its paused reader) and leaves them unacknowledged, to be
// retransmitted later; it accepts the stream-2 chunks. That makes one gap ack block
// per accepted chunk. Finally the reader of stream 1 resumes and reads everything it
// can get.
func hunt1PausedReader(t *testing.T, nAlt int, wait time.Duration) (got1, got2 int, maxFromB int, tooBig int64) {
	t.Helper()
	const backlog = 1 << 15

	ca, cb := newHunt1Pipe()
	var maxB, tooBigB atomic.Int64
	ca.inFilter = func(p []byte) bool { // B -> A: only observed
		if int64(len(p)) > maxB.Load() {
			maxB.Store(int64(len(p)))
		}
		if len(p) > int(receiveMTU) {
			tooBigB.Add(1)
		}

		return true
	}

	lf := logging.NewDefaultLoggerFactory()
	lf.DefaultLogLevel = logging.LogLevelDisabled
	type res struct {
		a   *Association
		err error
	}
	chA, chB := make(chan res, 1), make(chan res, 1)
	go func() {
		a, err := ClientWithOptions(WithName("A"), WithNetConn(ca), WithLoggerFactory(lf),
			WithEnableInterleaving(false), WithRTOMax(2000))
		chA <- res{a, err}
	}()
	go func() {
		a, err := ServerWithOptions(WithName("B"), WithNetConn(cb), WithLoggerFactory(lf), WithRTOMax(2000))
		chB <- res{a, err}
	}()
	ra, rb := <-chA, <-chB
	if ra.err != nil || rb.err != nil {
		t.Fatalf("handshake failed: %v %v", ra.err, rb.err)
	}
	a, b := ra.a, rb.a
	defer func() {
		_ = ca.Close()
		_ = cb.Close()
		_ = a.Close()
		_ = b.Close()
	}()

	var sa, sb [3]*Stream
	for id := uint16(1); id <= 2; id++ {
		var err error
		if sa[id], err = a.OpenStream(id, PayloadTypeWebRTCBinary); err != nil {
			t.Fatal(err)
		}
		if sb[id], err = b.OpenStream(id, PayloadTypeWebRTCBinary); err != nil {
			t.Fatal(err)
		}
	}

	total1 := backlog + nAlt
	var n1, n2 atomic.Int64
	var over atomic.Bool // set when the test is done and the associations get closed
	var readers sync.WaitGroup
	defer func() {
		over.Store(true)
		_ = a.Close()
		_ = b.Close()
		readers.Wait()
	}()
	reader := func(s *Stream, sid uint32, total int, cnt *atomic.Int64) {
		defer readers.Done()
		buf := make([]byte, 64)
		for i := 0; i < total; i++ {
			n, ppi, err := s.ReadSCTP(buf)
			if over.Load() {
				return
			}
			if err != nil || n != 8 || ppi != PayloadTypeWebRTCBinary ||
				binary.BigEndian.Uint32(buf) != sid || binary.BigEndian.Uint32(buf[4:]) != uint32(i) {
				t.Errorf("stream %d message %d: n=%d ppi=%d err=%v", sid, i, n, ppi, err)

				return
			}
			cnt.Add(1)
		}
	}
	readers.Add(2)
	go reader(sb[2], 2, nAlt, &n2) // stream 2 is read all the time

	write := func(s *Stream, sid uint32, seq int) {
		var m [8]byte
		binary.BigEndian.PutUint32(m[:], sid)
		binary.BigEndian.PutUint32(m[4:], uint32(seq))
		if n, err := s.WriteSCTP(m[:], PayloadTypeWebRTCBinary); err != nil || n != 8 {
			t.Fatalf("write stream %d seq %d: n=%d err=%v", sid, seq, n, err)
		}
	}
	for i := 0; i < backlog; i++ {
		write(sa[1], 1, i)
	}
	// wait until the backlog has reached B and has been acknowledged
	deadline := time.Now().Add(60 * time.Second)
	for a.BufferedAmount() != 0 && time.Now().Before(deadline) {
		time.Sleep(5 * time.Millisecond)
	}
	if a.BufferedAmount() != 0 {
		t.Fatalf("backlog was not acknowledged")
	}
	for i := 0; i < nAlt; i++ {
		write(sa[1], 1, backlog+i)
		write(sa[2], 2, i)
	}
	// keep the reader of stream 1 paused until B has either delivered all of stream 2
	// or has begun to send SACKs that do not fit A's read buffer (at least 4 s)
	pauseEnd := time.Now().Add(90 * time.Second)
	for time.Now().Before(pauseEnd) && n2.Load() != int64(nAlt) && tooBigB.Load() == 0 {
		time.Sleep(20 * time.Millisecond)
	}
	time.Sleep(4 * time.Second)
	t.Logf("before the paused reader resumes: stream 2 delivered %d/%d, largest packet B->A %d bytes", n2.Load(), nAlt, maxB.Load())

	go reader(sb[1], 1, total1, &n1) // now stream 1 is read as well
	end := time.Now().Add(wait)
	for time.Now().Before(end) && (n1.Load() != int64(total1) || n2.Load() != int64(nAlt)) {
		time.Sleep(50 * time.Millisecond)
	}

	return int(n1.Load()), int(n2.Load()), int(maxB.Load()), tooBigB.Load()
}

// Control: 1500 alternations -> at most 1500 gap ack blocks (6 KiB): everything is
// delivered soon after the reader resumes.
func TestHuntC01_1_Control_PausedReaderFewHoles(t *testing.T) {
	const nAlt = 1500
	got1, got2, maxB, tooBig := hunt1PausedReader(t, nAlt, 60*time.Second)
	t.Logf("stream 1: %d/%d, stream 2: %d/%d, largest packet B->A %d bytes, %d larger than 8192", got1, 1<<15+nAlt, got2, nAlt, maxB, tooBig)
	if got1 != 1<<15+nAlt || got2 != nAlt {
		t.Fatalf("control: stream 1 %d/%d, stream 2 %d/%d", got1, 1<<15+nAlt, got2, nAlt)
	}
}

// Finding, without any packet loss: 6000 alternations.
func TestHuntC01_1_SackLargerThanReceiveBuffer_NoLossPausedReader(t *testing.T) {
	const nAlt = 6000
	got1, got2, maxB, tooBig := hunt1PausedReader(t, nAlt, 60*time.Second)
	t.Logf("stream 1: %d/%d, stream 2: %d/%d, largest packet B->A %d bytes, %d larger than 8192", got1, 1<<15+nAlt, got2, nAlt, maxB, tooBig)
	if got1 != 1<<15+nAlt || got2 != nAlt {
		t.Fatalf("no packet was lost, yet 60 s after the paused reader resumed stream 1 has delivered %d of %d and "+
			"stream 2 %d of %d accepted messages (the receiver sent %d SACK packets larger than the sender's %d-byte "+
			"read buffer, largest %d bytes)", got1, 1<<15+nAlt, got2, nAlt, tooBig, receiveMTU, maxB)
	}
}
