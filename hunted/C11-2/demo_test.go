// SPDX-FileCopyrightText: 2026 The Pion community <https://pion.ly>
// SPDX-License-Identifier: MIT

package sctp

import (
	"sync"
	"sync/atomic"
	"testing"
	"time"
	"unsafe"

	"github.com/pion/transport/v4/test"
)

// C11: "memory held for inbound data stays bounded even against a peer that
// ignores the window".
//
// The only things that bound what the receiver stores are (a) the byte window
// (configured buffer minus queued *user bytes*) and (b) the TSN window above the
// cumulative point. A DATA / I-DATA chunk with an empty User Data field is parsed
// and accepted (chunkPayloadData.check() accepts everything, nothing answers with
// a "No User Data" abort). It costs zero bytes of window, and because the peer
// sends the TSNs in sequence the cumulative point simply follows, so (b) never
// triggers either. Every such chunk that is a fragment of a never-completed
// message is kept in the reassembly queue: the endpoint stores one descriptor
// (plus the pinned packet buffer) per chunk without any limit while it keeps
// advertising its full receive buffer.
func TestZZHuntC11_2_EmptyFragmentsAreStoredWithoutBound(t *testing.T) { //nolint:cyclop,gocognit
	const recvBuf = 4096

	type variant struct {
		name         string
		interleaving bool
		nChunks      int
		mk           func(i int, tsn uint32) *chunkPayloadData
		retained     func(s *Stream) int
	}

	variants := []variant{
		{
			// default configuration: ordered DATA, one message (SSN 0) whose middle
			// fragments never end
			name:    "DATA-ordered-middle-fragments",
			nChunks: 20000,
			mk: func(_ int, tsn uint32) *chunkPayloadData {
				return &chunkPayloadData{
					tsn: tsn, streamIdentifier: 1, streamSequenceNumber: 0,
					payloadType: PayloadTypeWebRTCBinary, userData: []byte{},
				}
			},
			retained: func(s *Stream) int {
				n := 0
				for _, set := range s.reassemblyQueue.ordered {
					n += len(set.chunks)
				}

				return n
			},
		},
		{
			// interleaving: unordered I-DATA, every chunk the first fragment of a new message
			name:         "I-DATA-unordered-first-fragments",
			interleaving: true,
			nChunks:      100000,
			mk: func(i int, tsn uint32) *chunkPayloadData {
				return &chunkPayloadData{
					tsn: tsn, streamIdentifier: 1, messageIdentifier: uint32(i), //nolint:gosec
					unordered: true, beginningFragment: true, iData: true,
					payloadType: PayloadTypeWebRTCBinary, userData: []byte{},
				}
			},
			retained: func(s *Stream) int {
				n := 0
				for _, set := range s.reassemblyQueue.unorderedMIDMap {
					n += len(set.chunks)
				}

				return n
			},
		},
	}

	for _, v := range variants {
		v := v
		t.Run(v.name, func(t *testing.T) {
			br := test.NewBridge()

			// Everything the receiver (side 1) sends is sniffed and then dropped: the
			// "peer" is played by hand-made packets, a0 only lent its handshake.
			var minWireARWND, nSacks atomic.Int64
			minWireARWND.Store(1 << 40)
			var drop atomic.Bool
			br.Filter(1, func(raw []byte) bool {
				if !drop.Load() {
					return true
				}
				p := &packet{}
				if err := p.unmarshal(true, raw); err == nil {
					for _, c := range p.chunks {
						if sack, ok := c.(*chunkSelectiveAck); ok {
							nSacks.Add(1)
							if w := int64(sack.advertisedReceiverWindowCredit); w < minWireARWND.Load() {
								minWireARWND.Store(w)
							}
						}
					}
				}

				return false
			})

			a0, a1, err := createNewAssociationPairWithInterleaving(br, ackModeNoDelay, recvBuf, v.interleaving, v.interleaving)
			if err != nil {
				t.Fatalf("handshake: %v", err)
			}
			drop.Store(true)

			stop := make(chan struct{})
			var wg sync.WaitGroup
			wg.Add(1)
			go func() {
				defer wg.Done()
				for {
					select {
					case <-stop:
						return
					default:
					}
					if br.Tick() == 0 {
						time.Sleep(time.Millisecond)
					}
				}
			}()
			defer func() {
				close(stop)
				wg.Wait()
				drop.Store(false)
				closeAssociationPair(br, a0, a1)
			}()

			a0.lock.RLock()
			firstTSN := a0.myNextTSN
			hdr := packet{
				sourcePort:      a0.sourcePort,
				destinationPort: a0.destinationPort,
				verificationTag: a0.peerVerificationTag,
			}
			a0.lock.RUnlock()

			a1.lock.RLock()
			tsnWindow := int(a1.payloadQueue.maxTSNOffset)
			a1.lock.RUnlock()
			// What a receiver honouring the property could at most be made to keep:
			// one descriptor per byte of receive buffer plus one per TSN of the window.
			legitBound := recvBuf + tsnWindow

			conn0 := br.GetConn0()
			const perPacket = 50
			sent := 0
			for sent < v.nChunks {
				p := hdr
				for k := 0; k < perPacket && sent < v.nChunks; k++ {
					p.chunks = append(p.chunks, v.mk(sent, firstTSN+uint32(sent))) //nolint:gosec
					sent++
				}
				raw, merr := a0.marshalPacket(&p)
				if merr != nil {
					t.Fatalf("marshal: %v", merr)
				}
				if _, werr := conn0.Write(raw); werr != nil {
					t.Fatalf("write: %v", werr)
				}
				// keep the bridge queue short
				for br.Len(0) > 200 {
					time.Sleep(time.Millisecond)
				}
			}
			lastTSN := firstTSN + uint32(v.nChunks) - 1 //nolint:gosec

			deadline := time.Now().Add(120 * time.Second)
			for {
				a1.lock.RLock()
				cum := a1.peerLastTSN()
				state := a1.getState()
				a1.lock.RUnlock()
				if cum == lastTSN {
					break
				}
				if state != established {
					t.Fatalf("receiver left the established state (%s): it defended itself", getAssociationStateString(state))
				}
				if time.Now().After(deadline) {
					t.Fatalf("timed out: cumulative TSN %d, expected %d", cum, lastTSN)
				}
				time.Sleep(5 * time.Millisecond)
			}

			a1.lock.Lock()
			s := a1.streams[1]
			window := a1.getMyReceiverWindowCredit()
			state := a1.getState()
			a1.lock.Unlock()
			if s == nil {
				t.Fatalf("stream 1 does not exist on the receiver")
			}
			s.lock.Lock()
			retained := v.retained(s)
			accounted := s.reassemblyQueue.getNumBytes()
			readable := s.reassemblyQueue.isReadable()
			s.lock.Unlock()

			descBytes := retained * int(unsafe.Sizeof(chunkPayloadData{}))
			t.Logf("sent %d empty fragments; receiver state=%s cumTSN caught up; retained descriptors=%d (>= %d bytes of heap); "+
				"accounted user bytes=%d; readable=%v; advertised window=%d of %d; SACKs on the wire=%d, smallest a_rwnd=%d; "+
				"TSN window=%d; bound for a conforming receiver=%d descriptors",
				v.nChunks, getAssociationStateString(state), retained, descBytes, accounted, readable, window, recvBuf,
				nSacks.Load(), minWireARWND.Load(), tsnWindow, legitBound)

			if retained > legitBound {
				t.Errorf("receiver with a %d byte buffer and a %d TSN window stores %d inbound chunks (%d bytes of descriptors alone, "+
					"every chunk sent is kept) while advertising a window of %d: inbound memory is not bounded",
					recvBuf, tsnWindow, retained, descBytes, window)
			}
		})
	}
}
