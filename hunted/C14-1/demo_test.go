package sctp

import (
	"errors"
	"io"
	"net"
	"sync"
	"testing"
	"time"

	"github.com/pion/logging"
)

// ---- minimal in-memory packet link (lossless, in order) ----

type h1Conn struct {
	inbox  chan []byte
	peer   *h1Conn
	closed chan struct{}
	once   sync.Once
}

func newH1ConnPair() (*h1Conn, *h1Conn) {
	c0 := &h1Conn{inbox: make(chan []byte, 1<<16), closed: make(chan struct{})}
	c1 := &h1Conn{inbox: make(chan []byte, 1<<16), closed: make(chan struct{})}
	c0.peer, c1.peer = c1, c0

	return c0, c1
}

func (c *h1Conn) Read(p []byte) (int, error) {
	select {
	case raw := <-c.inbox:
		return copy(p, raw), nil
	case <-c.closed:
		return 0, io.EOF
	}
}

func (c *h1Conn) Write(p []byte) (int, error) {
	select {
	case <-c.closed:
		return 0, io.ErrClosedPipe
	default:
	}
	raw := append([]byte(nil), p...)
	select {
	case c.peer.inbox <- raw:
	case <-c.peer.closed:
	}

	return len(p), nil
}

func (c *h1Conn) Close() error {
	c.once.Do(func() { close(c.closed) })

	return nil
}
func (c *h1Conn) LocalAddr() net.Addr              { return &net.IPAddr{} }
func (c *h1Conn) RemoteAddr() net.Addr             { return &net.IPAddr{} }
func (c *h1Conn) SetDeadline(time.Time) error      { return nil }
func (c *h1Conn) SetReadDeadline(time.Time) error  { return nil }
func (c *h1Conn) SetWriteDeadline(time.Time) error { return nil }

func h1Pair(t *testing.T) (*Association, *Association) {
	t.Helper()
	c0, c1 := newH1ConnPair()
	lf := logging.NewDefaultLoggerFactory()
	type res struct {
		a   *Association
		err error
	}
	chA := make(chan res, 1)
	chB := make(chan res, 1)
	go func() {
		a, err := Client(Config{Name: "A", NetConn: c0, LoggerFactory: lf})
		chA <- res{a, err}
	}()
	go func() {
		a, err := Server(Config{Name: "B", NetConn: c1, LoggerFactory: lf})
		chB <- res{a, err}
	}()
	var a, b *Association
	for a == nil || b == nil {
		select {
		case r := <-chA:
			if r.err != nil {
				t.Fatalf("client: %v", r.err)
			}
			a = r.a
		case r := <-chB:
			if r.err != nil {
				t.Fatalf("server: %v", r.err)
			}
			b = r.a
		case <-time.After(30 * time.Second):
			t.Fatalf("handshake timeout")
		}
	}

	return a, b
}

// Stream 1 is closed by A, then (after EOF) by B; as soon as A has read EOF too, both
// directions have been reset and A opens identifier 1 again. No packet is lost or
// reordered. Some unrelated traffic runs on three other streams of the association.
//
// resetStreamsIfAny() releases the association lock while it delivers EOF to the old
// stream and removes the stream from a.streams only after re-acquiring the lock. A reader
// that was woken by that EOF can call OpenStream in between: it is handed the old, closed
// Stream object (which is then dropped from the association), and cannot write.
func TestHuntC14_1_OpenStreamRightAfterEOFReturnsTheDeadStream(t *testing.T) {
	a, b := h1Pair(t)
	defer func() {
		_ = a.Close()
		_ = b.Close()
	}()

	// unrelated background traffic A -> B on streams 100..102
	stop := make(chan struct{})
	defer close(stop)
	for k := 0; k < 3; k++ {
		bg, err := a.OpenStream(uint16(100+k), PayloadTypeWebRTCBinary)
		if err != nil {
			t.Fatal(err)
		}
		go func() {
			m := make([]byte, 100)
			for {
				select {
				case <-stop:
					return
				default:
				}
				if bg.BufferedAmount() > 20000 {
					time.Sleep(100 * time.Microsecond)

					continue
				}
				if _, err := bg.Write(m); err != nil {
					return
				}
			}
		}()
	}
	accCh := make(chan *Stream, 16)
	go func() {
		for {
			s, err := b.AcceptStream()
			if err != nil {
				return
			}
			if s.StreamIdentifier() >= 100 {
				go func() {
					bb := make([]byte, 1500)
					for {
						if _, err := s.Read(bb); err != nil {
							return
						}
					}
				}()

				continue
			}
			accCh <- s
		}
	}()

	const sid = 1
	bufA := make([]byte, 1500)
	start := time.Now()
	var prev *Stream
	for cycle := 0; cycle < 20000 && time.Since(start) < 90*time.Second; cycle++ {
		sa, err := a.OpenStream(sid, PayloadTypeWebRTCBinary)
		if err != nil {
			t.Fatalf("cycle %d: OpenStream: %v", cycle, err)
		}
		if _, err = sa.Write([]byte("hello")); err != nil {
			t.Fatalf("cycle %d: both sides had read EOF on the previous incarnation of stream %d, "+
				"yet the stream returned by OpenStream cannot be written: %v (same object as the closed one: %v, state=%v)",
				cycle, sid, err, sa == prev, sa.State())
		}
		var sb *Stream
		select {
		case sb = <-accCh:
		case <-time.After(30 * time.Second):
			t.Fatalf("cycle %d: B did not see the new incarnation", cycle)
		}

		if err = sa.Close(); err != nil {
			t.Fatalf("cycle %d: close: %v", cycle, err)
		}
		bDone := make(chan error, 1)
		go func() {
			bb := make([]byte, 1500)
			n, err := sb.Read(bb)
			if err != nil || string(bb[:n]) != "hello" {
				bDone <- errors.New("B did not get hello first")

				return
			}
			_, err = sb.Read(bb)
			if errors.Is(err, io.EOF) {
				_ = sb.Close() // B resets its direction once it has seen EOF
			}
			bDone <- err
		}()
		_ = sa.SetReadDeadline(time.Now().Add(30 * time.Second))
		if _, err = sa.Read(bufA); !errors.Is(err, io.EOF) {
			t.Fatalf("cycle %d: A read: %v", cycle, err)
		}
		if err = <-bDone; !errors.Is(err, io.EOF) {
			t.Fatalf("cycle %d: B read: %v", cycle, err)
		}
		// A closed and read EOF, B read EOF and closed: both directions are reset.
		prev = sa
	}
}
