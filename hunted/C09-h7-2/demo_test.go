package sctp

import (
	"errors"
	"net"
	"runtime/pprof"
	"strings"
	"sync"
	"sync/atomic"
	"testing"
	"time"

	"github.com/pion/logging"
)

// c09d2Conn is an in-memory transport with flow control like a stream transport
// (TCP, TLS, a pipe): once `stall` is set, Write blocks - the path is congested -
// until the connection is closed. `fail` makes Read return an error (the receive
// side of the transport has failed / timed out). Close wakes both.
type c09d2Conn struct {
	peer      *c09d2Conn
	mu        sync.Mutex
	cond      *sync.Cond
	q         [][]byte
	closed    bool
	failed    bool
	stall     bool
	inWrite   int32 // writers currently blocked by the stall
	nClose    int32
	nWriteEnd int32 // Write calls that returned after the failure
}

var errC09d2ReadFailed = errors.New("c09d2: receive side of the transport failed")

func newC09d2Pair() (*c09d2Conn, *c09d2Conn) {
	a, b := &c09d2Conn{}, &c09d2Conn{}
	a.cond, b.cond = sync.NewCond(&a.mu), sync.NewCond(&b.mu)
	a.peer, b.peer = b, a

	return a, b
}

func (c *c09d2Conn) Read(p []byte) (int, error) {
	c.mu.Lock()
	defer c.mu.Unlock()
	for {
		if c.closed {
			return 0, net.ErrClosed
		}
		if c.failed {
			return 0, errC09d2ReadFailed
		}
		if len(c.q) > 0 {
			pkt := c.q[0]
			c.q = c.q[1:]

			return copy(p, pkt), nil
		}
		c.cond.Wait()
	}
}

func (c *c09d2Conn) Write(p []byte) (int, error) {
	c.mu.Lock()
	if c.stall && !c.closed {
		atomic.AddInt32(&c.inWrite, 1)
		for c.stall && !c.closed {
			c.cond.Wait()
		}
		atomic.AddInt32(&c.inWrite, -1)
	}
	closed, failed := c.closed, c.failed
	c.mu.Unlock()
	if failed {
		atomic.AddInt32(&c.nWriteEnd, 1)
	}
	if closed {
		return 0, net.ErrClosed
	}
	raw := append([]byte(nil), p...)
	c.peer.mu.Lock()
	if !c.peer.closed {
		c.peer.q = append(c.peer.q, raw)
		c.peer.cond.Broadcast()
	}
	c.peer.mu.Unlock()

	return len(p), nil
}

func (c *c09d2Conn) Close() error {
	atomic.AddInt32(&c.nClose, 1)
	c.mu.Lock()
	c.closed = true
	c.cond.Broadcast()
	c.mu.Unlock()

	return nil
}

func (c *c09d2Conn) set(f func()) {
	c.mu.Lock()
	f()
	c.cond.Broadcast()
	c.mu.Unlock()
}

func (c *c09d2Conn) LocalAddr() net.Addr              { return &net.IPAddr{} }
func (c *c09d2Conn) RemoteAddr() net.Addr             { return &net.IPAddr{} }
func (c *c09d2Conn) SetDeadline(time.Time) error      { return nil }
func (c *c09d2Conn) SetReadDeadline(time.Time) error  { return nil }
func (c *c09d2Conn) SetWriteDeadline(time.Time) error { return nil }

func c09d2CountGoroutines(substr string) int {
	var sb strings.Builder
	_ = pprof.Lookup("goroutine").WriteTo(&sb, 2)
	n := 0
	for _, g := range strings.Split(sb.String(), "\n\n") {
		if strings.Contains(g, substr) {
			n++
		}
	}

	return n
}

// Mid-transfer the send direction of A's transport is congested (Write blocks)
// and then the receive direction fails (Read returns an error). readLoop ends
// and the association is terminated: every blocked caller is released. But
// nobody closes the transport (the mirror case, a failed Write with a blocked
// Read, does close it), so writeLoop stays blocked in netConn.Write for ever
// and - because the retransmission timers are only closed by writeLoop on its
// way out - T3-rtx keeps expiring on the dead association.
func TestHuntC09_2_ReadFailureLeavesWriteLoopAndTimers(t *testing.T) {
	ca, cb := newC09d2Pair()
	lf := logging.NewDefaultLoggerFactory()

	type res struct {
		a   *Association
		err error
	}
	chA, chB := make(chan res, 1), make(chan res, 1)
	go func() {
		x, err := Client(Config{NetConn: ca, LoggerFactory: lf, Name: "A"})
		chA <- res{x, err}
	}()
	go func() {
		x, err := Server(Config{NetConn: cb, LoggerFactory: lf, Name: "B"})
		chB <- res{x, err}
	}()
	var a, b *Association
	for a == nil || b == nil {
		select {
		case r := <-chA:
			if r.err != nil {
				t.Fatalf("client: %v", r.err)
			}
			a = r.a
		case r := <-chB:
			if r.err != nil {
				t.Fatalf("server: %v", r.err)
			}
			b = r.a
		case <-time.After(20 * time.Second):
			t.Fatal("handshake did not complete")
		}
	}

	sa, err := a.OpenStream(1, PayloadTypeWebRTCBinary)
	if err != nil {
		t.Fatal(err)
	}
	if _, err = sa.Write([]byte("ping")); err != nil {
		t.Fatal(err)
	}
	sb, err := b.AcceptStream()
	if err != nil {
		t.Fatal(err)
	}
	buf := make([]byte, 70000)
	if _, err = sb.Read(buf); err != nil {
		t.Fatal(err)
	}
	go func() { // B keeps reading
		for {
			if _, e := sb.Read(buf); e != nil {
				return
			}
		}
	}()

	// callers blocked on A
	readDone := make(chan error, 1)
	go func() {
		rb := make([]byte, 1500)
		_, e := sa.Read(rb)
		readDone <- e
	}()
	acceptDone := make(chan error, 1)
	go func() {
		_, e := a.AcceptStream()
		acceptDone <- e
	}()

	// the path A -> B becomes congested while A is sending
	ca.set(func() { ca.stall = true })
	if _, err = sa.Write(make([]byte, 3000)); err != nil {
		t.Fatal(err)
	}
	deadline := time.Now().Add(20 * time.Second)
	for atomic.LoadInt32(&ca.inWrite) == 0 {
		if time.Now().After(deadline) {
			t.Fatal("test assumption: writeLoop should be blocked in netConn.Write by now")
		}
		time.Sleep(5 * time.Millisecond)
	}

	// ... and now the receive side of A's transport fails
	ca.set(func() { ca.failed = true })

	for name, ch := range map[string]chan error{"Read": readDone, "AcceptStream": acceptDone} {
		select {
		case e := <-ch:
			t.Logf("A's blocked %s returned: %v", name, e)
		case <-time.After(20 * time.Second):
			t.Fatalf("A's blocked %s was not released by the transport failure", name)
		}
	}
	select {
	case <-a.readLoopCloseCh:
	case <-time.After(20 * time.Second):
		t.Fatal("A was not terminated by the transport failure")
	}

	// B is closed so that only A's goroutines can be left
	if err = b.Close(); err != nil {
		t.Fatal(err)
	}

	// A has been terminated by the failure of its transport. Give it plenty of
	// time to wind down, then look at what is left of it.
	t3Before := a.stats.getNumT3Timeouts()
	time.Sleep(5 * time.Second)
	t3After := a.stats.getNumT3Timeouts()

	nWriteLoop := c09d2CountGoroutines("(*Association).writeLoop")
	closes := atomic.LoadInt32(&ca.nClose)
	t.Logf("5s after A was terminated: writeLoop goroutines=%d, transport Close calls=%d, "+
		"T3-rtx running=%v, T3-rtx expiries during the 5s=%d, state=%s",
		nWriteLoop, closes, a.t3RTX.isRunning(), t3After-t3Before, getAssociationStateString(a.getState()))

	failed := false
	if nWriteLoop != 0 {
		t.Errorf("writeLoop of the terminated association is still there, blocked in netConn.Write: " +
			"the transport was not closed after its Read failed")
		failed = true
	}
	if a.t3RTX.isRunning() || t3After != t3Before {
		t.Errorf("T3-rtx timer of the terminated association is still running (%d expiries in 5s)", t3After-t3Before)
		failed = true
	}

	// cleanup (and proof that it is only the missing Close that keeps them alive)
	_ = a.Close()
	if failed {
		time.Sleep(300 * time.Millisecond)
		t.Logf("after an explicit Close: writeLoop goroutines=%d, T3-rtx running=%v",
			c09d2CountGoroutines("(*Association).writeLoop"), a.t3RTX.isRunning())
	}
}
