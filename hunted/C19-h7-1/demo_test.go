package sctp

// Hunt C19, finding 1: continuous on-demand heartbeats never yield a round-trip sample.
//
// ActiveHeartbeat remembers at most 16 unanswered probes; when a 17th is sent while 16
// are outstanding, ALL remembered probes are forgotten. An application that probes more
// often than once per RTT/16 (here: every 2 ms over a 300 ms round trip) therefore has
// every one of its heartbeats answered by the peer, and every answer thrown away as
// "unsolicited": SRTT stays 0 for as long as the probing goes on.

import (
	"io"
	"net"
	"sync"
	"sync/atomic"
	"testing"
	"time"

	"github.com/pion/logging"
)

type h1End struct {
	peer   *h1End
	delay  time.Duration
	inbox  chan []byte
	closed chan struct{}
	once   sync.Once
	onRecv func(raw []byte) // called when a packet is delivered to this end
}

func newH1Pair(oneWay time.Duration) (*h1End, *h1End) {
	a := &h1End{delay: oneWay, inbox: make(chan []byte, 1<<14), closed: make(chan struct{})}
	b := &h1End{delay: oneWay, inbox: make(chan []byte, 1<<14), closed: make(chan struct{})}
	a.peer, b.peer = b, a

	return a, b
}

func (e *h1End) Read(p []byte) (int, error) {
	select {
	case raw := <-e.inbox:
		return copy(p, raw), nil
	case <-e.closed:
		return 0, io.EOF
	}
}

func (e *h1End) Write(p []byte) (int, error) {
	select {
	case <-e.closed:
		return 0, io.ErrClosedPipe
	default:
	}
	raw := append([]byte(nil), p...)
	peer := e.peer
	time.AfterFunc(e.delay, func() {
		if peer.onRecv != nil {
			peer.onRecv(raw)
		}
		select {
		case peer.inbox <- raw:
		case <-peer.closed:
		}
	})

	return len(p), nil
}

func (e *h1End) Close() error                     { e.once.Do(func() { close(e.closed) }); return nil }
func (e *h1End) LocalAddr() net.Addr              { return &net.UDPAddr{} }
func (e *h1End) RemoteAddr() net.Addr             { return &net.UDPAddr{} }
func (e *h1End) SetDeadline(time.Time) error      { return nil }
func (e *h1End) SetReadDeadline(time.Time) error  { return nil }
func (e *h1End) SetWriteDeadline(time.Time) error { return nil }

func TestZZHuntC19_1_ContinuousHeartbeatsYieldNoSample(t *testing.T) {
	// control: the same link, the same code, one probe every 40 ms (about 8 outstanding):
	// samples are taken and SRTT is about 300 ms. This passes.
	t.Run("control_probe_every_40ms", func(t *testing.T) { h1Run(t, 40*time.Millisecond) })
	// finding: one probe every 2 ms (about 150 outstanding): no sample at all.
	t.Run("probe_every_2ms", func(t *testing.T) { h1Run(t, 2*time.Millisecond) })
}

func h1Run(t *testing.T, interval time.Duration) {
	t.Helper()

	const oneWay = 150 * time.Millisecond // RTT 300 ms

	ca, cb := newH1Pair(oneWay)

	// count what actually crosses the wire
	var hbToB, hbAckToA atomic.Int64
	count := func(ctr *atomic.Int64, typ chunkType) func([]byte) {
		return func(raw []byte) {
			p := &packet{}
			if err := p.unmarshal(true, raw); err != nil {
				return
			}
			for _, c := range p.chunks {
				switch c.(type) {
				case *chunkHeartbeat:
					if typ == ctHeartbeat {
						ctr.Add(1)
					}
				case *chunkHeartbeatAck:
					if typ == ctHeartbeatAck {
						ctr.Add(1)
					}
				}
			}
		}
	}
	cb.onRecv = count(&hbToB, ctHeartbeat)
	ca.onRecv = count(&hbAckToA, ctHeartbeatAck)

	lf := logging.NewDefaultLoggerFactory()
	type res struct {
		a   *Association
		err error
	}
	cch, sch := make(chan res, 1), make(chan res, 1)
	go func() {
		a, err := ClientWithOptions(WithNetConn(ca), WithLoggerFactory(lf), WithName("A"))
		cch <- res{a, err}
	}()
	go func() {
		a, err := ServerWithOptions(WithNetConn(cb), WithLoggerFactory(lf), WithName("B"))
		sch <- res{a, err}
	}()
	var a, b *Association
	for a == nil || b == nil {
		select {
		case r := <-cch:
			if r.err != nil {
				t.Fatalf("client handshake: %v", r.err)
			}
			a = r.a
		case r := <-sch:
			if r.err != nil {
				t.Fatalf("server handshake: %v", r.err)
			}
			b = r.a
		case <-time.After(30 * time.Second):
			t.Fatal("handshake did not complete")
		}
	}
	defer a.Close() //nolint:errcheck
	defer b.Close() //nolint:errcheck

	if a.SRTT() != 0 {
		t.Fatalf("precondition: no RTT sample is expected from the handshake, SRTT=%v", a.SRTT())
	}

	// An application probing the path continuously: one on-demand heartbeat per interval.
	stop := make(chan struct{})
	var sent atomic.Int64
	var wg sync.WaitGroup
	wg.Add(1)
	go func() {
		defer wg.Done()
		for {
			select {
			case <-stop:
				return
			default:
			}
			a.ActiveHeartbeat()
			sent.Add(1)
			time.Sleep(interval)
		}
	}()

	// Ten round trips of probing. The check is made WHILE the probing is still going on.
	time.Sleep(3 * time.Second)
	srtt := a.SRTT()
	nSent, nAtB, nAcks := sent.Load(), hbToB.Load(), hbAckToA.Load()
	close(stop)
	wg.Wait()

	t.Logf("heartbeats requested=%d, HEARTBEATs that reached the peer=%d, HEARTBEAT ACKs that came back=%d, SRTT=%.3f ms, RTO=%.0f ms",
		nSent, nAtB, nAcks, srtt, a.rtoMgr.getRTO())

	if nAcks < 20 {
		t.Fatalf("test set-up problem: only %d HEARTBEAT ACKs came back", nAcks)
	}
	if srtt == 0 {
		t.Fatalf("%d on-demand heartbeats were answered by the peer during 3 s (10 round trips), "+
			"yet not one of them yielded a round-trip sample: SRTT is still 0", nAcks)
	}
}
