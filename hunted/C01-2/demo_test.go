// SPDX-FileCopyrightText: 2026 The Pion community <https://pion.ly>
// SPDX-License-Identifier: MIT

package sctp

import (
	"errors"
	"io"
	"net"
	"sync"
	"testing"
	"time"

	"github.com/pion/logging"
)

// --- a loss-free, in-order, in-memory datagram pipe whose Write can be held up ------

type huntC01n2Conn struct {
	mu     sync.Mutex
	cond   *sync.Cond
	pkts   [][]byte
	closed bool
	peer   *huntC01n2Conn

	// While hold is set, Write blocks (a transport exercising back-pressure). The
	// packet is delivered, unmodified and in order, as soon as the hold is lifted.
	hold    bool
	blocked int
}

func newHuntC01n2Pipe() (*huntC01n2Conn, *huntC01n2Conn) {
	a, b := &huntC01n2Conn{}, &huntC01n2Conn{}
	a.cond, b.cond = sync.NewCond(&a.mu), sync.NewCond(&b.mu)
	a.peer, b.peer = b, a

	return a, b
}

func (c *huntC01n2Conn) Read(p []byte) (int, error) {
	c.mu.Lock()
	defer c.mu.Unlock()
	for {
		if len(c.pkts) > 0 {
			pkt := c.pkts[0]
			c.pkts = c.pkts[1:]

			return copy(p, pkt), nil
		}
		if c.closed {
			return 0, io.EOF
		}
		c.cond.Wait()
	}
}

func (c *huntC01n2Conn) Write(p []byte) (int, error) {
	c.mu.Lock()
	for c.hold && !c.closed {
		c.blocked++
		c.cond.Broadcast()
		c.cond.Wait()
		c.blocked--
	}
	closed := c.closed
	c.mu.Unlock()
	if closed {
		return 0, net.ErrClosed
	}
	cp := append([]byte(nil), p...)
	c.peer.mu.Lock()
	if !c.peer.closed {
		c.peer.pkts = append(c.peer.pkts, cp)
		c.peer.cond.Broadcast()
	}
	c.peer.mu.Unlock()

	return len(p), nil
}

func (c *huntC01n2Conn) setHold(hold bool) {
	c.mu.Lock()
	c.hold = hold
	c.cond.Broadcast()
	c.mu.Unlock()
}

// waitBlockedWriter returns once a Write call is parked in the hold.
func (c *huntC01n2Conn) waitBlockedWriter(timeout time.Duration) bool {
	deadline := time.Now().Add(timeout)
	for time.Now().Before(deadline) {
		c.mu.Lock()
		n := c.blocked
		c.mu.Unlock()
		if n > 0 {
			return true
		}
		time.Sleep(time.Millisecond)
	}

	return false
}

func (c *huntC01n2Conn) Close() error {
	c.mu.Lock()
	c.closed = true
	c.cond.Broadcast()
	c.mu.Unlock()

	return nil
}
func (c *huntC01n2Conn) LocalAddr() net.Addr              { return &net.UDPAddr{} }
func (c *huntC01n2Conn) RemoteAddr() net.Addr             { return &net.UDPAddr{} }
func (c *huntC01n2Conn) SetDeadline(time.Time) error      { return nil }
func (c *huntC01n2Conn) SetReadDeadline(time.Time) error  { return nil }
func (c *huntC01n2Conn) SetWriteDeadline(time.Time) error { return nil }

type huntC01n2Msg struct {
	data string
	ppi  PayloadProtocolIdentifier
	err  error
}

func (m huntC01n2Msg) String() string {
	if m.err != nil {
		return "error(" + m.err.Error() + ")"
	}

	return "message(" + m.data + ")"
}

func huntC01n2Read(s *Stream, timeout time.Duration) huntC01n2Msg {
	ch := make(chan huntC01n2Msg, 1)
	go func() {
		buf := make([]byte, 1024)
		n, ppi, err := s.ReadSCTP(buf)
		ch <- huntC01n2Msg{data: string(buf[:n]), ppi: ppi, err: err}
	}()
	select {
	case m := <-ch:
		return m
	case <-time.After(timeout):
		return huntC01n2Msg{err: errors.New("hunt: no message within the time limit")} //nolint:err113
	}
}

// TestHuntC01_2_ReopenedStreamLosesFirstMessages:
// a data channel is closed the usual way (one side resets its outgoing stream, the
// other sees EOF and resets its own) and its identifier is re-used at once for a new
// reliable ordered stream. The messages written to the new stream are accepted but the
// first one is never delivered.
func TestHuntC01_2_ReopenedStreamLosesFirstMessages(t *testing.T) {
	// perfect network, nothing special: the three application calls (Close, OpenStream,
	// WriteSCTP) simply follow each other. Fails practically always, but formally it
	// is a race between the application and the association's write loop.
	t.Run("plain", func(t *testing.T) { huntC01n2Run(t, false) })
	// the same made deterministic: the write loop is parked in netConn.Write (a
	// transport exercising back-pressure) while the application makes the three calls.
	t.Run("write_loop_parked_in_transport_write", func(t *testing.T) { huntC01n2Run(t, true) })
}

func huntC01n2Run(t *testing.T, parkWriteLoop bool) {
	t.Helper()

	const wait = 10 * time.Second

	c0, c1 := newHuntC01n2Pipe()
	lf := logging.NewDefaultLoggerFactory()

	type res struct {
		a   *Association
		err error
	}
	ch0, ch1 := make(chan res, 1), make(chan res, 1)
	go func() {
		a, err := Client(Config{Name: "A", NetConn: c0, LoggerFactory: lf})
		ch0 <- res{a, err}
	}()
	go func() {
		a, err := Server(Config{Name: "B", NetConn: c1, LoggerFactory: lf})
		ch1 <- res{a, err}
	}()
	r0, r1 := <-ch0, <-ch1
	if r0.err != nil || r1.err != nil {
		t.Fatalf("handshake: %v %v", r0.err, r1.err)
	}
	assocA, assocB := r0.a, r1.a
	defer func() {
		c0.setHold(false)
		_ = c0.Close()
		_ = c1.Close()
		_ = assocA.Close()
		_ = assocB.Close()
	}()

	// 1. first incarnation of stream 1: one message A -> B, read by B.
	sA, err := assocA.OpenStream(1, PayloadTypeWebRTCBinary)
	if err != nil {
		t.Fatal(err)
	}
	if _, err = sA.WriteSCTP([]byte("old-0"), PayloadTypeWebRTCBinary); err != nil {
		t.Fatal(err)
	}
	sB, err := assocB.AcceptStream()
	if err != nil {
		t.Fatal(err)
	}
	if m := huntC01n2Read(sB, wait); m.err != nil || m.data != "old-0" {
		t.Fatalf("test assumption: first incarnation does not work: %+v", m)
	}

	// 2. B closes the channel; A sees the end of the inbound stream.
	if err = sB.Close(); err != nil {
		t.Fatal(err)
	}
	if m := huntC01n2Read(sA, wait); !errors.Is(m.err, io.EOF) {
		t.Fatalf("test assumption: A did not see EOF: %+v", m)
	}

	// 3. (second variant only) The transport of A exercises back-pressure for a moment: park A's write loop
	// in netConn.Write (with a heartbeat packet) so that what the application does
	// next is queued as a whole before the write loop looks at it again.
	if parkWriteLoop {
		c0.setHold(true)
		assocA.ActiveHeartbeat()
		if !c0.waitBlockedWriter(wait) {
			t.Fatal("test assumption: write loop did not reach netConn.Write")
		}
	}

	// 4. A closes its side (the channel is now closed in both directions) and
	// re-uses the identifier for a new reliable ordered stream.
	if err = sA.Close(); err != nil {
		t.Fatal(err)
	}
	sA2, err := assocA.OpenStream(1, PayloadTypeWebRTCString)
	if err != nil {
		t.Fatalf("re-opening stream 1: %v", err)
	}
	if sA2 == sA {
		t.Fatal("test assumption: OpenStream returned the closed stream")
	}
	if st := sA2.State(); st != StreamStateOpen {
		t.Fatalf("test assumption: new stream is %s", st)
	}
	for _, m := range []string{"new-0", "new-1", "new-2"} {
		n, werr := sA2.WriteSCTP([]byte(m), PayloadTypeWebRTCString)
		if werr != nil || n != len(m) {
			t.Fatalf("write %q on the re-opened stream: n=%d err=%v", m, n, werr)
		}
	}
	c0.setHold(false)

	// what the old incarnation still yields at B (it must end with EOF, and must not
	// be handed messages of the new incarnation)
	oldCh := make(chan []huntC01n2Msg, 1)
	go func() {
		var got []huntC01n2Msg
		for {
			m := huntC01n2Read(sB, wait)
			got = append(got, m)
			if m.err != nil {
				oldCh <- got

				return
			}
		}
	}()

	// 5. B must get the new stream and read new-0, new-1, new-2 from it.
	type acc struct {
		s   *Stream
		err error
	}
	accCh := make(chan acc, 1)
	go func() {
		s, aerr := assocB.AcceptStream()
		accCh <- acc{s, aerr}
	}()

	var sB2 *Stream
	select {
	case a := <-accCh:
		if a.err != nil {
			t.Fatalf("AcceptStream: %v", a.err)
		}
		sB2 = a.s
	case <-time.After(wait):
		old := <-oldCh
		t.Fatalf("3 messages were accepted on the re-opened stream 1, but no new stream appeared at B within %v; "+
			"reads on the OLD (closed) incarnation at B returned: %+v", wait, old)
	}

	var got []string
	for i := 0; i < 3; i++ {
		m := huntC01n2Read(sB2, wait)
		if m.err != nil {
			old := <-oldCh
			t.Fatalf("re-opened stream 1 at B: read #%d failed (%v) after %q; wanted [new-0 new-1 new-2]; "+
				"reads on the OLD incarnation returned: %+v", i, m.err, got, old)
		}
		got = append(got, m.data)
	}
	if got[0] != "new-0" || got[1] != "new-1" || got[2] != "new-2" {
		t.Fatalf("re-opened stream delivered %q", got)
	}
}
