//go:build !js

package sctp

import (
	"errors"
	"io"
	"testing"
	"time"

	"github.com/pion/logging"
	"github.com/stretchr/testify/require"
)

// C03 finding 4
//
// The request sequence number of an inbound Outgoing SSN Reset Request is never compared with
// the sequence the peer is actually using. A single request with a number a few thousand
// ahead (naming only a stream that does not exist, so it has nothing to reset) is performed
// and remembered as "highest request performed". Every request more than maxReconfigRequests
// below that mark is then taken for a stale retransmission: the genuine requests of the peer
// are answered "Success - Performed" without being performed. The sender believes its stream
// is reset (and restarts its sequence numbers), the reader on this side never sees the end
// of the stream.

type zzHuntC03n4Pair struct {
	client, server         *Association
	clientConn, serverConn *dumbConn2
}

func zzHuntC03n4NewPair(t *testing.T, interleaving bool) *zzHuntC03n4Pair {
	t.Helper()

	c1, c2 := createUDPConnPair()
	lf := logging.NewDefaultLoggerFactory()
	lf.DefaultLogLevel = logging.LogLevelDisabled

	type res struct {
		a   *Association
		err error
	}
	cch := make(chan res, 1)
	sch := make(chan res, 1)
	go func() {
		a, err := ClientWithOptions(WithName("client"), WithNetConn(c1), WithLoggerFactory(lf),
			WithEnableInterleaving(interleaving))
		cch <- res{a, err}
	}()
	go func() {
		a, err := ServerWithOptions(WithName("server"), WithNetConn(c2), WithLoggerFactory(lf),
			WithEnableInterleaving(interleaving))
		sch <- res{a, err}
	}()

	p := &zzHuntC03n4Pair{}
	p.clientConn, _ = c1.(*dumbConn2) //nolint:forcetypeassert
	p.serverConn, _ = c2.(*dumbConn2) //nolint:forcetypeassert
	for i := 0; i < 2; i++ {
		select {
		case r := <-cch:
			require.NoError(t, r.err)
			p.client = r.a
		case r := <-sch:
			require.NoError(t, r.err)
			p.server = r.a
		case <-time.After(20 * time.Second):
			require.FailNow(t, "handshake did not complete")
		}
	}

	return p
}

// inject hands raw bytes to the server's transport, as if they had come from the network.
func (p *zzHuntC03n4Pair) injectIntoServer(t *testing.T, c chunk) {
	t.Helper()

	p.server.lock.RLock()
	pkt := &packet{
		sourcePort:      p.server.destinationPort,
		destinationPort: p.server.sourcePort,
		verificationTag: p.server.myVerificationTag,
		chunks:          []chunk{c},
	}
	p.server.lock.RUnlock()
	raw, err := pkt.marshal(true)
	require.NoError(t, err)

	before := p.server.stats.getNumPacketsReceived()
	p.serverConn.inboundHandler(raw)
	require.Eventually(t, func() bool {
		if p.server.stats.getNumPacketsReceived() <= before {
			return false
		}
		// the packet has been taken up; wait until its chunks have been handled as well
		p.server.lock.Lock()
		p.server.lock.Unlock() //nolint:staticcheck

		return true
	}, 10*time.Second, 5*time.Millisecond, "the injected packet was not read")
	time.Sleep(50 * time.Millisecond)
}

func (p *zzHuntC03n4Pair) serverCumTSN() uint32 {
	p.server.lock.RLock()
	defer p.server.lock.RUnlock()

	return p.server.peerLastTSN()
}

// openStreams makes the client send a first message on stream 1 and the server read it.
func (p *zzHuntC03n4Pair) openStreams(t *testing.T) (*Stream, *Stream) {
	t.Helper()

	cs, err := p.client.OpenStream(1, PayloadTypeWebRTCBinary)
	require.NoError(t, err)
	_, err = cs.Write([]byte("first"))
	require.NoError(t, err)

	acceptCh := make(chan *Stream, 1)
	go func() {
		s, _ := p.server.AcceptStream()
		acceptCh <- s
	}()
	var ss *Stream
	select {
	case ss = <-acceptCh:
		require.NotNil(t, ss)
	case <-time.After(20 * time.Second):
		require.FailNow(t, "stream not accepted")
	}

	buf := make([]byte, 1500)
	require.NoError(t, ss.SetReadDeadline(time.Now().Add(20*time.Second)))
	n, err := ss.Read(buf)
	require.NoError(t, err)
	require.Equal(t, "first", string(buf[:n]))
	require.NoError(t, ss.SetReadDeadline(time.Time{}))

	require.Eventually(t, func() bool { return p.client.BufferedAmount() == 0 },
		20*time.Second, 5*time.Millisecond)

	return cs, ss
}

func (p *zzHuntC03n4Pair) close() {
	_ = p.client.Close()
	_ = p.server.Close()
}

func zzHuntC03n4ReadWithin(t *testing.T, s *Stream, d time.Duration) (string, error) {
	t.Helper()

	buf := make([]byte, 1500)
	require.NoError(t, s.SetReadDeadline(time.Now().Add(d)))
	n, err := s.Read(buf)

	return string(buf[:n]), err
}


func TestZZHuntC03_4_ResetRequestWithFarRSN(t *testing.T) {
	p := zzHuntC03n4NewPair(t, true)
	defer p.close()

	cs, ss := p.openStreams(t)

	p.client.lock.RLock()
	clientNextRSN := p.client.myNextRSN
	p.client.lock.RUnlock()

	// a reset request for a stream that does not exist, with a request sequence number
	// 5000 ahead of anything the peer has used
	p.injectIntoServer(t, &chunkReconfig{paramA: &paramOutgoingResetRequest{
		reconfigRequestSequenceNumber: clientNextRSN + 5000,
		senderLastTSN:                 p.serverCumTSN(),
		streamIdentifiers:             []uint16{1000},
	}})
	require.Equal(t, established, p.server.getState())

	// data still flows
	_, err := cs.Write([]byte("second"))
	require.NoError(t, err)
	got, err := zzHuntC03n4ReadWithin(t, ss, 10*time.Second)
	require.NoError(t, err)
	require.Equal(t, "second", got)

	// the peer closes its stream: the reader has to see the end of the stream
	require.NoError(t, cs.Close())
	_, err = zzHuntC03n4ReadWithin(t, ss, 8*time.Second)
	if errors.Is(err, ErrReadDeadlineExceeded) {
		p.client.lock.RLock()
		pendingAtClient := len(p.client.reconfigs)
		p.client.lock.RUnlock()
		require.FailNowf(t, "the stream reset was answered but not performed",
			"reader still blocked; reset requests the sender still waits for: %d", pendingAtClient)
	}
	require.ErrorIs(t, err, io.EOF)
}
