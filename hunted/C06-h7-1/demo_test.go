package sctp

import (
	"errors"
	"fmt"
	"io"
	"net"
	"sort"
	"sync"
	"sync/atomic"
	"testing"
	"time"

	"github.com/pion/logging"
)

// An in-memory link. Packets are delivered at once and in order; a filter decides, per
// packet, whether it is lost. A tap sees every packet that is written.

type c06aConn struct {
	inbox  chan []byte
	closed chan struct{}
	once   sync.Once
	peer   *c06aConn
	tap    func(p *packet)
	drop   func(p *packet) bool
}

func newC06aPair() (*c06aConn, *c06aConn) {
	a := &c06aConn{inbox: make(chan []byte, 4096), closed: make(chan struct{})}
	b := &c06aConn{inbox: make(chan []byte, 4096), closed: make(chan struct{})}
	a.peer, b.peer = b, a

	return a, b
}

func (c *c06aConn) Read(p []byte) (int, error) {
	select {
	case b := <-c.inbox:
		return copy(p, b), nil
	case <-c.closed:
		return 0, io.EOF
	}
}

func (c *c06aConn) Write(p []byte) (int, error) {
	select {
	case <-c.closed:
		return 0, io.ErrClosedPipe
	default:
	}
	raw := append([]byte(nil), p...)
	pkt := &packet{}
	if err := pkt.unmarshal(false, raw); err == nil {
		if c.tap != nil {
			c.tap(pkt)
		}
		if c.drop != nil && c.drop(pkt) {
			return len(p), nil
		}
	}
	select {
	case c.peer.inbox <- raw:
	case <-c.peer.closed:
	}

	return len(p), nil
}

func (c *c06aConn) Close() error                     { c.once.Do(func() { close(c.closed) }); return nil }
func (c *c06aConn) LocalAddr() net.Addr              { return &net.UDPAddr{} }
func (c *c06aConn) RemoteAddr() net.Addr             { return &net.UDPAddr{} }
func (c *c06aConn) SetDeadline(time.Time) error      { return nil }
func (c *c06aConn) SetReadDeadline(time.Time) error  { return nil }
func (c *c06aConn) SetWriteDeadline(time.Time) error { return nil }

func c06aWaitFor(t *testing.T, what string, cond func() bool) {
	t.Helper()
	deadline := time.Now().Add(30 * time.Second)
	for time.Now().Before(deadline) {
		if cond() {
			return
		}
		time.Sleep(10 * time.Millisecond)
	}
	t.Fatalf("timed out waiting for: %s", what)
}

// what the application on side B sees of one accepted stream object
type c06aAccepted struct {
	sid  uint16
	msgs []string
	eof  bool
}

// Property C06: "reliable unordered streams deliver every message exactly once".
//
// Stream 1 is used with a retransmission limit (unordered, limit 0), closed by both sides in
// the regular way, and - after both resets have been performed and answered - opened again
// as a reliable unordered stream. Every message written on the re-opened stream is
// acknowledged by the peer, but the first ones are never handed to the reader.
//
// What happens in between: the last messages of the first incarnation were lost and
// abandoned; the SACKs that acknowledge the resulting I-FORWARD-TSN are lost too, so when
// the sender later abandons a message of ANOTHER stream its next I-FORWARD-TSN still lists
// stream 1 (its cumulative ack point has not moved). By then the receiver has already
// performed the reset of stream 1. handleIForwardTSN re-creates stream 1 for the entry
// ("the skipped message may be the first on its stream") and marks message identifiers
// 0..2 as skipped on it. The messages 0..2 of the new incarnation are then discarded.
func TestZZHuntC06_1_ForwardTSNAfterResetResurrectsStream(t *testing.T) {
	ca, cb := newC06aPair()

	var dropData, dropSack atomic.Bool
	hasData := func(p *packet) bool {
		for _, c := range p.chunks {
			if _, ok := c.(*chunkPayloadData); ok {
				return true
			}
		}

		return false
	}
	hasSack := func(p *packet) bool {
		for _, c := range p.chunks {
			if _, ok := c.(*chunkSelectiveAck); ok {
				return true
			}
		}

		return false
	}
	ca.drop = func(p *packet) bool { return dropData.Load() && hasData(p) }
	cb.drop = func(p *packet) bool { return dropSack.Load() && hasSack(p) }

	// every I-FORWARD-TSN that A puts on the wire
	type fwd struct {
		newCum  uint32
		streams map[uint16]bool
	}
	var (
		tapMu sync.Mutex
		fwds  []fwd
	)
	ca.tap = func(p *packet) {
		for _, c := range p.chunks {
			if f, ok := c.(*chunkIForwardTSN); ok {
				e := fwd{newCum: f.newCumulativeTSN, streams: map[uint16]bool{}}
				for _, s := range f.streams {
					e.streams[s.identifier] = true
				}
				tapMu.Lock()
				fwds = append(fwds, e)
				tapMu.Unlock()
			}
		}
	}

	lf := logging.NewDefaultLoggerFactory()
	type res struct {
		a   *Association
		err error
	}
	chA, chB := make(chan res, 1), make(chan res, 1)
	go func() {
		// RTOMax only shortens the waits of this test (T3-rtx and the reconfig timer
		// fire every 300 ms instead of after 1, 2, 4, ... seconds)
		a, err := ClientWithOptions(WithNetConn(ca), WithLoggerFactory(lf), WithName("A"),
			WithEnableInterleaving(true), WithRTOMax(300))
		chA <- res{a, err}
	}()
	go func() {
		a, err := ServerWithOptions(WithNetConn(cb), WithLoggerFactory(lf), WithName("B"),
			WithEnableInterleaving(true), WithRTOMax(300))
		chB <- res{a, err}
	}()
	ra, rb := <-chA, <-chB
	if ra.err != nil || rb.err != nil {
		t.Fatalf("handshake failed: %v / %v", ra.err, rb.err)
	}
	a, b := ra.a, rb.a
	defer func() {
		_ = a.Close()
		_ = b.Close()
	}()

	// side B: an application that accepts every stream, reads it to its end and then
	// closes its own direction (what the data channel layer does).
	var (
		accMu    sync.Mutex
		accepted []*c06aAccepted
	)
	go func() {
		for {
			s, err := b.AcceptStream()
			if err != nil {
				return
			}
			rec := &c06aAccepted{sid: s.StreamIdentifier()}
			accMu.Lock()
			accepted = append(accepted, rec)
			accMu.Unlock()
			go func() {
				buf := make([]byte, 65536)
				for {
					n, _, err := s.ReadSCTP(buf)
					if err != nil {
						accMu.Lock()
						rec.eof = errors.Is(err, io.EOF)
						accMu.Unlock()
						_ = s.Close()

						return
					}
					accMu.Lock()
					rec.msgs = append(rec.msgs, string(buf[:n]))
					accMu.Unlock()
				}
			}()
		}
	}()
	msgsOn := func(sid uint16) []string {
		accMu.Lock()
		defer accMu.Unlock()
		var out []string
		for _, r := range accepted {
			if r.sid == sid {
				out = append(out, r.msgs...)
			}
		}

		return out
	}

	// ---- first incarnation of stream 1, and stream 2: unordered, retransmission limit 0
	s1, err := a.OpenStream(1, PayloadTypeWebRTCBinary)
	if err != nil {
		t.Fatal(err)
	}
	s1.SetReliabilityParams(true, ReliabilityTypeRexmit, 0)
	s2, err := a.OpenStream(2, PayloadTypeWebRTCBinary)
	if err != nil {
		t.Fatal(err)
	}
	s2.SetReliabilityParams(true, ReliabilityTypeRexmit, 0)

	mustWrite := func(s *Stream, m string) {
		t.Helper()
		if _, err := s.WriteSCTP([]byte(m), PayloadTypeWebRTCBinary); err != nil {
			t.Fatalf("write %q: %v", m, err)
		}
	}
	mustWrite(s1, "old-0")
	mustWrite(s2, "other-0")
	c06aWaitFor(t, "first messages delivered", func() bool {
		return len(msgsOn(1)) == 1 && len(msgsOn(2)) == 1 && a.BufferedAmount() == 0
	})

	// ---- the path starts losing DATA (A->B) and SACKs (B->A)
	dropData.Store(true)
	dropSack.Store(true)
	mustWrite(s1, "old-1")
	mustWrite(s1, "old-2")
	if err = s1.Close(); err != nil {
		t.Fatal(err)
	}

	// A abandons old-1/old-2 and tells B to skip them; B then performs the reset of stream 1
	// (its reader sees end-of-stream and closes its own direction), A performs B's reset.
	c06aWaitFor(t, "I-FORWARD-TSN for the abandoned messages of stream 1", func() bool {
		tapMu.Lock()
		defer tapMu.Unlock()

		return len(fwds) > 0 && fwds[0].streams[1]
	})
	c06aWaitFor(t, "end of stream 1 on B", func() bool {
		accMu.Lock()
		defer accMu.Unlock()
		for _, r := range accepted {
			if r.sid == 1 && r.eof {
				return true
			}
		}

		return false
	})
	c06aWaitFor(t, "stream 1 closed on A (both resets performed)", func() bool {
		return s1.State() == StreamStateClosed
	})
	c06aWaitFor(t, "both reset requests answered", func() bool {
		a.lock.Lock()
		na := len(a.reconfigs)
		a.lock.Unlock()
		b.lock.Lock()
		nb := len(b.reconfigs)
		b.lock.Unlock()

		return na == 0 && nb == 0
	})
	tapMu.Lock()
	nFwdBefore := len(fwds)
	tapMu.Unlock()

	// ---- a message of stream 2 is lost and abandoned as well. The SACKs are still being
	// lost, so A's next I-FORWARD-TSN covers the old chunks of stream 1 again.
	mustWrite(s2, "other-1")
	c06aWaitFor(t, "I-FORWARD-TSN for the abandoned message of stream 2", func() bool {
		tapMu.Lock()
		defer tapMu.Unlock()
		for _, f := range fwds[nFwdBefore:] {
			if f.streams[2] {
				return true
			}
		}

		return false
	})

	// ---- the path is healthy again; everything outstanding gets acknowledged
	dropData.Store(false)
	dropSack.Store(false)
	c06aWaitFor(t, "all outstanding data acknowledged", func() bool { return a.BufferedAmount() == 0 })

	// ---- second incarnation of stream 1: reliable, unordered
	s1b, err := a.OpenStream(1, PayloadTypeWebRTCBinary)
	if err != nil {
		t.Fatal(err)
	}
	if s1b == s1 || s1b.State() != StreamStateOpen {
		t.Fatalf("stream 1 was not opened afresh (same object: %v, state %v)", s1b == s1, s1b.State())
	}
	s1b.SetReliabilityParams(true, ReliabilityTypeReliable, 0)
	want := []string{"new-0", "new-1", "new-2", "new-3", "new-4"}
	for _, m := range want {
		mustWrite(s1b, m)
	}
	c06aWaitFor(t, "messages of the re-opened stream acknowledged", func() bool { return a.BufferedAmount() == 0 })
	// everything has been acknowledged by B; give its readers ample time all the same
	deadline := time.Now().Add(3 * time.Second)
	for time.Now().Before(deadline) && len(msgsOn(1)) < 1+len(want) {
		time.Sleep(20 * time.Millisecond)
	}

	got := msgsOn(1)
	sort.Strings(got)
	accMu.Lock()
	nObjects := 0
	for _, r := range accepted {
		if r.sid == 1 {
			nObjects++
		}
	}
	accMu.Unlock()
	t.Logf("B accepted %d stream objects with identifier 1; messages read on them: %v", nObjects, got)

	count := map[string]int{}
	for _, m := range got {
		count[m]++
	}
	var missing []string
	for _, m := range want {
		if count[m] != 1 {
			missing = append(missing, fmt.Sprintf("%s x%d", m, count[m]))
		}
	}
	if len(missing) > 0 {
		t.Errorf("reliable unordered stream 1 (re-opened after a complete close): every message was written "+
			"successfully and acknowledged, but not every message was delivered exactly once: %v", missing)
	}
}
