// SPDX-FileCopyrightText: 2026 The Pion community <https://pion.ly>
// SPDX-License-Identifier: MIT

package sctp

import (
	"sync/atomic"
	"testing"
	"time"

	"github.com/pion/logging"
	"github.com/pion/transport/v4/test"
)

// huntC152Pair builds a connected pair over an in-memory bridge that a background
// goroutine ticks all the time (a live, loss-free, in-order network). The returned
// stop function ends the ticking.
func huntC152Pair(t *testing.T, blockWrite bool) (*test.Bridge, *Association, *Association, func()) {
	t.Helper()

	br := test.NewBridge()
	stopCh := make(chan struct{})
	tickerDone := make(chan struct{})
	go func() {
		defer close(tickerDone)
		for {
			select {
			case <-stopCh:
				return
			default:
			}
			if br.Tick() == 0 {
				time.Sleep(time.Millisecond)
			}
		}
	}()
	var stopped int32
	stop := func() {
		if atomic.CompareAndSwapInt32(&stopped, 0, 1) {
			close(stopCh)
			<-tickerDone
		}
	}

	type result struct {
		a   *Association
		err error
	}
	ch0 := make(chan result, 1)
	ch1 := make(chan result, 1)
	lf := logging.NewDefaultLoggerFactory()

	go func() {
		a, err := ClientWithOptions(
			WithName("a0"), WithNetConn(br.GetConn0()), WithLoggerFactory(lf), WithBlockWrite(blockWrite),
		)
		ch0 <- result{a, err}
	}()
	go func() {
		a, err := ServerWithOptions(WithName("a1"), WithNetConn(br.GetConn1()), WithLoggerFactory(lf))
		ch1 <- result{a, err}
	}()

	var a0, a1 *Association
	timeout := time.After(30 * time.Second)
	for a0 == nil || a1 == nil {
		select {
		case r := <-ch0:
			if r.err != nil {
				stop()
				t.Fatalf("client: %v", r.err)
			}
			a0 = r.a
		case r := <-ch1:
			if r.err != nil {
				stop()
				t.Fatalf("server: %v", r.err)
			}
			a1 = r.a
		case <-timeout:
			stop()
			t.Fatal("handshake did not complete")
		}
	}

	a1.lock.Lock()
	a1.ackMode = ackModeNoDelay
	a1.lock.Unlock()

	return br, a0, a1, stop
}

// The usual thing to do in OnBufferedAmountLow is to write more data to the stream.
// With BlockWrite enabled that Write waits until the previous message has left the
// pending queue, which needs SACKs to be processed - by the read loop, which is the
// goroutine running the callback. Write never returns and the association is dead.
func TestHuntC15_2_WriteFromLowThresholdCallbackWithBlockWriteHangs(t *testing.T) {
	br, a0, a1, stop := huntC152Pair(t, true)
	defer stop()

	s, err := a0.OpenStream(1, PayloadTypeWebRTCBinary)
	if err != nil {
		t.Fatal(err)
	}

	type wres struct {
		n   int
		err error
	}
	cbEntered := make(chan struct{}, 16)
	cbWrite := make(chan wres, 16)
	var nCallbacks int32

	s.SetBufferedAmountLowThreshold(50000)
	s.OnBufferedAmountLow(func() {
		if atomic.AddInt32(&nCallbacks, 1) != 1 {
			return
		}
		cbEntered <- struct{}{}
		// "it may call back into the stream"
		n, werr := s.Write(make([]byte, 1000))
		cbWrite <- wres{n, werr}
	})

	// a reader on the peer so that its receive window never fills
	go func() {
		var rs *Stream
		rs, rerr := a1.AcceptStream()
		if rerr != nil {
			return
		}
		buf := make([]byte, 70000)
		for {
			if _, rerr = rs.Read(buf); rerr != nil {
				return
			}
		}
	}()

	// One 60000-byte message: more than the congestion window, so part of it waits
	// in the pending queue while the first SACKs come in.
	if n, werr := s.Write(make([]byte, 60000)); werr != nil || n != 60000 {
		t.Fatalf("write: n=%d err=%v", n, werr)
	}

	select {
	case <-cbEntered:
	case <-time.After(30 * time.Second):
		t.Fatalf("the low-threshold callback never fired; buffered=%d", s.BufferedAmount())
	}

	select {
	case r := <-cbWrite:
		if r.err != nil || r.n != 1000 {
			t.Fatalf("write from the callback: n=%d err=%v", r.n, r.err)
		}
		// A working library gets here: everything is delivered and acknowledged.
		deadline := time.Now().Add(30 * time.Second)
		for s.BufferedAmount() != 0 && time.Now().Before(deadline) {
			time.Sleep(5 * time.Millisecond)
		}
		if got := s.BufferedAmount(); got != 0 {
			t.Errorf("buffered amount = %d after everything should have been acknowledged", got)
		}
	case <-time.After(10 * time.Second):
		a0.lock.RLock()
		ackPoint1 := a0.cumulativeTSNAckPoint
		pending := a0.pendingQueue.size()
		inflight := a0.inflightQueue.size()
		a0.lock.RUnlock()
		time.Sleep(2 * time.Second)
		a0.lock.RLock()
		ackPoint2 := a0.cumulativeTSNAckPoint
		a0.lock.RUnlock()
		t.Errorf("Stream.Write called from OnBufferedAmountLow has not returned after 10s on a live, loss-free network: "+
			"buffered=%d pending chunks=%d inflight chunks=%d; packets for a0 waiting unread in the transport=%d; "+
			"cumulative ack point %d -> %d over the last 2s (the read loop is stuck inside the callback)",
			s.BufferedAmount(), pending, inflight, br.Len(1), ackPoint1, ackPoint2)

		// release the callback so that the test can end
		_ = s.SetWriteDeadline(time.Now().Add(-time.Second))
		select {
		case r := <-cbWrite:
			t.Logf("after expiring the write deadline the callback's write returned n=%d err=%v", r.n, r.err)
		case <-time.After(10 * time.Second):
		}
	}

	go func() { _ = a0.Close() }()
	go func() { _ = a1.Close() }()
	time.Sleep(100 * time.Millisecond)
}

// Same root cause, without BlockWrite: the callback calls back into the association
// with Close (what an application does when the last byte of a transfer has been
// acknowledged). Close waits for the read loop, which is running the callback.
func TestHuntC15_2_CloseFromLowThresholdCallbackHangs(t *testing.T) {
	_, a0, a1, stop := huntC152Pair(t, false)
	defer stop()

	s, err := a0.OpenStream(1, PayloadTypeWebRTCBinary)
	if err != nil {
		t.Fatal(err)
	}

	cbEntered := make(chan struct{}, 1)
	closed := make(chan error, 1)
	var nCallbacks int32
	s.SetBufferedAmountLowThreshold(0)
	s.OnBufferedAmountLow(func() {
		if atomic.AddInt32(&nCallbacks, 1) != 1 {
			return
		}
		cbEntered <- struct{}{}
		closed <- a0.Close() // "it may call back into the ... association"
	})

	if n, werr := s.Write(make([]byte, 1000)); werr != nil || n != 1000 {
		t.Fatalf("write: n=%d err=%v", n, werr)
	}

	select {
	case <-cbEntered:
	case <-time.After(30 * time.Second):
		t.Fatalf("the low-threshold callback never fired; buffered=%d", s.BufferedAmount())
	}

	select {
	case cerr := <-closed:
		t.Logf("Close from the callback returned: %v", cerr)
	case <-time.After(10 * time.Second):
		t.Errorf("Association.Close called from OnBufferedAmountLow has not returned after 10s " +
			"(it waits for the read loop, which is the goroutine running the callback)")
	}

	go func() { _ = a1.Close() }()
	time.Sleep(100 * time.Millisecond)
}
