// SPDX-FileCopyrightText: 2026 The Pion community <https://pion.ly>
// SPDX-License-Identifier: MIT

package sctp

import (
	"io"
	"net"
	"sync"
	"sync/atomic"
	"testing"
	"time"

	"github.com/pion/logging"
)

// huntC024Conn: loss-free, in-order in-memory datagram pipe. No faults at all.
type huntC024Conn struct {
	mu     sync.Mutex
	cond   *sync.Cond
	pkts   [][]byte
	closed bool
	peer   *huntC024Conn
}

func newHuntC024Pipe() (*huntC024Conn, *huntC024Conn) {
	a, b := &huntC024Conn{}, &huntC024Conn{}
	a.cond, b.cond = sync.NewCond(&a.mu), sync.NewCond(&b.mu)
	a.peer, b.peer = b, a

	return a, b
}

func (c *huntC024Conn) Read(p []byte) (int, error) {
	c.mu.Lock()
	defer c.mu.Unlock()
	for {
		if len(c.pkts) > 0 {
			pkt := c.pkts[0]
			c.pkts = c.pkts[1:]

			return copy(p, pkt), nil
		}
		if c.closed {
			return 0, io.EOF
		}
		c.cond.Wait()
	}
}

func (c *huntC024Conn) Write(p []byte) (int, error) {
	c.mu.Lock()
	closed := c.closed
	c.mu.Unlock()
	if closed {
		return 0, io.ErrClosedPipe
	}
	cp := append([]byte(nil), p...)
	c.peer.mu.Lock()
	if !c.peer.closed {
		c.peer.pkts = append(c.peer.pkts, cp)
		c.peer.cond.Broadcast()
	}
	c.peer.mu.Unlock()

	return len(p), nil
}

func (c *huntC024Conn) Close() error {
	c.mu.Lock()
	c.closed = true
	c.cond.Broadcast()
	c.mu.Unlock()

	return nil
}

func (c *huntC024Conn) LocalAddr() net.Addr                { return &net.UDPAddr{} }
func (c *huntC024Conn) RemoteAddr() net.Addr               { return &net.UDPAddr{} }
func (c *huntC024Conn) SetDeadline(time.Time) error      { return nil }
func (c *huntC024Conn) SetReadDeadline(time.Time) error  { return nil }
func (c *huntC024Conn) SetWriteDeadline(time.Time) error { return nil }

// TestHuntC02_4_BlockWriteFromBufferedAmountLowCallback:
//
// BlockWrite association on a perfect network, receiver reads everything.
// Stream 2 is fed by an ordinary goroutine that writes 32 KiB messages back to
// back. Stream 1 is fed the way the API suggests (and the way the library's own
// tests do): each time OnBufferedAmountLow fires, the callback writes the next
// (100 byte) message. The callback is invoked synchronously on the association's
// read loop, in the middle of SACK processing. With BlockWrite that Write waits
// for a.writePending to clear, i.e. for the message that stream 2 has pending to
// leave the pending queue - which needs congestion/receive window, i.e. SACKs,
// i.e. the read loop that is sitting in the callback. Nothing ever moves again.
func TestHuntC02_4_BlockWriteFromBufferedAmountLowCallback(t *testing.T) {
	const (
		rtoMaxMs  = 1000
		bulkMsgs  = 300
		bulkSize  = 32 * 1024
		smallMsgs = 200
		waitFor   = 30 * time.Second
	)

	c0, c1 := newHuntC024Pipe()
	lf := logging.NewDefaultLoggerFactory()

	type res struct {
		a   *Association
		err error
	}
	srvCh := make(chan res, 1)
	go func() {
		a, err := ServerWithOptions(WithNetConn(c1), WithLoggerFactory(lf), WithName("server"), WithRTOMax(rtoMaxMs),
			WithEnableInterleaving(false), WithBlockWrite(true))
		srvCh <- res{a, err}
	}()
	client, err := ClientWithOptions(WithNetConn(c0), WithLoggerFactory(lf), WithName("client"), WithRTOMax(rtoMaxMs),
		WithEnableInterleaving(false), WithBlockWrite(true))
	if err != nil {
		t.Fatalf("client: %v", err)
	}
	sr := <-srvCh
	if sr.err != nil {
		t.Fatalf("server: %v", sr.err)
	}
	server := sr.a
	defer func() {
		// Close() waits for the read loop, which (see below) may sit in the callback
		// for ever: do not let the test binary hang on it.
		done := make(chan struct{})
		go func() {
			_ = client.Close()
			_ = server.Close()
			close(done)
		}()
		select {
		case <-done:
		case <-time.After(3 * time.Second):
			t.Logf("note: Association.Close() does not return either (it waits for the blocked read loop)")
		}
	}()

	// Receiving application: accept everything, read everything, for ever.
	var gotSmall, gotBulk int32
	go func() {
		for {
			s, aerr := server.AcceptStream()
			if aerr != nil {
				return
			}
			go func() {
				buf := make([]byte, 2*bulkSize)
				for {
					n, rerr := s.Read(buf)
					if rerr != nil {
						return
					}
					switch {
					case s.StreamIdentifier() == 1 && n == 100:
						atomic.AddInt32(&gotSmall, 1)
					case s.StreamIdentifier() == 2 && n == bulkSize:
						atomic.AddInt32(&gotBulk, 1)
					}
				}
			}()
		}
	}()

	s1, err := client.OpenStream(1, PayloadTypeWebRTCBinary)
	if err != nil {
		t.Fatal(err)
	}
	s2, err := client.OpenStream(2, PayloadTypeWebRTCBinary)
	if err != nil {
		t.Fatal(err)
	}

	// stream 1: next message whenever the previous one has been acknowledged
	var sentSmall, inCallback, callbackReturned int32
	small := make([]byte, 100)
	s1.SetBufferedAmountLowThreshold(0)
	s1.OnBufferedAmountLow(func() {
		if atomic.LoadInt32(&sentSmall) >= smallMsgs {
			return
		}
		atomic.AddInt32(&inCallback, 1)
		if _, werr := s1.Write(small); werr == nil {
			atomic.AddInt32(&sentSmall, 1)
		}
		atomic.AddInt32(&callbackReturned, 1)
	})

	// stream 2: plain writer goroutine
	var sentBulk int32
	go func() {
		bulk := make([]byte, bulkSize)
		for i := 0; i < bulkMsgs; i++ {
			if _, werr := s2.Write(bulk); werr != nil {
				return
			}
			atomic.AddInt32(&sentBulk, 1)
		}
	}()

	// kick off stream 1
	if _, err = s1.Write(small); err != nil {
		t.Fatal(err)
	}
	atomic.AddInt32(&sentSmall, 1)

	deadline := time.Now().Add(waitFor)
	for time.Now().Before(deadline) {
		if atomic.LoadInt32(&gotSmall) == smallMsgs && atomic.LoadInt32(&gotBulk) == bulkMsgs && client.BufferedAmount() == 0 {
			return // property holds
		}
		time.Sleep(50 * time.Millisecond)
	}

	b1 := client.BufferedAmount()
	sm1, bk1 := atomic.LoadInt32(&gotSmall), atomic.LoadInt32(&gotBulk)
	time.Sleep(5 * time.Second)
	t.Fatalf("stalled on a perfect network: after %v delivered %d/%d small and %d/%d bulk messages (5 s later: %d and %d); "+
		"writes accepted: %d small, %d bulk; sender BufferedAmount=%d (5 s later %d); "+
		"callback entered %d times, returned %d times (the read loop is inside the callback); SACKs processed=%d, T3 timeouts=%d",
		waitFor, sm1, smallMsgs, bk1, bulkMsgs, atomic.LoadInt32(&gotSmall), atomic.LoadInt32(&gotBulk),
		atomic.LoadInt32(&sentSmall), atomic.LoadInt32(&sentBulk), b1, client.BufferedAmount(),
		atomic.LoadInt32(&inCallback), atomic.LoadInt32(&callbackReturned),
		client.stats.getNumSACKsReceived(), client.stats.getNumT3Timeouts())
}
