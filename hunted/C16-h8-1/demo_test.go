package sctp

import (
	"errors"
	"fmt"
	"io"
	"net"
	"os"
	"sync"
	"sync/atomic"
	"testing"
	"time"

	"github.com/pion/logging"
)

// zzC16PipeConn is one end of a loss-free, in-order, in-memory packet pipe.
type zzC16PipeConn struct {
	in     chan []byte
	out    chan []byte
	closed chan struct{}
	once   sync.Once
	// dropData makes Write discard packets that start with a DATA chunk
	dropData atomic.Bool
	// dropAll makes Write discard every packet (total outage in this direction)
	dropAll atomic.Bool
	// tap, when set before traffic starts, sees every packet written
	tap func([]byte)
}

func zzC16Pipe() (*zzC16PipeConn, *zzC16PipeConn) {
	ab := make(chan []byte, 1<<16)
	ba := make(chan []byte, 1<<16)

	return &zzC16PipeConn{in: ba, out: ab, closed: make(chan struct{})},
		&zzC16PipeConn{in: ab, out: ba, closed: make(chan struct{})}
}

func (c *zzC16PipeConn) Read(p []byte) (int, error) {
	select {
	case b := <-c.in:
		return copy(p, b), nil
	case <-c.closed:
		return 0, io.EOF
	}
}

func (c *zzC16PipeConn) Write(p []byte) (int, error) {
	if c.tap != nil {
		c.tap(p)
	}
	if c.dropAll.Load() {
		return len(p), nil
	}
	if c.dropData.Load() && len(p) > int(commonHeaderSize) && chunkType(p[commonHeaderSize]) == ctPayloadData {
		return len(p), nil
	}
	b := append([]byte{}, p...)
	select {
	case c.out <- b:
		return len(p), nil
	case <-c.closed:
		return 0, io.ErrClosedPipe
	}
}

func (c *zzC16PipeConn) Close() error                     { c.once.Do(func() { close(c.closed) }); return nil }
func (c *zzC16PipeConn) LocalAddr() net.Addr              { return &net.IPAddr{} }
func (c *zzC16PipeConn) RemoteAddr() net.Addr             { return &net.IPAddr{} }
func (c *zzC16PipeConn) SetDeadline(time.Time) error      { return nil }
func (c *zzC16PipeConn) SetReadDeadline(time.Time) error  { return nil }
func (c *zzC16PipeConn) SetWriteDeadline(time.Time) error { return nil }

func zzC16Pair(t *testing.T) (*Association, *Association) {
	t.Helper()
	a0, a1, _ := zzC16PairConn(t)

	return a0, a1
}

func zzC16PairConn(t *testing.T, clientOpts ...ClientOption) (*Association, *Association, *zzC16PipeConn) {
	t.Helper()
	c0, c1 := zzC16Pipe()
	lf := logging.NewDefaultLoggerFactory()
	lf.DefaultLogLevel = logging.LogLevelDisabled
	type res struct {
		a   *Association
		err error
	}
	ch0 := make(chan res, 1)
	ch1 := make(chan res, 1)
	go func() {
		opts := []ClientOption{WithName("a0"), WithNetConn(c0), WithLoggerFactory(lf), WithEnableInterleaving(false)}
		opts = append(opts, clientOpts...)
		a, err := ClientWithOptions(opts...)
		ch0 <- res{a, err}
	}()
	go func() {
		a, err := ServerWithOptions(WithName("a1"), WithNetConn(c1), WithLoggerFactory(lf), WithEnableInterleaving(false))
		ch1 <- res{a, err}
	}()
	var r0, r1 res
	select {
	case r0 = <-ch0:
	case <-time.After(20 * time.Second):
		t.Fatal("client handshake timed out")
	}
	select {
	case r1 = <-ch1:
	case <-time.After(20 * time.Second):
		t.Fatal("server handshake timed out")
	}
	if r0.err != nil || r1.err != nil {
		t.Fatalf("handshake: %v %v", r0.err, r1.err)
	}

	return r0.a, r1.a, c0
}

func zzC16WaitFor(t *testing.T, what string, limit time.Duration, cond func() bool) {
	t.Helper()
	deadline := time.Now().Add(limit)
	for !cond() {
		if time.Now().After(deadline) {
			t.Fatalf("timed out waiting for %s", what)
		}
		time.Sleep(5 * time.Millisecond)
	}
}

// zzC16Outage: an outage swallows a burst of `burst` one-byte messages of an ordered stream
// that never retransmits (and the FORWARD-TSNs sent meanwhile). When the path is back the
// sender announces the whole skip in one FORWARD-TSN. Afterwards the stream is used again,
// reliably. It returns "" when that last message is delivered.
func zzC16Outage(t *testing.T, burst int) string {
	t.Helper()
	// A floor under the congestion window (a public option) keeps the whole burst in flight
	// whatever the timing: otherwise a T3-rtx expiry during the outage, which depends on how
	// fast this machine is, would leave part of the burst waiting in the sender's queue.
	a0, a1, c0 := zzC16PairConn(t, WithMinCwnd(256*1024))
	defer func() {
		go a0.Close() //nolint:errcheck
		_ = a1.Close()
	}()

	const si = 3
	s0, err := a0.OpenStream(si, PayloadTypeWebRTCBinary)
	if err != nil {
		t.Fatal(err)
	}
	// a few reliable messages first, read by the peer
	for i := 0; i < 16; i++ {
		if _, err = s0.WriteSCTP([]byte("hello"), PayloadTypeWebRTCBinary); err != nil {
			t.Fatal(err)
		}
	}
	s1, err := a1.AcceptStream()
	if err != nil {
		t.Fatal(err)
	}
	rbuf := make([]byte, 64*1024)
	for i := 0; i < 16; i++ {
		_ = s1.SetReadDeadline(time.Now().Add(60 * time.Second))
		if _, _, err = s1.ReadSCTP(rbuf); err != nil {
			t.Fatalf("read %d: %v", i, err)
		}
	}
	zzC16WaitFor(t, "the first messages to be acknowledged", 60*time.Second, func() bool { return a0.BufferedAmount() == 0 })

	// the outage, and the burst of ordered messages that are never retransmitted
	s0.SetReliabilityParams(false, ReliabilityTypeRexmit, 0)
	s1.lock.RLock()
	cursor := s1.reassemblyQueue.nextSSN
	s1.lock.RUnlock()
	c0.dropAll.Store(true)
	for i := 0; i < burst; i++ {
		if _, err = s0.WriteSCTP([]byte{byte(i)}, PayloadTypeWebRTCBinary); err != nil {
			t.Fatal(err)
		}
	}
	zzC16WaitFor(t, "the burst to be sent (and lost)", 120*time.Second, func() bool {
		a0.lock.RLock()
		defer a0.lock.RUnlock()

		return a0.pendingQueue.size() == 0
	})
	c0.dropAll.Store(false)
	// the next T3-rtx expiry sends the FORWARD-TSN; the receiver's SACK empties the sender
	zzC16WaitFor(t, "the skip to be announced and acknowledged", 120*time.Second, func() bool {
		return a0.BufferedAmount() == 0
	})
	a1.lock.RLock()
	peerLast := a1.peerLastTSN()
	a1.lock.RUnlock()
	a0.lock.RLock()
	lastSent := a0.myNextTSN - 1
	a0.lock.RUnlock()
	if peerLast != lastSent {
		t.Fatalf("test assumption: receiver's cumulative TSN %d should have reached %d", peerLast, lastSent)
	}

	// the stream is used again, reliably
	s0.SetReliabilityParams(false, ReliabilityTypeReliable, 0)
	if _, err = s0.WriteSCTP([]byte("after"), PayloadTypeWebRTCBinary); err != nil {
		t.Fatal(err)
	}
	_ = s1.SetReadDeadline(time.Now().Add(15 * time.Second))
	n, _, rerr := s1.ReadSCTP(rbuf)
	if rerr != nil {
		s1.lock.RLock()
		next := s1.reassemblyQueue.nextSSN
		queued := s1.reassemblyQueue.getNumBytes()
		s1.lock.RUnlock()
		s0.lock.RLock()
		sent := s0.sequenceNumber - 1
		s0.lock.RUnlock()

		return fmt.Sprintf("burst of %d skipped messages (ssn %d..%d): the reliable message (ssn=%d) written after the outage is "+
			"never delivered (%v): the reader still waits for ssn=%d, which the FORWARD-TSN told it to skip; %d bytes "+
			"queued at the receiver, %d bytes still unacknowledged at the sender after 15s (T3-rtx timeouts so far: %d)",
			burst, cursor, sent-1, sent, rerr, next, queued, a0.BufferedAmount(), a0.stats.getNumT3Timeouts())
	}
	if string(rbuf[:n]) != "after" {
		return fmt.Sprintf("got %q", rbuf[:n])
	}

	return ""
}

// The skip is more than 2^15 stream sequence numbers long: its FORWARD-TSN entry is taken
// for an old one (serial arithmetic against the reader's cursor) and dropped, while the
// cumulative TSN does advance. The stream is dead from then on.
func TestZZHuntC16_1_OutageLongerThanHalfTheSSNSpace(t *testing.T) {
	if msg := zzC16Outage(t, 40000); msg != "" {
		t.Fatal(msg)
	}
}

// Control (passes): the very same scenario with a skip of less than 2^15 sequence numbers.
func TestZZHuntC16_1_ControlShorterOutage(t *testing.T) {
	if msg := zzC16Outage(t, 30000); msg != "" {
		t.Fatal(msg)
	}
}

// An ordered stream whose reader is 2^15 messages behind and that does not retransmit
// (any more): the sender abandons two further messages and announces the skip with a
// FORWARD-TSN carrying the 16-bit stream sequence number 32769. The receiver compares
// that number with the reader's cursor (0) in serial arithmetic, finds it "behind"
// and drops the skip. After the reader has caught up the stream waits for message
// 32768 for ever: everything written afterwards - even reliably - is never delivered.
func TestZZHuntC16_1_SkipAheadOfLaggingReaderIsLost(t *testing.T) {
	a0, a1 := zzC16Pair(t)
	defer func() {
		go a0.Close() //nolint:errcheck
		_ = a1.Close()
	}()

	const si = 7
	s0, err := a0.OpenStream(si, PayloadTypeWebRTCBinary)
	if err != nil {
		t.Fatal(err)
	}
	const lag = 1 << 15
	for i := 0; i < lag; i++ {
		if _, err = s0.WriteSCTP([]byte{byte(i), byte(i >> 8)}, PayloadTypeWebRTCBinary); err != nil {
			t.Fatal(err)
		}
	}
	s1, err := a1.AcceptStream()
	if err != nil {
		t.Fatal(err)
	}
	// all 2^15 messages have arrived and wait to be read (nothing was lost: the pipe is loss-free)
	zzC16WaitFor(t, "the backlog to arrive", 120*time.Second, func() bool {
		return a0.BufferedAmount() == 0 && s1.getNumBytesInReassemblyQueue() == 2*lag
	})

	// from here on the stream is ordered and partially reliable: never retransmit
	// (WebRTC maxRetransmits = 0)
	s0.SetReliabilityParams(false, ReliabilityTypeRexmit, 0)

	// two more messages: stream sequence numbers 32768 and 32769. The receiver cannot place
	// them (2^15 or more ahead of the reader) and does not acknowledge them; the sender
	// does not retransmit, abandons them and tells the receiver to skip them.
	for i := 0; i < 2; i++ {
		if _, err = s0.WriteSCTP([]byte("skipped"), PayloadTypeWebRTCBinary); err != nil {
			t.Fatal(err)
		}
	}
	zzC16WaitFor(t, "the two messages to be abandoned and the skip acknowledged", 60*time.Second, func() bool {
		return a0.BufferedAmount() == 0
	})
	a1.lock.RLock()
	peerLast := a1.peerLastTSN()
	a1.lock.RUnlock()
	a0.lock.RLock()
	lastSent := a0.myNextTSN - 1
	a0.lock.RUnlock()
	if peerLast != lastSent {
		t.Fatalf("test assumption: receiver's cumulative TSN %d should have reached %d", peerLast, lastSent)
	}

	// now the reader catches up
	buf := make([]byte, 64)
	for i := 0; i < lag; i++ {
		_ = s1.SetReadDeadline(time.Now().Add(30 * time.Second))
		n, _, rerr := s1.ReadSCTP(buf)
		if rerr != nil || n != 2 || buf[0] != byte(i) || buf[1] != byte(i>>8) {
			t.Fatalf("backlog message %d: n=%d err=%v", i, n, rerr)
		}
	}

	// and the sender writes one more message, reliably
	s0.SetReliabilityParams(false, ReliabilityTypeReliable, 0)
	if _, err = s0.WriteSCTP([]byte("after"), PayloadTypeWebRTCBinary); err != nil {
		t.Fatal(err)
	}
	zzC16WaitFor(t, "the last message to be acknowledged", 60*time.Second, func() bool {
		return a0.BufferedAmount() == 0
	})

	_ = s1.SetReadDeadline(time.Now().Add(10 * time.Second))
	n, _, rerr := s1.ReadSCTP(buf)
	if rerr != nil {
		s1.lock.RLock()
		next := s1.reassemblyQueue.nextSSN
		queued := s1.reassemblyQueue.getNumBytes()
		s1.lock.RUnlock()
		if errors.Is(rerr, os.ErrDeadlineExceeded) {
			t.Fatalf("the reliable message written after the skip was acknowledged but is never delivered: "+
				"reader still waits for ssn=%d (skipped by the FORWARD-TSN), %d bytes queued behind it", next, queued)
		}
		t.Fatalf("read: %v", rerr)
	}
	if string(buf[:n]) != "after" {
		t.Fatalf("got %q", buf[:n])
	}
}
