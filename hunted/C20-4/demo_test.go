package sctp

import (
	"bytes"
	"io"
	"net"
	"os"
	"sync"
	"sync/atomic"
	"testing"
	"time"

	"github.com/pion/logging"
)

// A message accepted by Write while the stream was fully reliable must be delivered,
// whatever SetReliabilityParams is called with afterwards (for the messages that follow).

type h4Conn struct {
	mu     sync.Mutex
	cond   *sync.Cond
	pkts   [][]byte
	closed bool
	peer   *h4Conn
	drop   func(b []byte) bool // called for every outgoing packet; true => the network loses it
	rdl    time.Time
}

func newH4ConnPair() (*h4Conn, *h4Conn) {
	a := &h4Conn{}
	b := &h4Conn{}
	a.cond = sync.NewCond(&a.mu)
	b.cond = sync.NewCond(&b.mu)
	a.peer = b
	b.peer = a

	return a, b
}

func (c *h4Conn) Read(p []byte) (int, error) {
	c.mu.Lock()
	defer c.mu.Unlock()
	for {
		if len(c.pkts) > 0 {
			pkt := c.pkts[0]
			c.pkts = c.pkts[1:]

			return copy(p, pkt), nil
		}
		if c.closed {
			return 0, io.EOF
		}
		if !c.rdl.IsZero() && !time.Now().Before(c.rdl) {
			return 0, os.ErrDeadlineExceeded
		}
		c.cond.Wait()
	}
}

func (c *h4Conn) Write(p []byte) (int, error) {
	c.mu.Lock()
	closed := c.closed
	drop := c.drop
	c.mu.Unlock()
	if closed {
		return 0, net.ErrClosed
	}
	if drop != nil && drop(p) {
		return len(p), nil
	}
	cp := append([]byte(nil), p...)
	c.peer.mu.Lock()
	if !c.peer.closed {
		c.peer.pkts = append(c.peer.pkts, cp)
		c.peer.cond.Broadcast()
	}
	c.peer.mu.Unlock()

	return len(p), nil
}

func (c *h4Conn) Close() error {
	c.mu.Lock()
	c.closed = true
	c.cond.Broadcast()
	c.mu.Unlock()

	return nil
}

func (c *h4Conn) LocalAddr() net.Addr              { return &net.UDPAddr{} }
func (c *h4Conn) RemoteAddr() net.Addr             { return &net.UDPAddr{} }
func (c *h4Conn) SetDeadline(time.Time) error      { return nil }
func (c *h4Conn) SetWriteDeadline(time.Time) error { return nil }
func (c *h4Conn) SetReadDeadline(t time.Time) error {
	c.mu.Lock()
	c.rdl = t
	c.cond.Broadcast()
	c.mu.Unlock()

	return nil
}

func h4Pair(t *testing.T, cfg Config) (*Association, *Association, *h4Conn, *h4Conn) {
	t.Helper()
	c0, c1 := newH4ConnPair()
	cfg.LoggerFactory = logging.NewDefaultLoggerFactory()
	type res struct {
		a   *Association
		err error
	}
	ch0 := make(chan res, 1)
	ch1 := make(chan res, 1)
	go func() {
		cfg0 := cfg
		cfg0.NetConn = c0
		cfg0.Name = "a0"
		a, err := Client(cfg0)
		ch0 <- res{a, err}
	}()
	go func() {
		cfg1 := cfg
		cfg1.NetConn = c1
		cfg1.Name = "a1"
		a, err := Server(cfg1)
		ch1 <- res{a, err}
	}()
	var a0, a1 *Association
	for i := 0; i < 2; i++ {
		select {
		case r := <-ch0:
			if r.err != nil {
				t.Fatalf("client: %v", r.err)
			}
			a0 = r.a
		case r := <-ch1:
			if r.err != nil {
				t.Fatalf("server: %v", r.err)
			}
			a1 = r.a
		case <-time.After(30 * time.Second):
			t.Fatalf("handshake did not complete")
		}
	}

	return a0, a1, c0, c1
}

func TestHuntC20_4_ReliabilityChangeAbandonsEarlierReliableMessage(t *testing.T) {
	for _, interleaving := range []bool{false, true} {
		name := "DATA"
		if interleaving {
			name = "I-DATA"
		}
		t.Run(name, func(t *testing.T) {
			// RTOMax only shortens the T3-rtx back-off so that the test is quick
			cfg := Config{RTOMax: 1000, enableInterleaving: interleaving, enableInterleavingSet: true}
			a0, a1, c0, _ := h4Pair(t, cfg)
			defer func() {
				go a0.Close() //nolint:errcheck
				go a1.Close() //nolint:errcheck
			}()

			m1 := []byte("m1: written while the stream was reliable")
			m2 := []byte("m2: written after the stream became rexmit=0")

			// The network loses the first two packets that carry m1, everything else arrives.
			var m1Transmissions atomic.Int32
			c0.mu.Lock()
			c0.drop = func(raw []byte) bool {
				p := &packet{}
				if err := p.unmarshal(false, raw); err != nil {
					return false
				}
				for _, c := range p.chunks {
					if d, ok := c.(*chunkPayloadData); ok && bytes.Equal(d.userData, m1) {
						return m1Transmissions.Add(1) <= 2
					}
				}

				return false
			}
			c0.mu.Unlock()

			s0, err := a0.OpenStream(1, PayloadTypeWebRTCBinary)
			if err != nil {
				t.Fatal(err)
			}
			// (the default, spelled out)
			s0.SetReliabilityParams(false, ReliabilityTypeReliable, 0)

			if _, err = s0.Write(m1); err != nil {
				t.Fatalf("write m1: %v", err)
			}
			// m1 has been accepted, and it has even left: wait for its first transmission
			deadline := time.Now().Add(20 * time.Second)
			for m1Transmissions.Load() < 1 {
				if time.Now().After(deadline) {
					t.Fatalf("m1 was never transmitted")
				}
				time.Sleep(time.Millisecond)
			}

			// From now on the application wants fire-and-forget messages on this stream.
			s0.SetReliabilityParams(false, ReliabilityTypeRexmit, 0)
			if _, err = s0.Write(m2); err != nil {
				t.Fatalf("write m2: %v", err)
			}

			type msg struct {
				data []byte
				err  error
			}
			got := make(chan msg, 4)
			go func() {
				s1, err := a1.AcceptStream()
				if err != nil {
					got <- msg{nil, err}

					return
				}
				for {
					buf := make([]byte, 1024)
					n, err := s1.Read(buf)
					got <- msg{buf[:n], err}
					if err != nil {
						return
					}
				}
			}()

			// A reliable sender retransmits m1 every second (RTO.Min = RTOMax = 1 s), the third
			// transmission gets through: 30 s is far more than it needs.
			select {
			case m := <-got:
				if m.err != nil {
					t.Fatalf("read: %v", m.err)
				}
				if !bytes.Equal(m.data, m1) {
					t.Fatalf("the reliable message m1 was given up (it was transmitted %d times): "+
						"first message delivered on the ordered stream is %q", m1Transmissions.Load(), m.data)
				}
			case <-time.After(30 * time.Second):
				t.Fatalf("nothing was delivered (m1 transmitted %d times)", m1Transmissions.Load())
			}
		})
	}
}
