package sctp

// C20 finding 3: Association.Close() / Abort() called from inside an OnBufferedAmountLow
// callback never return. The callback runs on the association's readLoop goroutine (in the
// middle of SACK processing) and both methods wait for readLoop to end.

import (
	"io"
	"net"
	"os"
	"sync"
	"testing"
	"time"

	"github.com/pion/logging"
)

type h20cConn struct {
	mu      sync.Mutex
	cond    *sync.Cond
	packets [][]byte
	closed  bool
	peer    *h20cConn
	rdl     time.Time
}

func h20cNewPair() (*h20cConn, *h20cConn) {
	a := &h20cConn{}
	b := &h20cConn{}
	a.cond = sync.NewCond(&a.mu)
	b.cond = sync.NewCond(&b.mu)
	a.peer = b
	b.peer = a

	return a, b
}

func (c *h20cConn) Read(b []byte) (int, error) {
	c.mu.Lock()
	defer c.mu.Unlock()
	for {
		if len(c.packets) > 0 {
			p := c.packets[0]
			c.packets = c.packets[1:]

			return copy(b, p), nil
		}
		if c.closed {
			return 0, io.EOF
		}
		if !c.rdl.IsZero() && !time.Now().Before(c.rdl) {
			return 0, os.ErrDeadlineExceeded
		}
		c.cond.Wait()
	}
}

func (c *h20cConn) Write(b []byte) (int, error) {
	c.mu.Lock()
	closed := c.closed
	c.mu.Unlock()
	if closed {
		return 0, net.ErrClosed
	}
	cp := append([]byte(nil), b...)
	p := c.peer
	p.mu.Lock()
	if !p.closed {
		p.packets = append(p.packets, cp)
		p.cond.Broadcast()
	}
	p.mu.Unlock()

	return len(b), nil
}

func (c *h20cConn) Close() error {
	c.mu.Lock()
	defer c.mu.Unlock()
	c.closed = true
	c.cond.Broadcast()

	return nil
}
func (c *h20cConn) LocalAddr() net.Addr              { return &net.IPAddr{} }
func (c *h20cConn) RemoteAddr() net.Addr             { return &net.IPAddr{} }
func (c *h20cConn) SetDeadline(time.Time) error      { return nil }
func (c *h20cConn) SetWriteDeadline(time.Time) error { return nil }
func (c *h20cConn) SetReadDeadline(t time.Time) error {
	c.mu.Lock()
	defer c.mu.Unlock()
	c.rdl = t
	if !t.IsZero() {
		time.AfterFunc(time.Until(t), func() {
			c.mu.Lock()
			c.cond.Broadcast()
			c.mu.Unlock()
		})
	}
	c.cond.Broadcast()

	return nil
}

func h20cPair(t *testing.T) (*Association, *Association) {
	t.Helper()
	ca, cb := h20cNewPair()
	type res struct {
		a   *Association
		err error
	}
	ra := make(chan res, 1)
	rb := make(chan res, 1)
	go func() {
		a, err := Client(Config{NetConn: ca, LoggerFactory: logging.NewDefaultLoggerFactory()})
		ra <- res{a, err}
	}()
	go func() {
		a, err := Server(Config{NetConn: cb, LoggerFactory: logging.NewDefaultLoggerFactory()})
		rb <- res{a, err}
	}()
	var a, b *Association
	for i := 0; i < 2; i++ {
		select {
		case r := <-ra:
			if r.err != nil {
				t.Fatalf("client: %v", r.err)
			}
			a = r.a
		case r := <-rb:
			if r.err != nil {
				t.Fatalf("server: %v", r.err)
			}
			b = r.a
		case <-time.After(30 * time.Second):
			t.Fatal("handshake timeout")
		}
	}

	return a, b
}

func h20cRun(t *testing.T, name string, end func(a *Association)) {
	t.Helper()
	a, b := h20cPair(t)
	defer func() { _ = b.Close() }()

	go func() {
		for {
			sb, err := b.AcceptStream()
			if err != nil {
				return
			}
			go func() {
				buf := make([]byte, 4096)
				for {
					if _, _, err := sb.ReadSCTP(buf); err != nil {
						return
					}
				}
			}()
		}
	}()

	s, err := a.OpenStream(1, PayloadTypeWebRTCBinary)
	if err != nil {
		t.Fatal(err)
	}

	entered := make(chan struct{})
	returned := make(chan struct{})
	var once sync.Once
	// "everything I wrote has been delivered: we are done, end the association"
	s.SetBufferedAmountLowThreshold(0)
	s.OnBufferedAmountLow(func() {
		once.Do(func() {
			close(entered)
			end(a)
			close(returned)
		})
	})

	if _, err = s.WriteSCTP([]byte("the last message"), PayloadTypeWebRTCBinary); err != nil {
		t.Fatal(err)
	}

	select {
	case <-entered:
	case <-time.After(20 * time.Second):
		t.Fatal("callback never ran")
	}
	select {
	case <-returned:
	case <-time.After(10 * time.Second):
		t.Errorf("%s called from the OnBufferedAmountLow callback did not return within 10 s: "+
			"it waits for readLoop, which is the goroutine running the callback", name)
	}
}

func TestHuntC20_3_CloseFromBufferedAmountLowCallbackDeadlocks(t *testing.T) {
	t.Run("Close", func(t *testing.T) {
		h20cRun(t, "Association.Close()", func(a *Association) { _ = a.Close() })
	})
	t.Run("Abort", func(t *testing.T) {
		h20cRun(t, "Association.Abort()", func(a *Association) { a.Abort("done") })
	})
}
