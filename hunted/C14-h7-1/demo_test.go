// SPDX-FileCopyrightText: 2026 The Pion community <https://pion.ly>
// SPDX-License-Identifier: MIT

package sctp

import (
	"errors"
	"fmt"
	"io"
	"net"
	"sync"
	"testing"
	"time"

	"github.com/pion/logging"
)

// ---------------------------------------------------------------------------
// A scripted in-memory network: every packet written by an endpoint is put into
// a per-direction FIFO. In "auto" mode the FIFO is drained immediately (in
// order); in manual mode the test decides when the head of a FIFO is delivered
// (this models path latency) and which DATA packet is lost. The order of the
// packets of one direction is never changed.
// ---------------------------------------------------------------------------

type hc14Net struct {
	mu    sync.Mutex
	auto  bool
	q     [2][][]byte // q[i]: packets written by endpoint i, not yet delivered
	conns [2]*hc14Conn
}

type hc14Conn struct {
	nw     *hc14Net
	id     int
	mu     sync.Mutex
	cond   *sync.Cond
	in     [][]byte
	closed bool
}

func newHC14Net() *hc14Net {
	nw := &hc14Net{auto: true}
	for i := range 2 {
		c := &hc14Conn{nw: nw, id: i}
		c.cond = sync.NewCond(&c.mu)
		nw.conns[i] = c
	}

	return nw
}

func (c *hc14Conn) Read(b []byte) (int, error) {
	c.mu.Lock()
	defer c.mu.Unlock()
	for {
		if len(c.in) > 0 {
			p := c.in[0]
			c.in = c.in[1:]

			return copy(b, p), nil
		}
		if c.closed {
			return 0, io.EOF
		}
		c.cond.Wait()
	}
}

func (c *hc14Conn) Write(b []byte) (int, error) {
	c.mu.Lock()
	closed := c.closed
	c.mu.Unlock()
	if closed {
		return 0, net.ErrClosed
	}
	p := append([]byte(nil), b...)
	c.nw.mu.Lock()
	c.nw.q[c.id] = append(c.nw.q[c.id], p)
	if c.nw.auto {
		c.nw.flushLocked(c.id)
	}
	c.nw.mu.Unlock()

	return len(b), nil
}

func (c *hc14Conn) push(p []byte) {
	c.mu.Lock()
	if !c.closed {
		c.in = append(c.in, p)
		c.cond.Signal()
	}
	c.mu.Unlock()
}

func (c *hc14Conn) Close() error {
	c.mu.Lock()
	c.closed = true
	c.cond.Broadcast()
	c.mu.Unlock()

	return nil
}

func (c *hc14Conn) LocalAddr() net.Addr {
	return &net.UDPAddr{IP: net.IPv4(127, 0, 0, 1), Port: 5000 + c.id}
}
func (c *hc14Conn) RemoteAddr() net.Addr {
	return &net.UDPAddr{IP: net.IPv4(127, 0, 0, 1), Port: 5001 - c.id}
}
func (c *hc14Conn) SetDeadline(time.Time) error      { return nil }
func (c *hc14Conn) SetReadDeadline(time.Time) error  { return nil }
func (c *hc14Conn) SetWriteDeadline(time.Time) error { return nil }
func (nw *hc14Net) flushLocked(from int) { // deliver everything queued by `from`, in order
	for _, p := range nw.q[from] {
		nw.conns[1-from].push(p)
	}
	nw.q[from] = nil
}

func (nw *hc14Net) setAuto(auto bool) {
	nw.mu.Lock()
	nw.auto = auto
	if auto {
		nw.flushLocked(0)
		nw.flushLocked(1)
	}
	nw.mu.Unlock()
}

func hc14Describe(raw []byte) string {
	p := &packet{}
	if err := p.unmarshal(true, raw); err != nil {
		return "?" + err.Error()
	}
	s := ""
	for _, c := range p.chunks {
		switch v := c.(type) {
		case *chunkPayloadData:
			s += fmt.Sprintf("DATA(tsn=%d si=%d ssn=%d %q) ", v.tsn, v.streamIdentifier, v.streamSequenceNumber, v.userData)
		case *chunkSelectiveAck:
			s += fmt.Sprintf("SACK(cum=%d gaps=%d) ", v.cumulativeTSNAck, len(v.gapAckBlocks))
		case *chunkForwardTSN:
			s += fmt.Sprintf("FWDTSN(newCum=%d streams=%v) ", v.newCumulativeTSN, v.streams)
		case *chunkIForwardTSN:
			s += fmt.Sprintf("I-FWDTSN(newCum=%d streams=%+v) ", v.newCumulativeTSN, v.streams)
		case *chunkReconfig:
			switch pa := v.paramA.(type) {
			case *paramOutgoingResetRequest:
				s += fmt.Sprintf("RECONFIG-REQ(rsn=%d lastTSN=%d si=%v) ",
					pa.reconfigRequestSequenceNumber, pa.senderLastTSN, pa.streamIdentifiers)
			case *paramReconfigResponse:
				s += fmt.Sprintf("RECONFIG-RESP(rsn=%d %s) ", pa.reconfigResponseSequenceNumber, pa.result)
			}
		default:
			s += fmt.Sprintf("%T ", c)
		}
	}

	return s
}

// waitHead waits until the FIFO of direction `from` is not empty and returns a
// description of its head (without delivering it).
func (nw *hc14Net) waitHead(t *testing.T, from int, timeout time.Duration) []byte {
	t.Helper()
	deadline := time.Now().Add(timeout)
	for {
		nw.mu.Lock()
		if len(nw.q[from]) > 0 {
			p := nw.q[from][0]
			nw.mu.Unlock()

			return p
		}
		nw.mu.Unlock()
		if time.Now().After(deadline) {
			t.Fatalf("no packet from endpoint %d within %v", from, timeout)
		}
		time.Sleep(time.Millisecond)
	}
}

// deliverHead delivers (or loses) the head of the FIFO of direction `from`.
func (nw *hc14Net) takeHead(t *testing.T, from int, lose bool, what string) {
	t.Helper()
	nw.mu.Lock()
	defer nw.mu.Unlock()
	if len(nw.q[from]) == 0 {
		t.Fatalf("takeHead(%s): queue %d is empty", what, from)
	}
	p := nw.q[from][0]
	nw.q[from] = nw.q[from][1:]
	if lose {
		t.Logf("  %d->%d LOST      %s", from, 1-from, hc14Describe(p))

		return
	}
	t.Logf("  %d->%d delivered %s", from, 1-from, hc14Describe(p))
	nw.conns[1-from].push(p)
}

func hc14HasData(raw []byte, si uint16) bool {
	p := &packet{}
	if err := p.unmarshal(true, raw); err != nil {
		return false
	}
	for _, c := range p.chunks {
		if v, ok := c.(*chunkPayloadData); ok && v.streamIdentifier == si {
			return true
		}
	}

	return false
}

func hc14Has[T chunk](raw []byte) bool {
	p := &packet{}
	if err := p.unmarshal(true, raw); err != nil {
		return false
	}
	for _, c := range p.chunks {
		if _, ok := c.(T); ok {
			return true
		}
	}

	return false
}

type hc14Event struct {
	si   uint16
	inc  int // how many streams with this identifier the acceptor has seen before this one
	data string
	eof  bool
	err  error
}

// The application on the accepting side: accepts every stream the association
// offers and reads each of them to the end.
type hc14App struct {
	mu      sync.Mutex
	streams map[uint16][]*Stream // accepted streams per identifier, in the order of acceptance
}

func (app *hc14App) get(si uint16, inc int) *Stream {
	app.mu.Lock()
	defer app.mu.Unlock()
	if inc < len(app.streams[si]) {
		return app.streams[si][inc]
	}

	return nil
}

func (app *hc14App) count(si uint16) int {
	app.mu.Lock()
	defer app.mu.Unlock()

	return len(app.streams[si])
}

func (app *hc14App) run(a *Association, events chan<- hc14Event) {
	for {
		s, err := a.AcceptStream()
		if err != nil {
			return
		}
		si := s.StreamIdentifier()
		app.mu.Lock()
		inc := len(app.streams[si])
		app.streams[si] = append(app.streams[si], s)
		app.mu.Unlock()
		go func() {
			buf := make([]byte, 4096)
			for {
				n, err := s.Read(buf)
				switch {
				case err == nil:
					events <- hc14Event{si: si, inc: inc, data: string(buf[:n])}
				case errors.Is(err, io.EOF):
					events <- hc14Event{si: si, inc: inc, eof: true}

					return
				default:
					events <- hc14Event{si: si, inc: inc, err: err}

					return
				}
			}
		}()
	}
}

func hc14Expect(t *testing.T, events <-chan hc14Event, timeout time.Duration, what string, match func(hc14Event) bool) bool {
	t.Helper()
	timer := time.NewTimer(timeout)
	defer timer.Stop()
	for {
		select {
		case ev := <-events:
			t.Logf("  reader event: si=%d incarnation=%d data=%q eof=%v err=%v", ev.si, ev.inc, ev.data, ev.eof, ev.err)
			if match(ev) {
				return true
			}
		case <-timer.C:
			t.Logf("  (timeout %v waiting for: %s)", timeout, what)

			return false
		}
	}
}

// TestHuntC14_1_ForwardTSNRecreatesResetStream:
//
// Endpoint A has two ordered streams with partial reliability "no retransmission"
// (rexmit 0): 5 and 6. The path has some latency (the SACKs of B are on their way
// while A goes on sending) and loses exactly ONE DATA packet of stream 6. Nothing
// is reordered, no SACK and no RE-CONFIG packet is lost.
//
//	A: write on 6 (twice), write "m1" on 5, close 5, write on 6 (this one is lost)
//	B: reads "m1" and then end-of-file on 5 (A's reset performed), closes its side
//	A: reads end-of-file on 5   -> both directions of 5 are reset
//	A: opens 5 again and writes "hello-again"
//
// Expected by C14: "hello-again" is delivered to B on a fresh stream 5.
func TestHuntC14_1_ForwardTSNRecreatesResetStream(t *testing.T) {
	// control: the very same script without the loss passes (the harness is sound)
	t.Run("control-no-loss/DATA", func(t *testing.T) { hc14ForwardTSNRecreatesResetStream(t, false, false) })
	t.Run("control-no-loss/I-DATA", func(t *testing.T) { hc14ForwardTSNRecreatesResetStream(t, true, false) })
	// one lost DATA packet of ANOTHER stream:
	t.Run("one-loss/DATA", func(t *testing.T) { hc14ForwardTSNRecreatesResetStream(t, false, true) })
	t.Run("one-loss/I-DATA(default options)", func(t *testing.T) { hc14ForwardTSNRecreatesResetStream(t, true, true) })
}

//nolint:thelper
func hc14ForwardTSNRecreatesResetStream(t *testing.T, interleaving, loseA2 bool) {
	nw := newHC14Net()
	lf := logging.NewDefaultLoggerFactory()

	type res struct {
		a   *Association
		err error
	}
	chA, chB := make(chan res, 1), make(chan res, 1)
	go func() {
		a, err := ClientWithOptions(WithName("A"), WithNetConn(nw.conns[0]), WithLoggerFactory(lf),
			WithEnableInterleaving(interleaving))
		chA <- res{a, err}
	}()
	go func() {
		a, err := ServerWithOptions(WithName("B"), WithNetConn(nw.conns[1]), WithLoggerFactory(lf),
			WithEnableInterleaving(interleaving))
		chB <- res{a, err}
	}()
	var assocA, assocB *Association
	for assocA == nil || assocB == nil {
		select {
		case r := <-chA:
			if r.err != nil {
				t.Fatal(r.err)
			}
			assocA = r.a
		case r := <-chB:
			if r.err != nil {
				t.Fatal(r.err)
			}
			assocB = r.a
		case <-time.After(20 * time.Second):
			t.Fatal("handshake timeout")
		}
	}
	defer func() {
		nw.setAuto(true)
		_ = assocA.Close()
		_ = assocB.Close()
	}()

	events := make(chan hc14Event, 64)
	appB := &hc14App{streams: map[uint16][]*Stream{}}
	go appB.run(assocB, events)

	s6, err := assocA.OpenStream(6, PayloadTypeWebRTCBinary)
	if err != nil {
		t.Fatal(err)
	}
	s5, err := assocA.OpenStream(5, PayloadTypeWebRTCBinary)
	if err != nil {
		t.Fatal(err)
	}
	s6.SetReliabilityParams(false, ReliabilityTypeRexmit, 0) // ordered, no retransmission
	s5.SetReliabilityParams(false, ReliabilityTypeRexmit, 0) // ordered, no retransmission

	// let the handshake leftovers (COOKIE-ACK ...) drain, then take over the network
	time.Sleep(100 * time.Millisecond)
	nw.setAuto(false)

	const wait = 10 * time.Second

	// --- step 1: two messages on stream 6 reach B; B's SACK for them is "in flight" to A.
	t.Log("step 1: A writes a0,a1 on stream 6; B acknowledges; the SACK is on its way")
	for _, m := range []string{"a0", "a1"} {
		if _, err = s6.Write([]byte(m)); err != nil {
			t.Fatal(err)
		}
		p := nw.waitHead(t, 0, wait)
		if !hc14HasData(p, 6) {
			t.Fatalf("unexpected packet from A: %s", hc14Describe(p))
		}
		nw.takeHead(t, 0, false, m)
	}
	sackP := nw.waitHead(t, 1, wait) // stays in the B->A FIFO
	if !hc14Has[*chunkSelectiveAck](sackP) {
		t.Fatalf("expected a SACK from B, got %s", hc14Describe(sackP))
	}
	t.Logf("  1->0 in flight  %s", hc14Describe(sackP))

	// --- step 2: m1 on stream 5, close stream 5. Both packets reach B.
	t.Log("step 2: A writes m1 on stream 5 and closes stream 5; B gets both packets")
	if _, err = s5.Write([]byte("m1")); err != nil {
		t.Fatal(err)
	}
	p := nw.waitHead(t, 0, wait)
	if !hc14HasData(p, 5) {
		t.Fatalf("unexpected packet from A: %s", hc14Describe(p))
	}
	nw.takeHead(t, 0, false, "m1")
	if err = s5.Close(); err != nil {
		t.Fatal(err)
	}
	p = nw.waitHead(t, 0, wait)
	if !hc14Has[*chunkReconfig](p) {
		t.Fatalf("unexpected packet from A: %s", hc14Describe(p))
	}
	nw.takeHead(t, 0, false, "reset request")

	if !hc14Expect(t, events, wait, "m1 on stream 5", func(e hc14Event) bool { return e.si == 5 && e.data == "m1" }) {
		t.Fatal("precondition: B did not read m1")
	}
	if !hc14Expect(t, events, wait, "EOF on stream 5", func(e hc14Event) bool { return e.si == 5 && e.inc == 0 && e.eof }) {
		t.Fatal("precondition: B did not read end-of-file on stream 5")
	}
	t.Log("  B has read m1 and then end-of-file on stream 5: A's direction of 5 is reset")

	// --- step 3: one more message on stream 6, lost by the network (the only loss).
	t.Log("step 3: A writes a2 on stream 6; this DATA packet is lost")
	if _, err = s6.Write([]byte("a2")); err != nil {
		t.Fatal(err)
	}
	p = nw.waitHead(t, 0, wait)
	if !hc14HasData(p, 6) {
		t.Fatalf("unexpected packet from A: %s", hc14Describe(p))
	}
	nw.takeHead(t, 0, loseA2, "a2")

	// --- step 4: the SACK of step 1 arrives at A. Everything else follows in order.
	t.Log("step 4: the SACK of step 1 arrives at A; from here on the network delivers everything in order")
	nw.takeHead(t, 1, false, "SACK of step 1")
	if loseA2 {
		p = nw.waitHead(t, 0, wait)
		t.Logf("  A answers with  %s", hc14Describe(p))
	}
	nw.setAuto(true)

	// --- step 5: B's application reacts to the end-of-file and closes its side.
	t.Log("step 5: B closes its side of stream 5; A reads end-of-file")
	s5B := appB.get(5, 0)
	if s5B == nil {
		t.Fatal("B has no stream 5")
	}
	if err = s5B.Close(); err != nil {
		t.Fatal(err)
	}
	eofA := make(chan error, 1)
	go func() {
		buf := make([]byte, 4096)
		for {
			if _, rerr := s5.Read(buf); rerr != nil {
				eofA <- rerr

				return
			}
		}
	}()
	select {
	case rerr := <-eofA:
		if !errors.Is(rerr, io.EOF) {
			t.Fatalf("A: unexpected read error on stream 5: %v", rerr)
		}
	case <-time.After(wait):
		t.Fatal("precondition: A did not read end-of-file on stream 5")
	}
	t.Log("  A has read end-of-file on stream 5: both directions of stream 5 are reset")

	// let every acknowledgement and response settle: nothing is outstanding any more
	deadline := time.Now().Add(wait)
	for time.Now().Before(deadline) {
		assocA.lock.RLock()
		nReconfA, inflightA := len(assocA.reconfigs), assocA.inflightQueue.size()
		assocA.lock.RUnlock()
		assocB.lock.RLock()
		nReconfB, inflightB := len(assocB.reconfigs), assocB.inflightQueue.size()
		assocB.lock.RUnlock()
		if nReconfA+inflightA+nReconfB+inflightB == 0 {
			break
		}
		time.Sleep(10 * time.Millisecond)
	}
	assocA.lock.RLock()
	t.Logf("  A: outstanding reset requests=%d inflight chunks=%d", len(assocA.reconfigs), assocA.inflightQueue.size())
	assocA.lock.RUnlock()
	nBefore := appB.count(5)
	t.Logf("  B's application has been offered %d stream(s) with identifier 5 so far (A opened one)", nBefore)

	// --- step 6: A opens the identifier again and writes.
	t.Log("step 6: A opens stream 5 again and writes hello-again")
	s5n, err := assocA.OpenStream(5, PayloadTypeWebRTCBinary)
	if err != nil {
		t.Fatal(err)
	}
	if s5n == s5 {
		t.Fatal("OpenStream returned the old stream")
	}
	if _, err = s5n.Write([]byte("hello-again")); err != nil {
		t.Fatal(err)
	}
	got := hc14Expect(t, events, 15*time.Second, "hello-again on stream 5",
		func(e hc14Event) bool { return e.si == 5 && e.data == "hello-again" })
	if !got {
		assocB.lock.RLock()
		ghost := assocB.streams[5]
		assocB.lock.RUnlock()
		next := -1
		if ghost != nil {
			ghost.lock.RLock()
			next = int(ghost.reassemblyQueue.nextSSN)
			if interleaving {
				next = int(ghost.reassemblyQueue.nextMID)
			}
			ghost.lock.RUnlock()
		}
		t.Fatalf("C14 violated: the first message of the re-opened stream 5 was not delivered within 15s "+
			"(B was offered %d streams with identifier 5 before A re-opened it; B's stream 5 waits for SSN/MID %d, "+
			"A's BufferedAmount=%d)", nBefore, next, s5n.BufferedAmount())
	}
}
