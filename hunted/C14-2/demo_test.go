package sctp

import (
	"errors"
	"io"
	"net"
	"sync"
	"testing"
	"time"

	"github.com/pion/logging"
)

// ---- minimal in-memory packet link with a per-direction filter ----

type h2Link struct {
	mu     sync.Mutex
	filter [2]func(raw []byte) bool // return false to swallow the packet
	conns  [2]*h2Conn
}

type h2Conn struct {
	id     int
	link   *h2Link
	inbox  chan []byte
	closed chan struct{}
	once   sync.Once
}

func newH2Link() *h2Link {
	l := &h2Link{}
	for i := 0; i < 2; i++ {
		l.conns[i] = &h2Conn{id: i, link: l, inbox: make(chan []byte, 1<<16), closed: make(chan struct{})}
	}

	return l
}

func (l *h2Link) setFilter(from int, f func(raw []byte) bool) {
	l.mu.Lock()
	l.filter[from] = f
	l.mu.Unlock()
}

func (l *h2Link) deliver(from int, raw []byte) {
	peer := l.conns[1-from]
	select {
	case peer.inbox <- raw:
	case <-peer.closed:
	}
}

func (c *h2Conn) Read(p []byte) (int, error) {
	select {
	case raw := <-c.inbox:
		return copy(p, raw), nil
	case <-c.closed:
		return 0, io.EOF
	}
}

func (c *h2Conn) Write(p []byte) (int, error) {
	select {
	case <-c.closed:
		return 0, io.ErrClosedPipe
	default:
	}
	raw := append([]byte(nil), p...)
	c.link.mu.Lock()
	f := c.link.filter[c.id]
	c.link.mu.Unlock()
	if f == nil || f(raw) {
		c.link.deliver(c.id, raw)
	}

	return len(p), nil
}

func (c *h2Conn) Close() error {
	c.once.Do(func() { close(c.closed) })

	return nil
}
func (c *h2Conn) LocalAddr() net.Addr              { return &net.IPAddr{} }
func (c *h2Conn) RemoteAddr() net.Addr             { return &net.IPAddr{} }
func (c *h2Conn) SetDeadline(time.Time) error      { return nil }
func (c *h2Conn) SetReadDeadline(time.Time) error  { return nil }
func (c *h2Conn) SetWriteDeadline(time.Time) error { return nil }

func h2Pair(t *testing.T, l *h2Link, cfgA, cfgB Config) (*Association, *Association) {
	t.Helper()
	lf := logging.NewDefaultLoggerFactory()
	cfgA.LoggerFactory, cfgB.LoggerFactory = lf, lf
	cfgA.NetConn, cfgB.NetConn = l.conns[0], l.conns[1]
	cfgA.Name, cfgB.Name = "A", "B"
	type res struct {
		a   *Association
		err error
	}
	chA := make(chan res, 1)
	chB := make(chan res, 1)
	go func() {
		a, err := Client(cfgA)
		chA <- res{a, err}
	}()
	go func() {
		a, err := Server(cfgB)
		chB <- res{a, err}
	}()
	var a, b *Association
	for a == nil || b == nil {
		select {
		case r := <-chA:
			if r.err != nil {
				t.Fatalf("client: %v", r.err)
			}
			a = r.a
		case r := <-chB:
			if r.err != nil {
				t.Fatalf("server: %v", r.err)
			}
			b = r.a
		case <-time.After(30 * time.Second):
			t.Fatalf("handshake timeout")
		}
	}

	return a, b
}

// h2ReadAll reads messages until an error (EOF) or the timeout.
func h2ReadAll(s *Stream, timeout time.Duration) ([][]byte, error) {
	var msgs [][]byte
	buf := make([]byte, 70000)
	_ = s.SetReadDeadline(time.Now().Add(timeout))
	for {
		n, _, err := s.ReadSCTP(buf)
		if err != nil {
			return msgs, err
		}
		msgs = append(msgs, append([]byte(nil), buf[:n]...))
	}
}

// BlockWrite association, peer with a small receive buffer: a stream is closed while its
// last message waits for receive window. The message leaves as a zero-window probe, the
// end-of-stream marker is then popped alone, and the association stays "write pending"
// for ever: the re-opened stream (every stream) can never be written again.
func TestHuntC14_2_BlockWriteStuckAfterCloseBehindZeroWindowProbe(t *testing.T) {
	l := newH2Link()
	a, b := h2Pair(t, l, Config{BlockWrite: true}, Config{MaxReceiveBufferSize: 2000})
	defer func() {
		_ = a.Close()
		_ = b.Close()
	}()

	waitFor := func(what string, cond func() bool) {
		t.Helper()
		deadline := time.Now().Add(20 * time.Second)
		for !cond() {
			if time.Now().After(deadline) {
				t.Fatalf("timeout waiting for %s", what)
			}
			time.Sleep(2 * time.Millisecond)
		}
	}

	sa, err := a.OpenStream(1, PayloadTypeWebRTCBinary)
	if err != nil {
		t.Fatal(err)
	}
	m1 := make([]byte, 1000)
	m2 := make([]byte, 900)
	m3 := make([]byte, 500)
	m1[0], m2[0], m3[0] = 1, 2, 3

	if _, err = sa.Write(m1); err != nil {
		t.Fatal(err)
	}
	sb, err := b.AcceptStream() // the reader does not read yet: the window fills up
	if err != nil {
		t.Fatal(err)
	}
	waitFor("m1 acked", func() bool { return a.BufferedAmount() == 0 })

	// hold everything B sends (the SACK for m2) for a moment
	var hmu sync.Mutex
	var held [][]byte
	holding := true
	l.setFilter(1, func(raw []byte) bool {
		hmu.Lock()
		defer hmu.Unlock()
		if holding {
			held = append(held, raw)

			return false
		}

		return true
	})

	if _, err = sa.Write(m2); err != nil { // fits the window (1000 left), stays in flight
		t.Fatal(err)
	}
	if _, err = sa.Write(m3); err != nil { // 100 bytes of window left: has to wait
		t.Fatal(err)
	}
	if err = sa.Close(); err != nil { // end-of-stream marker queued behind m3
		t.Fatal(err)
	}
	time.Sleep(300 * time.Millisecond) // B's (delayed) SACK for m2 is now on hold for sure

	hmu.Lock()
	holding = false
	for _, raw := range held {
		l.deliver(1, raw)
	}
	hmu.Unlock()

	// The reader gets everything written before the close, then EOF.
	got, rerr := h2ReadAll(sb, 30*time.Second)
	if !errors.Is(rerr, io.EOF) {
		t.Fatalf("B: read ended with %v after %d messages", rerr, len(got))
	}
	if len(got) != 3 || got[0][0] != 1 || got[1][0] != 2 || got[2][0] != 3 {
		t.Fatalf("B: got %d messages", len(got))
	}
	if err = sb.Close(); err != nil {
		t.Fatal(err)
	}
	if _, rerr = h2ReadAll(sa, 30*time.Second); !errors.Is(rerr, io.EOF) {
		t.Fatalf("A: read ended with %v", rerr)
	}

	// Both directions have been reset: the identifier can be used again.
	var sa2 *Stream
	waitFor("fresh stream 1 on A", func() bool {
		sa2, err = a.OpenStream(1, PayloadTypeWebRTCBinary)

		return err == nil && sa2 != sa && sa2.State() == StreamStateOpen
	})
	_ = sa2.SetWriteDeadline(time.Now().Add(10 * time.Second))
	if _, err = sa2.Write([]byte("again")); err != nil {
		a.lock.RLock()
		defer a.lock.RUnlock()
		t.Fatalf("write on the re-opened stream 1 failed: %v (nothing is pending or in flight: pending=%d inflight=%d)",
			err, a.pendingQueue.size(), a.inflightQueue.size())
	}
	sb2, err := b.AcceptStream()
	if err != nil {
		t.Fatal(err)
	}
	buf := make([]byte, 100)
	_ = sb2.SetReadDeadline(time.Now().Add(10 * time.Second))
	n, err := sb2.Read(buf)
	if err != nil || string(buf[:n]) != "again" {
		t.Fatalf("B: re-opened stream read: %q %v", buf[:n], err)
	}
}
