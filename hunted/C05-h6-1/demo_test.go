package sctp

import (
	"encoding/binary"
	"errors"
	"io"
	"net"
	"sync"
	"testing"
	"time"

	"github.com/pion/logging"
)

// huntC05Conn is a packet preserving in-memory net.Conn. The test plays the
// remote SCTP endpoint by hand: it feeds packets through in and reads what the
// association under test puts on the wire from out.
type huntC05Conn struct {
	in     chan []byte
	out    chan []byte
	closed chan struct{}
	once   sync.Once
}

func newHuntC05Conn() *huntC05Conn {
	return &huntC05Conn{
		in:     make(chan []byte, 1024),
		out:    make(chan []byte, 1024),
		closed: make(chan struct{}),
	}
}

func (c *huntC05Conn) Read(p []byte) (int, error) {
	select {
	case b := <-c.in:
		return copy(p, b), nil
	case <-c.closed:
		return 0, io.EOF
	}
}

func (c *huntC05Conn) Write(p []byte) (int, error) {
	b := make([]byte, len(p))
	copy(b, p)
	select {
	case c.out <- b:
		return len(p), nil
	case <-c.closed:
		return 0, io.ErrClosedPipe
	}
}

func (c *huntC05Conn) Close() error {
	c.once.Do(func() { close(c.closed) })

	return nil
}
func (c *huntC05Conn) LocalAddr() net.Addr              { return &net.UDPAddr{} }
func (c *huntC05Conn) RemoteAddr() net.Addr             { return &net.UDPAddr{} }
func (c *huntC05Conn) SetDeadline(time.Time) error      { return nil }
func (c *huntC05Conn) SetReadDeadline(time.Time) error  { return nil }
func (c *huntC05Conn) SetWriteDeadline(time.Time) error { return nil }

var errHuntC05Timeout = errors.New("timeout waiting for outbound packet")

func (c *huntC05Conn) next(d time.Duration) ([]byte, error) {
	select {
	case b := <-c.out:
		return b, nil
	case <-time.After(d):
		return nil, errHuntC05Timeout
	}
}

// TestZZHuntC05SackLengthWraps: a receiver configured with a large receive
// buffer (tracking window of 40000 TSNs) accepts 16381 isolated out-of-order
// TSNs. The SACK it then emits needs 16381 gap ack blocks = 65540 bytes of
// chunk, more than the 16 bit chunk length can express: the length field wraps
// and what is on the wire no longer reports the sequence numbers accepted.
func TestZZHuntC05SackLengthWraps(t *testing.T) { //nolint:cyclop,gocognit
	const (
		port       = 5000
		initialTSN = uint32(1000)
		myTag      = uint32(0x0c050c05)
		perPacket  = 300
	)

	conn := newHuntC05Conn()
	type res struct {
		a   *Association
		err error
	}
	done := make(chan res, 1)
	go func() {
		a, err := Server(Config{
			NetConn:              conn,
			LoggerFactory:        logging.NewDefaultLoggerFactory(),
			MaxReceiveBufferSize: 8 * 1024 * 1024,
		})
		done <- res{a, err}
	}()

	send := func(tag uint32, chunks ...chunk) {
		p := &packet{sourcePort: port, destinationPort: port, verificationTag: tag, chunks: chunks}
		raw, err := p.marshal(true)
		if err != nil {
			t.Fatalf("marshal: %v", err)
		}
		conn.in <- raw
	}
	recv := func() *packet {
		raw, err := conn.next(60 * time.Second)
		if err != nil {
			t.Fatalf("%v", err)
		}
		p := &packet{}
		if err := p.unmarshal(true, raw); err != nil {
			t.Fatalf("handshake packet does not parse: %v", err)
		}

		return p
	}

	// --- handshake, played by hand ---
	init := &chunkInit{}
	init.initiateTag = myTag
	init.advertisedReceiverWindowCredit = 1024 * 1024
	init.numOutboundStreams = 16
	init.numInboundStreams = 16
	init.initialTSN = initialTSN
	send(0, init)

	var peerTag uint32
	var cookie []byte
	for _, c := range recv().chunks {
		if ia, ok := c.(*chunkInitAck); ok {
			peerTag = ia.initiateTag
			for _, prm := range ia.params {
				if sc, ok := prm.(*paramStateCookie); ok {
					cookie = sc.cookie
				}
			}
		}
	}
	if cookie == nil {
		t.Fatal("no INIT ACK / cookie")
	}
	send(peerTag, &chunkCookieEcho{cookie: cookie})
	gotCookieAck := false
	for _, c := range recv().chunks {
		if _, ok := c.(*chunkCookieAck); ok {
			gotCookieAck = true
		}
	}
	if !gotCookieAck {
		t.Fatal("no COOKIE ACK")
	}
	r := <-done
	if r.err != nil {
		t.Fatalf("Server: %v", r.err)
	}
	assoc := r.a
	defer func() {
		_ = conn.Close()
		_ = assoc.Close()
	}()
	go func() { // keep the accept queue empty
		for {
			if _, err := assoc.AcceptStream(); err != nil {
				return
			}
		}
	}()

	// --- data: TSN initialTSN itself is "lost"; initialTSN+1, +3, +5, ... arrive ---
	mkData := func(k int) *chunkPayloadData {
		return &chunkPayloadData{
			tsn:               initialTSN + 1 + 2*uint32(k), //nolint:gosec
			streamIdentifier:  1,
			unordered:         true,
			beginningFragment: true,
			endingFragment:    true,
			payloadType:       PayloadTypeWebRTCBinary,
			userData:          []byte{0x42},
		}
	}

	sent := 0
	// sendUpTo delivers the isolated TSNs number sent..n-1, one packet at a time,
	// waiting for the SACK each packet provokes (a gap => immediate SACK), and
	// returns the raw bytes of the last packet the association emitted.
	sendUpTo := func(n int) []byte {
		var last []byte
		for sent < n {
			var chunks []chunk
			for i := 0; i < perPacket && sent < n; i++ {
				chunks = append(chunks, mkData(sent))
				sent++
			}
			send(peerTag, chunks...)
			raw, err := conn.next(120 * time.Second)
			if err != nil {
				t.Fatalf("no SACK after %d TSNs: %v", sent, err)
			}
			last = raw
		}

		return last
	}

	// check decodes what the association put on the wire, exactly as the peer
	// would, and demands that it is a SACK reporting every accepted TSN.
	check := func(raw []byte, n int) {
		t.Helper()
		assoc.lock.RLock()
		accepted := assoc.payloadQueue.size()
		cum := assoc.payloadQueue.getcumulativeTSN()
		assoc.lock.RUnlock()
		if accepted != n || cum != initialTSN-1 {
			t.Fatalf("test assumption broken: accepted=%d (want %d) cum=%d", accepted, n, cum)
		}

		if len(raw) >= 16 {
			t.Logf("%d TSNs accepted: packet of %d bytes, first chunk type=%d, chunk length field=%d (real chunk size %d)",
				n, len(raw), raw[12], binary.BigEndian.Uint16(raw[14:]), len(raw)-12)
		}
		p := &packet{}
		if err := p.unmarshal(true, raw); err != nil {
			t.Errorf("with %d TSNs accepted, the acknowledgement on the wire cannot be decoded: %v", n, err)

			return
		}
		var sack *chunkSelectiveAck
		for _, c := range p.chunks {
			if s, ok := c.(*chunkSelectiveAck); ok {
				sack = s
			}
		}
		if sack == nil {
			t.Errorf("with %d TSNs accepted, no SACK chunk in emitted packet", n)

			return
		}
		if sack.cumulativeTSNAck != initialTSN-1 {
			t.Errorf("cumulative TSN ack %d, want %d", sack.cumulativeTSNAck, initialTSN-1)
		}
		reported := map[uint32]bool{}
		for _, g := range sack.gapAckBlocks {
			for o := uint32(g.start); o <= uint32(g.end); o++ {
				reported[sack.cumulativeTSNAck+o] = true
			}
		}
		missing := 0
		for k := 0; k < n; k++ {
			if !reported[mkData(k).tsn] {
				missing++
			}
		}
		if missing != 0 || len(reported) != n {
			t.Errorf("with %d TSNs accepted, SACK reports %d TSNs, %d accepted ones missing", n, len(reported), missing)
		}
	}

	// control: 16379 gap ack blocks still fit (16+4*16379 = 65532 bytes)
	check(sendUpTo(16379), 16379)
	if t.Failed() {
		t.Fatal("control phase failed, harness problem")
	}
	// 16381 gap ack blocks: 16+4*16381 = 65540 bytes, does not fit a chunk
	check(sendUpTo(16381), 16381)
}
