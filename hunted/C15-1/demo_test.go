// SPDX-FileCopyrightText: 2026 The Pion community <https://pion.ly>
// SPDX-License-Identifier: MIT

package sctp

import (
	"sync/atomic"
	"testing"
	"time"

	"github.com/pion/logging"
	"github.com/pion/transport/v4/test"
)

// huntC151Pair builds a connected pair over a manually ticked bridge; a0 uses
// blocking writes.
func huntC151Pair(t *testing.T, br *test.Bridge) (*Association, *Association) {
	t.Helper()

	type result struct {
		a   *Association
		err error
	}
	ch0 := make(chan result, 1)
	ch1 := make(chan result, 1)
	lf := logging.NewDefaultLoggerFactory()

	go func() {
		a, err := ClientWithOptions(
			WithName("a0"), WithNetConn(br.GetConn0()), WithLoggerFactory(lf), WithBlockWrite(true),
		)
		ch0 <- result{a, err}
	}()
	go func() {
		a, err := ServerWithOptions(WithName("a1"), WithNetConn(br.GetConn1()), WithLoggerFactory(lf))
		ch1 <- result{a, err}
	}()

	var a0, a1 *Association
	deadline := time.Now().Add(20 * time.Second)
	for (a0 == nil || a1 == nil) && time.Now().Before(deadline) {
		br.Tick()
		select {
		case r := <-ch0:
			if r.err != nil {
				t.Fatalf("client: %v", r.err)
			}
			a0 = r.a
		case r := <-ch1:
			if r.err != nil {
				t.Fatalf("server: %v", r.err)
			}
			a1 = r.a
		case <-time.After(5 * time.Millisecond):
		}
	}
	if a0 == nil || a1 == nil {
		t.Fatal("handshake did not complete")
	}

	return a0, a1
}

func huntC151WaitFor(t *testing.T, what string, cond func() bool) {
	t.Helper()
	deadline := time.Now().Add(20 * time.Second)
	for !cond() {
		if time.Now().After(deadline) {
			t.Fatalf("timed out waiting for: %s", what)
		}
		time.Sleep(2 * time.Millisecond)
	}
}

// A blocking write that fails (write deadline) is added to the stream's buffered
// amount before it is accepted and taken off again when it fails. While it is
// waiting, the acknowledgement of the data the stream really has outstanding takes
// the buffered amount from 3000 to 2000 instead of from 1000 to 0: the downward
// crossing of the low threshold (500) is never seen and the callback never fires,
// although the stream's accepted data went from 1000 outstanding bytes to none.
func TestHuntC15_1_FailedBlockingWriteSwallowsLowThresholdCrossing(t *testing.T) {
	br := test.NewBridge()
	a0, a1 := huntC151Pair(t, br)
	defer func() {
		go func() { _ = a0.Close() }()
		go func() { _ = a1.Close() }()
		for i := 0; i < 50; i++ {
			br.Tick()
			time.Sleep(2 * time.Millisecond)
		}
	}()

	a1.lock.Lock()
	a1.ackMode = ackModeNoDelay // the peer acknowledges every packet at once
	a1.lock.Unlock()

	sA, err := a0.OpenStream(1, PayloadTypeWebRTCBinary)
	if err != nil {
		t.Fatal(err)
	}
	sB, err := a0.OpenStream(2, PayloadTypeWebRTCBinary)
	if err != nil {
		t.Fatal(err)
	}

	var nCallbacks int32
	sB.SetBufferedAmountLowThreshold(500)
	sB.OnBufferedAmountLow(func() { atomic.AddInt32(&nCallbacks, 1) })

	// 1. The only write stream B ever gets accepted: 1000 bytes, sent at once, left
	//    unacknowledged for now (the bridge holds the packet).
	if n, werr := sB.Write(make([]byte, 1000)); werr != nil || n != 1000 {
		t.Fatalf("first write: n=%d err=%v", n, werr)
	}
	huntC151WaitFor(t, "B's 1000 bytes on the wire", func() bool {
		a0.lock.RLock()
		defer a0.lock.RUnlock()

		return a0.pendingQueue.size() == 0 && a0.inflightQueue.size() == 1 && !a0.writePending && br.Len(0) == 1
	})
	if got := sB.BufferedAmount(); got != 1000 {
		t.Fatalf("B buffered amount after the accepted write = %d, want 1000", got)
	}

	// 2. Stream A writes more than the congestion window: the association stays
	//    "write pending", which blocks the next writer (BlockWrite is per association).
	if n, werr := sA.Write(make([]byte, 60000)); werr != nil || n != 60000 {
		t.Fatalf("A write: n=%d err=%v", n, werr)
	}
	huntC151WaitFor(t, "A's first flight sent, rest pending", func() bool {
		a0.lock.RLock()
		defer a0.lock.RUnlock()

		return a0.inflightQueue.size() > 1 && a0.pendingQueue.size() > 0 && a0.writePending
	})

	// 3. A second write on B blocks. It will fail in the end.
	if err = sB.SetWriteDeadline(time.Now().Add(5 * time.Minute)); err != nil {
		t.Fatal(err)
	}
	type wres struct {
		n   int
		err error
	}
	started := make(chan struct{})
	blockedDone := make(chan wres, 1)
	go func() {
		close(started)
		n, werr := sB.Write(make([]byte, 2000))
		blockedDone <- wres{n, werr}
	}()
	<-started
	time.Sleep(300 * time.Millisecond) // let it reach the wait inside sendPayloadData
	select {
	case r := <-blockedDone:
		t.Fatalf("the second write on B was expected to block, returned n=%d err=%v", r.n, r.err)
	default:
	}
	amountWhileBlocked := sB.BufferedAmount()
	t.Logf("B.BufferedAmount() while its second write is blocked (not accepted): %d", amountWhileBlocked)

	// 4. Let the peer acknowledge B's 1000 bytes (B's packet is the first in the
	//    bridge; stop ticking as soon as it has been acknowledged so that A's message
	//    stays pending and B's second write stays blocked).
	huntC151WaitFor(t, "acknowledgement of B's 1000 bytes", func() bool {
		br.Tick()
		time.Sleep(5 * time.Millisecond)

		return sB.BufferedAmount() == amountWhileBlocked-1000
	})
	select {
	case r := <-blockedDone:
		t.Fatalf("the second write on B returned early: n=%d err=%v", r.n, r.err)
	default:
	}

	// 5. The blocked write fails.
	if err = sB.SetWriteDeadline(time.Now().Add(-time.Second)); err != nil {
		t.Fatal(err)
	}
	select {
	case r := <-blockedDone:
		if r.err == nil || r.n != 0 {
			t.Fatalf("the second write on B was expected to fail: n=%d err=%v", r.n, r.err)
		}
		t.Logf("second write on B failed as intended: %v", r.err)
	case <-time.After(20 * time.Second):
		t.Fatal("the blocked write did not return after its deadline expired")
	}

	// Accepted on B: 1000 bytes. Acknowledged on B: 1000 bytes. Nothing outstanding.
	if got := sB.BufferedAmount(); got != 0 {
		t.Errorf("B buffered amount = %d, want 0", got)
	}
	// The amount of accepted-and-unacknowledged data went 1000 -> 0 across the
	// threshold of 500: exactly one downward crossing.
	time.Sleep(100 * time.Millisecond)
	if got := atomic.LoadInt32(&nCallbacks); got != 1 {
		t.Errorf("OnBufferedAmountLow fired %d times for stream B, want 1 "+
			"(accepted 1000 bytes, all acknowledged, threshold 500; amount seen while the failing write was blocked: %d)",
			got, amountWhileBlocked)
	}
}
