package sctp

import (
	"io"
	"net"
	"os"
	"runtime"
	"strings"
	"sync"
	"testing"
	"time"

	"github.com/pion/logging"
)

// The OnBufferedAmountLow callback runs on the association's read loop. Exported methods
// that wait for something only the read loop can do never return when they are called
// from the callback:
//   - Association.Close and Association.Abort wait for the read loop to end;
//   - with BlockWrite, Stream.Write waits for the pending queue to drain, which takes SACKs,
//     which the read loop processes. After that not even a Close from another goroutine returns.

type h2Conn struct {
	mu     sync.Mutex
	cond   *sync.Cond
	pkts   [][]byte
	closed bool
	peer   *h2Conn
	rdl    time.Time
}

func newH2ConnPair() (*h2Conn, *h2Conn) {
	a := &h2Conn{}
	b := &h2Conn{}
	a.cond = sync.NewCond(&a.mu)
	b.cond = sync.NewCond(&b.mu)
	a.peer = b
	b.peer = a

	return a, b
}

func (c *h2Conn) Read(p []byte) (int, error) {
	c.mu.Lock()
	defer c.mu.Unlock()
	for {
		if c.closed {
			return 0, io.EOF
		}
		if !c.rdl.IsZero() && !time.Now().Before(c.rdl) {
			return 0, os.ErrDeadlineExceeded
		}
		if len(c.pkts) > 0 {
			pkt := c.pkts[0]
			c.pkts = c.pkts[1:]

			return copy(p, pkt), nil
		}
		c.cond.Wait()
	}
}

func (c *h2Conn) Write(p []byte) (int, error) {
	c.mu.Lock()
	closed := c.closed
	c.mu.Unlock()
	if closed {
		return 0, net.ErrClosed
	}
	cp := append([]byte(nil), p...)
	c.peer.mu.Lock()
	if !c.peer.closed {
		c.peer.pkts = append(c.peer.pkts, cp)
		c.peer.cond.Broadcast()
	}
	c.peer.mu.Unlock()

	return len(p), nil
}

func (c *h2Conn) Close() error {
	c.mu.Lock()
	c.closed = true
	c.cond.Broadcast()
	c.mu.Unlock()

	return nil
}

func (c *h2Conn) LocalAddr() net.Addr              { return &net.UDPAddr{} }
func (c *h2Conn) RemoteAddr() net.Addr             { return &net.UDPAddr{} }
func (c *h2Conn) SetDeadline(time.Time) error      { return nil }
func (c *h2Conn) SetWriteDeadline(time.Time) error { return nil }
func (c *h2Conn) SetReadDeadline(t time.Time) error {
	c.mu.Lock()
	c.rdl = t
	c.cond.Broadcast()
	c.mu.Unlock()

	return nil
}

func h2Pair(t *testing.T, blockWrite bool) (*Association, *Association) {
	t.Helper()
	c0, c1 := newH2ConnPair()
	lf := logging.NewDefaultLoggerFactory()
	type res struct {
		a   *Association
		err error
	}
	ch0 := make(chan res, 1)
	ch1 := make(chan res, 1)
	go func() {
		a, err := Client(Config{NetConn: c0, LoggerFactory: lf, Name: "a0", BlockWrite: blockWrite})
		ch0 <- res{a, err}
	}()
	go func() {
		a, err := Server(Config{NetConn: c1, LoggerFactory: lf, Name: "a1", BlockWrite: blockWrite})
		ch1 <- res{a, err}
	}()
	var a0, a1 *Association
	for i := 0; i < 2; i++ {
		select {
		case r := <-ch0:
			if r.err != nil {
				t.Fatalf("client: %v", r.err)
			}
			a0 = r.a
		case r := <-ch1:
			if r.err != nil {
				t.Fatalf("server: %v", r.err)
			}
			a1 = r.a
		case <-time.After(30 * time.Second):
			t.Fatalf("handshake did not complete")
		}
	}

	return a0, a1
}

func h2Stacks(filter string) string {
	buf := make([]byte, 1<<20)
	n := runtime.Stack(buf, true)
	var out []string
	for _, g := range strings.Split(string(buf[:n]), "\n\n") {
		if strings.Contains(g, filter) {
			out = append(out, g)
		}
	}

	return strings.Join(out, "\n\n")
}

func TestHuntC20_2_BlockWriteFromBufferedAmountLowCallback(t *testing.T) {
	a0, a1 := h2Pair(t, true)

	// the peer reads whatever arrives, as fast as it can: the receive window never closes
	go func() {
		s1, err := a1.AcceptStream()
		if err != nil {
			return
		}
		buf := make([]byte, 65536)
		for {
			if _, err := s1.Read(buf); err != nil {
				return
			}
		}
	}()

	s0, err := a0.OpenStream(1, PayloadTypeWebRTCBinary)
	if err != nil {
		t.Fatal(err)
	}

	// The usual refill pattern: when the buffered amount falls below the threshold, write more.
	const first = 60000
	entered := make(chan struct{}, 1)
	cbWrite := make(chan error, 1)
	var once sync.Once
	s0.SetBufferedAmountLowThreshold(first - 5000)
	s0.OnBufferedAmountLow(func() {
		once.Do(func() {
			entered <- struct{}{}
			_, err := s0.Write(make([]byte, 1000))
			cbWrite <- err
		})
	})

	// Nothing is pending yet: this Write returns at once, its 60000 bytes go out as fast as cwnd
	// allows. The callback fires as soon as the first 5000 of them have been acknowledged.
	if _, err = s0.Write(make([]byte, first)); err != nil {
		t.Fatalf("write: %v", err)
	}

	select {
	case <-entered:
	case <-time.After(30 * time.Second):
		t.Fatalf("the callback was never invoked")
	}

	select {
	case err := <-cbWrite:
		if err != nil {
			t.Fatalf("write from the callback: %v", err)
		}
	case <-time.After(10 * time.Second):
		t.Errorf("Write from the OnBufferedAmountLow callback has not returned after 10 s, although the link is "+
			"loss-free and the peer keeps reading: buffered=%d bytes of the first message never leave.\n%s",
			s0.BufferedAmount(), h2Stacks("onBufferReleased"))
	}

	// Whatever the callback does, the association must still be closable.
	closed := make(chan struct{})
	go func() {
		_ = a0.Close()
		close(closed)
	}()
	select {
	case <-closed:
	case <-time.After(10 * time.Second):
		t.Errorf("Association.Close (called from the test goroutine) did not return within 10 s either")
	}
}

func TestHuntC20_2_TeardownFromBufferedAmountLowCallback(t *testing.T) {
	cases := []struct {
		name     string
		teardown func(a *Association)
	}{
		{"Close", func(a *Association) { _ = a.Close() }},
		{"Abort", func(a *Association) { a.Abort("done") }},
	}
	for _, tc := range cases {
		t.Run(tc.name, func(t *testing.T) {
			a0, a1 := h2Pair(t, false)

			// the peer reads whatever arrives
			go func() {
				s1, err := a1.AcceptStream()
				if err != nil {
					return
				}
				buf := make([]byte, 4096)
				for {
					if _, err := s1.Read(buf); err != nil {
						return
					}
				}
			}()

			s0, err := a0.OpenStream(1, PayloadTypeWebRTCBinary)
			if err != nil {
				t.Fatal(err)
			}

			// "when everything written has been acknowledged, tear the association down"
			entered := make(chan struct{}, 1)
			returned := make(chan struct{}, 1)
			var once sync.Once
			s0.SetBufferedAmountLowThreshold(0)
			s0.OnBufferedAmountLow(func() {
				once.Do(func() {
					entered <- struct{}{}
					tc.teardown(a0)
					returned <- struct{}{}
				})
			})

			if _, err = s0.Write(make([]byte, 500)); err != nil {
				t.Fatalf("write: %v", err)
			}

			select {
			case <-entered:
			case <-time.After(30 * time.Second):
				t.Fatalf("the callback was never invoked")
			}

			select {
			case <-returned:
				// fine: the exported method could be called from the callback
			case <-time.After(10 * time.Second):
				t.Fatalf("Association.%s called from the OnBufferedAmountLow callback did not return within 10 s "+
					"(no packet is in flight, nothing is lost): it waits for the read loop, which is the goroutine "+
					"running the callback.\n%s", tc.name, h2Stacks("onBufferReleased"))
			}
		})
	}
}
