package sctp

import (
	"testing"
	"time"

	"github.com/stretchr/testify/require"
)

// F71: after a T3-rtx expiry the congestion window is one MTU. Five small chunks (100 bytes
// each) are outstanding; the first is missing and three gap reports arrive. The third miss
// indication is a loss signal: the window must not go UP (before repair 99cb7fe it went from
// one MTU to 4*MTU, the floor that RFC 4960 7.2.3 gives ssthresh).
func TestHuntedC10LossSignalNeverRaisesWindow(t *testing.T) {
	assoc := newRackTestAssoc(t)
	t.Cleanup(assoc.closeAllTimers)

	assoc.lock.Lock()
	defer assoc.lock.Unlock()

	mtu := assoc.MTU()
	assoc.setCWND(mtu) // as left by a T3-rtx expiry
	assoc.ssthresh = 4 * mtu
	assoc.setRWND(1 << 20)
	assoc.myNextTSN = 105

	now := time.Now()
	for i := 0; i < 5; i++ {
		c := mkChunk(100+uint32(i), now.Add(-time.Millisecond)) //nolint:gosec
		c.userData = make([]byte, 100)
		assoc.inflightQueue.pushNoCheck(c)
		assoc.rackInsert(c)
	}
	before := assoc.CWND()
	// three SACKs, each reporting one more chunk behind the hole at TSN 100
	for end := uint16(2); end <= 4; end++ {
		require.NoError(t, assoc.handleSack(&chunkSelectiveAck{
			cumulativeTSNAck:               99,
			advertisedReceiverWindowCredit: 1 << 20,
			gapAckBlocks:                   []gapAckBlock{{start: 2, end: end}},
		}))
	}
	c100, ok := assoc.inflightQueue.get(100)
	require.True(t, ok)
	require.GreaterOrEqual(t, c100.missIndicator, uint32(3), "three miss indications: a loss signal")
	require.True(t, assoc.inFastRecovery, "fast recovery entered")
	require.LessOrEqual(t, assoc.CWND(), before,
		"a loss signal raised the congestion window: %d -> %d (ssthresh %d)", before, assoc.CWND(), assoc.ssthresh)
}
