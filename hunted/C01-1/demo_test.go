// SPDX-FileCopyrightText: 2026 The Pion community <https://pion.ly>
// SPDX-License-Identifier: MIT

package sctp

import (
	"bytes"
	"fmt"
	"io"
	"net"
	"sync"
	"testing"
	"time"

	"github.com/pion/logging"
)

// --- a loss-free, in-order, in-memory datagram pipe -------------------------------

type huntC01n1Conn struct {
	mu     sync.Mutex
	cond   *sync.Cond
	pkts   [][]byte
	closed bool
	peer   *huntC01n1Conn
	// one-way latency of the link: packets are delivered in order, none is lost
	latency time.Duration
	wire    chan huntC01n1Pkt
}

type huntC01n1Pkt struct {
	at  time.Time
	raw []byte
}

func newHuntC01n1Pipe(latency time.Duration) (*huntC01n1Conn, *huntC01n1Conn) {
	a, b := &huntC01n1Conn{latency: latency}, &huntC01n1Conn{latency: latency}
	a.cond, b.cond = sync.NewCond(&a.mu), sync.NewCond(&b.mu)
	a.peer, b.peer = b, a
	for _, c := range []*huntC01n1Conn{a, b} {
		c.wire = make(chan huntC01n1Pkt, 1<<16)
		go func(c *huntC01n1Conn) {
			for p := range c.wire {
				if d := time.Until(p.at); d > 0 {
					time.Sleep(d)
				}
				c.peer.mu.Lock()
				if !c.peer.closed {
					c.peer.pkts = append(c.peer.pkts, p.raw)
					c.peer.cond.Signal()
				}
				c.peer.mu.Unlock()
			}
		}(c)
	}

	return a, b
}

func (c *huntC01n1Conn) Read(p []byte) (int, error) {
	c.mu.Lock()
	defer c.mu.Unlock()
	for {
		if len(c.pkts) > 0 {
			pkt := c.pkts[0]
			c.pkts = c.pkts[1:]

			return copy(p, pkt), nil
		}
		if c.closed {
			return 0, io.EOF
		}
		c.cond.Wait()
	}
}

func (c *huntC01n1Conn) Write(p []byte) (int, error) {
	c.mu.Lock()
	closed := c.closed
	c.mu.Unlock()
	if closed {
		return 0, net.ErrClosed
	}
	cp := append([]byte(nil), p...)
	select {
	case c.wire <- huntC01n1Pkt{at: time.Now().Add(c.latency), raw: cp}:
	default: // cannot happen with the amounts of data used here
		panic("wire full")
	}

	return len(p), nil
}

func (c *huntC01n1Conn) Close() error {
	c.mu.Lock()
	c.closed = true
	c.cond.Broadcast()
	c.mu.Unlock()

	return nil
}
func (c *huntC01n1Conn) LocalAddr() net.Addr              { return &net.UDPAddr{} }
func (c *huntC01n1Conn) RemoteAddr() net.Addr             { return &net.UDPAddr{} }
func (c *huntC01n1Conn) SetDeadline(time.Time) error      { return nil }
func (c *huntC01n1Conn) SetReadDeadline(time.Time) error  { return nil }
func (c *huntC01n1Conn) SetWriteDeadline(time.Time) error { return nil }

// huntC01n1Opt leaves the configuration at its default (interleaving on) or switches
// interleaving off for the control run.
func huntC01n1Opt(interleaving bool) AssociationOption {
	if interleaving {
		return nil // nil options are skipped: pure default configuration
	}

	return WithEnableInterleaving(false)
}

// TestHuntC01_1_InterleavedLargeMessagesDeadlock:
// default configuration on both sides (user message interleaving is enabled by default,
// 1 MiB receive buffer, 64 KiB maximum message size), a perfect network with 10 ms of
// one-way latency (no loss, no duplication, no reordering). 24 reliable ordered streams
// each carry ONE message of 65536 bytes; a reader is blocked in ReadSCTP on every
// stream with a big enough buffer. Every message must arrive.
// The control (the same workload with interleaving switched off) shows that network,
// readers and writers of the test are sound.
func TestHuntC01_1_InterleavedLargeMessagesDeadlock(t *testing.T) {
	t.Run("control_without_interleaving", func(t *testing.T) { huntC01n1Run(t, false) })
	t.Run("default_config_interleaving", func(t *testing.T) { huntC01n1Run(t, true) })
}

func huntC01n1Run(t *testing.T, interleaving bool) {
	t.Helper()

	const (
		nStreams = 24
		msgSize  = 65536
		wait     = 30 * time.Second
	)

	c0, c1 := newHuntC01n1Pipe(10 * time.Millisecond)
	lf := logging.NewDefaultLoggerFactory()

	type res struct {
		a   *Association
		err error
	}
	ch0, ch1 := make(chan res, 1), make(chan res, 1)
	go func() {
		a, err := ClientWithOptions(Config{Name: "snd", NetConn: c0, LoggerFactory: lf}, huntC01n1Opt(interleaving))
		ch0 <- res{a, err}
	}()
	go func() {
		a, err := ServerWithOptions(Config{Name: "rcv", NetConn: c1, LoggerFactory: lf}, huntC01n1Opt(interleaving))
		ch1 <- res{a, err}
	}()
	r0, r1 := <-ch0, <-ch1
	if r0.err != nil || r1.err != nil {
		t.Fatalf("handshake: %v %v", r0.err, r1.err)
	}
	snd, rcv := r0.a, r1.a
	defer func() {
		_ = c0.Close()
		_ = c1.Close()
		_ = snd.Close()
		_ = rcv.Close()
	}()

	if m, ok := snd.Metadata(); !ok || m.MessageInterleavingEnabled != interleaving {
		t.Fatalf("test assumption: interleaving=%v expected, metadata %+v", interleaving, m)
	}
	if snd.MaxMessageSize() < msgSize {
		t.Fatalf("test assumption: max message size %d", snd.MaxMessageSize())
	}

	// what each stream sends
	want := make([][]byte, nStreams)
	for i := range want {
		want[i] = bytes.Repeat([]byte{byte(i + 1)}, msgSize)
	}

	// readers: accept the streams as they appear, one blocked reader per stream
	type got struct {
		sid uint16
		n   int
		ppi PayloadProtocolIdentifier
		err error
		ok  bool
	}
	gotCh := make(chan got, nStreams)
	go func() {
		for {
			s, err := rcv.AcceptStream()
			if err != nil {
				return
			}
			go func(s *Stream) {
				buf := make([]byte, msgSize+16)
				n, ppi, err := s.ReadSCTP(buf)
				g := got{sid: s.StreamIdentifier(), n: n, ppi: ppi, err: err}
				if err == nil && int(g.sid) < nStreams {
					g.ok = bytes.Equal(buf[:n], want[g.sid])
				}
				gotCh <- g
			}(s)
		}
	}()

	// writers: every write is accepted at once (non-blocking writes)
	for i := 0; i < nStreams; i++ {
		s, err := snd.OpenStream(uint16(i), PayloadTypeWebRTCBinary)
		if err != nil {
			t.Fatalf("OpenStream: %v", err)
		}
		n, err := s.WriteSCTP(want[i], PayloadTypeWebRTCBinary)
		if err != nil || n != msgSize {
			t.Fatalf("write on stream %d: n=%d err=%v", i, n, err)
		}
	}

	deadline := time.After(wait)
	nGot := 0
	for nGot < nStreams {
		select {
		case g := <-gotCh:
			if g.err != nil || !g.ok || g.ppi != PayloadTypeWebRTCBinary {
				t.Fatalf("stream %d: bad message n=%d ppi=%d err=%v", g.sid, g.n, g.ppi, g.err)
			}
			nGot++
		case <-deadline:
			rcv.lock.RLock()
			credit := rcv.getMyReceiverWindowCredit()
			rcv.lock.RUnlock()
			t.Fatalf("after %v only %d of %d accepted messages were delivered; "+
				"sender still buffers %d bytes, receiver window credit=%d, sender rwnd=%d: %s",
				wait, nGot, nStreams, snd.BufferedAmount(), credit, snd.RWND(),
				fmt.Sprintf("T3 timeouts=%d", snd.stats.getNumT3Timeouts()))
		}
	}
}
