// SPDX-FileCopyrightText: 2026 The Pion community <https://pion.ly>
// SPDX-License-Identifier: MIT

package sctp

import (
	"io"
	"net"
	"sync"
	"sync/atomic"
	"testing"
	"time"

	"github.com/pion/logging"
)

// huntC022Conn is one end of an in-memory datagram pipe. Like a UDP socket (and
// like the test conns that ship with the library) a Read into a buffer that is
// smaller than the datagram returns the truncated datagram.
//
// The a->b direction can be told to (1) block the writer (transport back
// pressure / delay), (2) hold datagrams in the network, and (3) release the held
// datagrams dropping every other one. After that the pipe is perfect again.
type huntC022Conn struct {
	mu     sync.Mutex
	cond   *sync.Cond
	pkts   [][]byte
	closed bool
	peer   *huntC022Conn

	// fault injection for datagrams written on this end
	gate     chan struct{} // non-nil: Write blocks until closed
	hold     bool
	held     [][]byte
	maxWrite int // largest datagram ever written on this end
}

func newHuntC022Pipe() (*huntC022Conn, *huntC022Conn) {
	a, b := &huntC022Conn{}, &huntC022Conn{}
	a.cond, b.cond = sync.NewCond(&a.mu), sync.NewCond(&b.mu)
	a.peer, b.peer = b, a

	return a, b
}

func (c *huntC022Conn) Read(p []byte) (int, error) {
	c.mu.Lock()
	defer c.mu.Unlock()
	for {
		if len(c.pkts) > 0 {
			pkt := c.pkts[0]
			c.pkts = c.pkts[1:]

			return copy(p, pkt), nil // truncates like recv() on a datagram socket
		}
		if c.closed {
			return 0, io.EOF
		}
		c.cond.Wait()
	}
}

func (c *huntC022Conn) deliver(pkt []byte) {
	c.peer.mu.Lock()
	if !c.peer.closed {
		c.peer.pkts = append(c.peer.pkts, pkt)
		c.peer.cond.Broadcast()
	}
	c.peer.mu.Unlock()
}

func (c *huntC022Conn) Write(p []byte) (int, error) {
	c.mu.Lock()
	gate := c.gate
	c.mu.Unlock()
	if gate != nil {
		<-gate
	}

	c.mu.Lock()
	if c.closed {
		c.mu.Unlock()

		return 0, io.ErrClosedPipe
	}
	if len(p) > c.maxWrite {
		c.maxWrite = len(p)
	}
	cp := append([]byte(nil), p...)
	if c.hold {
		c.held = append(c.held, cp)
		c.mu.Unlock()

		return len(p), nil
	}
	c.mu.Unlock()
	c.deliver(cp)

	return len(p), nil
}

func (c *huntC022Conn) Close() error {
	c.mu.Lock()
	c.closed = true
	c.cond.Broadcast()
	c.mu.Unlock()

	return nil
}

func (c *huntC022Conn) LocalAddr() net.Addr                { return &net.UDPAddr{} }
func (c *huntC022Conn) RemoteAddr() net.Addr               { return &net.UDPAddr{} }
func (c *huntC022Conn) SetDeadline(time.Time) error      { return nil }
func (c *huntC022Conn) SetReadDeadline(time.Time) error  { return nil }
func (c *huntC022Conn) SetWriteDeadline(time.Time) error { return nil }

func (c *huntC022Conn) numHeld() int {
	c.mu.Lock()
	defer c.mu.Unlock()

	return len(c.held)
}

// TestHuntC02_2_OversizedSackNeverReachesSender:
//
// A burst of loss that hits every other packet of one large flight leaves the
// receiver with a few thousand gap ack blocks. The receiver puts ALL of them into
// every SACK: the SACK packet grows to >8192 bytes (the MTU of the association is
// 1191!). 8192 is receiveMTU, the size of the buffer the peer's readLoop reads
// datagrams into: every SACK arrives truncated, fails to parse and is thrown away.
// The sender therefore never learns anything, T3-rtx retransmits the same first
// chunk over and over, the receiver's gap list never shrinks, and the association
// stays stuck for ever although the network is perfect again.
func TestHuntC02_2_OversizedSackNeverReachesSender(t *testing.T) {
	const (
		recvBuf    = 16 * 1024 * 1024
		msgSize    = 32 * 1024
		phase1Msgs = 640 // 20 MiB, loss free: opens the congestion window
		phase2Msgs = 200 // 6.25 MiB sent as one flight, every other packet of it is lost
		rtoMaxMs   = 1000
		waitFor    = 30 * time.Second
	)

	c0, c1 := newHuntC022Pipe()
	lf := logging.NewDefaultLoggerFactory()

	type res struct {
		a   *Association
		err error
	}
	srvCh := make(chan res, 1)
	go func() {
		a, err := ServerWithOptions(WithNetConn(c1), WithLoggerFactory(lf), WithName("server"),
			WithRTOMax(rtoMaxMs), WithMaxReceiveBufferSize(recvBuf), WithEnableInterleaving(false))
		srvCh <- res{a, err}
	}()
	client, err := ClientWithOptions(WithNetConn(c0), WithLoggerFactory(lf), WithName("client"),
		WithRTOMax(rtoMaxMs), WithMaxReceiveBufferSize(recvBuf), WithEnableInterleaving(false))
	if err != nil {
		t.Fatalf("client: %v", err)
	}
	sr := <-srvCh
	if sr.err != nil {
		t.Fatalf("server: %v", sr.err)
	}
	server := sr.a
	defer func() {
		_ = client.Close()
		_ = server.Close()
	}()

	// Receiving application: accept everything, read everything, for ever.
	var delivered int32
	go func() {
		for {
			s, aerr := server.AcceptStream()
			if aerr != nil {
				return
			}
			go func() {
				buf := make([]byte, 2*msgSize)
				for {
					n, rerr := s.Read(buf)
					if rerr != nil {
						return
					}
					if n == msgSize {
						atomic.AddInt32(&delivered, 1)
					}
				}
			}()
		}
	}()

	s, err := client.OpenStream(1, PayloadTypeWebRTCBinary)
	if err != nil {
		t.Fatalf("open: %v", err)
	}
	msg := make([]byte, msgSize)

	waitDrained := func(what string, want int32, limit time.Duration) bool {
		deadline := time.Now().Add(limit)
		for time.Now().Before(deadline) {
			if atomic.LoadInt32(&delivered) == want && client.BufferedAmount() == 0 {
				return true
			}
			time.Sleep(20 * time.Millisecond)
		}
		t.Logf("%s: delivered=%d want=%d buffered=%d", what, atomic.LoadInt32(&delivered), want, client.BufferedAmount())

		return false
	}

	// ---- phase 1: perfect network, the congestion window opens up ----
	for i := 0; i < phase1Msgs; i++ {
		if _, werr := s.Write(msg); werr != nil {
			t.Fatalf("write: %v", werr)
		}
	}
	if !waitDrained("phase 1", phase1Msgs, 60*time.Second) {
		t.Fatalf("phase 1 (no faults at all) did not drain - test environment problem")
	}
	t.Logf("after phase 1: cwnd=%d rwnd=%d", client.CWND(), client.RWND())
	if client.CWND() < phase2Msgs*msgSize {
		t.Skipf("cwnd did not open far enough (%d)", client.CWND())
	}

	// ---- phase 2: the network misbehaves (finite fault prefix) ----
	// Back pressure while the application queues its data, so that it leaves as one flight...
	gate := make(chan struct{})
	c0.mu.Lock()
	c0.gate = gate
	c0.hold = true
	c0.mu.Unlock()
	for i := 0; i < phase2Msgs; i++ {
		if _, werr := s.Write(msg); werr != nil {
			t.Fatalf("write: %v", werr)
		}
	}
	c0.mu.Lock()
	c0.gate = nil
	c0.mu.Unlock()
	close(gate)

	// ...the flight sits in the network for a moment...
	last, stable := -1, 0
	for stable < 10 {
		time.Sleep(20 * time.Millisecond)
		if n := c0.numHeld(); n == last {
			stable++
		} else {
			last, stable = n, 0
		}
	}

	// ...and every other packet of it is lost. From here on the network is perfect.
	c0.mu.Lock()
	held := c0.held
	c0.held = nil
	c0.hold = false
	c0.mu.Unlock()
	for i, pkt := range held {
		if i%2 == 1 {
			c0.deliver(pkt)
		}
	}
	t.Logf("phase 2: flight of %d packets, %d of them lost; network is fault free from now on", len(held), (len(held)+1)/2)

	// ---- fault free suffix ----
	snapshot := func() (int32, uint32, uint32) {
		server.lock.RLock()
		srv := server.payloadQueue.getcumulativeTSN()
		server.lock.RUnlock()
		client.lock.RLock()
		cli := client.cumulativeTSNAckPoint
		client.lock.RUnlock()

		return atomic.LoadInt32(&delivered), srv, cli
	}
	if waitDrained("fault free suffix (first third)", phase1Msgs+phase2Msgs, waitFor/3) {
		return // property holds
	}
	d1, srv1, cli1 := snapshot()
	if waitDrained("fault free suffix", phase1Msgs+phase2Msgs, waitFor-waitFor/3) {
		return // property holds (late)
	}
	d2, srv2, cli2 := snapshot()
	t.Logf("progress between %v and %v after healing: delivered %d -> %d, receiver cumTSN %d -> %d, sender ack point %d -> %d",
		waitFor/3, waitFor, d1, d2, srv1, srv2, cli1, cli2)

	c1.mu.Lock()
	maxFromServer := c1.maxWrite
	c1.mu.Unlock()
	server.lock.RLock()
	gaps := len(server.payloadQueue.getGapAckBlocks())
	srvCum := server.payloadQueue.getcumulativeTSN()
	server.lock.RUnlock()
	client.lock.RLock()
	cliCum := client.cumulativeTSNAckPoint
	client.lock.RUnlock()
	t.Fatalf("stalled for %v after the network healed: delivered %d of %d messages, sender still buffers %d bytes; "+
		"receiver cumTSN=%d still reports %d gap ack blocks, sender's cumulative ack point=%d; "+
		"largest packet written by the receiver: %d bytes (association MTU %d, peer read buffer receiveMTU=%d); "+
		"SACKs seen by sender=%d, T3 timeouts=%d",
		waitFor, atomic.LoadInt32(&delivered), phase1Msgs+phase2Msgs, client.BufferedAmount(),
		srvCum, gaps, cliCum, maxFromServer, server.MTU(), receiveMTU,
		client.stats.getNumSACKsReceived(), client.stats.getNumT3Timeouts())
}
