package sctp

import (
	"sync"
	"sync/atomic"
	"testing"
	"time"

	"github.com/pion/logging"
	"github.com/pion/transport/v4/test"
	"github.com/stretchr/testify/require"
)

// zzC17n3Run sends one 6000-byte message on each of four streams to a peer whose
// receive buffer is 10000 bytes (every single message fits comfortably) and whose
// application reads all four streams. It returns how many of the messages arrived
// within the time limit.
func zzC17n3Run(t *testing.T, interleaving bool, limit time.Duration) int {
	t.Helper()

	const (
		nStreams = 4
		msgSize  = 6000
		recvBuf  = 10000
	)

	br := test.NewBridge()
	lf := logging.NewDefaultLoggerFactory()

	type result struct {
		a      *Association
		err    error
		client bool
	}
	ch := make(chan result, 2)
	go func() {
		a, err := ClientWithOptions(
			WithName("c17-client"), WithNetConn(br.GetConn0()), WithLoggerFactory(lf),
			WithEnableInterleaving(interleaving),
			WithInterleavingOptions(WithInterleavingRoundRobinScheduler()),
		)
		ch <- result{a: a, err: err, client: true}
	}()
	go func() {
		a, err := ServerWithOptions(
			WithName("c17-server"), WithNetConn(br.GetConn1()), WithLoggerFactory(lf),
			WithEnableInterleaving(interleaving),
			WithMaxReceiveBufferSize(recvBuf),
		)
		ch <- result{a: a, err: err}
	}()
	var a0, a1 *Association
	deadline := time.Now().Add(20 * time.Second)
	for (a0 == nil || a1 == nil) && time.Now().Before(deadline) {
		br.Tick()
		select {
		case r := <-ch:
			require.NoError(t, r.err)
			if r.client {
				a0 = r.a
			} else {
				a1 = r.a
			}
		case <-time.After(2 * time.Millisecond):
		}
	}
	require.NotNil(t, a0, "handshake (client)")
	require.NotNil(t, a1, "handshake (server)")
	defer closeAssociationPair(br, a0, a1)
	require.Equal(t, interleaving, a0.useInterleaving)
	require.Equal(t, interleaving, a1.useInterleaving)

	// the receiving application: one reader per stream, each with a buffer larger than the message
	var delivered int32
	var readers sync.WaitGroup
	for i := 0; i < nStreams; i++ {
		readers.Add(1)
		go func() {
			defer readers.Done()
			s, err := a1.AcceptStream()
			if err != nil {
				return
			}
			_ = s.SetReadDeadline(time.Now().Add(limit))
			buf := make([]byte, 65536)
			if n, err := s.Read(buf); err == nil && n == msgSize {
				atomic.AddInt32(&delivered, 1)
			}
		}()
	}

	// all four messages are queued before the network moves
	for i := 0; i < nStreams; i++ {
		s, err := a0.OpenStream(uint16(i), PayloadTypeWebRTCBinary)
		require.NoError(t, err)
		n, err := s.Write(make([]byte, msgSize))
		require.NoError(t, err)
		require.Equal(t, msgSize, n)
	}

	stop := make(chan struct{})
	var ticker sync.WaitGroup
	ticker.Add(1)
	go func() {
		defer ticker.Done()
		for {
			select {
			case <-stop:
				return
			default:
			}
			if br.Tick() == 0 {
				time.Sleep(200 * time.Microsecond)
			}
		}
	}()

	snapshot := func() (uint32, int, int, uint32, uint32) {
		a0.lock.RLock()
		defer a0.lock.RUnlock()
		a1.lock.RLock()
		defer a1.lock.RUnlock()

		return a0.cumulativeTSNAckPoint, a0.pendingQueue.size(), a0.inflightQueue.size(), a0.RWND(), a1.getMyReceiverWindowCredit()
	}

	done := make(chan struct{})
	go func() {
		readers.Wait()
		close(done)
	}()
	half := time.After(limit / 2)
	var ack1 uint32
	var pend1 int
	select {
	case <-done:
	case <-half:
		ack1, pend1, _, _, _ = snapshot()
		<-done
	}
	ack2, pend2, infl2, rwnd2, credit2 := snapshot()
	close(stop)
	ticker.Wait()

	got := int(atomic.LoadInt32(&delivered))
	if got != nStreams {
		t.Logf("interleaving=%v: %d of %d messages delivered after %s", interleaving, got, nStreams, limit)
		t.Logf("sender at half time: cumulative ack=%d pending chunks=%d; at the end: cumulative ack=%d pending chunks=%d in flight=%d peer rwnd=%d; receiver's free buffer=%d",
			ack1, pend1, ack2, pend2, infl2, rwnd2, credit2)
	}

	return got
}

// With interleaving the round-robin scheduler starts all four messages at once. The
// peer's 10000-byte buffer fills up with fragments of four incomplete messages, none
// of which can be read, every further chunk is dropped by the receiver, and all four
// streams stay stuck with queued data for ever. The very same traffic without
// interleaving is delivered at once.
func TestZZHuntC17_3_InterleavingStarvesAllStreamsOnSmallReceiveBuffer(t *testing.T) {
	lim := test.TimeOut(120 * time.Second)
	defer lim.Stop()

	t.Run("control: interleaving disabled", func(t *testing.T) {
		require.Equal(t, 4, zzC17n3Run(t, false, 20*time.Second))
	})

	t.Run("interleaving enabled, round-robin", func(t *testing.T) {
		require.Equal(t, 4, zzC17n3Run(t, true, 20*time.Second),
			"streams with queued data are starved: the messages (6000 bytes each, receive buffer 10000) never arrive")
	})
}
