package sctp

import (
	"errors"
	"io"
	"net"
	"os"
	"runtime"
	"strings"
	"sync"
	"testing"
	"time"

	"github.com/pion/logging"
)

// The peer's stream reset is performed in two steps with the association lock released
// in between: first the stream is marked (Read returns io.EOF, state becomes closed), later
// it is removed from the association. An application that reacts to the EOF by re-opening
// the identifier can get the old, closed stream back from OpenStream.

type h1Conn struct {
	mu     sync.Mutex
	cond   *sync.Cond
	pkts   [][]byte
	closed bool
	peer   *h1Conn
	rdl    time.Time
}

func newH1ConnPair() (*h1Conn, *h1Conn) {
	a := &h1Conn{}
	b := &h1Conn{}
	a.cond = sync.NewCond(&a.mu)
	b.cond = sync.NewCond(&b.mu)
	a.peer = b
	b.peer = a

	return a, b
}

func (c *h1Conn) Read(p []byte) (int, error) {
	c.mu.Lock()
	defer c.mu.Unlock()
	for {
		if c.closed {
			return 0, io.EOF
		}
		if !c.rdl.IsZero() && !time.Now().Before(c.rdl) {
			return 0, os.ErrDeadlineExceeded
		}
		if len(c.pkts) > 0 {
			pkt := c.pkts[0]
			c.pkts = c.pkts[1:]

			return copy(p, pkt), nil
		}
		c.cond.Wait()
	}
}

func (c *h1Conn) Write(p []byte) (int, error) {
	c.mu.Lock()
	closed := c.closed
	c.mu.Unlock()
	if closed {
		return 0, net.ErrClosed
	}
	cp := append([]byte(nil), p...)
	c.peer.mu.Lock()
	if !c.peer.closed {
		c.peer.pkts = append(c.peer.pkts, cp)
		c.peer.cond.Broadcast()
	}
	c.peer.mu.Unlock()

	return len(p), nil
}

func (c *h1Conn) Close() error {
	c.mu.Lock()
	c.closed = true
	c.cond.Broadcast()
	c.mu.Unlock()

	return nil
}

func (c *h1Conn) LocalAddr() net.Addr              { return &net.UDPAddr{} }
func (c *h1Conn) RemoteAddr() net.Addr             { return &net.UDPAddr{} }
func (c *h1Conn) SetDeadline(time.Time) error      { return nil }
func (c *h1Conn) SetWriteDeadline(time.Time) error { return nil }
func (c *h1Conn) SetReadDeadline(t time.Time) error {
	c.mu.Lock()
	c.rdl = t
	c.cond.Broadcast()
	c.mu.Unlock()

	return nil
}

func h1Pair(t *testing.T) (*Association, *Association) {
	t.Helper()
	c0, c1 := newH1ConnPair()
	lf := logging.NewDefaultLoggerFactory()
	type res struct {
		a   *Association
		err error
	}
	ch0 := make(chan res, 1)
	ch1 := make(chan res, 1)
	go func() {
		a, err := Client(Config{NetConn: c0, LoggerFactory: lf, Name: "a0"})
		ch0 <- res{a, err}
	}()
	go func() {
		a, err := Server(Config{NetConn: c1, LoggerFactory: lf, Name: "a1"})
		ch1 <- res{a, err}
	}()
	var a0, a1 *Association
	for i := 0; i < 2; i++ {
		select {
		case r := <-ch0:
			if r.err != nil {
				t.Fatalf("client: %v", r.err)
			}
			a0 = r.a
		case r := <-ch1:
			if r.err != nil {
				t.Fatalf("server: %v", r.err)
			}
			a1 = r.a
		case <-time.After(30 * time.Second):
			t.Fatalf("handshake did not complete")
		}
	}

	return a0, a1
}

func h1Stacks(filter string) string {
	buf := make([]byte, 1<<20)
	n := runtime.Stack(buf, true)
	var out []string
	for _, g := range strings.Split(string(buf[:n]), "\n\n") {
		if strings.Contains(g, filter) {
			out = append(out, g)
		}
	}

	return strings.Join(out, "\n\n")
}

func TestHuntC20_1_OpenStreamAfterEOFReturnsClosedStream(t *testing.T) {
	a0, a1 := h1Pair(t)
	defer func() {
		go a0.Close() //nolint:errcheck
		go a1.Close() //nolint:errcheck
	}()

	// The peer: reads every stream to its end, then closes its own direction.
	go func() {
		for {
			s, err := a1.AcceptStream()
			if err != nil {
				return
			}
			go func() {
				buf := make([]byte, 1024)
				for {
					if _, err := s.Read(buf); err != nil {
						_ = s.Close()

						return
					}
				}
			}()
		}
	}()

	// Unrelated concurrent API calls on the same association.
	stop := make(chan struct{})
	defer close(stop)
	const nNoise = 4
	for i := 0; i < nNoise; i++ {
		go func(i int) {
			for {
				select {
				case <-stop:
					return
				default:
				}
				if i%2 == 0 {
					_, _ = a0.OpenStream(uint16(1000+i), PayloadTypeWebRTCBinary)
				} else {
					_ = a0.BufferedAmount()
				}
			}
		}(i)
	}

	const id = 1
	start := time.Now()
	buf := make([]byte, 64)
	for cycle := 0; time.Since(start) < 40*time.Second; cycle++ {
		s, err := a0.OpenStream(id, PayloadTypeWebRTCBinary)
		if err != nil {
			t.Fatalf("cycle %d: OpenStream: %v", cycle, err)
		}
		if _, err = s.Write([]byte("hello")); err != nil {
			t.Fatalf("cycle %d: Write on the stream just opened: %v (state=%s)", cycle, err, s.State())
		}
		if err = s.Close(); err != nil {
			t.Fatalf("cycle %d: Close: %v", cycle, err)
		}
		// wait until the peer has closed its direction too
		_ = s.SetReadDeadline(time.Now().Add(30 * time.Second))
		if _, err = s.Read(buf); !errors.Is(err, io.EOF) {
			t.Fatalf("cycle %d: waiting for the peer's reset: %v", cycle, err)
		}
		if st := s.State(); st != StreamStateClosed {
			t.Fatalf("cycle %d: state after EOF: %s", cycle, st)
		}

		// The stream is closed in both directions and the application knows it. Re-open the identifier.
		s2, err := a0.OpenStream(id, PayloadTypeWebRTCBinary)
		if err != nil {
			t.Fatalf("cycle %d: OpenStream: %v", cycle, err)
		}
		if s2 == s || s2.State() != StreamStateOpen {
			_, werr := s2.Write([]byte("hello"))
			t.Fatalf("cycle %d (after %v): OpenStream(%d), called after Read returned io.EOF on the closed stream, "+
				"returned the old stream again (same object: %v, state=%s); Write on it: %v",
				cycle, time.Since(start).Round(time.Millisecond), id, s2 == s, s2.State(), werr)
		}
		// s2 is the stream of the next cycle
	}
	t.Logf("no stale stream seen in %v", time.Since(start))
}
