// SPDX-FileCopyrightText: 2026 The Pion community <https://pion.ly>
// SPDX-License-Identifier: MIT

package sctp

import (
	"encoding/binary"
	"io"
	"net"
	"sync"
	"testing"
	"time"

	"github.com/pion/logging"
	"github.com/stretchr/testify/require"
)

// huntC13Conn is an in-memory packet conn: what the association writes is handed
// to the test (out), what the test pushes into in is read by the association.
type huntC13Conn struct {
	in     chan []byte
	out    chan []byte
	closed chan struct{}
	once   sync.Once
}

func newHuntC13Conn() *huntC13Conn {
	return &huntC13Conn{
		in:     make(chan []byte, 64),
		out:    make(chan []byte, 256),
		closed: make(chan struct{}),
	}
}

func (c *huntC13Conn) Read(b []byte) (int, error) {
	select {
	case p := <-c.in:
		return copy(b, p), nil
	case <-c.closed:
		return 0, io.EOF
	}
}

func (c *huntC13Conn) Write(b []byte) (int, error) {
	cp := append([]byte{}, b...)
	select {
	case c.out <- cp:
		return len(b), nil
	case <-c.closed:
		return 0, io.ErrClosedPipe
	}
}

func (c *huntC13Conn) Close() error {
	c.once.Do(func() { close(c.closed) })

	return nil
}

func (c *huntC13Conn) LocalAddr() net.Addr              { return &net.UDPAddr{} }
func (c *huntC13Conn) RemoteAddr() net.Addr             { return &net.UDPAddr{} }
func (c *huntC13Conn) SetDeadline(time.Time) error      { return nil }
func (c *huntC13Conn) SetReadDeadline(time.Time) error  { return nil }
func (c *huntC13Conn) SetWriteDeadline(time.Time) error { return nil }

func huntC13FirstChunkType(raw []byte) chunkType {
	if len(raw) <= packetHeaderSize {
		return chunkType(255)
	}

	return chunkType(raw[packetHeaderSize])
}

// huntC13ChecksumOK reports whether the packet carries the correct CRC32c.
func huntC13ChecksumOK(raw []byte) bool {
	return binary.LittleEndian.Uint32(raw[8:]) == generatePacketChecksum(raw)
}

func huntC13Next(t *testing.T, ch chan []byte, want chunkType, what string) []byte {
	t.Helper()
	deadline := time.After(20 * time.Second)
	for {
		select {
		case raw := <-ch:
			if huntC13FirstChunkType(raw) == want {
				return raw
			}
			// a timer-driven retransmission of an earlier handshake packet: not of interest
		case <-deadline:
			require.FailNow(t, "timed out waiting for "+what)
		}
	}
}

// A server answers the INIT of its peer (which does NOT declare zero checksums
// acceptable), then a stale INIT of an earlier incarnation of that peer (which
// did declare it) arrives, then the COOKIE ECHO of the live peer associates the
// server. Both INIT ACKs carry the same cookie, so the COOKIE ECHO is accepted;
// the server keeps the zero-checksum decision of the INIT it handled last and
// sends COOKIE ACK and everything after it with a zero checksum to a peer that
// never advertised acceptance. The peer (a pion client here) discards them all.
func TestHuntC13_StaleInitAfterLiveInit(t *testing.T) {
	huntC13RunStaleInit(t, true)
}

// The same exchange without the stale INIT passes: the demands of the test are
// met by the library when nothing interferes.
func TestHuntC13_StaleInitAfterLiveInit_Control(t *testing.T) {
	huntC13RunStaleInit(t, false)
}

func huntC13RunStaleInit(t *testing.T, injectStale bool) { //nolint:cyclop
	t.Helper()
	lf := logging.NewDefaultLoggerFactory()

	sConn := newHuntC13Conn()
	pConn := newHuntC13Conn()
	defer sConn.Close() //nolint:errcheck
	defer pConn.Close() //nolint:errcheck

	type res struct {
		a   *Association
		err error
	}
	serverCh := make(chan res, 1)
	clientCh := make(chan res, 1)

	go func() {
		a, err := Server(Config{Name: "server", NetConn: sConn, LoggerFactory: lf})
		serverCh <- res{a, err}
	}()
	go func() {
		// the live peer: zero checksum NOT enabled, so its INIT has no
		// Zero Checksum Acceptable parameter and it verifies every CRC32c
		a, err := Client(Config{Name: "peer", NetConn: pConn, LoggerFactory: lf, EnableZeroChecksum: false})
		clientCh <- res{a, err}
	}()

	// 1. live INIT -> server
	liveInit := huntC13Next(t, pConn.out, ctInit, "the peer's INIT")
	{
		p := &packet{}
		require.NoError(t, p.unmarshal(true, liveInit))
		for _, prm := range p.chunks[0].(*chunkInit).params { //nolint:forcetypeassert
			_, isZCA := prm.(*paramZeroChecksumAcceptable)
			require.False(t, isZCA, "test premise: the live peer does not advertise zero checksum acceptance")
		}
	}
	sConn.in <- liveInit
	initAck1 := huntC13Next(t, sConn.out, ctInitAck, "INIT ACK #1")
	require.True(t, huntC13ChecksumOK(initAck1), "INIT ACK answering the live INIT has a CRC32c")

	// 2. a stale INIT of an earlier incarnation of the peer, which had zero checksum enabled
	stale := &chunkInit{}
	stale.initiateTag = 0x0badcafe
	stale.initialTSN = 4242
	stale.numOutboundStreams = 1024
	stale.numInboundStreams = 1024
	stale.advertisedReceiverWindowCredit = 128 * 1024
	setSupportedExtensions(&stale.chunkInitCommon, false)
	stale.params = append(stale.params, &paramZeroChecksumAcceptable{edmid: dtlsErrorDetectionMethod})
	stalePkt := &packet{
		sourcePort:      defaultSCTPSrcDstPort,
		destinationPort: defaultSCTPSrcDstPort,
		verificationTag: 0,
		chunks:          []chunk{stale},
	}
	staleRaw, err := stalePkt.marshal(true)
	require.NoError(t, err)
	if injectStale {
		sConn.in <- staleRaw
		// its answer goes to the stale incarnation; it is of no interest here
		_ = huntC13Next(t, sConn.out, ctInitAck, "INIT ACK #2")
	}

	// 3. the live peer gets its INIT ACK and sends COOKIE ECHO
	pConn.in <- initAck1
	cookieEcho := huntC13Next(t, pConn.out, ctCookieEcho, "the peer's COOKIE ECHO")
	require.True(t, huntC13ChecksumOK(cookieEcho))
	sConn.in <- cookieEcho

	// 4. the server is associated by the live peer's COOKIE ECHO
	cookieAck := huntC13Next(t, sConn.out, ctCookieAck, "COOKIE ACK")
	var srv *Association
	select {
	case r := <-serverCh:
		require.NoError(t, r.err)
		srv = r.a
	case <-time.After(20 * time.Second):
		require.FailNow(t, "server did not complete the handshake")
	}
	defer srv.Close() //nolint:errcheck

	// shuttle everything from now on, and look at what the server emits
	var mu sync.Mutex
	zeroFromServer := 0
	totalFromServer := 0
	stop := make(chan struct{})
	var wg sync.WaitGroup
	wg.Add(1)
	go func() {
		defer wg.Done()
		for {
			select {
			case raw := <-sConn.out:
				mu.Lock()
				totalFromServer++
				if !huntC13ChecksumOK(raw) {
					zeroFromServer++
				}
				mu.Unlock()
				pConn.in <- raw
			case raw := <-pConn.out:
				sConn.in <- raw
			case <-stop:
				return
			}
		}
	}()
	pConn.in <- cookieAck

	peerEstablished := false
	select {
	case r := <-clientCh:
		peerEstablished = r.err == nil
		if r.a != nil {
			defer r.a.Close() //nolint:errcheck
		}
	case <-time.After(6 * time.Second): // several T1-cookie retransmissions (RTO 1 s, 2 s, ...)
	}
	close(stop)
	wg.Wait()

	mu.Lock()
	defer mu.Unlock()
	t.Logf("COOKIE ACK checksum field = %#08x (correct CRC32c would be %#08x)",
		binary.LittleEndian.Uint32(cookieAck[8:]), generatePacketChecksum(cookieAck))
	t.Logf("server: ZeroChecksumSendingEnabled=%v; %d of %d later packets without CRC32c; peer established=%v",
		srv.sendZeroChecksumForTest(), zeroFromServer, totalFromServer, peerEstablished)

	require.True(t, huntC13ChecksumOK(cookieAck),
		"the peer that completed the handshake never advertised Zero Checksum Acceptable: "+
			"the COOKIE ACK sent to it must carry a correct CRC32c")
	require.Zero(t, zeroFromServer, "packets without CRC32c sent to a peer that never advertised acceptance")
	require.True(t, peerEstablished, "the peer's handshake never completes: it discards every packet of the server")
}

func (a *Association) sendZeroChecksumForTest() bool {
	a.lock.RLock()
	defer a.lock.RUnlock()

	return a.sendZeroChecksum
}
