// SPDX-FileCopyrightText: 2026 The Pion community <https://pion.ly>
// SPDX-License-Identifier: MIT

//go:build !js

package sctp

import (
	"encoding/binary"
	"sync"
	"sync/atomic"
	"testing"
	"time"

	"github.com/pion/logging"
	"github.com/pion/transport/v4/test"
	"github.com/stretchr/testify/require"
)

// C02: after a burst in which every other DATA packet is lost, the receiver holds
// more than 2041 separate runs of TSNs above its cumulative TSN. Every SACK it
// builds from then on lists all of them: the SACK packet is larger than
// receiveMTU (8192), the size of the buffer the peer's readLoop reads with, and
// far larger than the MTU both sides were configured with. The sender can never
// decode a SACK again; T3-rtx retransmits the same first chunk for ever.
func TestZZHuntC02_1_SackLargerThanReceiveMTU(t *testing.T) { //nolint:cyclop,gocognit,maintidx
	const (
		si         = uint16(1)
		msgSize    = 600 // one chunk per packet with the default MTU of 1191
		nMessages  = 16000
		rtoMaxMs   = 2000.0
		growTarget = 3500000 // cwnd to reach before the faulty period starts
	)

	lf := logging.NewDefaultLoggerFactory()
	lf.DefaultLogLevel = logging.LogLevelDisabled

	br := test.NewBridge()

	// --- the network: a ticker that moves packets, and a switchable fault ---
	var (
		paused   atomic.Bool
		stopTick atomic.Bool
		faulty   atomic.Bool
		// statistics on what the healed network carries from a1 to a0
		healed            atomic.Bool
		bigAfterHeal      atomic.Int64
		pktsAfterHeal     atomic.Int64
		maxLenAfterHeal   atomic.Int64
		dataSentAfterHeal atomic.Int64
	)
	var tickWG sync.WaitGroup
	tickWG.Add(1)
	go func() {
		defer tickWG.Done()
		for !stopTick.Load() {
			if paused.Load() {
				time.Sleep(200 * time.Microsecond)

				continue
			}
			if br.Tick() == 0 {
				time.Sleep(50 * time.Microsecond)
			}
		}
	}()

	// a0 -> a1: while the network is faulty, every packet that carries a DATA /
	// I-DATA chunk with an odd TSN is lost (first transmissions and retransmissions).
	br.Filter(0, func(raw []byte) bool {
		if len(raw) < 20 {
			return true
		}
		typ := chunkType(raw[12])
		if typ != ctPayloadData && typ != ctIData {
			return true
		}
		if healed.Load() {
			dataSentAfterHeal.Add(1)
		}
		if !faulty.Load() {
			return true
		}
		tsn := binary.BigEndian.Uint32(raw[16:20])

		return tsn%2 == 0
	})
	// a1 -> a0: never drops anything, only observes.
	br.Filter(1, func(raw []byte) bool {
		if healed.Load() {
			pktsAfterHeal.Add(1)
			if len(raw) > int(receiveMTU) {
				bigAfterHeal.Add(1)
			}
			if int64(len(raw)) > maxLenAfterHeal.Load() {
				maxLenAfterHeal.Store(int64(len(raw)))
			}
		}

		return true
	})

	// --- the two endpoints ---
	type res struct {
		a   *Association
		err error
	}
	ch0 := make(chan res, 1)
	ch1 := make(chan res, 1)
	go func() {
		a, err := ClientWithOptions(
			WithName("a0"), WithNetConn(br.GetConn0()), WithLoggerFactory(lf),
			WithRTOMax(rtoMaxMs),
		)
		ch0 <- res{a, err}
	}()
	go func() {
		a, err := ServerWithOptions(
			WithName("a1"), WithNetConn(br.GetConn1()), WithLoggerFactory(lf),
			WithRTOMax(rtoMaxMs),
			WithMaxReceiveBufferSize(4*1024*1024),
		)
		ch1 <- res{a, err}
	}()
	var a0, a1 *Association
	select {
	case r := <-ch0:
		require.NoError(t, r.err)
		a0 = r.a
	case <-time.After(20 * time.Second):
		require.FailNow(t, "handshake (client) did not complete")
	}
	select {
	case r := <-ch1:
		require.NoError(t, r.err)
		a1 = r.a
	case <-time.After(20 * time.Second):
		require.FailNow(t, "handshake (server) did not complete")
	}
	defer func() {
		stopTick.Store(true)
		tickWG.Wait()
		go a0.Close() //nolint:errcheck
		go a1.Close() //nolint:errcheck
		for i := 0; i < 200; i++ {
			br.Tick()
			time.Sleep(time.Millisecond)
		}
	}()

	s0, err := a0.OpenStream(si, PayloadTypeWebRTCBinary)
	require.NoError(t, err)
	s0.SetReliabilityParams(false, ReliabilityTypeReliable, 0) // ordered, reliable

	// --- the application on a1: accepts the stream and reads without pause ---
	var received atomic.Int64
	go func() {
		s1, aerr := a1.AcceptStream()
		if aerr != nil {
			return
		}
		buf := make([]byte, 65536)
		for {
			n, rerr := s1.Read(buf)
			if rerr != nil {
				return
			}
			if n == msgSize {
				received.Add(1)
			}
		}
	}()

	// --- the application on a0: writes all messages (non-blocking writes) ---
	msg := make([]byte, msgSize)
	for i := 0; i < nMessages; i++ {
		binary.BigEndian.PutUint32(msg, uint32(i)) //nolint:gosec
		_, werr := s0.Write(msg)
		require.NoError(t, werr)
	}

	// Phase 1 (no fault): let the transfer run until cwnd is large.
	deadline := time.Now().Add(60 * time.Second)
	for a0.CWND() < growTarget {
		if time.Now().After(deadline) {
			t.Skipf("setup: cwnd did not grow (cwnd=%d received=%d)", a0.CWND(), received.Load())
		}
		time.Sleep(time.Millisecond)
	}
	recvBeforeFault := received.Load()
	if int(recvBeforeFault) > nMessages-9000 {
		t.Skipf("setup: too little left to send (%d received)", recvBeforeFault)
	}

	// Phase 2 (fault): the path holds back everything for a moment (a long queue),
	// and loses every DATA packet with an odd TSN.
	paused.Store(true)
	faulty.Store(true)
	inflight := func() int {
		a0.lock.RLock()
		defer a0.lock.RUnlock()

		return a0.inflightQueue.size()
	}
	fillDeadline := time.Now().Add(900 * time.Millisecond)
	for inflight() < 6000 && time.Now().Before(fillDeadline) {
		time.Sleep(time.Millisecond)
	}
	paused.Store(false)

	gapBlocks := func() int {
		a1.lock.RLock()
		defer a1.lock.RUnlock()

		return len(a1.payloadQueue.getGapAckBlocks())
	}

	// Keep the fault until both ends have gone quiet: only the T3-rtx
	// retransmissions of a0 (lost, odd TSN) are left.
	lastChange := time.Now()
	lastBlocks := -1
	lastRecv := int64(-1)
	for time.Since(lastChange) < 5*time.Second {
		time.Sleep(50 * time.Millisecond)
		b, r := gapBlocks(), received.Load()
		if b != lastBlocks || r != lastRecv || br.Len(0) > 0 || br.Len(1) > 0 {
			lastBlocks, lastRecv = b, r
			lastChange = time.Now()
		}
	}
	nBlocks := gapBlocks()
	t.Logf("end of the faulty period: a1 holds %d gap ack blocks, a0 has %d chunks in flight, %d buffered bytes, "+
		"%d of %d messages delivered", nBlocks, inflight(), a0.BufferedAmount(), received.Load(), nMessages)
	if nBlocks < 2100 {
		t.Skipf("setup: only %d gap ack blocks at the receiver, need more than 2041 plus a margin", nBlocks)
	}

	// Phase 3: the network is healed for good. Nothing is lost, duplicated,
	// reordered or delayed any more.
	faulty.Store(false)
	healed.Store(true)
	healedAt := time.Now()
	recvAtHeal := received.Load()

	// "a few maximum retransmission timeouts": RTO.Max is 2 s here, wait 20 of them.
	waitFor := 20 * time.Duration(rtoMaxMs) * time.Millisecond
	for time.Since(healedAt) < waitFor {
		if received.Load() == nMessages && a0.BufferedAmount() == 0 {
			break
		}
		time.Sleep(100 * time.Millisecond)
	}

	t.Logf("%v after healing: delivered %d -> %d of %d, a0 buffered=%d bytes (stream: %d), a1 gap ack blocks=%d; "+
		"a0 sent %d DATA packets; a1 sent %d packets, %d of them larger than receiveMTU=%d (largest %d bytes), "+
		"a0 T3 timeouts=%d",
		time.Since(healedAt).Round(time.Second), recvAtHeal, received.Load(), nMessages,
		a0.BufferedAmount(), s0.BufferedAmount(), gapBlocks(),
		dataSentAfterHeal.Load(), pktsAfterHeal.Load(), bigAfterHeal.Load(), receiveMTU, maxLenAfterHeal.Load(),
		a0.stats.getNumT3Timeouts())

	require.Equalf(t, int64(nMessages), received.Load(),
		"the network has been fault-free for %v (20 x RTO.Max) and the reader never paused, "+
			"but reliable messages are still undelivered", waitFor)
	require.Zero(t, a0.BufferedAmount(), "sender still reports buffered bytes")
}
