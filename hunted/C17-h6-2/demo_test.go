package sctp

import (
	"strings"
	"sync"
	"testing"
	"time"

	"github.com/pion/logging"
	"github.com/pion/transport/v4/test"
	"github.com/stretchr/testify/require"
)

// zzC17n2Pair builds a connected pair; the client is created from exactly the given options.
func zzC17n2Pair(t *testing.T, br *test.Bridge, clientOpts func(lf logging.LoggerFactory) []ClientOption) (*Association, *Association) {
	t.Helper()

	type result struct {
		a      *Association
		err    error
		client bool
	}
	ch := make(chan result, 2)
	lf := logging.NewDefaultLoggerFactory()

	go func() {
		a, err := ClientWithOptions(clientOpts(lf)...)
		ch <- result{a: a, err: err, client: true}
	}()
	go func() {
		a, err := ServerWithOptions(WithName("c17-server"), WithNetConn(br.GetConn1()), WithLoggerFactory(lf))
		ch <- result{a: a, err: err}
	}()

	var a0, a1 *Association
	deadline := time.Now().Add(20 * time.Second)
	for (a0 == nil || a1 == nil) && time.Now().Before(deadline) {
		br.Tick()
		select {
		case r := <-ch:
			require.NoError(t, r.err)
			if r.client {
				a0 = r.a
			} else {
				a1 = r.a
			}
		case <-time.After(2 * time.Millisecond):
		}
	}
	require.NotNil(t, a0, "handshake (client)")
	require.NotNil(t, a1, "handshake (server)")

	return a0, a1
}

// zzC17n2Order fills the congestion window with a message on stream 3, then queues
// twelve 100-byte messages on stream 1 and one six-fragment message on stream 2 (so
// both are backlogged before either can send), lets the network run, and returns the
// order in which streams 1 and 2 were served while both still had data queued.
func zzC17n2Order(t *testing.T, br *test.Bridge, a0 *Association) string {
	t.Helper()

	var (
		mu   sync.Mutex
		seen = map[uint32]bool{}
		sids []uint16
	)
	br.Filter(0, func(raw []byte) bool {
		p := &packet{}
		if err := p.unmarshal(true, raw); err != nil {
			return true
		}
		mu.Lock()
		defer mu.Unlock()
		for _, c := range p.chunks {
			if pd, ok := c.(*chunkPayloadData); ok && !seen[pd.tsn] {
				seen[pd.tsn] = true
				sids = append(sids, pd.streamIdentifier)
			}
		}

		return true
	})
	count := func() int {
		mu.Lock()
		defer mu.Unlock()

		return len(sids)
	}

	s1, err := a0.OpenStream(1, PayloadTypeWebRTCBinary)
	require.NoError(t, err)
	s2, err := a0.OpenStream(2, PayloadTypeWebRTCBinary)
	require.NoError(t, err)
	s3, err := a0.OpenStream(3, PayloadTypeWebRTCBinary)
	require.NoError(t, err)

	// exactly one congestion window of data on stream 3: nothing else can be sent until a SACK arrives
	cwnd := int(a0.CWND())
	frag := int(a0.maxPayloadSize)
	fillerChunks := (cwnd + frag - 1) / frag
	_, err = s3.Write(make([]byte, cwnd))
	require.NoError(t, err)
	for i := 0; count() < fillerChunks; i++ {
		require.Less(t, i, 5000, "filler not sent")
		time.Sleep(time.Millisecond)
	}

	const small = 12
	const large = 6
	for i := 0; i < small; i++ {
		_, err = s1.Write(make([]byte, 100))
		require.NoError(t, err)
	}
	_, err = s2.Write(make([]byte, large*frag))
	require.NoError(t, err)
	time.Sleep(50 * time.Millisecond)
	require.Equal(t, fillerChunks, count(), "nothing of streams 1 and 2 may leave before the window opens")

	for i := 0; count() < fillerChunks+small+large; i++ {
		require.Less(t, i, 20000, "data not sent in time")
		if br.Tick() == 0 {
			time.Sleep(time.Millisecond)
		}
	}

	mu.Lock()
	defer mu.Unlock()
	var order strings.Builder
	n1, n2 := 0, 0
	for _, sid := range sids[fillerChunks:] {
		if sid == 1 {
			order.WriteString("1")
			n1++
		} else {
			order.WriteString("2")
			n2++
		}
		if n1 == small || n2 == large {
			break // one of the two is no longer backlogged
		}
	}

	return order.String()
}

func zzC17n2CheckRoundRobin(t *testing.T, order string) {
	t.Helper()

	// one chunk each per round: in no stretch may one stream be served twice more than the other
	worst, d, lo, hi := 0, 0, 0, 0
	for _, c := range order {
		if c == '1' {
			d++
		} else {
			d--
		}
		if d < lo {
			lo = d
		}
		if d > hi {
			hi = d
		}
		if hi-lo > worst {
			worst = hi - lo
		}
	}
	require.LessOrEqual(t, worst, 1,
		"round-robin was configured, but while streams 1 and 2 were both backlogged they were served in the order %s", order)
}

// The application selects the round-robin scheduler with WithInterleavingOptions and
// hands over the connection in a Config value (Config is itself a Client/ServerOption).
func TestZZHuntC17_2_ConfigOptionDropsConfiguredScheduler(t *testing.T) {
	lim := test.TimeOut(60 * time.Second)
	defer lim.Stop()

	t.Run("Config first, scheduler option second", func(t *testing.T) {
		br := test.NewBridge()
		a0, a1 := zzC17n2Pair(t, br, func(lf logging.LoggerFactory) []ClientOption {
			return []ClientOption{
				Config{NetConn: br.GetConn0(), LoggerFactory: lf, Name: "c17-client"},
				WithInterleavingOptions(WithInterleavingRoundRobinScheduler()),
			}
		})
		defer closeAssociationPair(br, a0, a1)
		require.True(t, a0.useInterleaving)

		order := zzC17n2Order(t, br, a0)
		t.Logf("order: %s", order)
		zzC17n2CheckRoundRobin(t, order)
	})

	t.Run("scheduler option first, Config second", func(t *testing.T) {
		br := test.NewBridge()
		a0, a1 := zzC17n2Pair(t, br, func(lf logging.LoggerFactory) []ClientOption {
			return []ClientOption{
				WithInterleavingOptions(WithInterleavingRoundRobinScheduler()),
				Config{NetConn: br.GetConn0(), LoggerFactory: lf, Name: "c17-client"},
			}
		})
		defer closeAssociationPair(br, a0, a1)
		require.True(t, a0.useInterleaving)

		order := zzC17n2Order(t, br, a0)
		t.Logf("order: %s", order)
		zzC17n2CheckRoundRobin(t, order)
	})
}
