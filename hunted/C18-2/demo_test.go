// SPDX-FileCopyrightText: 2026 The Pion community <https://pion.ly>
// SPDX-License-Identifier: MIT

package sctp

import (
	"context"
	"errors"
	"fmt"
	"sync"
	"sync/atomic"
	"testing"
	"time"

	"github.com/stretchr/testify/require"
)

// Blocking-write mode, the peer's window is closed, so a Write blocks until its
// deadline. sendPayloadData wakes up on <-ctx.Done() and then returns ctx.Err() -
// two separate looks at the deadline object. If SetWriteDeadline is called (from
// another goroutine, e.g. to extend or clear the deadline) between the two,
// ctx.Err() is nil again: sendPayloadData returns nil WITHOUT having queued the
// chunks, WriteSCTP reports (len(payload), nil), and the stream sequence number the
// message took is not given back. The message is never sent and every later
// ordered message on the stream is stuck behind the hole at the receiver.
func TestHuntC18_2_WriteDeadlineRearmedWhileExpiringLosesMessageAndStallsStream(t *testing.T) {
	conn1, conn2 := createUDPConnPair()
	a1, a2, err := createAssociationPairWithConfig(conn1, conn2, Config{BlockWrite: true, MaxReceiveBufferSize: 4000})
	require.NoError(t, err)
	defer a2.Close() //nolint:errcheck
	defer a1.Close() //nolint:errcheck

	s1, err := a1.OpenStream(1, PayloadTypeWebRTCBinary)
	require.NoError(t, err)
	_, err = s1.Write([]byte("hello"))
	require.NoError(t, err)
	r1, err := a2.AcceptStream()
	require.NoError(t, err)
	buf := make([]byte, 8192)
	n, err := r1.Read(buf)
	require.NoError(t, err)
	require.Equal(t, "hello", string(buf[:n]))

	// Fill the peer's receive buffer (nobody reads on a2 for now): the first message
	// fills the 4000 byte window, the second one cannot be sent completely and stays
	// in the pending queue, so from now on every Write has to block.
	big := make([]byte, 4000)
	_, err = s1.Write(big)
	require.NoError(t, err)
	_, err = s1.Write(big)
	require.NoError(t, err)

	// sanity: a write really blocks until its deadline and is then rejected
	require.NoError(t, s1.SetWriteDeadline(time.Now().Add(200*time.Millisecond)))
	_, err = s1.Write([]byte("must-time-out"))
	require.ErrorIs(t, err, context.DeadlineExceeded)
	require.NoError(t, s1.SetWriteDeadline(time.Time{}))

	// Another goroutine keeps re-arming the write deadline: expired, cleared, expired, ...
	var stop atomic.Bool
	var wg sync.WaitGroup
	wg.Add(1)
	go func() {
		defer wg.Done()
		past := time.Now().Add(-time.Hour)
		for !stop.Load() {
			_ = s1.SetWriteDeadline(past)
			_ = s1.SetWriteDeadline(time.Time{})
		}
	}()

	// Every one of these writes is issued while the pending queue is not empty, so
	// each has to wait and can only end with the deadline error (nothing is being
	// read at the peer, the window never opens during this phase).
	var accepted []string
	const attempts = 20000
	tried := 0
	for i := 0; i < attempts && len(accepted) == 0; i++ {
		tried++
		msg := fmt.Sprintf("msg-%05d", i)
		nw, werr := s1.Write([]byte(msg))
		switch {
		case werr == nil:
			require.Equal(t, len(msg), nw)
			accepted = append(accepted, msg)
		case errors.Is(werr, context.DeadlineExceeded):
			require.Equal(t, 0, nw)
		default:
			require.FailNow(t, "unexpected write error", "%v", werr)
		}
	}
	stop.Store(true)
	wg.Wait()
	require.NoError(t, s1.SetWriteDeadline(time.Time{}))

	a1.lock.RLock()
	stillPending := a1.pendingQueue.size()
	writePending := a1.writePending
	a1.lock.RUnlock()
	require.NotZero(t, stillPending, "test assumption: the second big message was still pending during the whole phase")
	require.True(t, writePending)
	t.Logf("%d writes tried; writes that returned nil while they had to block: %v", tried, accepted)

	// Now the peer's application reads. Contract: every write that returned nil is
	// delivered once and in order; every write that returned an error left no trace;
	// a later message ("tail") is delivered after them.
	got := make(chan string, 64)
	go func() {
		rb := make([]byte, 8192)
		for {
			rn, rerr := r1.Read(rb)
			if rerr != nil {
				close(got)

				return
			}
			if rn == 4000 {
				got <- "big"
			} else {
				got <- string(rb[:rn])
			}
		}
	}()

	tailDone := make(chan error, 1)
	go func() {
		_, werr := s1.Write([]byte("tail"))
		tailDone <- werr
	}()
	select {
	case werr := <-tailDone:
		require.NoError(t, werr)
	case <-time.After(30 * time.Second):
		require.FailNow(t, "the final write did not return")
	}

	want := append([]string{"big", "big"}, accepted...)
	want = append(want, "tail")
	var received []string
	timeout := time.After(15 * time.Second)
loop:
	for len(received) < len(want) {
		select {
		case m, ok := <-got:
			if !ok {
				break loop
			}
			received = append(received, m)
		case <-timeout:
			break loop
		}
	}

	a1.lock.RLock()
	pending, inflight := a1.pendingQueue.size(), a1.inflightQueue.size()
	a1.lock.RUnlock()
	require.Equal(t, want, received,
		"writes reported as successful %v were not delivered and/or the later message is stuck "+
			"(sender: pending=%d inflight=%d - it has nothing left to send)", accepted, pending, inflight)
}
