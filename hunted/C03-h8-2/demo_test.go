//go:build !js

package sctp

import (
	"errors"
	"testing"
	"time"

	"github.com/pion/logging"
	"github.com/stretchr/testify/require"
)

// C03 finding 2
//
// With user message interleaving (the default of this library) an ordered I-DATA chunk is
// refused only if its MID is "behind" the next expected MID in serial number arithmetic. A MID
// exactly 2^31 away from the cursor is neither behind nor ahead: it is accepted, and because
// the queue is kept sorted with the same comparison it is filed IN FRONT of the message the
// reader is waiting for. From then on the head of the queue is a message that can never be
// delivered, and the complete, acknowledged message behind it (and everything the peer sends
// later on that stream) is never readable again.

type zzHuntC03n2Pair struct {
	client, server         *Association
	clientConn, serverConn *dumbConn2
}

func zzHuntC03n2NewPair(t *testing.T, interleaving bool) *zzHuntC03n2Pair {
	t.Helper()

	c1, c2 := createUDPConnPair()
	lf := logging.NewDefaultLoggerFactory()
	lf.DefaultLogLevel = logging.LogLevelDisabled

	type res struct {
		a   *Association
		err error
	}
	cch := make(chan res, 1)
	sch := make(chan res, 1)
	go func() {
		a, err := ClientWithOptions(WithName("client"), WithNetConn(c1), WithLoggerFactory(lf),
			WithEnableInterleaving(interleaving))
		cch <- res{a, err}
	}()
	go func() {
		a, err := ServerWithOptions(WithName("server"), WithNetConn(c2), WithLoggerFactory(lf),
			WithEnableInterleaving(interleaving))
		sch <- res{a, err}
	}()

	p := &zzHuntC03n2Pair{}
	p.clientConn, _ = c1.(*dumbConn2) //nolint:forcetypeassert
	p.serverConn, _ = c2.(*dumbConn2) //nolint:forcetypeassert
	for i := 0; i < 2; i++ {
		select {
		case r := <-cch:
			require.NoError(t, r.err)
			p.client = r.a
		case r := <-sch:
			require.NoError(t, r.err)
			p.server = r.a
		case <-time.After(20 * time.Second):
			require.FailNow(t, "handshake did not complete")
		}
	}

	return p
}

// inject hands raw bytes to the server's transport, as if they had come from the network.
func (p *zzHuntC03n2Pair) injectIntoServer(t *testing.T, c chunk) {
	t.Helper()

	p.server.lock.RLock()
	pkt := &packet{
		sourcePort:      p.server.destinationPort,
		destinationPort: p.server.sourcePort,
		verificationTag: p.server.myVerificationTag,
		chunks:          []chunk{c},
	}
	p.server.lock.RUnlock()
	raw, err := pkt.marshal(true)
	require.NoError(t, err)

	before := p.server.stats.getNumPacketsReceived()
	p.serverConn.inboundHandler(raw)
	require.Eventually(t, func() bool {
		if p.server.stats.getNumPacketsReceived() <= before {
			return false
		}
		// the packet has been taken up; wait until its chunks have been handled as well
		p.server.lock.Lock()
		p.server.lock.Unlock() //nolint:staticcheck

		return true
	}, 10*time.Second, 5*time.Millisecond, "the injected packet was not read")
	time.Sleep(50 * time.Millisecond)
}

func (p *zzHuntC03n2Pair) serverCumTSN() uint32 {
	p.server.lock.RLock()
	defer p.server.lock.RUnlock()

	return p.server.peerLastTSN()
}

// openStreams makes the client send a first message on stream 1 and the server read it.
func (p *zzHuntC03n2Pair) openStreams(t *testing.T) (*Stream, *Stream) {
	t.Helper()

	cs, err := p.client.OpenStream(1, PayloadTypeWebRTCBinary)
	require.NoError(t, err)
	_, err = cs.Write([]byte("first"))
	require.NoError(t, err)

	acceptCh := make(chan *Stream, 1)
	go func() {
		s, _ := p.server.AcceptStream()
		acceptCh <- s
	}()
	var ss *Stream
	select {
	case ss = <-acceptCh:
		require.NotNil(t, ss)
	case <-time.After(20 * time.Second):
		require.FailNow(t, "stream not accepted")
	}

	buf := make([]byte, 1500)
	require.NoError(t, ss.SetReadDeadline(time.Now().Add(20*time.Second)))
	n, err := ss.Read(buf)
	require.NoError(t, err)
	require.Equal(t, "first", string(buf[:n]))
	require.NoError(t, ss.SetReadDeadline(time.Time{}))

	require.Eventually(t, func() bool { return p.client.BufferedAmount() == 0 },
		20*time.Second, 5*time.Millisecond)

	return cs, ss
}

func (p *zzHuntC03n2Pair) close() {
	_ = p.client.Close()
	_ = p.server.Close()
}

func zzHuntC03n2ReadWithin(t *testing.T, s *Stream, d time.Duration) (string, error) {
	t.Helper()

	buf := make([]byte, 1500)
	require.NoError(t, s.SetReadDeadline(time.Now().Add(d)))
	n, err := s.Read(buf)

	return string(buf[:n]), err
}


func TestZZHuntC03_2_IDataMIDHalfSpaceAwayHidesCompleteMessage(t *testing.T) {
	p := zzHuntC03n2NewPair(t, true)
	defer p.close()

	cs, ss := p.openStreams(t) // message MID 0 has been read, the reader waits for MID 1
	require.True(t, p.server.useInterleaving, "interleaving expected")

	// A second message arrives completely and is acknowledged. It is not read yet.
	_, err := cs.Write([]byte("second"))
	require.NoError(t, err)
	require.Eventually(t, func() bool { return p.client.BufferedAmount() == 0 },
		20*time.Second, 5*time.Millisecond, "message was not acknowledged")
	ss.lock.RLock()
	readable := ss.reassemblyQueue.isReadable()
	nextMID := ss.reassemblyQueue.nextMID
	ss.lock.RUnlock()
	require.True(t, readable, "the second message is complete and readable")
	require.Equal(t, uint32(1), nextMID)

	// One stray I-DATA chunk: new TSN, same stream, ordered, MID = next MID + 2^31.
	p.injectIntoServer(t, &chunkPayloadData{
		iData:             true,
		tsn:               p.serverCumTSN() + 1,
		streamIdentifier:  1,
		messageIdentifier: nextMID + 1<<31,
		beginningFragment: true,
		endingFragment:    true,
		payloadType:       PayloadTypeWebRTCBinary,
		userData:          []byte("stray"),
	})
	require.Equal(t, established, p.server.getState())

	// The message that had been received before must still be delivered.
	got, err := zzHuntC03n2ReadWithin(t, ss, 5*time.Second)
	if errors.Is(err, ErrReadDeadlineExceeded) {
		ss.lock.RLock()
		var mids []uint32
		for _, set := range ss.reassemblyQueue.orderedMID {
			mids = append(mids, set.mid)
		}
		nextMID = ss.reassemblyQueue.nextMID
		ss.lock.RUnlock()
		require.FailNowf(t, "a complete, acknowledged message became unreadable",
			"reader waits for MID %d; queue (in order) holds MIDs %v: the stray message was filed in front", nextMID, mids)
	}
	require.NoError(t, err)
	require.Equal(t, "second", got)
}
