// SPDX-FileCopyrightText: 2026 The Pion community <https://pion.ly>
// SPDX-License-Identifier: MIT

package sctp

import (
	"io"
	"net"
	"sync"
	"testing"
	"time"

	"github.com/pion/logging"
)

// ---------------------------------------------------------------------------
// a minimal in-memory datagram connection pair (self contained)
// ---------------------------------------------------------------------------

type huntC09n4Conn struct {
	mu     sync.Mutex
	cond   *sync.Cond
	queue  [][]byte
	closed bool
	peer   *huntC09n4Conn
}

func newHuntC09n4ConnPair() (*huntC09n4Conn, *huntC09n4Conn) {
	a := &huntC09n4Conn{}
	b := &huntC09n4Conn{}
	a.cond = sync.NewCond(&a.mu)
	b.cond = sync.NewCond(&b.mu)
	a.peer, b.peer = b, a

	return a, b
}

func (c *huntC09n4Conn) Read(p []byte) (int, error) {
	c.mu.Lock()
	defer c.mu.Unlock()
	for {
		if len(c.queue) > 0 {
			pkt := c.queue[0]
			c.queue = c.queue[1:]

			return copy(p, pkt), nil
		}
		if c.closed {
			return 0, io.EOF
		}
		c.cond.Wait()
	}
}

func (c *huntC09n4Conn) Write(p []byte) (int, error) {
	c.mu.Lock()
	closed := c.closed
	c.mu.Unlock()
	if closed {
		return 0, net.ErrClosed
	}
	cp := append([]byte(nil), p...)
	c.peer.mu.Lock()
	if !c.peer.closed {
		c.peer.queue = append(c.peer.queue, cp)
		c.peer.cond.Broadcast()
	}
	c.peer.mu.Unlock()

	return len(p), nil
}

func (c *huntC09n4Conn) Close() error {
	c.mu.Lock()
	c.closed = true
	c.cond.Broadcast()
	c.mu.Unlock()

	return nil
}

func (c *huntC09n4Conn) LocalAddr() net.Addr              { return &net.UDPAddr{} }
func (c *huntC09n4Conn) RemoteAddr() net.Addr             { return &net.UDPAddr{} }
func (c *huntC09n4Conn) SetDeadline(time.Time) error      { return nil }
func (c *huntC09n4Conn) SetReadDeadline(time.Time) error  { return nil }
func (c *huntC09n4Conn) SetWriteDeadline(time.Time) error { return nil }

func huntC09n4Pair(t *testing.T, cfgA, cfgB Config) (*Association, *Association) {
	t.Helper()

	ca, cb := newHuntC09n4ConnPair()
	type res struct {
		a   *Association
		err error
	}
	chA := make(chan res, 1)
	chB := make(chan res, 1)
	lf := logging.NewDefaultLoggerFactory()
	cfgA.Name, cfgA.NetConn, cfgA.LoggerFactory = "A", ca, lf
	cfgB.Name, cfgB.NetConn, cfgB.LoggerFactory = "B", cb, lf
	go func() {
		a, err := Client(cfgA)
		chA <- res{a, err}
	}()
	go func() {
		b, err := Server(cfgB)
		chB <- res{b, err}
	}()

	var a, b *Association
	for a == nil || b == nil {
		select {
		case r := <-chA:
			if r.err != nil {
				t.Fatalf("client handshake: %v", r.err)
			}
			a = r.a
		case r := <-chB:
			if r.err != nil {
				t.Fatalf("server handshake: %v", r.err)
			}
			b = r.a
		case <-time.After(20 * time.Second):
			t.Fatal("handshake did not complete")
		}
	}

	return a, b
}

// Property C09: "Closing or aborting an association ... at any moment ... terminates it
// cleanly: every blocked read, write, accept, connect and shutdown call returns promptly".
//
// One of the moments at which an application gets control is the OnBufferedAmountLow
// callback of a stream ("the send buffer has drained" - a natural place to decide
// that the transfer is finished and to tear the association down). The callback runs
// on the association's read loop, and Close / Abort wait for the read loop to end:
// called from the callback they wait for their own caller. The call never returns,
// the read loop never ends, and every other caller blocked on the association (a
// reader here) is never released although the transport has been closed.
func TestHuntC09n4_CloseOrAbortFromBufferedAmountLowCallbackNeverReturns(t *testing.T) {
	for _, how := range []string{"Close", "Abort"} {
		how := how
		t.Run(how, func(t *testing.T) {
			a, b := huntC09n4Pair(t, Config{}, Config{})

			sa, err := a.OpenStream(1, PayloadTypeWebRTCBinary)
			if err != nil {
				t.Fatal(err)
			}

			// an ordinary reader blocked on another stream of the same association
			sr, err := a.OpenStream(2, PayloadTypeWebRTCBinary)
			if err != nil {
				t.Fatal(err)
			}
			readDone := make(chan error, 1)
			go func() {
				_, rerr := sr.Read(make([]byte, 64))
				readDone <- rerr
			}()

			tornDown := make(chan struct{})
			var once sync.Once
			sa.SetBufferedAmountLowThreshold(0)
			sa.OnBufferedAmountLow(func() {
				once.Do(func() {
					// everything has been delivered: we are done with this peer
					if how == "Close" {
						_ = a.Close()
					} else {
						a.Abort("done")
					}
					close(tornDown)
				})
			})

			if _, err = sa.Write([]byte("the last message")); err != nil {
				t.Fatal(err)
			}

			const bound = 10 * time.Second
			select {
			case <-tornDown:
			case <-time.After(bound):
				t.Errorf("Association.%s called from OnBufferedAmountLow did not return within %v", how, bound)
			}
			select {
			case rerr := <-readDone:
				if rerr == nil {
					t.Error("blocked read returned without error")
				}
			case <-time.After(bound):
				t.Errorf("a Read blocked on the association was not released within %v of %s", bound, how)
			}

			_ = b.Close()
		})
	}
}
