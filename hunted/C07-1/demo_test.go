// SPDX-FileCopyrightText: 2026 The Pion community <https://pion.ly>
// SPDX-License-Identifier: MIT

package sctp

import (
	"sync/atomic"
	"testing"
	"time"

	"github.com/pion/transport/v4/test"
	"github.com/stretchr/testify/require"
)

// huntC07Pump keeps the bridge moving packets until stop is called.
func huntC07Pump(br *test.Bridge) (stop func()) {
	var done atomic.Bool
	fin := make(chan struct{})
	go func() {
		defer close(fin)
		for !done.Load() {
			if br.Tick() == 0 {
				time.Sleep(time.Millisecond)
			}
		}
	}()

	return func() {
		done.Store(true)
		<-fin
	}
}

// The abandoned message is the first one on its stream, and the FORWARD-TSN that
// tells the peer to skip it arrives while the peer's accept backlog is full (the
// application has 16 streams waiting in AcceptStream). A DATA chunk in that
// situation is left unacknowledged so that it is retransmitted; the FORWARD-TSN is
// acknowledged but its per-stream skip is thrown away. The next (reliable, ordered)
// message on that stream is then never delivered.
func TestHuntC07_1_ForwardTSNWithFullAcceptBacklogLosesSkip(t *testing.T) {
	huntC07ForwardTSNWithAcceptBacklog(t, acceptChSize, true)
}

// The same without any loss on the wire: the receiver itself discards the first
// DATA chunk of the new stream because its accept backlog is full ("sender will
// retry"), the sender does not retry a message sent with max-retransmits 0 but
// sends FORWARD-TSN, and the skip is lost just the same.
func TestHuntC07_1_NoWireLossAtAll(t *testing.T) {
	huntC07ForwardTSNWithAcceptBacklog(t, acceptChSize, false)
}

// Control: exactly the same scenario with one free slot in the accept backlog passes.
func TestHuntC07_1_ControlBacklogNotFull(t *testing.T) {
	huntC07ForwardTSNWithAcceptBacklog(t, acceptChSize-1, true)
}

func huntC07ForwardTSNWithAcceptBacklog(t *testing.T, nFill int, dropOnWire bool) {
	t.Helper()

	lim := test.TimeOut(time.Second * 60)
	defer lim.Stop()

	br := test.NewBridge()
	a0, a1, err := createNewAssociationPair(br, ackModeNoDelay, 0)
	require.NoError(t, err)
	stop := huntC07Pump(br)
	defer func() {
		stop()
		closeAssociationPair(br, a0, a1)
	}()

	a0.rtoMgr.setRTO(100.0, true)

	// 1. fill a1's accept backlog: one reliable message on each of 16 new streams.
	for si := uint16(0); int(si) < nFill; si++ {
		s, oerr := a0.OpenStream(si, PayloadTypeWebRTCBinary)
		require.NoError(t, oerr)
		_, werr := s.WriteSCTP([]byte("fill"), PayloadTypeWebRTCBinary)
		require.NoError(t, werr)
	}
	require.Eventually(t, func() bool {
		return a0.BufferedAmount() == 0 && len(a1.acceptCh) == nFill
	}, 10*time.Second, 5*time.Millisecond, "backlog not filled")

	// 2. a new stream whose first message is lost (on the wire, or discarded by the
	//    receiver because of its full backlog) and abandoned.
	const si = uint16(100)
	var dropped atomic.Int32
	br.Filter(0, func(raw []byte) bool {
		p := &packet{}
		if perr := p.unmarshal(true, raw); perr != nil {
			return true
		}
		for _, c := range p.chunks {
			if pd, ok := c.(*chunkPayloadData); ok && pd.streamIdentifier == si && pd.streamSequenceNumber == 0 {
				dropped.Add(1)

				return !dropOnWire
			}
		}

		return true
	})

	s0, err := a0.OpenStream(si, PayloadTypeWebRTCBinary)
	require.NoError(t, err)
	s0.SetReliabilityParams(false, ReliabilityTypeRexmit, 0) // ordered, never retransmitted
	_, err = s0.WriteSCTP([]byte("abandoned first message"), PayloadTypeWebRTCBinary)
	require.NoError(t, err)

	// the sender gives up, sends FORWARD-TSN (on T3-rtx), the peer acknowledges it.
	require.Eventually(t, func() bool {
		a0.lock.RLock()
		defer a0.lock.RUnlock()

		return a0.inflightQueue.size() == 0 && a0.pendingQueue.size() == 0
	}, 10*time.Second, 5*time.Millisecond, "FORWARD-TSN was never acknowledged")
	require.Equal(t, int32(1), dropped.Load(), "the abandoned message must have been sent exactly once")
	br.Filter(0, nil)

	// 3. the application catches up with its accept backlog.
	for i := 0; i < nFill; i++ {
		s, aerr := a1.AcceptStream()
		require.NoError(t, aerr)
		buf := make([]byte, 64)
		n, rerr := s.Read(buf)
		require.NoError(t, rerr)
		require.Equal(t, "fill", string(buf[:n]))
	}

	// 4. a later, reliable and ordered message on the same stream.
	s0.SetReliabilityParams(false, ReliabilityTypeReliable, 0)
	_, err = s0.WriteSCTP([]byte("reliable second message"), PayloadTypeWebRTCBinary)
	require.NoError(t, err)

	accepted := make(chan *Stream, 1)
	go func() {
		s, aerr := a1.AcceptStream()
		if aerr == nil {
			accepted <- s
		}
	}()

	var s1 *Stream
	select {
	case s1 = <-accepted:
	case <-time.After(10 * time.Second):
		require.FailNow(t, "stream of the later message was never accepted")
	}
	require.Equal(t, si, s1.StreamIdentifier())

	// the sender sees it acknowledged ...
	require.Eventually(t, func() bool { return a0.BufferedAmount() == 0 }, 10*time.Second, 5*time.Millisecond)

	// ... but the reader never gets it.
	require.NoError(t, s1.SetReadDeadline(time.Now().Add(5*time.Second)))
	buf := make([]byte, 64)
	n, err := s1.Read(buf)
	require.NoError(t, err, "the reliable ordered message after the abandoned one was never delivered "+
		"(receiver still waits for ssn=%d)", s1.reassemblyQueue.nextSSN)
	require.Equal(t, "reliable second message", string(buf[:n]))
}
