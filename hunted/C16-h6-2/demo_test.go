package sctp

import (
	"encoding/binary"
	"io"
	"net"
	"sync"
	"testing"
	"time"

	"github.com/pion/logging"
)

// ---- a minimal in-memory datagram pipe with a per-direction packet filter ----

type zzC16bConn struct {
	mu     sync.Mutex
	cond   *sync.Cond
	q      [][]byte
	closed bool
	peer   *zzC16bConn
	// filter is applied to packets written on this conn (towards peer). It returns
	// the packet to forward (possibly rewritten) or nil to drop it.
	filter func([]byte) []byte
}

func newZZC16bPipe() (*zzC16bConn, *zzC16bConn) {
	a, b := &zzC16bConn{}, &zzC16bConn{}
	a.cond, b.cond = sync.NewCond(&a.mu), sync.NewCond(&b.mu)
	a.peer, b.peer = b, a

	return a, b
}

func (c *zzC16bConn) Read(b []byte) (int, error) {
	c.mu.Lock()
	defer c.mu.Unlock()
	for len(c.q) == 0 {
		if c.closed {
			return 0, io.EOF
		}
		c.cond.Wait()
	}
	p := c.q[0]
	c.q = c.q[1:]

	return copy(b, p), nil
}

func (c *zzC16bConn) Write(b []byte) (int, error) {
	c.mu.Lock()
	closed, f := c.closed, c.filter
	c.mu.Unlock()
	if closed {
		return 0, io.ErrClosedPipe
	}
	p := append([]byte(nil), b...)
	if f != nil {
		if p = f(p); p == nil {
			return len(b), nil
		}
	}
	c.peer.mu.Lock()
	if !c.peer.closed {
		c.peer.q = append(c.peer.q, p)
		c.peer.cond.Signal()
	}
	c.peer.mu.Unlock()

	return len(b), nil
}

func (c *zzC16bConn) setFilter(f func([]byte) []byte) {
	c.mu.Lock()
	c.filter = f
	c.mu.Unlock()
}

func (c *zzC16bConn) Close() error {
	c.mu.Lock()
	c.closed = true
	c.cond.Broadcast()
	c.mu.Unlock()

	return nil
}
func (c *zzC16bConn) LocalAddr() net.Addr              { return &net.UDPAddr{IP: net.IPv4(127, 0, 0, 1), Port: 1} }
func (c *zzC16bConn) RemoteAddr() net.Addr             { return &net.UDPAddr{IP: net.IPv4(127, 0, 0, 1), Port: 2} }
func (c *zzC16bConn) SetDeadline(time.Time) error      { return nil }
func (c *zzC16bConn) SetReadDeadline(time.Time) error  { return nil }
func (c *zzC16bConn) SetWriteDeadline(time.Time) error { return nil }

func zzC16bPair(t *testing.T, c0, c1 net.Conn) (*Association, *Association) {
	t.Helper()
	lf := logging.NewDefaultLoggerFactory()
	type res struct {
		a   *Association
		err error
	}
	ch0, ch1 := make(chan res, 1), make(chan res, 1)
	go func() {
		a, err := ClientWithOptions(WithName("a0"), WithNetConn(c0), WithLoggerFactory(lf), WithEnableInterleaving(false))
		ch0 <- res{a, err}
	}()
	go func() {
		a, err := ServerWithOptions(WithName("a1"), WithNetConn(c1), WithLoggerFactory(lf), WithEnableInterleaving(false))
		ch1 <- res{a, err}
	}()
	var r0, r1 res
	select {
	case r0 = <-ch0:
	case <-time.After(20 * time.Second):
		t.Fatal("handshake (client) timed out")
	}
	select {
	case r1 = <-ch1:
	case <-time.After(20 * time.Second):
		t.Fatal("handshake (server) timed out")
	}
	if r0.err != nil || r1.err != nil {
		t.Fatalf("handshake failed: %v %v", r0.err, r1.err)
	}

	return r0.a, r1.a
}

// TestZZHuntC16_2: an ordered, unreliable (max-retransmits 0) stream with a slow
// reader. The application on the receiving side lets a backlog of complete,
// acknowledged messages build up. Then a short burst of messages is lost on the
// wire; the sender abandons them and announces the skip with one FORWARD-TSN.
// Afterwards the reader consumes the whole backlog, and the sender sends a few
// more messages over the (now perfect) link.
//
// The skip must take effect however far the reader's cursor is behind in stream
// sequence numbers: once the backlog has been read, the messages sent after the
// lost burst have to be delivered.
func TestZZHuntC16_2(t *testing.T) {
	t.Run("control_backlog_20000", func(t *testing.T) { zzC16bRun(t, 20000, true) })
	t.Run("backlog_32668", func(t *testing.T) { zzC16bRun(t, 32668, true) })
	// The same without any loss on the wire: the reader is 2^15 messages behind,
	// the receiver itself turns the next 232 messages away (it cannot place them),
	// the sender abandons them and says so with FORWARD-TSN.
	t.Run("no_loss_backlog_32768", func(t *testing.T) { zzC16bRun(t, 32768, false) })
}

func zzC16bRun(t *testing.T, backlog uint32, lose bool) {
	t.Helper()
	const (
		burst = 232 // messages [backlog, backlog+burst) are lost on the wire
		after = 10  // messages sent after the reader has caught up
	)
	lossFrom, lossTo := backlog, backlog+burst

	c0, c1 := newZZC16bPipe()
	a0, a1 := zzC16bPair(t, c0, c1)
	defer func() {
		_ = a0.Close()
		_ = a1.Close()
	}()

	// a0 -> a1: remove the DATA chunks that are "lost"
	c0.setFilter(func(raw []byte) []byte {
		p := &packet{}
		if err := p.unmarshal(true, raw); err != nil {
			return raw
		}
		kept := p.chunks[:0:0]
		changed := false
		for _, c := range p.chunks {
			if d, ok := c.(*chunkPayloadData); ok && len(d.userData) == 4 && d.payloadType == PayloadTypeWebRTCBinary {
				idx := binary.BigEndian.Uint32(d.userData)
				if lose && idx >= lossFrom && idx < lossTo {
					changed = true

					continue
				}
			}
			kept = append(kept, c)
		}
		if !changed {
			return raw
		}
		if len(kept) == 0 {
			return nil
		}
		p.chunks = kept
		out, err := p.marshal(true)
		if err != nil {
			return nil
		}

		return out
	})

	s0, err := a0.OpenStream(7, PayloadTypeWebRTCBinary)
	if err != nil {
		t.Fatal(err)
	}
	s0.SetReliabilityParams(false, ReliabilityTypeRexmit, 0) // ordered, no retransmission

	drain := func() {
		t.Helper()
		deadline := time.Now().Add(120 * time.Second)
		for {
			a0.lock.RLock()
			idle := a0.pendingQueue.size() == 0 && a0.inflightQueue.size() == 0
			a0.lock.RUnlock()
			if idle {
				return
			}
			if time.Now().After(deadline) {
				t.Fatalf("sender did not drain (test problem, not the finding)")
			}
			time.Sleep(5 * time.Millisecond)
		}
	}
	buf := make([]byte, 4)
	write := func(from, to uint32) {
		t.Helper()
		for i := from; i < to; i++ {
			binary.BigEndian.PutUint32(buf, i)
			if _, werr := s0.WriteSCTP(buf, PayloadTypeWebRTCBinary); werr != nil {
				t.Fatalf("write %d: %v", i, werr)
			}
			if i%1500 == 0 {
				drain() // moderate pace: at most 1500 messages outstanding
			}
		}
		drain()
	}

	// phase 1: the backlog (all delivered to the receiver, none read)
	write(0, backlog)
	// phase 2: the burst that is lost, followed by one message that arrives, so
	// that the loss is noticed at once (SACK with a gap -> FORWARD-TSN)
	write(backlog, lossTo+1)
	time.Sleep(200 * time.Millisecond)

	s1, err := a1.AcceptStream()
	if err != nil {
		t.Fatal(err)
	}
	s1.lock.RLock()
	t.Logf("receiver after the FORWARD-TSN: nextSSN=%d, %d complete messages queued, peerLastTSN-initial=%d",
		s1.reassemblyQueue.nextSSN, len(s1.reassemblyQueue.ordered), a1.peerLastTSN()-(a0.initialTSN-1))
	s1.lock.RUnlock()

	// phase 3: the reader consumes the backlog
	rbuf := make([]byte, 64)
	readOne := func() (uint32, error) {
		_ = s1.SetReadDeadline(time.Now().Add(5 * time.Second))
		n, _, rerr := s1.ReadSCTP(rbuf)
		if rerr != nil {
			return 0, rerr
		}
		if n != 4 {
			t.Fatalf("unexpected message length %d", n)
		}

		return binary.BigEndian.Uint32(rbuf[:4]), nil
	}
	for i := uint32(0); i < backlog; i++ {
		idx, rerr := readOne()
		if rerr != nil {
			t.Fatalf("reading the backlog: message #%d: %v", i, rerr)
		}
		if idx != i {
			t.Fatalf("reading the backlog: got message #%d, want #%d", idx, i)
		}
	}

	// phase 4: more messages over a perfect link
	write(lossTo+1, lossTo+1+after)
	time.Sleep(200 * time.Millisecond)

	// Message #lossTo was sent while the backlog was still unread; whether the
	// receiver could take it is not the point here. The messages sent in phase 4
	// were all received, acknowledged and queued: they have to be delivered.
	want := lossTo + 1
	for want < lossTo+1+after {
		idx, rerr := readOne()
		if rerr != nil {
			s1.lock.RLock()
			t.Errorf("message #%d (sent after the burst #%d..#%d was abandoned and skipped by FORWARD-TSN; received, acknowledged and queued) is not delivered: %v; receiver nextSSN=%d, %d complete messages queued",
				want, lossFrom, lossTo-1, rerr, s1.reassemblyQueue.nextSSN, len(s1.reassemblyQueue.ordered))
			s1.lock.RUnlock()

			return
		}
		if idx == lossTo && want == lossTo+1 {
			continue
		}
		if idx != want {
			t.Fatalf("got message #%d, want #%d", idx, want)
		}
		want++
	}
}
