// SPDX-FileCopyrightText: 2026 The Pion community <https://pion.ly>
// SPDX-License-Identifier: MIT

package sctp

import (
	"errors"
	"io"
	"sync"
	"testing"
	"time"

	"github.com/stretchr/testify/require"
)

// huntC18Gate sits between a1's netConn and a2: while closed it keeps the packets
// a1 sends, open() hands them over in order and lets everything through afterwards.
type huntC18Gate struct {
	mu     sync.Mutex
	closed bool
	held   [][]byte
	next   dumbConnInboundHandler
}

func (g *huntC18Gate) handle(p []byte) {
	g.mu.Lock()
	if g.closed {
		g.held = append(g.held, append([]byte{}, p...))
		g.mu.Unlock()

		return
	}
	g.mu.Unlock()
	g.next(p)
}

func (g *huntC18Gate) close() {
	g.mu.Lock()
	g.closed = true
	g.mu.Unlock()
}

func (g *huntC18Gate) nHeld() int {
	g.mu.Lock()
	defer g.mu.Unlock()

	return len(g.held)
}

func (g *huntC18Gate) open() {
	g.mu.Lock()
	held := g.held
	g.held = nil
	g.closed = false
	g.mu.Unlock()
	for _, p := range held {
		g.next(p)
	}
}

func huntC18WaitFor(t *testing.T, what string, bound time.Duration, cond func() bool) {
	t.Helper()
	deadline := time.Now().Add(bound)
	for !cond() {
		if time.Now().After(deadline) {
			require.FailNow(t, "test precondition not reached: "+what)
		}
		time.Sleep(5 * time.Millisecond)
	}
}

// Blocking-write mode. The last message written on a stream has to go out as a
// zero-window probe (the peer's window is smaller than the message, nothing is in
// flight) and Stream.Close has queued its end-of-stream marker right behind it.
// The probe branch moves exactly one chunk, so the marker is left alone in the
// pending queue, the "pending queue drained" notification is skipped (size != 0),
// and the next pass, which pops only the marker, does not notify either
// (len(chunks) == 0). writePending stays true for ever: every later blocking
// Write on the association, on any stream, blocks although every previously
// written byte has long been handed to the transmission queue (and delivered).
func TestHuntC18_1_BlockWriteStuckAfterProbeFollowedByCloseMarker(t *testing.T) {
	conn1, conn2 := createUDPConnPair()
	dc1, ok := conn1.(*dumbConn2)
	require.True(t, ok)
	dc2, ok := conn2.(*dumbConn2)
	require.True(t, ok)

	gate := &huntC18Gate{next: dc2.inboundHandler}
	dc1.setRemoteHandler(gate.handle)

	// the peer (a2) has a receive buffer of 1500 bytes
	a1, a2, err := createAssociationPairWithConfig(conn1, conn2, Config{BlockWrite: true, MaxReceiveBufferSize: 1500})
	require.NoError(t, err)
	defer a2.Close() //nolint:errcheck
	defer a1.Close() //nolint:errcheck

	s1, err := a1.OpenStream(1, PayloadTypeWebRTCBinary)
	require.NoError(t, err)
	_, err = s1.Write([]byte("hi"))
	require.NoError(t, err)
	r1, err := a2.AcceptStream()
	require.NoError(t, err)
	buf := make([]byte, 4096)
	n, err := r1.Read(buf)
	require.NoError(t, err)
	require.Equal(t, "hi", string(buf[:n]))

	huntC18WaitFor(t, "first message acknowledged", 10*time.Second, func() bool {
		a1.lock.RLock()
		defer a1.lock.RUnlock()

		return a1.inflightQueue.size() == 0 && a1.pendingQueue.size() == 0 && a1.RWND() >= 1400
	})

	m1 := make([]byte, 1000)
	m2 := make([]byte, 1000)
	for i := range m1 {
		m1[i] = 'A'
		m2[i] = 'B'
	}

	// M1 leaves a1 but does not reach a2 yet: it stays in flight, the window a1
	// knows of shrinks to ~500 bytes.
	gate.close()
	_, err = s1.Write(m1)
	require.NoError(t, err)
	huntC18WaitFor(t, "M1 on the wire", 10*time.Second, func() bool { return gate.nHeld() >= 1 })

	// M2 does not fit the window and M1 is still in flight: M2 waits in the pending queue.
	_, err = s1.Write(m2)
	require.NoError(t, err)
	// The application is done with the stream.
	require.NoError(t, s1.Close())

	a1.lock.RLock()
	pendingBefore := a1.pendingQueue.size()
	a1.lock.RUnlock()
	require.Equal(t, 2, pendingBefore, "M2 and the end-of-stream marker wait in the pending queue")

	// Now M1 arrives. a2's application has not read it yet, so the SACK advertises
	// a window of 500 bytes: nothing in flight, M2 (1000 bytes) goes out as a probe.
	gate.open()

	huntC18WaitFor(t, "M2 sent and everything acknowledged", 20*time.Second, func() bool {
		a1.lock.RLock()
		defer a1.lock.RUnlock()

		return a1.pendingQueue.size() == 0 && a1.inflightQueue.size() == 0
	})

	// the two messages are delivered, then the reset ends the stream
	for _, want := range [][]byte{m1, m2} {
		require.NoError(t, r1.SetReadDeadline(time.Now().Add(20*time.Second)))
		n, err = r1.Read(buf)
		require.NoError(t, err)
		require.Equal(t, want, buf[:n])
	}
	require.NoError(t, r1.SetReadDeadline(time.Now().Add(20*time.Second)))
	_, err = r1.Read(buf)
	require.True(t, errors.Is(err, io.EOF), "expected EOF after the reset, got %v", err)

	huntC18WaitFor(t, "a1 idle, window open again", 20*time.Second, func() bool {
		a1.lock.RLock()
		defer a1.lock.RUnlock()

		return a1.pendingQueue.size() == 0 && a1.inflightQueue.size() == 0
	})

	a1.lock.RLock()
	pending, inflight, writePending := a1.pendingQueue.size(), a1.inflightQueue.size(), a1.writePending
	a1.lock.RUnlock()
	t.Logf("a1: pending=%d inflight=%d writePending=%v", pending, inflight, writePending)

	// Everything written so far has been handed to the transmission queue, sent,
	// acknowledged and read. A write on another stream has nothing to wait for.
	s3, err := a1.OpenStream(3, PayloadTypeWebRTCBinary)
	require.NoError(t, err)
	require.NoError(t, s3.SetWriteDeadline(time.Now().Add(5*time.Second)))
	start := time.Now()
	_, err = s3.Write([]byte("after"))
	require.NoError(t, err,
		"blocking Write waited %v and failed although the pending queue is empty (pending=%d inflight=%d writePending=%v)",
		time.Since(start), pending, inflight, writePending)

	r3, err := a2.AcceptStream()
	require.NoError(t, err)
	require.NoError(t, r3.SetReadDeadline(time.Now().Add(20*time.Second)))
	n, err = r3.Read(buf)
	require.NoError(t, err)
	require.Equal(t, "after", string(buf[:n]))
}
