package sctp

import (
	"encoding/binary"
	"net"
	"sync"
	"sync/atomic"
	"testing"
	"time"
)

// ---- a minimal in-memory datagram pipe that records everything written ----

type huntC12n3Conn struct {
	in        chan []byte
	peer      *huntC12n3Conn
	closed    chan struct{}
	once      sync.Once
	blackhole atomic.Bool // when set, written packets are recorded but not delivered

	mu   sync.Mutex
	sent [][]byte
}

func huntC12n3Pipe() (*huntC12n3Conn, *huntC12n3Conn) {
	a := &huntC12n3Conn{in: make(chan []byte, 4096), closed: make(chan struct{})}
	b := &huntC12n3Conn{in: make(chan []byte, 4096), closed: make(chan struct{})}
	a.peer, b.peer = b, a

	return a, b
}

func (c *huntC12n3Conn) Read(p []byte) (int, error) {
	select {
	case b := <-c.in:
		return copy(p, b), nil
	case <-c.closed:
		return 0, net.ErrClosed
	}
}

func (c *huntC12n3Conn) Write(p []byte) (int, error) {
	cp := append([]byte(nil), p...)
	c.mu.Lock()
	c.sent = append(c.sent, cp)
	c.mu.Unlock()
	select {
	case <-c.closed:
		return 0, net.ErrClosed
	default:
	}
	if c.blackhole.Load() {
		return len(p), nil
	}
	select {
	case c.peer.in <- cp:
	default:
	}

	return len(p), nil
}

func (c *huntC12n3Conn) Close() error                     { c.once.Do(func() { close(c.closed) }); return nil }
func (c *huntC12n3Conn) LocalAddr() net.Addr              { return &net.UDPAddr{} }
func (c *huntC12n3Conn) RemoteAddr() net.Addr             { return &net.UDPAddr{} }
func (c *huntC12n3Conn) SetDeadline(time.Time) error      { return nil }
func (c *huntC12n3Conn) SetReadDeadline(time.Time) error  { return nil }
func (c *huntC12n3Conn) SetWriteDeadline(time.Time) error { return nil }

func (c *huntC12n3Conn) packets() [][]byte {
	c.mu.Lock()
	defer c.mu.Unlock()

	return append([][]byte(nil), c.sent...)
}

// An endpoint with a large (but ordinary: 8 MiB) receive buffer accepts TSNs up to
// 40000 ahead of the cumulative TSN. A peer (or a lossy path) that delivers every
// second TSN makes it report one Gap Ack Block per received TSN. Nothing bounds the
// number of blocks put into a SACK: with 16380 blocks or more the chunk is longer
// than 65535 bytes, chunkHeader.marshal stores the length modulo 2^16 and the
// packet that goes out cannot be decoded any more (not even by the library).
func TestHuntC12n3_SackChunkLengthWraps(t *testing.T) {
	const recvBuf = 8 * 1024 * 1024
	const nBlocks = 16500

	c0, c1 := huntC12n3Pipe()
	defer c0.Close() //nolint:errcheck
	defer c1.Close() //nolint:errcheck

	type res struct {
		a   *Association
		err error
	}
	cliCh := make(chan res, 1)
	srvCh := make(chan res, 1)
	go func() {
		a, err := ClientWithOptions(WithName("cli"), WithNetConn(c0), WithEnableInterleaving(false))
		cliCh <- res{a, err}
	}()
	go func() {
		a, err := ServerWithOptions(WithName("srv"), WithNetConn(c1), WithEnableInterleaving(false),
			WithMaxReceiveBufferSize(recvBuf))
		srvCh <- res{a, err}
	}()
	var cli, srv *Association
	for cli == nil || srv == nil {
		select {
		case r := <-cliCh:
			if r.err != nil {
				t.Fatalf("test problem: client: %v", r.err)
			}
			cli = r.a
		case r := <-srvCh:
			if r.err != nil {
				t.Fatalf("test problem: server: %v", r.err)
			}
			srv = r.a
		case <-time.After(20 * time.Second):
			t.Fatal("test problem: handshake timed out")
		}
	}
	defer cli.Close() //nolint:errcheck
	defer srv.Close() //nolint:errcheck

	// From now on the test plays the client's role on the wire: what the server
	// sends is recorded but not delivered to the (idle) client association.
	c1.blackhole.Store(true)

	cli.lock.Lock()
	srcPort, dstPort, vtag, firstTSN := cli.sourcePort, cli.destinationPort, cli.peerVerificationTag, cli.myNextTSN
	cli.lock.Unlock()

	// DATA chunks (unordered, unfragmented, 1 byte) with TSN first+1, first+3, first+5, ...
	// (first itself is "lost", so is every second one); ~400 chunks per packet, below
	// the 8192 bytes a pion endpoint reads.
	start := time.Now()
	sent := 0
	for sent < nBlocks {
		p := &packet{sourcePort: srcPort, destinationPort: dstPort, verificationTag: vtag}
		for i := 0; i < 400 && sent < nBlocks; i++ {
			p.chunks = append(p.chunks, &chunkPayloadData{
				tsn:               firstTSN + 1 + 2*uint32(sent), //nolint:gosec
				streamIdentifier:  1,
				unordered:         true,
				beginningFragment: true,
				endingFragment:    true,
				payloadType:       PayloadTypeWebRTCBinary,
				userData:          []byte{0x55},
			})
			sent++
		}
		raw, err := p.marshal(true)
		if err != nil {
			t.Fatalf("test problem: %v", err)
		}
		if len(raw) > int(receiveMTU) {
			t.Fatalf("test problem: packet of %d bytes", len(raw))
		}
		c1.in <- raw
	}

	// wait until the server has taken everything in and has answered the last packet
	deadline := time.Now().Add(10 * time.Minute)
	for {
		srv.lock.Lock()
		n := srv.payloadQueue.size()
		state := srv.ackState
		srv.lock.Unlock()
		if n == nBlocks && state == ackStateIdle && len(c1.in) == 0 {
			break
		}
		if time.Now().After(deadline) {
			t.Fatalf("test problem: server took only %d of %d chunks", n, nBlocks)
		}
		time.Sleep(20 * time.Millisecond)
	}
	time.Sleep(200 * time.Millisecond)
	t.Logf("server processed %d DATA chunks in %v", nBlocks, time.Since(start))

	// Every packet the server emitted must decode, and decode to what it was built from.
	pkts := c1.packets()
	nBad := 0
	maxBlocks := 0
	for i, raw := range pkts {
		p := &packet{}
		if err := p.unmarshal(true, raw); err != nil {
			nBad++
			if nBad <= 3 {
				t.Errorf("emitted packet #%d (%d bytes, first chunk type=%d flags=%d length field=%d) does not decode: %v",
					i, len(raw), raw[12], raw[13], binary.BigEndian.Uint16(raw[14:]), err)
			}

			continue
		}
		for _, c := range p.chunks {
			if s, ok := c.(*chunkSelectiveAck); ok && len(s.gapAckBlocks) > maxBlocks {
				maxBlocks = len(s.gapAckBlocks)
			}
		}
	}
	t.Logf("server emitted %d packets, %d undecodable; largest decodable SACK had %d gap ack blocks", len(pkts), nBad, maxBlocks)
	if nBad == 0 && maxBlocks < nBlocks {
		t.Errorf("last SACK reports %d blocks, %d were expected", maxBlocks, nBlocks)
	}
}

// The codec-level core of the above (fast): marshal() reports success for chunks whose
// length does not fit the 16-bit chunk length, and produces bytes that do not decode.
func TestHuntC12n3_ChunkLengthWrapsCodec(t *testing.T) {
	sack := &chunkSelectiveAck{cumulativeTSNAck: 1, advertisedReceiverWindowCredit: 1 << 20}
	for i := range 16400 {
		sack.gapAckBlocks = append(sack.gapAckBlocks, gapAckBlock{start: uint16(2 + 2*i), end: uint16(2 + 2*i)}) //nolint:gosec
	}
	fwd := &chunkForwardTSN{newCumulativeTSN: 10}
	for i := range 16400 {
		fwd.streams = append(fwd.streams, chunkForwardTSNStream{identifier: uint16(i), sequence: 1}) //nolint:gosec
	}
	rst := &chunkReconfig{paramA: &paramOutgoingResetRequest{streamIdentifiers: make([]uint16, 32800)}}
	data := &chunkPayloadData{beginningFragment: true, endingFragment: true, userData: make([]byte, 65600)}

	for _, c := range []chunk{sack, fwd, rst, data} {
		p := &packet{sourcePort: 5000, destinationPort: 5000, verificationTag: 1, chunks: []chunk{c}}
		raw, err := p.marshal(true)
		if err != nil {
			continue // refusing is fine
		}
		back := &packet{}
		if err := back.unmarshal(true, raw); err != nil {
			t.Errorf("%T: marshal succeeded (%d bytes, chunk length field %d) but the packet does not decode: %v",
				c, len(raw), binary.BigEndian.Uint16(raw[14:]), err)
		} else if len(back.chunks) != 1 || back.chunks[0].valueLength() != c.valueLength() {
			t.Errorf("%T: marshal succeeded (%d bytes, chunk length field %d); the packet was built from 1 chunk with a value of "+
				"%d bytes and decodes to %d chunk(s), the first with a value of %d bytes",
				c, len(raw), binary.BigEndian.Uint16(raw[14:]), c.valueLength(), len(back.chunks), back.chunks[0].valueLength())
		}
	}
}
