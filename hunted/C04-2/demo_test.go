package sctp

import (
	"net"
	"sync"
	"testing"
	"time"

	"github.com/pion/logging"
)

// A perfect in-memory datagram link (no loss, no reordering).
type zzC04Conn2 struct {
	in     chan []byte
	peer   *zzC04Conn2
	closed chan struct{}
	once   sync.Once
}

func newZZC04Pair2() (*zzC04Conn2, *zzC04Conn2) {
	a := &zzC04Conn2{in: make(chan []byte, 4096), closed: make(chan struct{})}
	b := &zzC04Conn2{in: make(chan []byte, 4096), closed: make(chan struct{})}
	a.peer, b.peer = b, a

	return a, b
}

func (c *zzC04Conn2) Read(b []byte) (int, error) {
	select {
	case p := <-c.in:
		return copy(b, p), nil
	case <-c.closed:
		return 0, net.ErrClosed
	}
}

func (c *zzC04Conn2) Write(b []byte) (int, error) {
	select {
	case <-c.closed:
		return 0, net.ErrClosed
	default:
	}
	select {
	case c.peer.in <- append([]byte{}, b...):
	default:
	}

	return len(b), nil
}

func (c *zzC04Conn2) Close() error {
	c.once.Do(func() { close(c.closed) })

	return nil
}
func (c *zzC04Conn2) LocalAddr() net.Addr              { return &net.IPAddr{} }
func (c *zzC04Conn2) RemoteAddr() net.Addr             { return &net.IPAddr{} }
func (c *zzC04Conn2) SetDeadline(time.Time) error      { return nil }
func (c *zzC04Conn2) SetReadDeadline(time.Time) error  { return nil }
func (c *zzC04Conn2) SetWriteDeadline(time.Time) error { return nil }

func zzC04SendAndReceive2(t *testing.T, from, to *Association, si uint16, msg string) {
	t.Helper()
	s, err := from.OpenStream(si, PayloadTypeWebRTCBinary)
	if err != nil {
		t.Fatalf("OpenStream: %v", err)
	}
	if _, err = s.Write([]byte(msg)); err != nil {
		t.Fatalf("Write: %v", err)
	}
	got := make(chan string, 1)
	go func() {
		r, errAccept := to.AcceptStream()
		if errAccept != nil {
			got <- "AcceptStream: " + errAccept.Error()

			return
		}
		buf := make([]byte, 64)
		n, errRead := r.Read(buf)
		if errRead != nil {
			got <- "Read: " + errRead.Error()

			return
		}
		got <- string(buf[:n])
	}()
	select {
	case g := <-got:
		if g != msg {
			t.Errorf("%s received %q, want %q", to.name, g, msg)
		}
	case <-time.After(15 * time.Second):
		t.Errorf("%s never received the message %s sent over a perfect link (15 s, T3-rtx fired at 1 s, 3 s, 7 s)",
			to.name, from.name)
	}
}

// Both sides start from exchanged out-of-band tokens (SNAP). The per-side options
// (interleaving, zero checksum) are given where the token is generated, exactly like
// the library's own TestAssociationSNAPInterleavingNegotiationPayloadChunkType does for
// interleaving: the token IS the INIT this side "sent".
//
// A's token declares zero checksums acceptable, so B (correctly) sends them. A,
// however, takes "do I accept zero checksums" not from its own token but only from the
// association options, and throws away every packet B sends.
func zzC04RunSnap2(t *testing.T, zcA bool) {
	t.Helper()
	lf := logging.NewDefaultLoggerFactory()
	lf.DefaultLogLevel = logging.LogLevelDisabled

	tokenA, err := GenerateOutOfBandToken(WithEnableInterleaving(false), WithEnableZeroChecksum(zcA))
	if err != nil {
		t.Fatal(err)
	}
	tokenB, err := GenerateOutOfBandToken(WithEnableInterleaving(false), WithEnableZeroChecksum(false))
	if err != nil {
		t.Fatal(err)
	}

	ca, cb := newZZC04Pair2()
	a, err := ClientWithOptions(WithName("A"), WithNetConn(ca), WithLoggerFactory(lf), WithSNAP(tokenA, tokenB))
	if err != nil {
		t.Fatal(err)
	}
	defer a.Close() //nolint:errcheck
	b, err := ClientWithOptions(WithName("B"), WithNetConn(cb), WithLoggerFactory(lf), WithSNAP(tokenB, tokenA))
	if err != nil {
		t.Fatal(err)
	}
	defer b.Close() //nolint:errcheck

	mdA, okA := a.Metadata()
	mdB, okB := b.Metadata()
	if !okA || !okB {
		t.Fatal("not established")
	}
	// the token's interleaving=false is honoured although the association options
	// leave interleaving at its default (on) ...
	if mdA.MessageInterleavingEnabled || mdB.MessageInterleavingEnabled {
		t.Fatalf("interleaving: A=%v B=%v, want off", mdA.MessageInterleavingEnabled, mdB.MessageInterleavingEnabled)
	}
	// ... and B sends zero checksums exactly if A's token declared them acceptable
	if mdB.ZeroChecksumSendingEnabled != zcA {
		t.Fatalf("B sends zero checksums: %v, A's token declared them acceptable: %v", mdB.ZeroChecksumSendingEnabled, zcA)
	}
	// the two sides must agree: what B sends, A accepts
	if mdB.ZeroChecksumSendingEnabled && !mdA.ZeroChecksumReceivingEnabled {
		t.Errorf("no agreement: B sends zero checksums (A's token declared them acceptable) but A does not accept them")
	}

	zzC04SendAndReceive2(t, a, b, 1, "a-to-b")
	zzC04SendAndReceive2(t, b, a, 2, "b-to-a")
}

func TestZZHuntC04_2_SnapLocalTokenZeroChecksumIgnored(t *testing.T) {
	t.Run("control_token_without_zero_checksum", func(t *testing.T) { zzC04RunSnap2(t, false) })
	t.Run("token_declares_zero_checksum_acceptable", func(t *testing.T) { zzC04RunSnap2(t, true) })
}
