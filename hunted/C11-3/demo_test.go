// SPDX-FileCopyrightText: 2026 The Pion community <https://pion.ly>
// SPDX-License-Identifier: MIT

package sctp

import (
	"errors"
	"fmt"
	"os"
	"sync"
	"testing"
	"time"

	"github.com/pion/transport/v4/test"
)

// C11: the advertised window "returns to the full buffer size once the
// application has read everything, whatever mixture of duplicates, reordering,
// abandoned fragments and stream resets occurred".
//
// With message interleaving (I-DATA) the fragments of an abandoned unordered
// message are not contiguous in TSN space: chunks of other streams sit between
// them. The sender's I-FORWARD-TSN can therefore only skip the *first* fragments
// of the abandoned message (it stops at the first non-abandoned TSN), while a
// later fragment of the same message - transmitted once, merely delayed by the
// network - arrives after that I-FORWARD-TSN with a TSN above the new cumulative
// point. The receiver has no memory that this unordered MID was abandoned
// (forwardTSNForUnorderedMID only deletes what is queued at that moment; for
// ordered messages nextMID plays that role), so it opens a new reassembly entry
// for it. The fragment is then acknowledged cumulatively like any other chunk,
// so no further I-FORWARD-TSN ever names it: its bytes stay in the reassembly
// queue, unreadable, and the advertised window never returns to the full size.
func TestZZHuntC11_3_LateFragmentOfAbandonedUnorderedIDataLeaksWindow(t *testing.T) { //nolint:cyclop,gocognit,maintidx
	const recvBuf = 64 * 1024

	br := test.NewBridge()

	var (
		mu        sync.Mutex
		seenTSN   = map[uint32]bool{}
		stashedA1 []byte
		tsnA0     uint32
		tsnA1     uint32
		tsnR1     uint32
		haveA0    bool
		sawR2     bool
		holdR1    = true
		reinject  bool
		wire      []string
	)
	br.Filter(0, func(raw []byte) bool {
		p := &packet{}
		if err := p.unmarshal(true, raw); err != nil {
			return true
		}
		mu.Lock()
		defer mu.Unlock()
		pass := true
		for _, c := range p.chunks {
			switch v := c.(type) {
			case *chunkIForwardTSN:
				wire = append(wire, "a0> I-FORWARD-TSN "+v.String())
			case *chunkPayloadData:
				first := !seenTSN[v.tsn]
				seenTSN[v.tsn] = true
				verdict := "delivered"
				switch {
				case v.streamIdentifier == 1 && v.beginningFragment && first:
					// first fragment of the abandoned message: lost
					tsnA0, haveA0 = v.tsn, true
					pass = false
					verdict = "LOST"
				case v.streamIdentifier == 1 && v.endingFragment && !reinject:
					// last fragment of the abandoned message: delayed by the network
					tsnA1 = v.tsn
					stashedA1 = append([]byte{}, raw...)
					pass = false
					verdict = "DELAYED"
				case v.streamIdentifier == 2 && v.messageIdentifier == 0 && holdR1:
					// the reliable chunk between the two fragments: lost (burst), retransmitted later
					tsnR1 = v.tsn
					pass = false
					verdict = "LOST (will be retransmitted)"
				case v.streamIdentifier == 2 && v.messageIdentifier == 1:
					sawR2 = true
				}
				wire = append(wire, fmt.Sprintf("a0> I-DATA tsn=%d sid=%d U=%v mid=%d fsn=%d B=%v E=%v len=%d  [%s]",
					v.tsn, v.streamIdentifier, v.unordered, v.messageIdentifier, v.fragmentSequenceNumber,
					v.beginningFragment, v.endingFragment, len(v.userData), verdict))
			}
		}

		return pass
	})
	br.Filter(1, func(raw []byte) bool {
		p := &packet{}
		if err := p.unmarshal(true, raw); err != nil {
			return true
		}
		mu.Lock()
		defer mu.Unlock()
		for _, c := range p.chunks {
			if v, ok := c.(*chunkSelectiveAck); ok {
				wire = append(wire, fmt.Sprintf("a1> SACK cum=%d a_rwnd=%d gaps=%v", v.cumulativeTSNAck, v.advertisedReceiverWindowCredit, v.gapAckBlocks))
			}
		}

		return true
	})

	a0, a1, err := createNewAssociationPairWithInterleaving(br, ackModeNoDelay, recvBuf, true, true)
	if err != nil {
		t.Fatalf("handshake: %v", err)
	}
	defer closeAssociationPair(br, a0, a1)
	defer func() {
		if t.Failed() {
			mu.Lock()
			for _, l := range wire {
				t.Log(l)
			}
			mu.Unlock()
		}
	}()

	pumpUntil := func(what string, limit time.Duration, cond func() bool) {
		t.Helper()
		deadline := time.Now().Add(limit)
		for {
			br.Tick()
			if cond() {
				return
			}
			if time.Now().After(deadline) {
				t.Fatalf("timed out waiting for: %s", what)
			}
			time.Sleep(time.Millisecond)
		}
	}
	waitNoTick := func(what string, cond func() bool) {
		t.Helper()
		deadline := time.Now().Add(20 * time.Second)
		for !cond() {
			if time.Now().After(deadline) {
				t.Fatalf("timed out waiting for: %s", what)
			}
			time.Sleep(time.Millisecond)
		}
	}
	senderState := func() (inflight, pending int) {
		a0.lock.RLock()
		defer a0.lock.RUnlock()

		return a0.inflightQueue.size(), a0.pendingQueue.size()
	}
	window := func() int {
		a1.lock.Lock()
		defer a1.lock.Unlock()

		return int(a1.getMyReceiverWindowCredit())
	}

	if !a0.useInterleaving || !a1.useInterleaving || !a0.useIForwardTSN {
		t.Fatalf("interleaving / I-FORWARD-TSN not negotiated")
	}

	s1, err := a0.OpenStream(1, PayloadTypeWebRTCBinary)
	if err != nil {
		t.Fatal(err)
	}
	s1.SetReliabilityParams(true, ReliabilityTypeRexmit, 0) // unordered, no retransmission
	s2, err := a0.OpenStream(2, PayloadTypeWebRTCBinary) // ordered, reliable
	if err != nil {
		t.Fatal(err)
	}
	s3, err := a0.OpenStream(3, PayloadTypeWebRTCBinary) // ordered, reliable: fills the congestion window
	if err != nil {
		t.Fatal(err)
	}

	frag := int(a0.maxPayloadSize)
	nPrimer := int(a0.CWND()) / frag
	// 1. Fill the congestion window so that the next writes queue up together and are
	//    scheduled round-robin between streams 1 and 2 (nothing is delivered yet:
	//    the bridge only moves packets when the test ticks it).
	if _, err = s3.Write(make([]byte, nPrimer*frag)); err != nil {
		t.Fatal(err)
	}
	waitNoTick("primer in flight", func() bool {
		inflight, pending := senderState()

		return inflight == nPrimer && pending == 0
	})
	// 2. Message A: two full fragments, unordered, abandoned after its only transmission.
	if _, err = s1.Write(make([]byte, 2*frag)); err != nil {
		t.Fatal(err)
	}
	// 3. Two reliable messages on another stream. The default interleaving scheduler
	//    (weighted fair queueing by bytes) sends A.fsn0, reliable-1, reliable-2, A.fsn1.
	if _, err = s2.Write(make([]byte, frag)); err != nil {
		t.Fatal(err)
	}
	if _, err = s2.Write([]byte("reliable-2")); err != nil {
		t.Fatal(err)
	}
	waitNoTick("four chunks pending behind the congestion window", func() bool {
		_, pending := senderState()

		return pending == 4
	})

	// 4. Let the network run. The filter loses A.fsn0 and reliable-1, delays A.fsn1 and
	//    delivers reliable-2, whose SACK makes the sender emit I-FORWARD-TSN(newCum=tsn(A.fsn0)).
	pumpUntil("I-FORWARD-TSN for the first fragment processed by the receiver", 20*time.Second, func() bool {
		mu.Lock()
		ok := haveA0 && sawR2 && stashedA1 != nil
		want := tsnA0
		mu.Unlock()
		if !ok {
			return false
		}
		a1.lock.RLock()
		defer a1.lock.RUnlock()

		return a1.peerLastTSN() == want
	})
	mu.Lock()
	if !(sna32LT(tsnA0, tsnR1) && sna32LT(tsnR1, tsnA1)) {
		mu.Unlock()
		t.Fatalf("test assumption: the scheduler should put reliable-1 (tsn %d) between the fragments of A (tsn %d, %d)", tsnR1, tsnA0, tsnA1)
	}
	// 5. The delayed last fragment of A now arrives.
	reinject = true
	raw := stashedA1
	wire = append(wire, "-- network delivers the delayed fragment --")
	mu.Unlock()
	if _, err = br.GetConn0().Write(raw); err != nil {
		t.Fatal(err)
	}
	pumpUntil("delayed fragment processed by the receiver", 20*time.Second, func() bool {
		a1.lock.RLock()
		defer a1.lock.RUnlock()
		s, ok := a1.streams[1]

		return ok && s.getNumBytesInReassemblyQueue() > 0
	})
	// 6. The burst loss is over: the retransmission of reliable-1 gets through.
	mu.Lock()
	holdR1 = false
	wire = append(wire, "-- loss ends --")
	mu.Unlock()
	pumpUntil("sender has nothing outstanding", 60*time.Second, func() bool {
		inflight, pending := senderState()

		return inflight == 0 && pending == 0
	})
	pumpUntil("bridge idle", 10*time.Second, func() bool { return br.Len(0) == 0 && br.Len(1) == 0 })

	// 7. The application reads everything there is to read.
	buf := make([]byte, 65536)
	got := map[uint16][]int{}
	for i := 0; i < 3; i++ {
		s, aerr := a1.AcceptStream()
		if aerr != nil {
			t.Fatal(aerr)
		}
		for {
			_ = s.SetReadDeadline(time.Now().Add(300 * time.Millisecond))
			n, rerr := s.Read(buf)
			if rerr != nil {
				if !errors.Is(rerr, os.ErrDeadlineExceeded) {
					t.Fatalf("read: %v", rerr)
				}

				break
			}
			got[s.StreamIdentifier()] = append(got[s.StreamIdentifier()], n)
		}
	}
	t.Logf("application read (stream -> message sizes): %v", got)
	if len(got[2]) != 2 || len(got[3]) != 1 || len(got[1]) != 0 {
		t.Fatalf("unexpected deliveries: %v", got)
	}

	a0.lock.RLock()
	cumAck, nextTSN := a0.cumulativeTSNAckPoint, a0.myNextTSN
	a0.lock.RUnlock()
	a1.lock.RLock()
	st1 := a1.streams[1]
	a1.lock.RUnlock()
	st1.lock.Lock()
	left := 0
	for mid, set := range st1.reassemblyQueue.unorderedMIDMap {
		for _, c := range set.chunks {
			left += len(c.userData)
			t.Logf("still queued on stream 1: unordered mid=%d tsn=%d fsn=%d B=%v E=%v len=%d (message was abandoned by the sender)",
				mid, c.tsn, c.fragmentSequenceNumber, c.beginningFragment, c.endingFragment, len(c.userData))
		}
	}
	st1.lock.Unlock()

	w := window()
	t.Logf("sender: cumulative ack point=%d next TSN=%d (everything acknowledged, nothing pending); receiver window=%d of %d, leaked=%d",
		cumAck, nextTSN, w, recvBuf, left)
	if w != recvBuf {
		t.Errorf("the application has read everything and the peer has nothing outstanding, but the advertised window is %d instead of %d: "+
			"%d bytes of an abandoned message's fragment are held for ever", w, recvBuf, recvBuf-w)
	}

	// 8. It does not heal with more (reliable) traffic or time.
	for i := 0; i < 20; i++ {
		if _, err = s2.Write(make([]byte, 500)); err != nil {
			t.Fatal(err)
		}
	}
	pumpUntil("second batch acknowledged", 60*time.Second, func() bool {
		inflight, pending := senderState()

		return inflight == 0 && pending == 0
	})
	a1.lock.RLock()
	st2 := a1.streams[2]
	a1.lock.RUnlock()
	for i := 0; i < 20; i++ {
		_ = st2.SetReadDeadline(time.Now().Add(5 * time.Second))
		if _, rerr := st2.Read(buf); rerr != nil {
			t.Fatalf("read second batch: %v", rerr)
		}
	}
	idleUntil := time.Now().Add(time.Second)
	pumpUntil("a second of idle time", 5*time.Second, func() bool { return time.Now().After(idleUntil) })
	if w2 := window(); w2 != recvBuf {
		t.Errorf("after 20 more messages were delivered and read and a second of idle time the window is still %d instead of %d", w2, recvBuf)
	}
}
