// SPDX-FileCopyrightText: 2026 The Pion community <https://pion.ly>
// SPDX-License-Identifier: MIT

//go:build !js

package sctp

import (
	"encoding/binary"
	"net"
	"testing"
	"time"

	"github.com/stretchr/testify/require"
)

// C13: "a zero checksum is accepted only if this endpoint advertised zero-checksum
// acceptance".
//
// With SNAP the only thing an endpoint ever advertises is its local INIT token. The
// association takes everything else it negotiates from that token (initial TSN,
// interleaving support), but whether it accepts zero checksums is taken from the
// association option instead. An endpoint whose token does NOT carry the
// Zero Checksum Acceptable parameter therefore accepts packets with a zero checksum.
func TestHuntC13_1_SNAPAcceptsZeroChecksumNeverAdvertised(t *testing.T) {
	// The token this endpoint hands to its peer: no zero checksum acceptance in it.
	localTok, err := GenerateOutOfBandToken(WithEnableInterleaving(false))
	require.NoError(t, err)
	remoteTok, err := GenerateOutOfBandToken(WithEnableInterleaving(false))
	require.NoError(t, err)

	localInit := &chunkInit{}
	require.NoError(t, localInit.unmarshal(localTok))
	for _, p := range localInit.params {
		_, isZC := p.(*paramZeroChecksumAcceptable)
		require.False(t, isZC, "precondition: the local INIT token must not advertise zero checksum acceptance")
	}
	remoteInit := &chunkInit{}
	require.NoError(t, remoteInit.unmarshal(remoteTok))

	ca, cb := net.Pipe()
	defer cb.Close() //nolint:errcheck

	// drain whatever the association sends (net.Pipe writes are synchronous)
	go func() {
		buf := make([]byte, 8192)
		for {
			if _, rerr := cb.Read(buf); rerr != nil {
				return
			}
		}
	}()

	assoc, err := ClientWithOptions(
		WithName("a"),
		WithNetConn(ca),
		WithSNAP(localTok, remoteTok),
		WithEnableZeroChecksum(true),
	)
	require.NoError(t, err)
	defer assoc.Close() //nolint:errcheck

	// A complete one-fragment DATA chunk with the first TSN of the peer.
	pkt := &packet{
		sourcePort:      defaultSCTPSrcDstPort,
		destinationPort: defaultSCTPSrcDstPort,
		verificationTag: localInit.initiateTag,
		chunks: []chunk{&chunkPayloadData{
			tsn:               remoteInit.initialTSN,
			streamIdentifier:  1,
			beginningFragment: true,
			endingFragment:    true,
			payloadType:       PayloadTypeWebRTCBinary,
			userData:          []byte("zero checksum, never advertised"),
		}},
	}
	raw, err := pkt.marshal(false) // checksum field left zero
	require.NoError(t, err)
	require.Equal(t, uint32(0), binary.LittleEndian.Uint32(raw[8:]))
	require.NotEqual(t, uint32(0), generatePacketChecksum(raw), "precondition: zero is not the correct CRC32c")

	_, err = cb.Write(raw)
	require.NoError(t, err)

	accepted := make(chan *Stream, 1)
	go func() {
		if s, aerr := assoc.AcceptStream(); aerr == nil {
			accepted <- s
		}
	}()

	select {
	case s := <-accepted:
		buf := make([]byte, 256)
		_ = s.SetReadDeadline(time.Now().Add(5 * time.Second))
		n, _, rerr := s.ReadSCTP(buf)
		t.Fatalf("C13 violated: the endpoint's INIT (SNAP token) does not advertise Zero Checksum Acceptable, "+
			"yet a DATA packet with checksum 0 was accepted and delivered to the application: %q (err=%v)",
			string(buf[:n]), rerr)
	case <-time.After(3 * time.Second):
		// discarded, as the property demands
	}
}
