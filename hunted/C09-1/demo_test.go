// SPDX-FileCopyrightText: 2026 The Pion community <https://pion.ly>
// SPDX-License-Identifier: MIT

package sctp

import (
	"io"
	"net"
	"runtime"
	"strings"
	"sync"
	"testing"
	"time"

	"github.com/pion/logging"
)

// ---------------------------------------------------------------------------
// a minimal in-memory datagram connection pair (self contained)
// ---------------------------------------------------------------------------

type huntC09n1Conn struct {
	mu     sync.Mutex
	cond   *sync.Cond
	queue  [][]byte
	closed bool
	peer   *huntC09n1Conn
}

func newHuntC09n1ConnPair() (*huntC09n1Conn, *huntC09n1Conn) {
	a := &huntC09n1Conn{}
	b := &huntC09n1Conn{}
	a.cond = sync.NewCond(&a.mu)
	b.cond = sync.NewCond(&b.mu)
	a.peer, b.peer = b, a

	return a, b
}

func (c *huntC09n1Conn) Read(p []byte) (int, error) {
	c.mu.Lock()
	defer c.mu.Unlock()
	for {
		if len(c.queue) > 0 {
			pkt := c.queue[0]
			c.queue = c.queue[1:]

			return copy(p, pkt), nil
		}
		if c.closed {
			return 0, io.EOF
		}
		c.cond.Wait()
	}
}

func (c *huntC09n1Conn) Write(p []byte) (int, error) {
	c.mu.Lock()
	closed := c.closed
	c.mu.Unlock()
	if closed {
		return 0, net.ErrClosed
	}
	cp := append([]byte(nil), p...)
	c.peer.mu.Lock()
	if !c.peer.closed {
		c.peer.queue = append(c.peer.queue, cp)
		c.peer.cond.Broadcast()
	}
	c.peer.mu.Unlock()

	return len(p), nil
}

func (c *huntC09n1Conn) Close() error {
	c.mu.Lock()
	c.closed = true
	c.cond.Broadcast()
	c.mu.Unlock()

	return nil
}

func (c *huntC09n1Conn) LocalAddr() net.Addr              { return &net.UDPAddr{} }
func (c *huntC09n1Conn) RemoteAddr() net.Addr             { return &net.UDPAddr{} }
func (c *huntC09n1Conn) SetDeadline(time.Time) error      { return nil }
func (c *huntC09n1Conn) SetReadDeadline(time.Time) error  { return nil }
func (c *huntC09n1Conn) SetWriteDeadline(time.Time) error { return nil }

func huntC09n1Pair(t *testing.T) (*Association, *Association) {
	t.Helper()

	ca, cb := newHuntC09n1ConnPair()
	type res struct {
		a   *Association
		err error
	}
	chA := make(chan res, 1)
	chB := make(chan res, 1)
	lf := logging.NewDefaultLoggerFactory()
	go func() {
		a, err := Client(Config{Name: "A", NetConn: ca, LoggerFactory: lf})
		chA <- res{a, err}
	}()
	go func() {
		b, err := Server(Config{Name: "B", NetConn: cb, LoggerFactory: lf})
		chB <- res{b, err}
	}()

	var a, b *Association
	for a == nil || b == nil {
		select {
		case r := <-chA:
			if r.err != nil {
				t.Fatalf("client handshake: %v", r.err)
			}
			a = r.a
		case r := <-chB:
			if r.err != nil {
				t.Fatalf("server handshake: %v", r.err)
			}
			b = r.a
		case <-time.After(20 * time.Second):
			t.Fatal("handshake did not complete")
		}
	}

	return a, b
}

// number of goroutines currently sitting in the read-deadline goroutine of Stream.SetReadDeadline.
func huntC09n1DeadlineGoroutines() int {
	buf := make([]byte, 1<<22)
	n := runtime.Stack(buf, true)
	count := 0
	for _, g := range strings.Split(string(buf[:n]), "\n\n") {
		if strings.Contains(g, "(*Stream).SetReadDeadline.func1") {
			count++
		}
	}

	return count
}

func huntC09n1WaitNoDeadlineGoroutines(d time.Duration) int {
	deadline := time.Now().Add(d)
	for {
		n := huntC09n1DeadlineGoroutines()
		if n == 0 || time.Now().After(deadline) {
			return n
		}
		time.Sleep(50 * time.Millisecond)
	}
}

// Property C09: after Close "all background goroutines and timers stop".
//
// A stream whose incoming direction was reset by the peer is removed from the
// association's stream table. If a read deadline is pending on it at that moment,
// the goroutine started by SetReadDeadline is not cancelled when the association is
// closed later (only streams still in the table are unregistered) and stays around
// until its - possibly distant - deadline.
func TestHuntC09n1_ReadDeadlineGoroutineOfPeerResetStreamOutlivesClose(t *testing.T) {
	if n := huntC09n1WaitNoDeadlineGoroutines(5 * time.Second); n != 0 {
		t.Skipf("%d deadline goroutines of other tests are still running", n)
	}

	for _, peerResets := range []bool{false, true} {
		a, b := huntC09n1Pair(t)

		sa, err := a.OpenStream(1, PayloadTypeWebRTCBinary)
		if err != nil {
			t.Fatal(err)
		}
		if _, err = sa.Write([]byte("hello")); err != nil {
			t.Fatal(err)
		}
		sb, err := b.AcceptStream()
		if err != nil {
			t.Fatal(err)
		}
		buf := make([]byte, 64)
		if n, rerr := sb.Read(buf); rerr != nil || string(buf[:n]) != "hello" {
			t.Fatalf("read: %q %v", buf[:n], rerr)
		}

		// The application arms a (long) read deadline and goes off to do something
		// else: nobody is blocked in Read.
		if err = sb.SetReadDeadline(time.Now().Add(time.Hour)); err != nil {
			t.Fatal(err)
		}
		// (the goroutine may need a moment to show up in the stack dump)
		armed := false
		for i := 0; i < 200 && !armed; i++ {
			armed = huntC09n1DeadlineGoroutines() == 1
			if !armed {
				time.Sleep(10 * time.Millisecond)
			}
		}
		if !armed {
			t.Fatalf("test assumption broken: expected exactly one deadline goroutine, got %d",
				huntC09n1DeadlineGoroutines())
		}

		if peerResets {
			// The peer closes its side of the stream: B performs the incoming reset
			// and drops the stream from its table.
			if err = sa.Close(); err != nil {
				t.Fatal(err)
			}
			gone := false
			for i := 0; i < 400 && !gone; i++ {
				b.lock.RLock()
				_, still := b.streams[1]
				b.lock.RUnlock()
				gone = !still
				if !gone {
					time.Sleep(25 * time.Millisecond)
				}
			}
			if !gone {
				t.Fatal("B never performed the incoming stream reset")
			}
		}

		// Now both associations are closed.
		if err = b.Close(); err != nil {
			t.Fatal(err)
		}
		if err = a.Close(); err != nil {
			t.Fatal(err)
		}

		// Close has returned on both sides: every goroutine the library started
		// has to be gone (generous bound).
		if n := huntC09n1WaitNoDeadlineGoroutines(5 * time.Second); n != 0 {
			t.Errorf("peerResets=%v: %d read-deadline goroutine(s) still alive 5s after Association.Close returned",
				peerResets, n)
			// do not poison the other iteration / other tests
			_ = sb.SetReadDeadline(time.Time{})
			_, _ = sb.Read(buf)
		}
	}
}
