// SPDX-FileCopyrightText: 2026 The Pion community <https://pion.ly>
// SPDX-License-Identifier: MIT

package sctp

import (
	"errors"
	"io"
	"sync"
	"sync/atomic"
	"testing"
	"time"

	"github.com/pion/transport/v4/test"
)

// C11: the advertised receive window must equal the configured receive buffer
// minus the user bytes the endpoint currently holds for unread delivery,
// "whatever mixture of ... stream resets occurred", and the memory held for
// inbound data must stay bounded.
//
// A perfectly well behaved peer opens a stream, writes less than one receive
// buffer of data on it, closes the stream (outgoing stream reset), and does the
// same again on the next stream identifier. The receiving application accepts
// every stream but has not read yet. Each incoming reset removes the stream from
// the association's table while its complete, unread messages are still held (and
// still readable) in the stream's reassembly queue. getMyReceiverWindowCredit
// only sums the registered streams, so the window snaps back to the full buffer
// although nothing was read, and the peer may fill the "buffer" again and again.
func TestZZHuntC11_1_ResetStreamUnreadDataLeavesWindowAccounting(t *testing.T) { //nolint:cyclop,gocognit
	const (
		recvBuf     = 32 * 1024
		msgSize     = 1000
		msgsPerStrm = 24 // 24000 bytes per stream: < recvBuf, never exceeds the window
		rounds      = 6
	)

	br := test.NewBridge()

	// Sniff the a_rwnd of every SACK the receiver (side 1) puts on the wire.
	var lastWireARWND atomic.Int64
	lastWireARWND.Store(-1)
	br.Filter(1, func(raw []byte) bool {
		p := &packet{}
		if err := p.unmarshal(true, raw); err != nil {
			return true
		}
		for _, c := range p.chunks {
			if sack, ok := c.(*chunkSelectiveAck); ok {
				lastWireARWND.Store(int64(sack.advertisedReceiverWindowCredit))
			}
		}

		return true
	})

	a0, a1, err := createNewAssociationPair(br, ackModeNoDelay, recvBuf)
	if err != nil {
		t.Fatalf("handshake: %v", err)
	}

	// pump the bridge in the background
	stop := make(chan struct{})
	var wg sync.WaitGroup
	wg.Add(1)
	go func() {
		defer wg.Done()
		for {
			select {
			case <-stop:
				return
			default:
			}
			if br.Tick() == 0 {
				time.Sleep(time.Millisecond)
			}
		}
	}()
	defer func() {
		close(stop)
		wg.Wait()
		closeAssociationPair(br, a0, a1)
	}()

	waitFor := func(what string, cond func() bool) {
		t.Helper()
		deadline := time.Now().Add(20 * time.Second)
		for !cond() {
			if time.Now().After(deadline) {
				t.Fatalf("timed out waiting for: %s", what)
			}
			time.Sleep(2 * time.Millisecond)
		}
	}

	advertised := func() int {
		a1.lock.Lock()
		defer a1.lock.Unlock()

		return int(a1.getMyReceiverWindowCredit())
	}

	var accepted []*Stream // streams the receiving application holds, unread
	heldBytes := func() int {
		n := 0
		for _, s := range accepted {
			n += s.getNumBytesInReassemblyQueue()
		}

		return n
	}

	msg := make([]byte, msgSize)
	violations := 0

	for round := 1; round <= rounds; round++ {
		sid := uint16(round) //nolint:gosec
		s0, err := a0.OpenStream(sid, PayloadTypeWebRTCBinary)
		if err != nil {
			t.Fatalf("OpenStream: %v", err)
		}
		for i := 0; i < msgsPerStrm; i++ {
			if _, err = s0.Write(msg); err != nil {
				t.Fatalf("Write: %v", err)
			}
		}
		waitFor("sender's data acknowledged", func() bool { return a0.BufferedAmount() == 0 })

		s1, err := a1.AcceptStream()
		if err != nil {
			t.Fatalf("AcceptStream: %v", err)
		}
		accepted = append(accepted, s1)

		// Before the reset everything is fine.
		if got, want := advertised(), recvBuf-s1.getNumBytesInReassemblyQueue(); round == 1 && got != want {
			t.Fatalf("sanity: window before reset = %d, want %d", got, want)
		}

		// The sender closes its stream: outgoing stream reset.
		if err = s0.Close(); err != nil {
			t.Fatalf("Close: %v", err)
		}
		waitFor("incoming reset performed by the receiver", func() bool {
			a1.lock.RLock()
			defer a1.lock.RUnlock()
			_, ok := a1.streams[sid]

			return !ok
		})

		held := heldBytes()
		want := recvBuf - held
		if want < 0 {
			want = 0
		}
		got := advertised()
		t.Logf("round %d: unread user bytes held=%d (buffer=%d)  advertised window=%d  property demands=%d  last a_rwnd on the wire=%d",
			round, held, recvBuf, got, want, lastWireARWND.Load())
		if got != want {
			violations++
			t.Errorf("round %d: advertised window is %d but the endpoint holds %d unread bytes of a %d byte buffer (want %d)",
				round, got, held, recvBuf, want)
		}
	}

	// The wire view: the SACKs of the last round advertised a window as if the
	// earlier streams' data did not exist.
	if wire := int(lastWireARWND.Load()); wire+heldBytes() > recvBuf {
		t.Errorf("last SACK on the wire advertised a_rwnd=%d while %d unread bytes are held: together %d > receive buffer %d",
			wire, heldBytes(), wire+heldBytes(), recvBuf)
	}

	// Inbound memory is not bounded by the receive buffer.
	if held := heldBytes(); held > recvBuf {
		t.Errorf("endpoint holds %d unread user bytes, %.1f times its %d byte receive buffer, with a peer that never exceeded the advertised window",
			held, float64(held)/float64(recvBuf), recvBuf)
	}

	// Prove the bytes are really held for delivery: every message is still readable.
	buf := make([]byte, 2*msgSize)
	total := 0
	for i, s := range accepted {
		for m := 0; m < msgsPerStrm; m++ {
			n, rerr := s.Read(buf)
			if rerr != nil {
				t.Fatalf("stream %d message %d: %v", i+1, m, rerr)
			}
			total += n
		}
		_ = s.SetReadDeadline(time.Now().Add(5 * time.Second))
		if _, rerr := s.Read(buf); !errors.Is(rerr, io.EOF) {
			t.Fatalf("stream %d: expected EOF after the data, got %v", i+1, rerr)
		}
	}
	t.Logf("read back %d bytes from %d reset streams; violations=%d", total, len(accepted), violations)
	if got := advertised(); got != recvBuf {
		t.Errorf("after reading everything the window is %d, want %d", got, recvBuf)
	}
}
