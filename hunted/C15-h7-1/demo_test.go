package sctp

// C15 hunt, finding 1.
//
// One SACK acknowledges data of several streams. processAcknowledgement takes the
// acknowledged bytes out of the in-flight queue (so Association.BufferedAmount drops)
// under a.lock, but hands them to the streams one after the other, with a.lock
// released and a user callback possibly running between two streams. While the first
// stream is being served, the other streams still report bytes that have been
// acknowledged already (nothing is pending or in flight any more), and a write that
// is accepted on such a stream in this window hides the downward crossing of its
// low threshold: the callback for that crossing is never delivered.
//
// The interleaving is forced with a logger that pauses the read loop in the
// "bufferedAmount = " trace of the first stream that is served (the association lock
// is not held at that point).

import (
	"fmt"
	"net"
	"regexp"
	"strconv"
	"strings"
	"sync"
	"sync/atomic"
	"testing"
	"time"

	"github.com/pion/logging"
)

type c15f1Conn struct {
	in     chan []byte
	peer   *c15f1Conn
	closed chan struct{}
	once   sync.Once

	mu   sync.Mutex
	hold bool
	held [][]byte
}

func c15f1Pair() (*c15f1Conn, *c15f1Conn) {
	a := &c15f1Conn{in: make(chan []byte, 1024), closed: make(chan struct{})}
	b := &c15f1Conn{in: make(chan []byte, 1024), closed: make(chan struct{})}
	a.peer, b.peer = b, a

	return a, b
}

func (c *c15f1Conn) Read(p []byte) (int, error) {
	select {
	case b := <-c.in:
		return copy(p, b), nil
	case <-c.closed:
		return 0, net.ErrClosed
	}
}

func (c *c15f1Conn) Write(p []byte) (int, error) {
	select {
	case <-c.closed:
		return 0, net.ErrClosed
	default:
	}
	b := append([]byte(nil), p...)
	c.mu.Lock()
	if c.hold {
		c.held = append(c.held, b)
		c.mu.Unlock()

		return len(p), nil
	}
	c.mu.Unlock()
	select {
	case c.peer.in <- b:
	case <-c.peer.closed:
	}

	return len(p), nil
}

func (c *c15f1Conn) Close() error                     { c.once.Do(func() { close(c.closed) }); return nil }
func (c *c15f1Conn) LocalAddr() net.Addr              { return &net.UDPAddr{} }
func (c *c15f1Conn) RemoteAddr() net.Addr             { return &net.UDPAddr{} }
func (c *c15f1Conn) SetDeadline(time.Time) error      { return nil }
func (c *c15f1Conn) SetReadDeadline(time.Time) error  { return nil }
func (c *c15f1Conn) SetWriteDeadline(time.Time) error { return nil }

type c15f1LogFactory struct {
	armed   int32
	entered chan string
	resume  chan struct{}
}

type c15f1Logger struct{ f *c15f1LogFactory }

func (f *c15f1LogFactory) NewLogger(string) logging.LeveledLogger { return &c15f1Logger{f: f} }

func (l *c15f1Logger) Trace(string) {}
func (l *c15f1Logger) Tracef(format string, args ...interface{}) {
	if !strings.Contains(format, "bufferedAmount = ") {
		return
	}
	if !atomic.CompareAndSwapInt32(&l.f.armed, 1, 0) {
		return
	}
	// the first release of acknowledged bytes to a stream: pause the read loop here
	l.f.entered <- fmt.Sprintf(format, args...)
	select {
	case <-l.f.resume:
	case <-time.After(20 * time.Second):
	}
}
func (l *c15f1Logger) Debug(string)                  {}
func (l *c15f1Logger) Debugf(string, ...interface{}) {}
func (l *c15f1Logger) Info(string)                   {}
func (l *c15f1Logger) Infof(string, ...interface{})  {}
func (l *c15f1Logger) Warn(string)                   {}
func (l *c15f1Logger) Warnf(string, ...interface{})  {}
func (l *c15f1Logger) Error(string)                  {}
func (l *c15f1Logger) Errorf(string, ...interface{}) {}

func TestZZHuntC15_1_AckedBytesReleasedStreamByStream(t *testing.T) { //nolint:cyclop,maintidx
	lf := &c15f1LogFactory{entered: make(chan string, 1), resume: make(chan struct{})}
	c0, c1 := c15f1Pair()

	type res struct {
		a   *Association
		err error
	}
	ch0 := make(chan res, 1)
	ch1 := make(chan res, 1)
	go func() {
		a, err := ClientWithOptions(WithName("a0"), WithNetConn(c0), WithLoggerFactory(lf))
		ch0 <- res{a, err}
	}()
	go func() {
		a, err := ServerWithOptions(WithName("a1"), WithNetConn(c1), WithLoggerFactory(lf))
		ch1 <- res{a, err}
	}()
	r0, r1 := <-ch0, <-ch1
	if r0.err != nil || r1.err != nil {
		t.Fatalf("handshake: %v %v", r0.err, r1.err)
	}
	a0, a1 := r0.a, r1.a
	defer a0.Close() //nolint:errcheck
	defer a1.Close() //nolint:errcheck

	// the receiving side reads everything
	var nRead int64
	go func() {
		for {
			s, err := a1.AcceptStream()
			if err != nil {
				return
			}
			go func() {
				buf := make([]byte, 65536)
				for {
					if _, err := s.Read(buf); err != nil {
						return
					}
					atomic.AddInt64(&nRead, 1)
				}
			}()
		}
	}()

	const (
		nStreams  = 4
		threshold = 600
		first     = 1000 // > threshold
		second    = 2000 // > threshold
	)
	streams := make([]*Stream, nStreams)
	callbacks := make([]int64, nStreams)
	for i := range streams {
		s, err := a0.OpenStream(uint16(i), PayloadTypeWebRTCBinary) //nolint:gosec
		if err != nil {
			t.Fatal(err)
		}
		s.SetBufferedAmountLowThreshold(threshold)
		i := i
		s.OnBufferedAmountLow(func() { atomic.AddInt64(&callbacks[i], 1) })
		streams[i] = s
	}

	// Keep every packet of a1 back, so that all four messages are still unacknowledged
	// when the last SACK (which covers them all) is handed to a0.
	c1.mu.Lock()
	c1.hold = true
	c1.mu.Unlock()

	for _, s := range streams {
		if _, err := s.Write(make([]byte, first)); err != nil {
			t.Fatal(err)
		}
	}
	for i, s := range streams {
		if got := s.BufferedAmount(); got != first {
			t.Fatalf("setup: stream %d BufferedAmount=%d after the write", i, got)
		}
	}
	if got := a0.BufferedAmount(); got != nStreams*first {
		t.Fatalf("setup: association BufferedAmount=%d", got)
	}

	deadline := time.Now().Add(10 * time.Second)
	for atomic.LoadInt64(&nRead) < nStreams && time.Now().Before(deadline) {
		time.Sleep(5 * time.Millisecond)
	}
	if atomic.LoadInt64(&nRead) < nStreams {
		t.Fatalf("setup: the peer read only %d messages", atomic.LoadInt64(&nRead))
	}

	// find a held SACK that acknowledges everything a0 has sent
	a0.lock.RLock()
	lastTSN := a0.myNextTSN - 1
	a0.lock.RUnlock()
	var sackRaw []byte
	deadline = time.Now().Add(10 * time.Second)
	for sackRaw == nil && time.Now().Before(deadline) {
		c1.mu.Lock()
		for _, raw := range c1.held {
			p := &packet{}
			if err := p.unmarshal(false, raw); err != nil {
				continue
			}
			for _, c := range p.chunks {
				if sack, ok := c.(*chunkSelectiveAck); ok && sack.cumulativeTSNAck == lastTSN {
					sackRaw = raw
				}
			}
		}
		c1.mu.Unlock()
		if sackRaw == nil {
			time.Sleep(10 * time.Millisecond)
		}
	}
	if sackRaw == nil {
		t.Fatalf("setup: no SACK for tsn %d seen", lastTSN)
	}
	c1.mu.Lock()
	c1.hold = false
	c1.held = nil
	c1.mu.Unlock()

	for i, s := range streams {
		if got := s.BufferedAmount(); got != first {
			t.Fatalf("setup: stream %d BufferedAmount=%d before the SACK", i, got)
		}
		if got := atomic.LoadInt64(&callbacks[i]); got != 0 {
			t.Fatalf("setup: stream %d callback fired before the SACK", i)
		}
	}

	// hand the SACK to a0 and wait until the first stream is being served
	atomic.StoreInt32(&lf.armed, 1)
	c0.in <- sackRaw

	var msg string
	select {
	case msg = <-lf.entered:
	case <-time.After(10 * time.Second):
		t.Fatal("setup: the SACK did not release anything")
	}
	m := regexp.MustCompile(`^\[(\d+):a0\] bufferedAmount = (\d+)$`).FindStringSubmatch(msg)
	if m == nil {
		t.Fatalf("setup: unexpected trace %q", msg)
	}
	servedID, _ := strconv.Atoi(m[1])

	// Nothing is pending or in flight any more ...
	resumed := false
	resume := func() {
		if !resumed {
			resumed = true
			close(lf.resume)
		}
	}
	amountCh := make(chan int, 1)
	go func() { amountCh <- a0.BufferedAmount() }()
	var assocAmount int
	select {
	case assocAmount = <-amountCh:
	case <-time.After(3 * time.Second):
		// (a library that serves the streams with the association lock held cannot be
		// observed in between: let it finish, the rest of the test then sees no window)
		resume()
		assocAmount = <-amountCh
	}
	if assocAmount != 0 {
		resume()
		t.Fatalf("setup: association BufferedAmount=%d after the SACK", assocAmount)
	}
	// ... so every byte written so far has been acknowledged. What do the streams say?
	stale := map[int]uint64{}
	for i, s := range streams {
		if i == servedID {
			continue // its lock is held by the paused read loop
		}
		stale[i] = s.BufferedAmount()
	}
	// A new message on each of the other streams. It is accepted after all earlier
	// bytes of the stream were acknowledged (the association said so above).
	for i, s := range streams {
		if i == servedID {
			continue
		}
		if _, err := s.Write(make([]byte, second)); err != nil {
			resume()
			t.Fatal(err)
		}
	}
	resume()

	// let everything drain
	deadline = time.Now().Add(20 * time.Second)
	for time.Now().Before(deadline) {
		done := a0.BufferedAmount() == 0
		for _, s := range streams {
			if s.BufferedAmount() != 0 {
				done = false
			}
		}
		if done {
			break
		}
		time.Sleep(10 * time.Millisecond)
	}
	time.Sleep(200 * time.Millisecond)
	if got := a0.BufferedAmount(); got != 0 {
		t.Fatalf("setup: association did not drain (%d)", got)
	}

	for i, s := range streams {
		if got := s.BufferedAmount(); got != 0 {
			t.Errorf("stream %d: BufferedAmount=%d at the end", i, got)
		}
	}
	for i := range streams {
		if i == servedID {
			if got := atomic.LoadInt64(&callbacks[i]); got != 1 {
				t.Errorf("stream %d (served first): %d callbacks, want 1", i, got)
			}

			continue
		}
		if stale[i] != 0 {
			t.Errorf("stream %d: BufferedAmount=%d while Association.BufferedAmount()=0 "+
				"(nothing pending or in flight: all %d bytes of the stream were acknowledged)",
				i, stale[i], first)
		}
		// history of the stream: 1000 accepted (> 600), 1000 acknowledged (0 <= 600: crossing),
		// 2000 accepted (> 600), 2000 acknowledged (0 <= 600: crossing)
		if got := atomic.LoadInt64(&callbacks[i]); got != 2 {
			t.Errorf("stream %d: the amount fell through the threshold twice "+
				"(%d -> 0, then %d -> 0) but OnBufferedAmountLow fired %d time(s)", i, first, second, got)
		}
	}
}
