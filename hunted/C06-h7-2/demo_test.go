package sctp

import (
	"io"
	"net"
	"sync"
	"testing"
	"time"

	"github.com/pion/logging"
)

// A link with a fixed one-way delay and no loss, no reordering, no duplication.
// Every packet written by the sender side is shown to a tap before it is delayed.

type c06bConn struct {
	inbox  chan []byte
	closed chan struct{}
	once   sync.Once
	peer   *c06bConn
	delay  time.Duration
	tap    func(raw []byte)

	mu    sync.Mutex
	queue []c06bPkt
	wake  chan struct{}
}

type c06bPkt struct {
	at  time.Time
	raw []byte
}

func newC06bPair(delay time.Duration) (*c06bConn, *c06bConn) {
	mk := func() *c06bConn {
		return &c06bConn{
			inbox: make(chan []byte, 4096), closed: make(chan struct{}),
			delay: delay, wake: make(chan struct{}, 1),
		}
	}
	a, b := mk(), mk()
	a.peer, b.peer = b, a
	go a.pump()
	go b.pump()

	return a, b
}

// pump delivers the packets written on c to the peer, in order, each after the delay.
func (c *c06bConn) pump() {
	for {
		c.mu.Lock()
		var next *c06bPkt
		if len(c.queue) > 0 {
			next = &c.queue[0]
		}
		c.mu.Unlock()
		if next == nil {
			select {
			case <-c.wake:
				continue
			case <-c.closed:
				return
			}
		}
		if d := time.Until(next.at); d > 0 {
			select {
			case <-time.After(d):
			case <-c.closed:
				return
			}
		}
		c.mu.Lock()
		p := c.queue[0]
		c.queue = c.queue[1:]
		c.mu.Unlock()
		select {
		case c.peer.inbox <- p.raw:
		case <-c.peer.closed:
		}
	}
}

func (c *c06bConn) Read(p []byte) (int, error) {
	select {
	case b := <-c.inbox:
		return copy(p, b), nil
	case <-c.closed:
		return 0, io.EOF
	}
}

func (c *c06bConn) Write(p []byte) (int, error) {
	select {
	case <-c.closed:
		return 0, io.ErrClosedPipe
	default:
	}
	b := append([]byte(nil), p...)
	if c.tap != nil {
		c.tap(b)
	}
	c.mu.Lock()
	c.queue = append(c.queue, c06bPkt{at: time.Now().Add(c.delay), raw: b})
	c.mu.Unlock()
	select {
	case c.wake <- struct{}{}:
	default:
	}

	return len(p), nil
}

func (c *c06bConn) Close() error                     { c.once.Do(func() { close(c.closed) }); return nil }
func (c *c06bConn) LocalAddr() net.Addr              { return &net.UDPAddr{} }
func (c *c06bConn) RemoteAddr() net.Addr             { return &net.UDPAddr{} }
func (c *c06bConn) SetDeadline(time.Time) error      { return nil }
func (c *c06bConn) SetReadDeadline(time.Time) error  { return nil }
func (c *c06bConn) SetWriteDeadline(time.Time) error { return nil }

// Property C06: "once a lifetime limit has expired at most one further transmission
// of the message occurs".
//
// A single message is written on a stream with a lifetime of 50 ms. The path has a
// round trip time of 200 ms and loses nothing. The initial congestion window lets only
// the first few fragments out; the rest of the message has to wait for the first SACK,
// which comes back 200 ms later - 150 ms after the lifetime has expired. The library
// then puts all remaining fragments of the expired message on the wire.
func TestZZHuntC06_2_ExpiredMessageKeepsBeingSent(t *testing.T) {
	const (
		oneWay   = 100 * time.Millisecond
		lifetime = 50 // ms
		msgSize  = 40000
		sid      = uint16(7)
	)

	ca, cb := newC06bPair(oneWay)

	type wireEvent struct {
		at   time.Time
		tsn  uint32
		b, e bool
	}
	var (
		tapMu  sync.Mutex
		events []wireEvent
	)
	ca.tap = func(raw []byte) {
		p := &packet{}
		if err := p.unmarshal(false, raw); err != nil {
			return
		}
		now := time.Now()
		tapMu.Lock()
		defer tapMu.Unlock()
		for _, c := range p.chunks {
			if d, ok := c.(*chunkPayloadData); ok && d.streamIdentifier == sid && d.payloadType != PayloadTypeWebRTCDCEP {
				events = append(events, wireEvent{at: now, tsn: d.tsn, b: d.beginningFragment, e: d.endingFragment})
			}
		}
	}

	lf := logging.NewDefaultLoggerFactory()
	type res struct {
		a   *Association
		err error
	}
	chA, chB := make(chan res, 1), make(chan res, 1)
	go func() {
		a, err := ClientWithOptions(WithNetConn(ca), WithLoggerFactory(lf), WithName("A"))
		chA <- res{a, err}
	}()
	go func() {
		a, err := ServerWithOptions(WithNetConn(cb), WithLoggerFactory(lf), WithName("B"))
		chB <- res{a, err}
	}()
	ra, rb := <-chA, <-chB
	if ra.err != nil || rb.err != nil {
		t.Fatalf("handshake failed: %v / %v", ra.err, rb.err)
	}
	a, b := ra.a, rb.a
	defer func() {
		_ = a.Close()
		_ = b.Close()
	}()

	// the receiver: read whatever arrives (with a buffer that is large enough)
	delivered := make(chan int, 16)
	go func() {
		s, err := b.AcceptStream()
		if err != nil {
			return
		}
		buf := make([]byte, 1<<17)
		for {
			n, _, err := s.ReadSCTP(buf)
			if err != nil {
				return
			}
			delivered <- n
		}
	}()

	s, err := a.OpenStream(sid, PayloadTypeWebRTCBinary)
	if err != nil {
		t.Fatal(err)
	}
	s.SetReliabilityParams(true, ReliabilityTypeTimed, lifetime)

	msg := make([]byte, msgSize)
	for i := range msg {
		msg[i] = byte(i * 7)
	}
	if _, err = s.WriteSCTP(msg, PayloadTypeWebRTCBinary); err != nil {
		t.Fatal(err)
	}

	// Let the transfer run its course: generous bound, nothing here is time critical
	// (the measurement uses the time stamps taken when the packets were written).
	deadline := time.Now().Add(20 * time.Second)
	for time.Now().Before(deadline) && a.BufferedAmount() > 0 {
		time.Sleep(20 * time.Millisecond)
	}
	time.Sleep(500 * time.Millisecond)

	tapMu.Lock()
	defer tapMu.Unlock()
	if len(events) == 0 {
		t.Fatal("no DATA seen on the wire")
	}
	first := events[0].at
	// 100 ms of slack on top of the lifetime for scheduling noise on a busy machine
	expiry := first.Add((lifetime + 100) * time.Millisecond)
	seen := map[uint32]int{}
	var after, afterRtx, total int
	for _, ev := range events {
		seen[ev.tsn]++
		total++
		if ev.at.After(expiry) {
			after++
			if seen[ev.tsn] > 1 {
				afterRtx++
			}
		}
	}
	var got int
	select {
	case got = <-delivered:
	default:
	}
	t.Logf("message of %d bytes, lifetime %d ms: %d DATA chunks on the wire in total (%d distinct), "+
		"%d of them more than %d ms after the first transmission of the message (%d of those are retransmissions); "+
		"delivered to the reader: %d bytes",
		msgSize, lifetime, total, len(seen), after, lifetime+100, afterRtx, got)

	if after > 1 {
		t.Errorf("the lifetime of the message expired %d ms after its first transmission, but %d further transmissions "+
			"of chunks of this message were made after that (the property allows at most one)", lifetime, after)
	}
}
