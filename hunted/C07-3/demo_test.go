// SPDX-FileCopyrightText: 2026 The Pion community <https://pion.ly>
// SPDX-License-Identifier: MIT

package sctp

import (
	"bytes"
	"errors"
	"io"
	"os"
	"sync"
	"sync/atomic"
	"testing"
	"time"

	"github.com/pion/transport/v4/test"
	"github.com/stretchr/testify/require"
)

func huntC07Pump3(br *test.Bridge) (stop func()) {
	var done atomic.Bool
	fin := make(chan struct{})
	go func() {
		defer close(fin)
		for !done.Load() {
			if br.Tick() == 0 {
				time.Sleep(time.Millisecond)
			}
		}
	}()

	return func() {
		done.Store(true)
		<-fin
	}
}

// I-DATA, a fragmented unordered message B (stream 2, never retransmitted) whose
// fragments are interleaved on the wire with a chunk of another stream:
//
//	TSN T   : B fragment 0   (lost)
//	TSN T+1 : a message A of stream 1 (reliable)
//	TSN T+2 : B fragment 1   (arrives, but later than the I-FORWARD-TSN)
//
// The sender abandons B. As soon as A is acknowledged it sends I-FORWARD-TSN(T,
// {si=2, U, mid}); it cannot go further because T+1 is not abandoned. The receiver
// drops what it holds of B (nothing yet). Then fragment 1 arrives: its TSN is new,
// so it is accepted, acknowledged and stored as the beginning of a new partial
// message. The cumulative TSN moves to T+2 through ordinary DATA, so no later
// I-FORWARD-TSN ever mentions that message again and the fragment stays in the
// reassembly queue for good. Every repetition takes another piece of the receive
// window away; eventually a reliable message on another stream that would fit the
// buffer many times can no longer be delivered.
func TestHuntC07_3_LateFragmentOfAbandonedUnorderedIDataLeaksReceiveWindow(t *testing.T) {
	huntC07LateFragmentLeak(t, true)
}

// Control: identical traffic and loss, but fragment 1 is not delayed (it arrives
// before the I-FORWARD-TSN, which then removes it).
func TestHuntC07_3_ControlFragmentNotDelayed(t *testing.T) {
	huntC07LateFragmentLeak(t, false)
}

func huntC07LateFragmentLeak(t *testing.T, delayFragment bool) { //nolint:cyclop,maintidx,gocognit
	t.Helper()

	lim := test.TimeOut(time.Second * 120)
	defer lim.Stop()

	const (
		recvBuf    = 8000
		siA        = uint16(1) // reliable, ordered
		siBFirst   = uint16(10) // unordered, no retransmission; a fresh stream (10, 11, ...) in every round
		siTrigger  = uint16(3) // reliable; only used to make the writes below concurrent
		iterations = 4
	)

	br := test.NewBridge()
	a0, a1, err := createNewAssociationPairWithInterleaving(br, ackModeNormal, recvBuf, true, true)
	require.NoError(t, err)
	require.True(t, a0.useInterleaving && a1.useInterleaving && a0.useIForwardTSN)
	stop := huntC07Pump3(br)
	defer func() {
		br.Filter(0, nil)
		stop()
		closeAssociationPair(br, a0, a1)
	}()
	// no retransmission timer is involved in the scenario; keep it out of the way
	a0.rtoMgr.setRTO(3000.0, true)
	a1.rtoMgr.setRTO(3000.0, true)

	mps := int(a0.maxPayloadSize)
	lenB1 := mps - 26 // too large to be bundled with A's chunk

	// ---- wire control (a0 -> a1) --------------------------------------------------
	var (
		fmu        sync.Mutex
		armed      bool
		blockNext  chan struct{} // when non-nil, the next packet of siTrigger blocks the sender's write loop
		blockedCh  = make(chan struct{}, 1)
		held       [][]byte
		droppedB0  int
		fwdSeen    int
		setupError string
	)
	br.Filter(0, func(raw []byte) bool {
		p := &packet{}
		if perr := p.unmarshal(true, raw); perr != nil {
			return true
		}
		fmu.Lock()
		var wait chan struct{}
		pass := true
		for _, c := range p.chunks {
			switch cc := c.(type) {
			case *chunkPayloadData:
				if os.Getenv("HUNT_DEBUG") != "" {
					t.Logf("wire: tsn=%d si=%d mid=%d fsn=%d U=%v len=%d armed=%v", cc.tsn, cc.streamIdentifier,
						cc.messageIdentifier, cc.fragmentSequenceNumber, cc.unordered, len(cc.userData), armed)
				}
				switch {
				case cc.streamIdentifier == siTrigger && blockNext != nil:
					wait = blockNext
					blockNext = nil
				case cc.streamIdentifier >= siBFirst && armed && cc.fragmentSequenceNumber == 0:
					droppedB0++
					pass = false
				case cc.streamIdentifier >= siBFirst && armed && delayFragment:
					if len(p.chunks) != 1 {
						setupError = "fragment 1 of B was bundled with another chunk"
					}
					held = append(held, append([]byte{}, raw...))
					pass = false
				}
			case *chunkIForwardTSN:
				if os.Getenv("HUNT_DEBUG") != "" {
					t.Logf("wire: %s", cc.String())
				}
				fwdSeen++
			}
		}
		fmu.Unlock()
		if wait != nil {
			blockedCh <- struct{}{}
			<-wait
		}

		return pass
	})

	// ---- receiving application: reads everything it is given -------------------
	type rx struct {
		si   uint16
		data []byte
	}
	rxCh := make(chan rx, 64)
	go func() {
		for {
			s, aerr := a1.AcceptStream()
			if aerr != nil {
				return
			}
			go func(s *Stream) {
				buf := make([]byte, 65536)
				for {
					n, rerr := s.Read(buf)
					if rerr != nil {
						if !errors.Is(rerr, io.EOF) {
							return
						}

						return
					}
					rxCh <- rx{s.StreamIdentifier(), append([]byte{}, buf[:n]...)}
				}
			}(s)
		}
	}()
	expectAll := func(want map[uint16][][]byte) {
		t.Helper()
		for len(want) > 0 {
			select {
			case m := <-rxCh:
				w, ok := want[m.si]
				require.True(t, ok, "unexpected message on stream %d", m.si)
				require.True(t, bytes.Equal(w[0], m.data), "stream %d: wrong content", m.si)
				if len(w) == 1 {
					delete(want, m.si)
				} else {
					want[m.si] = w[1:]
				}
			case <-time.After(10 * time.Second):
				require.FailNow(t, "messages not delivered")
			}
		}
	}

	sA, err := a0.OpenStream(siA, PayloadTypeWebRTCBinary)
	require.NoError(t, err)
	sT, err := a0.OpenStream(siTrigger, PayloadTypeWebRTCBinary)
	require.NoError(t, err)

	idle := func() bool {
		a0.lock.RLock()
		defer a0.lock.RUnlock()

		return a0.inflightQueue.size() == 0 && a0.pendingQueue.size() == 0
	}
	queuedOnReceiver := func() int {
		a1.lock.RLock()
		defer a1.lock.RUnlock()
		n := 0
		for _, s := range a1.streams {
			n += s.getNumBytesInReassemblyQueue()
		}

		return n
	}

	msgB := make([]byte, mps+lenB1)
	for i := range msgB {
		msgB[i] = byte(i)
	}

	for it := 0; it < iterations; it++ {
		sB, oerr := a0.OpenStream(siBFirst+uint16(it), PayloadTypeWebRTCBinary)
		require.NoError(t, oerr)
		sB.SetReliabilityParams(true, ReliabilityTypeRexmit, 0)

		// Stall the sender's write loop on a small packet so that B and A are both
		// queued when it runs next: just two Write calls racing on two streams.
		release := make(chan struct{})
		fmu.Lock()
		blockNext = release
		fmu.Unlock()
		_, err = sT.Write([]byte("trigger"))
		require.NoError(t, err)
		select {
		case <-blockedCh:
		case <-time.After(10 * time.Second):
			require.FailNow(t, "trigger packet never seen")
		}
		fmu.Lock()
		armed = true
		fwdBefore := fwdSeen
		fmu.Unlock()

		// The default stream scheduler (weighted fair queueing) orders the queued
		// chunks A1(600) B0(full) A2(600) B1.
		msgA1 := bytes.Repeat([]byte{'a', byte(it)}, 300)
		msgA2 := bytes.Repeat([]byte{'A', byte(it)}, 300)
		_, err = sB.Write(msgB) // fragments B0 (lost), B1
		require.NoError(t, err)
		_, err = sA.Write(msgA1)
		require.NoError(t, err)
		_, err = sA.Write(msgA2)
		require.NoError(t, err)
		close(release)

		expectAll(map[uint16][][]byte{siTrigger: {[]byte("trigger")}, siA: {msgA1, msgA2}})

		// I-FORWARD-TSN for B went out and the receiver moved over A as well
		require.Eventually(t, func() bool {
			fmu.Lock()
			defer fmu.Unlock()

			return fwdSeen > fwdBefore
		}, 10*time.Second, 2*time.Millisecond, "no I-FORWARD-TSN")
		if delayFragment {
			require.Eventually(t, func() bool {
				fmu.Lock()
				defer fmu.Unlock()

				return len(held) == 1
			}, 10*time.Second, 2*time.Millisecond, "fragment 1 of B never sent")
			// wait until the I-FORWARD-TSN has been processed: the receiver's cumulative
			// TSN is then that of A, the chunk just before the delayed fragment.
			a0.lock.RLock()
			tsnB1 := a0.myNextTSN - 1
			a0.lock.RUnlock()
			require.Eventually(t, func() bool {
				a1.lock.RLock()
				defer a1.lock.RUnlock()

				return sna32GTE(a1.peerLastTSN(), tsnB1-1)
			}, 10*time.Second, 2*time.Millisecond, "I-FORWARD-TSN not processed")
			fmu.Lock()
			armed = false
			late := held[0]
			held = nil
			fmu.Unlock()
			br.Push(late, 0) // the delayed fragment finally arrives
		}
		require.Eventually(t, idle, 10*time.Second, 2*time.Millisecond, "sender never became idle")
		fmu.Lock()
		armed = false
		require.Empty(t, setupError)
		require.Equal(t, it+1, droppedB0, "fragment 0 of B must have been sent exactly once per round")
		fmu.Unlock()
		t.Logf("round %d: everything acknowledged and read; bytes of the abandoned message still queued on the receiver: %d",
			it, queuedOnReceiver())
	}

	// Everything that was not abandoned has been delivered and read, the sender has
	// nothing outstanding. A reliable 6000 byte message on stream 1 fits the 8000
	// byte receive buffer.
	final := make([]byte, 6000)
	for i := range final {
		final[i] = byte(i * 7)
	}
	leaked := queuedOnReceiver()
	_, err = sA.Write(final)
	require.NoError(t, err)
	select {
	case m := <-rxCh:
		require.Equal(t, siA, m.si)
		require.True(t, bytes.Equal(final, m.data))
	case <-time.After(15 * time.Second):
		a1.lock.RLock()
		credit := a1.getMyReceiverWindowCredit()
		a1.lock.RUnlock()
		require.FailNowf(t, "reliable message on another stream blocked by abandoned fragments",
			"6000 byte reliable message not delivered within 15 s; receive buffer %d, advertised window %d, "+
				"%d bytes of abandoned (and already skipped) unordered messages still sit in reassembly queues",
			recvBuf, credit, leaked)
	}
}
