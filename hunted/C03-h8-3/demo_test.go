//go:build !js

package sctp

import (
	"testing"
	"time"

	"github.com/pion/logging"
	"github.com/stretchr/testify/require"
)

// C03 finding 3
//
// The library bounds the peer's outstanding stream reset requests (maxReconfigRequests = 1000):
// every request that waits for its Sender's Last Assigned TSN is answered again ("In progress")
// each time the cumulative TSN moves, so their number is the work done per inbound DATA chunk.
// The bound is only applied to requests whose last TSN is "ahead" of the cumulative TSN in
// serial number arithmetic. A request whose Sender's Last Assigned TSN is exactly 2^31 away is
// neither ahead (the bound is skipped) nor reached (it is not performed): it is stored without
// limit and stays. From then on one inbound DATA chunk costs one outbound packet per stored
// request, with the association lock held - as many as whoever fed the requests likes.

type zzHuntC03n3Pair struct {
	client, server         *Association
	clientConn, serverConn *dumbConn2
}

func zzHuntC03n3NewPair(t *testing.T, interleaving bool) *zzHuntC03n3Pair {
	t.Helper()

	c1, c2 := createUDPConnPair()
	lf := logging.NewDefaultLoggerFactory()
	lf.DefaultLogLevel = logging.LogLevelDisabled

	type res struct {
		a   *Association
		err error
	}
	cch := make(chan res, 1)
	sch := make(chan res, 1)
	go func() {
		a, err := ClientWithOptions(WithName("client"), WithNetConn(c1), WithLoggerFactory(lf),
			WithEnableInterleaving(interleaving))
		cch <- res{a, err}
	}()
	go func() {
		a, err := ServerWithOptions(WithName("server"), WithNetConn(c2), WithLoggerFactory(lf),
			WithEnableInterleaving(interleaving))
		sch <- res{a, err}
	}()

	p := &zzHuntC03n3Pair{}
	p.clientConn, _ = c1.(*dumbConn2) //nolint:forcetypeassert
	p.serverConn, _ = c2.(*dumbConn2) //nolint:forcetypeassert
	for i := 0; i < 2; i++ {
		select {
		case r := <-cch:
			require.NoError(t, r.err)
			p.client = r.a
		case r := <-sch:
			require.NoError(t, r.err)
			p.server = r.a
		case <-time.After(20 * time.Second):
			require.FailNow(t, "handshake did not complete")
		}
	}

	return p
}

// inject hands raw bytes to the server's transport, as if they had come from the network.
func (p *zzHuntC03n3Pair) injectIntoServer(t *testing.T, c ...chunk) {
	t.Helper()

	p.server.lock.RLock()
	pkt := &packet{
		sourcePort:      p.server.destinationPort,
		destinationPort: p.server.sourcePort,
		verificationTag: p.server.myVerificationTag,
		chunks:          c,
	}
	p.server.lock.RUnlock()
	raw, err := pkt.marshal(true)
	require.NoError(t, err)

	before := p.server.stats.getNumPacketsReceived()
	p.serverConn.inboundHandler(raw)
	require.Eventually(t, func() bool {
		if p.server.stats.getNumPacketsReceived() <= before {
			return false
		}
		// the packet has been taken up; wait until its chunks have been handled as well
		p.server.lock.Lock()
		p.server.lock.Unlock() //nolint:staticcheck

		return true
	}, 10*time.Second, 5*time.Millisecond, "the injected packet was not read")
	time.Sleep(50 * time.Millisecond)
}

func (p *zzHuntC03n3Pair) serverCumTSN() uint32 {
	p.server.lock.RLock()
	defer p.server.lock.RUnlock()

	return p.server.peerLastTSN()
}

// openStreams makes the client send a first message on stream 1 and the server read it.
func (p *zzHuntC03n3Pair) openStreams(t *testing.T) (*Stream, *Stream) {
	t.Helper()

	cs, err := p.client.OpenStream(1, PayloadTypeWebRTCBinary)
	require.NoError(t, err)
	_, err = cs.Write([]byte("first"))
	require.NoError(t, err)

	acceptCh := make(chan *Stream, 1)
	go func() {
		s, _ := p.server.AcceptStream()
		acceptCh <- s
	}()
	var ss *Stream
	select {
	case ss = <-acceptCh:
		require.NotNil(t, ss)
	case <-time.After(20 * time.Second):
		require.FailNow(t, "stream not accepted")
	}

	buf := make([]byte, 1500)
	require.NoError(t, ss.SetReadDeadline(time.Now().Add(20*time.Second)))
	n, err := ss.Read(buf)
	require.NoError(t, err)
	require.Equal(t, "first", string(buf[:n]))
	require.NoError(t, ss.SetReadDeadline(time.Time{}))

	require.Eventually(t, func() bool { return p.client.BufferedAmount() == 0 },
		20*time.Second, 5*time.Millisecond)

	return cs, ss
}

func (p *zzHuntC03n3Pair) close() {
	_ = p.client.Close()
	_ = p.server.Close()
}

func zzHuntC03n3ReadWithin(t *testing.T, s *Stream, d time.Duration) (string, error) {
	t.Helper()

	buf := make([]byte, 1500)
	require.NoError(t, s.SetReadDeadline(time.Now().Add(d)))
	n, err := s.Read(buf)

	return string(buf[:n]), err
}


func TestZZHuntC03_3_ResetRequestsHalfSpaceAwayBypassCap(t *testing.T) {
	p := zzHuntC03n3NewPair(t, true)
	defer p.close()

	cs, ss := p.openStreams(t)

	const nRequests = 3 * maxReconfigRequests
	cum := p.serverCumTSN()

	// 3000 outgoing reset requests (for streams that do not exist), 100 per packet.
	rsn := uint32(1)
	for sent := 0; sent < nRequests; {
		var chunks []chunk
		for i := 0; i < 50; i++ {
			c := &chunkReconfig{}
			c.paramA = &paramOutgoingResetRequest{
				reconfigRequestSequenceNumber: rsn, senderLastTSN: cum + 1<<31, streamIdentifiers: []uint16{1000},
			}
			rsn++
			c.paramB = &paramOutgoingResetRequest{
				reconfigRequestSequenceNumber: rsn, senderLastTSN: cum + 1<<31, streamIdentifiers: []uint16{1000},
			}
			rsn++
			chunks = append(chunks, c)
			sent += 2
		}
		p.injectIntoServer(t, chunks...)
	}
	require.Equal(t, established, p.server.getState())
	require.Equal(t, cum, p.serverCumTSN())

	p.server.lock.RLock()
	stored := len(p.server.reconfigRequests)
	p.server.lock.RUnlock()

	// let the answers to the requests themselves drain
	time.Sleep(500 * time.Millisecond)
	sentBefore := p.server.stats.getNumPacketsSent()
	recvBefore := p.server.stats.getNumPacketsReceived()

	// one small message from the peer: one packet with one DATA chunk
	_, err := cs.Write([]byte("x"))
	require.NoError(t, err)
	got, err := zzHuntC03n3ReadWithin(t, ss, 20*time.Second)
	require.NoError(t, err)
	require.Equal(t, "x", got)
	time.Sleep(time.Second)

	sentFor := p.server.stats.getNumPacketsSent() - sentBefore
	recvd := p.server.stats.getNumPacketsReceived() - recvBefore
	t.Logf("stored reset requests: %d (cap %d); inbound packets: %d, outbound packets in answer: %d",
		stored, maxReconfigRequests, recvd, sentFor)

	require.LessOrEqualf(t, stored, maxReconfigRequests,
		"the endpoint holds %d outstanding reset requests, its own bound is %d", stored, maxReconfigRequests)
	require.LessOrEqualf(t, sentFor, uint64(maxReconfigRequests+10),
		"one inbound DATA chunk was answered with %d packets", sentFor)
}
