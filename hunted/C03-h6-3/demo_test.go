package sctp

import (
	"errors"
	"net"
	"sort"
	"sync"
	"testing"
	"time"

	"github.com/pion/logging"
)

// hc03cConn is an in-memory net.Conn whose other end is driven by the test.
type hc03cConn struct {
	in        chan []byte // test -> association
	out       chan []byte // association -> test
	closed    chan struct{}
	closeOnce sync.Once
}

func newHC03cConn() *hc03cConn {
	return &hc03cConn{in: make(chan []byte, 1024), out: make(chan []byte, 1024), closed: make(chan struct{})}
}

func (c *hc03cConn) Read(p []byte) (int, error) {
	select {
	case b := <-c.in:
		return copy(p, b), nil
	case <-c.closed:
		return 0, errors.New("hc03cConn closed")
	}
}

func (c *hc03cConn) Write(p []byte) (int, error) {
	b := append([]byte(nil), p...)
	select {
	case c.out <- b:
		return len(p), nil
	case <-c.closed:
		return 0, errors.New("hc03cConn closed")
	}
}

func (c *hc03cConn) Close() error                     { c.closeOnce.Do(func() { close(c.closed) }); return nil }
func (c *hc03cConn) LocalAddr() net.Addr              { return nil }
func (c *hc03cConn) RemoteAddr() net.Addr             { return nil }
func (c *hc03cConn) SetDeadline(time.Time) error      { return nil }
func (c *hc03cConn) SetReadDeadline(time.Time) error  { return nil }
func (c *hc03cConn) SetWriteDeadline(time.Time) error { return nil }

func (c *hc03cConn) inject(t *testing.T, p *packet) {
	t.Helper()
	raw, err := p.marshal(true)
	if err != nil {
		t.Fatalf("marshal: %v", err)
	}
	if len(raw) > int(receiveMTU) {
		t.Fatalf("test packet too large: %d", len(raw))
	}
	c.in <- raw
}

// next returns the next outbound packet containing a chunk accepted by match, or nil after d.
func (c *hc03cConn) next(t *testing.T, d time.Duration, match func(chunk) bool) (*packet, chunk) {
	t.Helper()
	deadline := time.After(d)
	for {
		select {
		case raw := <-c.out:
			p := &packet{}
			if err := p.unmarshal(true, raw); err != nil {
				t.Fatalf("association sent an unparsable packet: %v", err)
			}
			for _, ch := range p.chunks {
				if match(ch) {
					return p, ch
				}
			}
		case <-deadline:
			return nil, nil
		}
	}
}

func hc03cEstablish(t *testing.T, conn *hc03cConn) (*Association, uint32) {
	t.Helper()
	type res struct {
		a   *Association
		err error
	}
	done := make(chan res, 1)
	go func() {
		a, err := Client(Config{NetConn: conn, LoggerFactory: logging.NewDefaultLoggerFactory(), Name: "client"})
		done <- res{a, err}
	}()

	initPkt, _ := conn.next(t, 20*time.Second, func(c chunk) bool { _, ok := c.(*chunkInit); return ok })
	if initPkt == nil {
		t.Fatal("no INIT")
	}
	clientTag := initPkt.chunks[0].(*chunkInit).initiateTag //nolint:forcetypeassert

	initAck := &chunkInitAck{}
	initAck.initiateTag = 0x11111111
	initAck.initialTSN = 1000
	initAck.numOutboundStreams = 100
	initAck.numInboundStreams = 100
	initAck.advertisedReceiverWindowCredit = 512 * 1024
	initAck.params = []param{&paramStateCookie{cookie: []byte("peer-cookie-0123456789")}}
	setSupportedExtensions(&initAck.chunkInitCommon, false)
	conn.inject(t, &packet{sourcePort: 5000, destinationPort: 5000, verificationTag: clientTag, chunks: []chunk{initAck}})
	if p, _ := conn.next(t, 20*time.Second, func(c chunk) bool { _, ok := c.(*chunkCookieEcho); return ok }); p == nil {
		t.Fatal("no COOKIE ECHO")
	}
	conn.inject(t, &packet{sourcePort: 5000, destinationPort: 5000, verificationTag: clientTag, chunks: []chunk{&chunkCookieAck{}}})
	select {
	case r := <-done:
		if r.err != nil {
			t.Fatalf("handshake failed: %v", r.err)
		}

		return r.a, clientTag
	case <-time.After(20 * time.Second):
		t.Fatal("handshake did not complete")
	}

	return nil, 0
}

func hc03cIsSack(c chunk) bool  { _, ok := c.(*chunkSelectiveAck); return ok }
func hc03cIsAbort(c chunk) bool { _, ok := c.(*chunkAbort); return ok }

// DATA chunks that carry no user data (chunk length 16; RFC 9260 6.2: "MUST send an ABORT
// with a No User Data error cause") are accepted, queued and delivered. They are invisible
// to the receive window accounting, so nothing bounds how many of them the reassembly queue
// holds, and every further chunk re-sorts the whole queue: the time to process one inbound
// packet grows without bound while the advertised window stays wide open.
func TestHuntC03_3_DataWithoutUserDataIsQueuedWithoutBound(t *testing.T) {
	conn := newHC03cConn()
	assoc, tag := hc03cEstablish(t, conn)
	defer assoc.Close() //nolint:errcheck

	tsn := uint32(1000)

	// --- part 1: one DATA chunk without user data -----------------------------------
	conn.inject(t, &packet{
		sourcePort: 5000, destinationPort: 5000, verificationTag: tag,
		chunks: []chunk{&chunkPayloadData{
			tsn: tsn, streamIdentifier: 1, streamSequenceNumber: 0,
			beginningFragment: true, endingFragment: true, immediateSack: true,
			payloadType: PayloadTypeWebRTCBinary, userData: []byte{},
		}},
	})
	tsn++
	p, ch := conn.next(t, 20*time.Second, func(c chunk) bool { return hc03cIsSack(c) || hc03cIsAbort(c) })
	if p == nil {
		t.Fatal("no reaction to the DATA chunk")
	}
	if hc03cIsAbort(ch) {
		t.Log("DATA without user data answered with ABORT: fine")

		return
	}
	accepted := make(chan *Stream, 1)
	go func() {
		if s, err := assoc.AcceptStream(); err == nil {
			accepted <- s
		}
	}()
	select {
	case s := <-accepted:
		buf := make([]byte, 16)
		_ = s.SetReadDeadline(time.Now().Add(5 * time.Second))
		n, ppi, err := s.ReadSCTP(buf)
		if err == nil {
			t.Errorf("the chunk was delivered to the application as a message of %d bytes (ppi=%d)", n, ppi)
		}
	case <-time.After(2 * time.Second):
	}

	// --- part 2: many of them ---------------------------------------------------------
	// Stream 2, ordered, sequence numbers 1.. (message 0 never comes, so nothing is ever
	// readable and no reader could drain the queue). 500 chunks per 8 KB packet.
	const (
		nPackets        = 100
		chunksPerPacket = 500
	)
	durations := make([]time.Duration, 0, nPackets)
	var lastSack *chunkSelectiveAck
	for i := 0; i < nPackets; i++ {
		pkt := &packet{sourcePort: 5000, destinationPort: 5000, verificationTag: tag}
		for k := 0; k < chunksPerPacket; k++ {
			pkt.chunks = append(pkt.chunks, &chunkPayloadData{
				tsn: tsn, streamIdentifier: 2, streamSequenceNumber: uint16(1 + (int(tsn)-1001)%30000), //nolint:gosec
				beginningFragment: true, endingFragment: true, immediateSack: k == chunksPerPacket-1,
				payloadType: PayloadTypeWebRTCBinary, userData: []byte{},
			})
			tsn++
		}
		start := time.Now()
		conn.inject(t, pkt)
		// the SACK for this packet: its cumulative TSN ack covers the last chunk
		acked := false
		waitUntil := time.Now().Add(30 * time.Second)
		for time.Now().Before(waitUntil) {
			_, c := conn.next(t, time.Until(waitUntil), func(c chunk) bool { return hc03cIsSack(c) || hc03cIsAbort(c) })
			if c == nil {
				break // no (matching) reaction: the chunks were dropped
			}
			if hc03cIsAbort(c) {
				t.Log("DATA without user data answered with ABORT: fine")

				return
			}
			lastSack = c.(*chunkSelectiveAck) //nolint:forcetypeassert
			if lastSack.cumulativeTSNAck == tsn-1 {
				acked = true

				break
			}
		}
		if !acked {
			t.Logf("packet %d: chunks without user data not acknowledged (dropped)", i)

			break
		}
		durations = append(durations, time.Since(start))
	}
	if len(durations) < nPackets {
		assoc.lock.RLock()
		queued := 0
		if s, ok := assoc.streams[2]; ok {
			queued = len(s.reassemblyQueue.ordered)
		}
		assoc.lock.RUnlock()
		if queued > chunksPerPacket {
			t.Errorf("%d DATA chunks without user data queued", queued)
		}

		return
	}

	med := func(d []time.Duration) time.Duration {
		s := append([]time.Duration(nil), d...)
		sort.Slice(s, func(i, j int) bool { return s[i] < s[j] })

		return s[len(s)/2]
	}
	early, late := med(durations[:10]), med(durations[nPackets-10:])

	assoc.lock.RLock()
	queued := 0
	if s, ok := assoc.streams[2]; ok {
		queued = len(s.reassemblyQueue.ordered)
	}
	credit := assoc.getMyReceiverWindowCredit()
	assoc.lock.RUnlock()

	t.Logf("after %d packets (%d bytes on the wire each): %d chunks queued in the reassembly queue of stream 2, "+
		"advertised a_rwnd=%d (receive buffer %d), time from packet to SACK: first ten %v, last ten %v",
		nPackets, 12+chunksPerPacket*16, queued, lastSack.advertisedReceiverWindowCredit, assoc.maxReceiveBufferSize, early, late)

	if queued >= nPackets*chunksPerPacket && lastSack.advertisedReceiverWindowCredit == assoc.maxReceiveBufferSize && credit == assoc.maxReceiveBufferSize {
		t.Errorf("%d DATA chunks without user data are held in the reassembly queue and the receive window is still "+
			"fully open (a_rwnd=%d): nothing bounds the queue", queued, lastSack.advertisedReceiverWindowCredit)
	}
	if late > 10*early {
		t.Errorf("processing one inbound packet of the same size took %v at the start and %v after %d packets: "+
			"the time per packet grows with the number of packets received before", early, late, nPackets)
	}
}
