// SPDX-FileCopyrightText: 2026 The Pion community <https://pion.ly>
// SPDX-License-Identifier: MIT

package sctp

import (
	"errors"
	"io"
	"net"
	"strings"
	"sync"
	"sync/atomic"
	"testing"
	"time"

	"github.com/pion/logging"
)

// ---------------------------------------------------------------------------
// a minimal in-memory datagram connection pair (self contained)
// ---------------------------------------------------------------------------

type huntC09n3Conn struct {
	mu     sync.Mutex
	cond   *sync.Cond
	queue  [][]byte
	closed bool
	peer   *huntC09n3Conn
	drop   func(raw []byte) bool // outbound filter: true = lose the packet
}

func newHuntC09n3ConnPair() (*huntC09n3Conn, *huntC09n3Conn) {
	a := &huntC09n3Conn{}
	b := &huntC09n3Conn{}
	a.cond = sync.NewCond(&a.mu)
	b.cond = sync.NewCond(&b.mu)
	a.peer, b.peer = b, a

	return a, b
}

func (c *huntC09n3Conn) Read(p []byte) (int, error) {
	c.mu.Lock()
	defer c.mu.Unlock()
	for {
		if len(c.queue) > 0 {
			pkt := c.queue[0]
			c.queue = c.queue[1:]

			return copy(p, pkt), nil
		}
		if c.closed {
			return 0, io.EOF
		}
		c.cond.Wait()
	}
}

func (c *huntC09n3Conn) Write(p []byte) (int, error) {
	c.mu.Lock()
	closed := c.closed
	c.mu.Unlock()
	if closed {
		return 0, net.ErrClosed
	}
	cp := append([]byte(nil), p...)
	if c.drop != nil && c.drop(cp) {
		return len(p), nil
	}
	c.peer.mu.Lock()
	if !c.peer.closed {
		c.peer.queue = append(c.peer.queue, cp)
		c.peer.cond.Broadcast()
	}
	c.peer.mu.Unlock()

	return len(p), nil
}

func (c *huntC09n3Conn) Close() error {
	c.mu.Lock()
	c.closed = true
	c.cond.Broadcast()
	c.mu.Unlock()

	return nil
}

func (c *huntC09n3Conn) LocalAddr() net.Addr              { return &net.UDPAddr{} }
func (c *huntC09n3Conn) RemoteAddr() net.Addr             { return &net.UDPAddr{} }
func (c *huntC09n3Conn) SetDeadline(time.Time) error      { return nil }
func (c *huntC09n3Conn) SetReadDeadline(time.Time) error  { return nil }
func (c *huntC09n3Conn) SetWriteDeadline(time.Time) error { return nil }

func huntC09n3Pair(t *testing.T, cfgA, cfgB Config) (*Association, *Association) {
	t.Helper()

	ca, cb := newHuntC09n3ConnPair()
	type res struct {
		a   *Association
		err error
	}
	chA := make(chan res, 1)
	chB := make(chan res, 1)
	lf := logging.NewDefaultLoggerFactory()
	cfgA.Name, cfgA.NetConn, cfgA.LoggerFactory = "A", ca, lf
	cfgB.Name, cfgB.NetConn, cfgB.LoggerFactory = "B", cb, lf
	go func() {
		a, err := Client(cfgA)
		chA <- res{a, err}
	}()
	go func() {
		b, err := Server(cfgB)
		chB <- res{b, err}
	}()

	var a, b *Association
	for a == nil || b == nil {
		select {
		case r := <-chA:
			if r.err != nil {
				t.Fatalf("client handshake: %v", r.err)
			}
			a = r.a
		case r := <-chB:
			if r.err != nil {
				t.Fatalf("server handshake: %v", r.err)
			}
			b = r.a
		case <-time.After(20 * time.Second):
			t.Fatal("handshake did not complete")
		}
	}

	return a, b
}

// Property C09: "An ABORT sent by one side closes the other side with an error that
// carries the abort cause", for every point of the handshake, with callers blocked in
// every API call (here: connect).
//
// The server side is established as soon as it has received COOKIE ECHO. If its
// COOKIE ACK is lost, the client is still inside Client() (COOKIE-ECHOED) when the
// server application calls Abort("..."). The ABORT is received, parsed and ends the
// client association - but the error handed to the blocked connect call is the fixed
// ErrAssociationClosedBeforeConn: the abort cause is thrown away.
func TestHuntC09n3_AbortCauseLostForPeerStillInHandshake(t *testing.T) {
	const reason = "go away: C09 hunt"

	ca, cb := newHuntC09n3ConnPair()

	// the network loses every COOKIE ACK the server sends
	var droppedCookieAcks, abortsOnWire int32
	cb.drop = func(raw []byte) bool {
		p := &packet{}
		if err := p.unmarshal(false, raw); err != nil {
			return false
		}
		for _, c := range p.chunks {
			if _, ok := c.(*chunkAbort); ok {
				atomic.AddInt32(&abortsOnWire, 1)
			}
			if _, ok := c.(*chunkCookieAck); ok {
				atomic.AddInt32(&droppedCookieAcks, 1)

				return true
			}
		}

		return false
	}

	lf := logging.NewDefaultLoggerFactory()

	type res struct {
		a   *Association
		err error
	}
	clientDone := make(chan res, 1)
	go func() {
		a, err := Client(Config{Name: "A", NetConn: ca, LoggerFactory: lf})
		clientDone <- res{a, err}
	}()

	b, err := Server(Config{Name: "B", NetConn: cb, LoggerFactory: lf})
	if err != nil {
		t.Fatalf("server: %v", err)
	}

	// the server application does not want this peer
	b.Abort(reason)

	var r res
	select {
	case r = <-clientDone:
	case <-time.After(20 * time.Second):
		t.Fatal("Client() did not return after the peer's ABORT")
	}
	if atomic.LoadInt32(&droppedCookieAcks) == 0 {
		t.Fatal("test assumption broken: no COOKIE ACK was dropped")
	}
	if atomic.LoadInt32(&abortsOnWire) != 1 {
		t.Fatalf("test assumption broken: %d ABORT packets went to the client, expected 1", abortsOnWire)
	}
	if r.err == nil {
		_ = r.a.Close()
		t.Fatal("test assumption broken: the client handshake completed")
	}

	t.Logf("Client() returned: %v", r.err)
	if !errors.Is(r.err, ErrChunk) && !strings.Contains(r.err.Error(), reason) {
		t.Errorf("the connect call was ended by the peer's ABORT (User Initiated Abort, reason %q), "+
			"but its error does not carry the abort cause: %v", reason, r.err)
	}
}
