// SPDX-FileCopyrightText: 2026 The Pion community <https://pion.ly>
// SPDX-License-Identifier: MIT

package sctp

import (
	"io"
	"net"
	"sync"
	"sync/atomic"
	"testing"
	"time"

	"github.com/pion/logging"
)

// ---- a loss-free, in-order, in-memory datagram pipe (no faults at all) ----

type huntC021Conn struct {
	mu     sync.Mutex
	cond   *sync.Cond
	pkts   [][]byte
	closed bool
	peer   *huntC021Conn
}

func newHuntC021Pipe() (*huntC021Conn, *huntC021Conn) {
	a, b := &huntC021Conn{}, &huntC021Conn{}
	a.cond, b.cond = sync.NewCond(&a.mu), sync.NewCond(&b.mu)
	a.peer, b.peer = b, a

	return a, b
}

func (c *huntC021Conn) Read(p []byte) (int, error) {
	c.mu.Lock()
	defer c.mu.Unlock()
	for {
		if len(c.pkts) > 0 {
			pkt := c.pkts[0]
			c.pkts = c.pkts[1:]

			return copy(p, pkt), nil
		}
		if c.closed {
			return 0, io.EOF
		}
		c.cond.Wait()
	}
}

func (c *huntC021Conn) Write(p []byte) (int, error) {
	c.mu.Lock()
	closed := c.closed
	c.mu.Unlock()
	if closed {
		return 0, io.ErrClosedPipe
	}
	cp := append([]byte(nil), p...)
	c.peer.mu.Lock()
	if !c.peer.closed {
		c.peer.pkts = append(c.peer.pkts, cp)
		c.peer.cond.Broadcast()
	}
	c.peer.mu.Unlock()

	return len(p), nil
}

func (c *huntC021Conn) Close() error {
	c.mu.Lock()
	c.closed = true
	c.cond.Broadcast()
	c.mu.Unlock()

	return nil
}

func (c *huntC021Conn) LocalAddr() net.Addr                { return &net.UDPAddr{} }
func (c *huntC021Conn) RemoteAddr() net.Addr               { return &net.UDPAddr{} }
func (c *huntC021Conn) SetDeadline(time.Time) error      { return nil }
func (c *huntC021Conn) SetReadDeadline(time.Time) error  { return nil }
func (c *huntC021Conn) SetWriteDeadline(time.Time) error { return nil }

// TestHuntC02_1_InterleavedMessagesFillReceiveBuffer:
//
// Completely default configuration on both sides (user message interleaving is
// negotiated by default, receive buffer 1 MiB, max message size 64 KiB), a perfect
// network (no loss, no reordering, no duplication), and an application that
// accepts every stream and reads every stream continuously with a big enough
// buffer. The client writes ONE 64 KiB message on each of 20 reliable, ordered
// streams. Every single message is 16 times smaller than the receive buffer.
//
// Property C02 demands that every message is delivered and the sender drains to
// zero buffered bytes in bounded time. Instead the association stalls for ever:
// the sender's scheduler interleaves the 20 messages fragment by fragment, the
// receiver accepts fragments until its 1 MiB buffer is full of 20 incomplete
// messages (none readable), advertises a_rwnd=0 and from then on drops every
// further fragment, including the zero window probes.
func TestHuntC02_1_InterleavedMessagesFillReceiveBuffer(t *testing.T) {
	const (
		nStreams = 20
		msgSize  = 65536
		rtoMaxMs = 1000 // keeps "a few maximum RTOs" short; does not change the outcome
		waitFor  = 25 * time.Second
	)

	c0, c1 := newHuntC021Pipe()
	lf := logging.NewDefaultLoggerFactory()

	type res struct {
		a   *Association
		err error
	}
	srvCh := make(chan res, 1)
	go func() {
		a, err := ServerWithOptions(WithNetConn(c1), WithLoggerFactory(lf), WithName("server"), WithRTOMax(rtoMaxMs))
		srvCh <- res{a, err}
	}()
	client, err := ClientWithOptions(WithNetConn(c0), WithLoggerFactory(lf), WithName("client"), WithRTOMax(rtoMaxMs))
	if err != nil {
		t.Fatalf("client: %v", err)
	}
	sr := <-srvCh
	if sr.err != nil {
		t.Fatalf("server: %v", sr.err)
	}
	server := sr.a
	defer func() {
		_ = client.Close()
		_ = server.Close()
	}()

	if md, ok := client.Metadata(); !ok || !md.MessageInterleavingEnabled {
		t.Skipf("interleaving not negotiated by default: %+v", md)
	}

	// Receiving application: accept everything, read everything, for ever.
	var delivered int32
	go func() {
		for {
			s, aerr := server.AcceptStream()
			if aerr != nil {
				return
			}
			go func() {
				buf := make([]byte, 2*msgSize)
				for {
					n, rerr := s.Read(buf)
					if rerr != nil {
						return
					}
					if n == msgSize {
						atomic.AddInt32(&delivered, 1)
					}
				}
			}()
		}
	}()

	// Sending application: one message per stream.
	msg := make([]byte, msgSize)
	for i := 0; i < nStreams; i++ {
		s, oerr := client.OpenStream(uint16(i), PayloadTypeWebRTCBinary) //nolint:gosec
		if oerr != nil {
			t.Fatalf("open: %v", oerr)
		}
		if _, werr := s.Write(msg); werr != nil {
			t.Fatalf("write: %v", werr)
		}
	}

	deadline := time.Now().Add(waitFor)
	for time.Now().Before(deadline) {
		if atomic.LoadInt32(&delivered) == nStreams && client.BufferedAmount() == 0 {
			return // property holds
		}
		time.Sleep(100 * time.Millisecond)
	}

	server.lock.RLock()
	credit := server.getMyReceiverWindowCredit()
	server.lock.RUnlock()
	t.Fatalf("stalled after %v on a perfect network: delivered %d of %d messages, "+
		"sender still buffers %d bytes (peer rwnd as seen by sender=%d), receiver window credit=%d, T3 timeouts so far=%d",
		waitFor, atomic.LoadInt32(&delivered), nStreams, client.BufferedAmount(), client.RWND(), credit,
		client.stats.getNumT3Timeouts())
}
