// SPDX-FileCopyrightText: 2026 The Pion community <https://pion.ly>
// SPDX-License-Identifier: MIT

package sctp

import (
	"sync"
	"testing"
	"time"

	"github.com/pion/transport/v4/test"
	"github.com/stretchr/testify/require"
)

// C06 / finding 1
//
// A partially reliable stream writes ONE message that is larger than the
// congestion window, so that only its first fragments fit into the first flight
// (32 KiB = 28 fragments, the initial cwnd admits 3). The path loses every DATA
// packet for 1.5 s and then heals.
//
// Property: "Retransmission stops when the policy is exhausted: under a
// retransmission limit N a chunk is put on the wire at most N+1 times, and once a
// lifetime limit has expired at most one further transmission of the message
// occurs" - quantified over all message sizes.
//
// Observed: the fragments of the first flight are retransmitted on every T3-rtx
// expiry for as long as the loss lasts, whatever the policy says. The library
// does not treat a message as abandoned before all of its fragments have been
// given a TSN (chunkPayloadData.abandoned() requires head._allInflight), and the
// remaining fragments cannot get a TSN because the lost ones occupy the window.
func TestHuntC06_1_PolicyIgnoredForMessageLargerThanCwnd(t *testing.T) {
	t.Run("rexmit-limit-0", func(t *testing.T) {
		res := huntC06Run1(t, ReliabilityTypeRexmit, 0)
		require.LessOrEqualf(t, res.maxPerTSN, 1,
			"rexmit limit N=0 allows 1 transmission per chunk, but TSN %d was put on the wire %d times",
			res.worstTSN, res.maxPerTSN)
	})
	t.Run("lifetime-50ms", func(t *testing.T) {
		res := huntC06Run1(t, ReliabilityTypeTimed, 50)
		// most conservative reading: only count RE-transmissions (a TSN that had been on
		// the wire before) made after the lifetime had certainly expired.
		require.LessOrEqualf(t, res.rtxAfterExpiry, 1,
			"lifetime 50 ms: at most one further transmission after expiry, but %d retransmissions "+
				"(and %d transmissions in total) of the message were made after it",
			res.rtxAfterExpiry, res.txAfterExpiry)
	})
}

type huntC06Result1 struct {
	maxPerTSN      int
	worstTSN       uint32
	rtxAfterExpiry int
	txAfterExpiry  int
}

func huntC06Run1(t *testing.T, relType byte, relVal uint32) huntC06Result1 {
	t.Helper()

	lim := test.TimeOut(60 * time.Second)
	defer lim.Stop()

	const si uint16 = 7
	br := test.NewBridge()

	a0, a1, err := createNewAssociationPair(br, ackModeNoDelay, 0)
	require.NoError(t, err)

	s0, _, err := establishSessionPair(br, a0, a1, si)
	require.NoError(t, err)

	// keep the run short: T3-rtx starts at 100 ms
	a0.rtoMgr.setRTO(100.0, true)

	s0.SetReliabilityParams(false, relType, relVal)

	var (
		mu        sync.Mutex
		wireCount = map[uint32]int{} // TSN -> number of times seen on the wire (a0 -> a1)
		lossOn    = true
		firstTx   time.Time
		res       huntC06Result1
	)
	// generous: the library's own clock for the message started before the first
	// packet reached this filter
	expiry := time.Duration(relVal)*time.Millisecond + 30*time.Millisecond

	br.Filter(0, func(raw []byte) bool {
		p := &packet{}
		if err := p.unmarshal(true, raw); err != nil {
			return true
		}
		hasData := false
		now := time.Now()
		mu.Lock()
		defer mu.Unlock()
		for _, c := range p.chunks {
			d, ok := c.(*chunkPayloadData)
			if !ok || d.streamIdentifier != si || d.payloadType != PayloadTypeWebRTCBinary {
				continue
			}
			hasData = true
			if firstTx.IsZero() {
				firstTx = now
			}
			if now.Sub(firstTx) > expiry {
				res.txAfterExpiry++
				if wireCount[d.tsn] > 0 {
					res.rtxAfterExpiry++
				}
			}
			wireCount[d.tsn]++
		}

		return !(hasData && lossOn)
	})

	// pump the bridge in the background
	stop := make(chan struct{})
	var wg sync.WaitGroup
	wg.Add(1)
	go func() {
		defer wg.Done()
		for {
			select {
			case <-stop:
				return
			default:
			}
			br.Tick()
			time.Sleep(time.Millisecond)
		}
	}()

	msg := make([]byte, 32*1024)
	for i := range msg {
		msg[i] = byte(i)
	}
	n, err := s0.WriteSCTP(msg, PayloadTypeWebRTCBinary)
	require.NoError(t, err)
	require.Equal(t, len(msg), n)

	// the path loses every DATA packet for 1.5 s, then heals
	time.Sleep(1500 * time.Millisecond)
	mu.Lock()
	lossOn = false
	mu.Unlock()

	// wait until the sender has nothing left to do (delivered or abandoned)
	deadline := time.Now().Add(30 * time.Second)
	for a0.BufferedAmount() > 0 && time.Now().Before(deadline) {
		time.Sleep(20 * time.Millisecond)
	}
	time.Sleep(500 * time.Millisecond)

	close(stop)
	wg.Wait()

	mu.Lock()
	total := 0
	for tsn, c := range wireCount {
		total += c
		if c > res.maxPerTSN {
			res.maxPerTSN, res.worstTSN = c, tsn
		}
	}
	out := res
	nTSN := len(wireCount)
	mu.Unlock()

	t.Logf("type=%d value=%d: distinct TSNs=%d transmissions=%d worst TSN=%d seen %d times; "+
		"after expiry: %d transmissions of which %d retransmissions",
		relType, relVal, nTSN, total, out.worstTSN, out.maxPerTSN, out.txAfterExpiry, out.rtxAfterExpiry)
	require.NotZero(t, nTSN, "the test must have observed DATA chunks")

	closeAssociationPair(br, a0, a1)

	return out
}
