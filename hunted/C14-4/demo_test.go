package sctp

import (
	"errors"
	"io"
	"net"
	"sync"
	"testing"
	"time"

	"github.com/pion/logging"
)

// ---- minimal in-memory packet link with a per-direction filter ----

type h4Link struct {
	mu     sync.Mutex
	filter [2]func(raw []byte) bool // return false to swallow the packet
	conns  [2]*h4Conn
}

type h4Conn struct {
	id     int
	link   *h4Link
	inbox  chan []byte
	closed chan struct{}
	once   sync.Once
}

func newH4Link() *h4Link {
	l := &h4Link{}
	for i := 0; i < 2; i++ {
		l.conns[i] = &h4Conn{id: i, link: l, inbox: make(chan []byte, 1<<16), closed: make(chan struct{})}
	}

	return l
}

func (l *h4Link) setFilter(from int, f func(raw []byte) bool) {
	l.mu.Lock()
	l.filter[from] = f
	l.mu.Unlock()
}

func (l *h4Link) deliver(from int, raw []byte) {
	peer := l.conns[1-from]
	select {
	case peer.inbox <- raw:
	case <-peer.closed:
	}
}

func (c *h4Conn) Read(p []byte) (int, error) {
	select {
	case raw := <-c.inbox:
		return copy(p, raw), nil
	case <-c.closed:
		return 0, io.EOF
	}
}

func (c *h4Conn) Write(p []byte) (int, error) {
	select {
	case <-c.closed:
		return 0, io.ErrClosedPipe
	default:
	}
	raw := append([]byte(nil), p...)
	c.link.mu.Lock()
	f := c.link.filter[c.id]
	c.link.mu.Unlock()
	if f == nil || f(raw) {
		c.link.deliver(c.id, raw)
	}

	return len(p), nil
}

func (c *h4Conn) Close() error {
	c.once.Do(func() { close(c.closed) })

	return nil
}
func (c *h4Conn) LocalAddr() net.Addr              { return &net.IPAddr{} }
func (c *h4Conn) RemoteAddr() net.Addr             { return &net.IPAddr{} }
func (c *h4Conn) SetDeadline(time.Time) error      { return nil }
func (c *h4Conn) SetReadDeadline(time.Time) error  { return nil }
func (c *h4Conn) SetWriteDeadline(time.Time) error { return nil }

func h4Pair(t *testing.T, l *h4Link, cfgA, cfgB Config) (*Association, *Association) {
	t.Helper()
	lf := logging.NewDefaultLoggerFactory()
	cfgA.LoggerFactory, cfgB.LoggerFactory = lf, lf
	cfgA.NetConn, cfgB.NetConn = l.conns[0], l.conns[1]
	cfgA.Name, cfgB.Name = "A", "B"
	type res struct {
		a   *Association
		err error
	}
	chA := make(chan res, 1)
	chB := make(chan res, 1)
	go func() {
		a, err := Client(cfgA)
		chA <- res{a, err}
	}()
	go func() {
		a, err := Server(cfgB)
		chB <- res{a, err}
	}()
	var a, b *Association
	for a == nil || b == nil {
		select {
		case r := <-chA:
			if r.err != nil {
				t.Fatalf("client: %v", r.err)
			}
			a = r.a
		case r := <-chB:
			if r.err != nil {
				t.Fatalf("server: %v", r.err)
			}
			b = r.a
		case <-time.After(30 * time.Second):
			t.Fatalf("handshake timeout")
		}
	}

	return a, b
}

// h4ReadAll reads messages until an error (EOF) or the timeout.
func h4ReadAll(s *Stream, timeout time.Duration) ([][]byte, error) {
	var msgs [][]byte
	buf := make([]byte, 70000)
	_ = s.SetReadDeadline(time.Now().Add(timeout))
	for {
		n, _, err := s.ReadSCTP(buf)
		if err != nil {
			return msgs, err
		}
		msgs = append(msgs, append([]byte(nil), buf[:n]...))
	}
}

// Stream 1 is closed; the packet with its reset request is lost (and so is its first
// retransmission, should it come that early). Meanwhile the application closes 1001 other
// streams one after the other, each with a reset request of its own, all of them
// delivered and answered. When the retransmission of the first request finally gets
// through, the receiver takes it for "a stale copy of a request performed long ago"
// (peerResetPerformed: rsn < lastPerformedPeerRSN - maxReconfigRequests), answers
// "performed" without resetting anything, the sender forgets the request - and the reader
// of stream 1 never gets EOF.
func TestHuntC14_4_ResetRequestOvertakenBy1001OthersIsNeverPerformed(t *testing.T) {
	l := newH4Link()
	a, b := h4Pair(t, l, Config{}, Config{})
	defer func() {
		_ = a.Close()
		_ = b.Close()
	}()

	s1, err := a.OpenStream(1, PayloadTypeWebRTCBinary)
	if err != nil {
		t.Fatal(err)
	}
	if _, err = s1.Write([]byte("hello")); err != nil {
		t.Fatal(err)
	}
	sb, err := b.AcceptStream()
	if err != nil {
		t.Fatal(err)
	}
	for a.BufferedAmount() != 0 {
		time.Sleep(time.Millisecond)
	}

	var mu sync.Mutex
	var firstRSN uint32
	haveFirst := false
	blocking := true
	others := map[uint32]bool{}
	dropped := 0
	l.setFilter(0, func(raw []byte) bool {
		p := &packet{}
		if err := p.unmarshal(false, raw); err != nil {
			return true
		}
		for _, c := range p.chunks {
			rc, ok := c.(*chunkReconfig)
			if !ok {
				continue
			}
			req, ok := rc.paramA.(*paramOutgoingResetRequest)
			if !ok {
				continue
			}
			mu.Lock()
			if !haveFirst {
				haveFirst = true
				firstRSN = req.reconfigRequestSequenceNumber
			}
			isFirst := req.reconfigRequestSequenceNumber == firstRSN
			if !isFirst {
				others[req.reconfigRequestSequenceNumber] = true
			}
			drop := isFirst && blocking
			if drop {
				dropped++
			}
			mu.Unlock()
			if drop {
				return false // lost
			}
		}

		return true
	})

	if err = s1.Close(); err != nil {
		t.Fatal(err)
	}
	for { // the request for stream 1 has left (and was lost)
		mu.Lock()
		ok := haveFirst
		mu.Unlock()
		if ok {
			break
		}
		time.Sleep(time.Millisecond)
	}

	for k := 0; k < 1001; k++ {
		s, err := a.OpenStream(uint16(10+k), PayloadTypeWebRTCBinary)
		if err != nil {
			t.Fatal(err)
		}
		a.lock.RLock()
		rsn0 := a.myNextRSN
		a.lock.RUnlock()
		if err = s.Close(); err != nil {
			t.Fatal(err)
		}
		deadline := time.Now().Add(20 * time.Second)
		for { // its request has been sent and answered: every close is a request of its own
			a.lock.RLock()
			done := a.myNextRSN != rsn0 && len(a.reconfigs) <= 1
			a.lock.RUnlock()
			if done {
				break
			}
			if time.Now().After(deadline) {
				t.Fatalf("close %d not answered", k)
			}
			time.Sleep(50 * time.Microsecond)
		}
	}
	mu.Lock()
	nOthers := len(others)
	nDropped := dropped
	blocking = false // from now on nothing is lost any more
	mu.Unlock()
	if nOthers != 1001 {
		t.Fatalf("test setup: %d separate requests instead of 1001", nOthers)
	}

	msgs, err := h4ReadAll(sb, 30*time.Second)
	if len(msgs) != 1 || string(msgs[0]) != "hello" {
		t.Fatalf("B, stream 1: unexpected messages (%d)", len(msgs))
	}
	if !errors.Is(err, io.EOF) {
		a.lock.RLock()
		defer a.lock.RUnlock()
		t.Fatalf("B, stream 1: the reset request was lost %d time(s) and then delivered, but the reader got %v instead of EOF; "+
			"A has %d unanswered reset requests left (it was told \"performed\")", nDropped, err, len(a.reconfigs))
	}
}
