// SPDX-FileCopyrightText: 2026 The Pion community <https://pion.ly>
// SPDX-License-Identifier: MIT

package sctp

import (
	"errors"
	"io"
	"sync/atomic"
	"testing"
	"time"

	"github.com/pion/transport/v4/test"
	"github.com/stretchr/testify/require"
)

func huntC07Pump2(br *test.Bridge) (stop func()) {
	var done atomic.Bool
	fin := make(chan struct{})
	go func() {
		defer close(fin)
		for !done.Load() {
			if br.Tick() == 0 {
				time.Sleep(time.Millisecond)
			}
		}
	}()

	return func() {
		done.Store(true)
		<-fin
	}
}

// A stream identifier is closed and re-opened (the normal life of a WebRTC data
// channel id) while the SACKs that acknowledge the FORWARD-TSN for the old
// incarnation's abandoned message are lost. When the first message of the new
// incarnation is abandoned as well, the FORWARD-TSN is built from everything
// between the (stale) cumulative ack point and the advanced ack point, i.e. from
// chunks of BOTH incarnations, and reports the old incarnation's large SSN for the
// stream. The peer moves the new incarnation's cursor far beyond the one message
// that was really abandoned, and the following reliable, ordered messages are never
// delivered.
func TestHuntC07_2_ForwardTSNAcrossStreamResetSkipsLiveMessages(t *testing.T) {
	huntC07ForwardTSNAcrossReset(t, true)
}

// Control: the same sequence of events with the SACKs getting through passes.
func TestHuntC07_2_ControlSacksNotLost(t *testing.T) {
	huntC07ForwardTSNAcrossReset(t, false)
}

func huntC07ForwardTSNAcrossReset(t *testing.T, loseSacks bool) { //nolint:cyclop,maintidx
	t.Helper()

	lim := test.TimeOut(time.Second * 90)
	defer lim.Stop()

	const si = uint16(1)

	br := test.NewBridge()
	a0, a1, err := createNewAssociationPair(br, ackModeNoDelay, 0)
	require.NoError(t, err)
	stop := huntC07Pump2(br)
	defer func() {
		br.Filter(0, nil)
		br.Filter(1, nil)
		stop()
		closeAssociationPair(br, a0, a1)
	}()
	a0.rtoMgr.setRTO(100.0, true)
	a1.rtoMgr.setRTO(100.0, true)

	var dropData, dropSack atomic.Bool
	var fwdSeen atomic.Value // last FORWARD-TSN seen on the wire (string)
	br.Filter(0, func(raw []byte) bool {
		p := &packet{}
		if perr := p.unmarshal(true, raw); perr != nil {
			return true
		}
		for _, c := range p.chunks {
			switch cc := c.(type) {
			case *chunkPayloadData:
				if dropData.Load() && cc.streamIdentifier == si {
					return false
				}
			case *chunkForwardTSN:
				fwdSeen.Store(cc.String())
			}
		}

		return true
	})
	br.Filter(1, func(raw []byte) bool {
		p := &packet{}
		if perr := p.unmarshal(true, raw); perr != nil {
			return true
		}
		for _, c := range p.chunks {
			if _, ok := c.(*chunkSelectiveAck); ok && dropSack.Load() {
				return false
			}
		}

		return true
	})

	// --- first incarnation of stream 1: ssn 0..2 are delivered -------------------
	s0, err := a0.OpenStream(si, PayloadTypeWebRTCBinary)
	require.NoError(t, err)
	s0.SetReliabilityParams(false, ReliabilityTypeRexmit, 0) // ordered, no retransmission
	for _, m := range []string{"old-0", "old-1", "old-2"} {
		_, err = s0.WriteSCTP([]byte(m), PayloadTypeWebRTCBinary)
		require.NoError(t, err)
	}
	s1, err := a1.AcceptStream()
	require.NoError(t, err)
	buf := make([]byte, 128)
	for _, m := range []string{"old-0", "old-1", "old-2"} {
		n, rerr := s1.Read(buf)
		require.NoError(t, rerr)
		require.Equal(t, m, string(buf[:n]))
	}
	require.Eventually(t, func() bool { return a0.BufferedAmount() == 0 }, 10*time.Second, 5*time.Millisecond)

	// --- ssn 3 is lost and abandoned; SACKs from the peer start getting lost -------
	dropData.Store(true)
	dropSack.Store(loseSacks)
	_, err = s0.WriteSCTP([]byte("old-3 (abandoned)"), PayloadTypeWebRTCBinary)
	require.NoError(t, err)
	require.Eventually(t, func() bool {
		a0.lock.RLock()
		defer a0.lock.RUnlock()

		return a0.pendingQueue.size() == 0 && a0.inflightQueue.size() == 1
	}, 10*time.Second, time.Millisecond)
	a0.lock.RLock()
	oldTSN := a0.myNextTSN - 1
	a0.lock.RUnlock()

	// the application closes the channel
	require.NoError(t, s0.Close())

	// FORWARD-TSN (on T3-rtx) moves the peer over the abandoned message, then the
	// (retransmitted) reset request is performed: the reader sees EOF.
	n, rerr := s1.Read(buf)
	require.ErrorIs(t, rerr, io.EOF, "got %q", string(buf[:n]))
	a1.lock.RLock()
	require.True(t, sna32GTE(a1.peerLastTSN(), oldTSN))
	a1.lock.RUnlock()

	// the peer closes its half, which unregisters the stream on a0
	require.NoError(t, s1.Close())
	require.Eventually(t, func() bool {
		a0.lock.RLock()
		defer a0.lock.RUnlock()
		_, ok := a0.streams[si]

		return !ok && len(a0.reconfigs) == 0
	}, 10*time.Second, 5*time.Millisecond, "stream was not fully reset")

	if loseSacks {
		// all SACKs were lost: a0 still has the abandoned chunk outstanding
		a0.lock.RLock()
		require.Equal(t, 1, a0.inflightQueue.size())
		require.Equal(t, oldTSN-1, a0.cumulativeTSNAckPoint)
		a0.lock.RUnlock()
	}

	// --- second incarnation: its first message (ssn 0) is lost and abandoned --------
	s0b, err := a0.OpenStream(si, PayloadTypeWebRTCBinary)
	require.NoError(t, err)
	require.NotSame(t, s0, s0b)
	s0b.SetReliabilityParams(false, ReliabilityTypeRexmit, 0)
	_, err = s0b.WriteSCTP([]byte("new-0 (abandoned)"), PayloadTypeWebRTCBinary)
	require.NoError(t, err)

	// next T3-rtx expiry: FORWARD-TSN covering both abandoned chunks reaches the peer
	require.Eventually(t, func() bool {
		a1.lock.RLock()
		defer a1.lock.RUnlock()

		return a1.peerLastTSN() == oldTSN+1
	}, 20*time.Second, 5*time.Millisecond, "second FORWARD-TSN never arrived")
	t.Logf("FORWARD-TSN on the wire (only ssn=0 of the new incarnation was abandoned):\n%v", fwdSeen.Load())

	// --- the network heals ---------------------------------------------------------
	dropData.Store(false)
	dropSack.Store(false)
	require.Eventually(t, func() bool {
		a0.lock.RLock()
		defer a0.lock.RUnlock()

		return a0.inflightQueue.size() == 0
	}, 20*time.Second, 5*time.Millisecond, "abandoned chunks never acknowledged")

	// reliable, ordered messages ssn 1..3 on the new incarnation
	s0b.SetReliabilityParams(false, ReliabilityTypeReliable, 0)
	want := []string{"new-1", "new-2", "new-3"}
	for _, m := range want {
		_, err = s0b.WriteSCTP([]byte(m), PayloadTypeWebRTCBinary)
		require.NoError(t, err)
	}

	accepted := make(chan *Stream, 1)
	go func() {
		for {
			s, aerr := a1.AcceptStream()
			if aerr != nil {
				return
			}
			if s.StreamIdentifier() == si {
				accepted <- s

				return
			}
		}
	}()
	var s1b *Stream
	select {
	case s1b = <-accepted:
	case <-time.After(10 * time.Second):
		require.FailNow(t, "new incarnation never accepted")
	}

	for _, m := range want {
		require.NoError(t, s1b.SetReadDeadline(time.Now().Add(5*time.Second)))
		n, rerr = s1b.Read(buf)
		if errors.Is(rerr, ErrReadDeadlineExceeded) {
			s1b.lock.RLock()
			next := s1b.reassemblyQueue.nextSSN
			s1b.lock.RUnlock()
			a0.lock.RLock()
			unacked := a0.inflightQueue.size()
			a0.lock.RUnlock()
			require.FailNowf(t, "reliable message after the abandoned one never delivered",
				"waiting for %q; receiver cursor nextSSN=%d although only ssn=0 was abandoned on this incarnation; "+
					"sender still has %d chunk(s) outstanding that are never acknowledged", m, next, unacked)
		}
		require.NoError(t, rerr)
		require.Equal(t, m, string(buf[:n]))
	}
}
