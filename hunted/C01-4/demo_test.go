// SPDX-FileCopyrightText: 2026 The Pion community <https://pion.ly>
// SPDX-License-Identifier: MIT

package sctp

import (
	"bytes"
	"io"
	"net"
	"sync"
	"testing"
	"time"

	"github.com/pion/logging"
)

// --- a loss-free, in-order, in-memory datagram pipe (any datagram size) --------------

type huntC01n4Conn struct {
	mu     sync.Mutex
	cond   *sync.Cond
	pkts   [][]byte
	closed bool
	peer   *huntC01n4Conn
	// largest datagram carried / number of datagrams that did not fit the reader's buffer
	maxDatagram int
	nTruncated  int
}

func newHuntC01n4Pipe() (*huntC01n4Conn, *huntC01n4Conn) {
	a, b := &huntC01n4Conn{}, &huntC01n4Conn{}
	a.cond, b.cond = sync.NewCond(&a.mu), sync.NewCond(&b.mu)
	a.peer, b.peer = b, a

	return a, b
}

// Read has datagram semantics (as a UDP socket): one datagram per call, what does not
// fit the caller's buffer is cut off.
func (c *huntC01n4Conn) Read(p []byte) (int, error) {
	c.mu.Lock()
	defer c.mu.Unlock()
	for {
		if len(c.pkts) > 0 {
			pkt := c.pkts[0]
			c.pkts = c.pkts[1:]
			if len(pkt) > len(p) {
				c.nTruncated++
			}

			return copy(p, pkt), nil
		}
		if c.closed {
			return 0, io.EOF
		}
		c.cond.Wait()
	}
}

func (c *huntC01n4Conn) Write(p []byte) (int, error) {
	c.mu.Lock()
	closed := c.closed
	c.mu.Unlock()
	if closed {
		return 0, net.ErrClosed
	}
	cp := append([]byte(nil), p...)
	c.peer.mu.Lock()
	if !c.peer.closed {
		c.peer.pkts = append(c.peer.pkts, cp)
		if len(cp) > c.peer.maxDatagram {
			c.peer.maxDatagram = len(cp)
		}
		c.peer.cond.Signal()
	}
	c.peer.mu.Unlock()

	return len(p), nil
}

func (c *huntC01n4Conn) Close() error {
	c.mu.Lock()
	c.closed = true
	c.cond.Broadcast()
	c.mu.Unlock()

	return nil
}
func (c *huntC01n4Conn) LocalAddr() net.Addr              { return &net.UDPAddr{} }
func (c *huntC01n4Conn) RemoteAddr() net.Addr             { return &net.UDPAddr{} }
func (c *huntC01n4Conn) SetDeadline(time.Time) error      { return nil }
func (c *huntC01n4Conn) SetReadDeadline(time.Time) error  { return nil }
func (c *huntC01n4Conn) SetWriteDeadline(time.Time) error { return nil }

// TestHuntC01_4_MTUAboveInternalReceiveBuffer:
// both endpoints are configured with the same MTU through the public option (9000,
// jumbo frames; the transport carries datagrams of any size, nothing is lost). One
// reliable ordered stream, messages of 1000, 20000 and 500 bytes. All must be delivered.
// The control (MTU 8000) shows that the test itself is sound.
func TestHuntC01_4_MTUAboveInternalReceiveBuffer(t *testing.T) {
	t.Run("control_mtu_8000", func(t *testing.T) { huntC01n4Run(t, 8000) })
	t.Run("mtu_9000", func(t *testing.T) { huntC01n4Run(t, 9000) })
}

func huntC01n4Run(t *testing.T, mtu uint32) {
	t.Helper()

	const wait = 15 * time.Second

	c0, c1 := newHuntC01n4Pipe()
	lf := logging.NewDefaultLoggerFactory()

	type res struct {
		a   *Association
		err error
	}
	ch0, ch1 := make(chan res, 1), make(chan res, 1)
	go func() {
		a, err := ClientWithOptions(WithName("snd"), WithNetConn(c0), WithLoggerFactory(lf), WithMTU(mtu))
		ch0 <- res{a, err}
	}()
	go func() {
		a, err := ServerWithOptions(WithName("rcv"), WithNetConn(c1), WithLoggerFactory(lf), WithMTU(mtu))
		ch1 <- res{a, err}
	}()
	r0, r1 := <-ch0, <-ch1
	if r0.err != nil || r1.err != nil {
		t.Fatalf("handshake: %v %v", r0.err, r1.err)
	}
	snd, rcv := r0.a, r1.a
	defer func() {
		_ = c0.Close()
		_ = c1.Close()
		_ = snd.Close()
		_ = rcv.Close()
	}()

	sizes := []int{1000, 20000, 500}
	sS, err := snd.OpenStream(1, PayloadTypeWebRTCBinary)
	if err != nil {
		t.Fatal(err)
	}
	for i, n := range sizes {
		m := bytes.Repeat([]byte{byte('a' + i)}, n)
		if w, werr := sS.WriteSCTP(m, PayloadTypeWebRTCBinary); werr != nil || w != n {
			t.Fatalf("write %d: n=%d err=%v", i, w, werr)
		}
	}

	type got struct {
		n   int
		ok  bool
		err error
	}
	gotCh := make(chan got, len(sizes))
	go func() {
		sR, aerr := rcv.AcceptStream()
		if aerr != nil {
			gotCh <- got{err: aerr}

			return
		}
		buf := make([]byte, 70000)
		for i := range sizes {
			n, _, rerr := sR.ReadSCTP(buf)
			gotCh <- got{n: n, err: rerr, ok: bytes.Equal(buf[:n], bytes.Repeat([]byte{byte('a' + i)}, sizes[i]))}
			if rerr != nil {
				return
			}
		}
	}()

	deadline := time.After(wait)
	for i := range sizes {
		select {
		case g := <-gotCh:
			if g.err != nil || !g.ok {
				t.Fatalf("message %d: n=%d err=%v intact=%v", i, g.n, g.err, g.ok)
			}
		case <-deadline:
			c1.mu.Lock()
			maxDG, nTrunc := c1.maxDatagram, c1.nTruncated
			c1.mu.Unlock()
			t.Fatalf("MTU=%d: %d of %d accepted messages delivered after %v; sender still buffers %d bytes, "+
				"T3 timeouts=%d; largest datagram sent to the receiver: %d bytes, datagrams cut off by the "+
				"association's read buffer (%d bytes): %d",
				mtu, i, len(sizes), wait, snd.BufferedAmount(), snd.stats.getNumT3Timeouts(),
				maxDG, receiveMTU, nTrunc)
		}
	}
}
