package sctp

// C20 finding 4: in blocking-write mode a Write made from an OnBufferedAmountLow callback
// deadlocks the whole association as soon as the pending queue needs one more SACK to drain:
// the write waits for writeLoop to empty the pending queue, writeLoop waits for SACKs to open
// the congestion window, SACKs are processed by readLoop, and readLoop is the goroutine that
// runs the callback. Nothing is delivered any more, writers on other streams/goroutines block
// for ever - and not even a failure of the transport ends it: writeLoop then exits (closes the
// transport, marks the association closed) without releasing the blocked writers, and readLoop,
// the only one that would release them and the readers, never gets there.

import (
	"bytes"
	"errors"
	"io"
	"net"
	"os"
	"sync"
	"sync/atomic"
	"testing"
	"time"

	"github.com/pion/logging"
)

type h20dConn struct {
	mu         sync.Mutex
	cond       *sync.Cond
	packets    [][]byte
	closed     bool
	peer       *h20dConn
	rdl        time.Time
	failWrites atomic.Bool
}

var errH20dTransport = errors.New("transport failure")

func h20dNewPair() (*h20dConn, *h20dConn) {
	a := &h20dConn{}
	b := &h20dConn{}
	a.cond = sync.NewCond(&a.mu)
	b.cond = sync.NewCond(&b.mu)
	a.peer = b
	b.peer = a

	return a, b
}

func (c *h20dConn) Read(b []byte) (int, error) {
	c.mu.Lock()
	defer c.mu.Unlock()
	for {
		if len(c.packets) > 0 {
			p := c.packets[0]
			c.packets = c.packets[1:]

			return copy(b, p), nil
		}
		if c.closed {
			return 0, io.EOF
		}
		if !c.rdl.IsZero() && !time.Now().Before(c.rdl) {
			return 0, os.ErrDeadlineExceeded
		}
		c.cond.Wait()
	}
}

func (c *h20dConn) Write(b []byte) (int, error) {
	if c.failWrites.Load() {
		return 0, errH20dTransport
	}
	c.mu.Lock()
	closed := c.closed
	c.mu.Unlock()
	if closed {
		return 0, net.ErrClosed
	}
	cp := append([]byte(nil), b...)
	p := c.peer
	p.mu.Lock()
	if !p.closed {
		p.packets = append(p.packets, cp)
		p.cond.Broadcast()
	}
	p.mu.Unlock()

	return len(b), nil
}

func (c *h20dConn) Close() error {
	c.mu.Lock()
	defer c.mu.Unlock()
	c.closed = true
	c.cond.Broadcast()

	return nil
}
func (c *h20dConn) LocalAddr() net.Addr              { return &net.IPAddr{} }
func (c *h20dConn) RemoteAddr() net.Addr             { return &net.IPAddr{} }
func (c *h20dConn) SetDeadline(time.Time) error      { return nil }
func (c *h20dConn) SetWriteDeadline(time.Time) error { return nil }
func (c *h20dConn) SetReadDeadline(t time.Time) error {
	c.mu.Lock()
	defer c.mu.Unlock()
	c.rdl = t
	if !t.IsZero() {
		time.AfterFunc(time.Until(t), func() {
			c.mu.Lock()
			c.cond.Broadcast()
			c.mu.Unlock()
		})
	}
	c.cond.Broadcast()

	return nil
}

// h20dRun returns what was still stuck 10 s after the callback ran with the peer alive and
// well (phase 1), and what was still blocked 10 s after the transport then failed (phase 2).
func h20dRun(t *testing.T, writeInCallback bool) (stuck1, blocked []string) {
	t.Helper()
	ca, cb := h20dNewPair()
	type res struct {
		a   *Association
		err error
	}
	ra := make(chan res, 1)
	rb := make(chan res, 1)
	go func() {
		a, err := Client(Config{NetConn: ca, BlockWrite: true, LoggerFactory: logging.NewDefaultLoggerFactory()})
		ra <- res{a, err}
	}()
	go func() {
		a, err := Server(Config{NetConn: cb, LoggerFactory: logging.NewDefaultLoggerFactory()})
		rb <- res{a, err}
	}()
	var a, b *Association
	for i := 0; i < 2; i++ {
		select {
		case r := <-ra:
			if r.err != nil {
				t.Fatalf("client: %v", r.err)
			}
			a = r.a
		case r := <-rb:
			if r.err != nil {
				t.Fatalf("server: %v", r.err)
			}
			b = r.a
		case <-time.After(30 * time.Second):
			t.Fatal("handshake timeout")
		}
	}
	defer func() {
		// Close releases everything in either case
		_ = a.Close()
		_ = b.Close()
	}()

	bigReceived := make(chan struct{})
	go func() {
		for {
			sb, err := b.AcceptStream()
			if err != nil {
				return
			}
			go func() {
				buf := make([]byte, 70000)
				for {
					n, _, err := sb.ReadSCTP(buf)
					if err != nil {
						return
					}
					if n == 20000 {
						close(bigReceived)
					}
				}
			}()
		}
	}()

	s1, err := a.OpenStream(1, PayloadTypeWebRTCBinary)
	if err != nil {
		t.Fatal(err)
	}
	s2, err := a.OpenStream(2, PayloadTypeWebRTCBinary)
	if err != nil {
		t.Fatal(err)
	}

	inCallback := make(chan struct{})
	cbWrite := make(chan error, 1)
	var once sync.Once
	s1.SetBufferedAmountLowThreshold(19000)
	s1.OnBufferedAmountLow(func() {
		once.Do(func() {
			close(inCallback)
			if writeInCallback {
				// refill
				_, err := s1.WriteSCTP(bytes.Repeat([]byte{'r'}, 1000), PayloadTypeWebRTCBinary)
				cbWrite <- err
			} else {
				cbWrite <- nil
			}
		})
	})

	// calls of other goroutines that are waiting for something
	readDone := make(chan error, 1)
	go func() {
		_, _, err := s2.ReadSCTP(make([]byte, 1500)) // the peer never writes
		readDone <- err
	}()
	acceptDone := make(chan error, 1)
	go func() {
		_, err := a.AcceptStream() // the peer never opens a stream
		acceptDone <- err
	}()

	// 20 kB, several round trips worth of data; does not block (nothing is pending yet)
	if _, err = s1.WriteSCTP(bytes.Repeat([]byte{'d'}, 20000), PayloadTypeWebRTCBinary); err != nil {
		t.Fatal(err)
	}
	select {
	case <-inCallback:
	case <-time.After(20 * time.Second):
		t.Fatal("callback never ran")
	}
	// a writer on another stream
	w2Done := make(chan error, 1)
	go func() {
		_, err := s2.WriteSCTP([]byte("from another goroutine"), PayloadTypeWebRTCBinary)
		w2Done <- err
	}()

	// phase 1: the peer is alive, reads everything and acknowledges everything
	returned := map[string]bool{}
	deadline := time.Now().Add(10 * time.Second)
	wait := func(name string, ch chan error, out *[]string) {
		if returned[name] {
			return
		}
		select {
		case err := <-ch:
			returned[name] = true
			t.Logf("%s returned: %v", name, err)
		case <-time.After(time.Until(deadline)):
			*out = append(*out, name)
		}
	}
	wait("WriteSCTP in the callback (stream 1)", cbWrite, &stuck1)
	wait("WriteSCTP on stream 2", w2Done, &stuck1)
	select {
	case <-bigReceived:
	case <-time.After(time.Until(deadline)):
		stuck1 = append(stuck1, "delivery of the 20 kB message to the peer")
	}

	// phase 2: the transport dies: every write on it fails from now on
	ca.failWrites.Store(true)
	a.ActiveHeartbeat() // something to send (the T3-rtx retransmission would do as well)

	deadline = time.Now().Add(10 * time.Second)
	wait("WriteSCTP in the callback (stream 1)", cbWrite, &blocked)
	wait("WriteSCTP on stream 2", w2Done, &blocked)
	wait("ReadSCTP on stream 2", readDone, &blocked)
	wait("AcceptStream", acceptDone, &blocked)

	return stuck1, blocked
}

func TestHuntC20_4_BlockingWriteInCallbackFreezesAssociation(t *testing.T) {
	// control: the callback does not write. Everything is delivered, and a transport
	// failure ends the association: every blocked call returns.
	if stuck1, blocked := h20dRun(t, false); len(stuck1) != 0 || len(blocked) != 0 {
		t.Fatalf("control run: stuck %v, blocked %v - test assumptions broken", stuck1, blocked)
	}

	stuck1, blocked := h20dRun(t, true)
	if len(stuck1) != 0 || len(blocked) != 0 {
		t.Fatalf("a 1000-byte WriteSCTP made from the OnBufferedAmountLow callback froze the association.\n"+
			"10 s after the callback ran (peer alive, reading and acknowledging) still stuck: %v\n"+
			"10 s after the transport then failed (writeLoop closed it and marked the association closed) still blocked: %v",
			stuck1, blocked)
	}
}
