// SPDX-FileCopyrightText: 2026 The Pion community <https://pion.ly>
// SPDX-License-Identifier: MIT

package sctp

import (
	"fmt"
	"io"
	"net"
	"strings"
	"sync"
	"sync/atomic"
	"testing"
	"time"

	"github.com/pion/logging"
)

// ---------------------------------------------------------------------------
// A scripted peer: the test plays the remote SCTP endpoint by hand over an
// in-memory net.Conn, so that every inbound packet of the association under
// test is chosen by the test and every outbound packet is recorded.
// ---------------------------------------------------------------------------

type c10aConn struct {
	in     chan []byte // packets to the association
	out    chan []byte // packets from the association
	closed chan struct{}
	once   sync.Once
}

func newC10aConn() *c10aConn {
	return &c10aConn{
		in:     make(chan []byte, 1024),
		out:    make(chan []byte, 65536),
		closed: make(chan struct{}),
	}
}

func (c *c10aConn) Read(b []byte) (int, error) {
	select {
	case p := <-c.in:
		return copy(b, p), nil
	case <-c.closed:
		return 0, io.EOF
	}
}

func (c *c10aConn) Write(b []byte) (int, error) {
	select {
	case <-c.closed:
		return 0, io.ErrClosedPipe
	default:
	}
	p := make([]byte, len(b))
	copy(p, b)
	c.out <- p

	return len(b), nil
}

func (c *c10aConn) Close() error {
	c.once.Do(func() { close(c.closed) })

	return nil
}
func (c *c10aConn) LocalAddr() net.Addr              { return &net.IPAddr{} }
func (c *c10aConn) RemoteAddr() net.Addr             { return &net.IPAddr{} }
func (c *c10aConn) SetDeadline(time.Time) error      { return nil }
func (c *c10aConn) SetReadDeadline(time.Time) error  { return nil }
func (c *c10aConn) SetWriteDeadline(time.Time) error { return nil }

// logger that can park the goroutine that logs a chosen trace message.
type c10aLogger struct {
	armed   atomic.Bool
	blocked chan struct{} // closed once the goroutine is parked
	release chan struct{} // closed to let it go on
	match   func(format string, args []any) bool
}

func (l *c10aLogger) Trace(string) {}
func (l *c10aLogger) Tracef(format string, args ...any) {
	if l.armed.Load() && l.match(format, args) && l.armed.CompareAndSwap(true, false) {
		close(l.blocked)
		<-l.release
	}
}
func (l *c10aLogger) Debug(string)          {}
func (l *c10aLogger) Debugf(string, ...any) {}
func (l *c10aLogger) Info(string)           {}
func (l *c10aLogger) Infof(string, ...any)  {}
func (l *c10aLogger) Warn(string)           {}
func (l *c10aLogger) Warnf(string, ...any)  {}
func (l *c10aLogger) Error(string)          {}
func (l *c10aLogger) Errorf(string, ...any) {}

type c10aLoggerFactory struct{ l *c10aLogger }

func (f *c10aLoggerFactory) NewLogger(string) logging.LeveledLogger { return f.l }

type c10aPeer struct {
	t    *testing.T
	conn *c10aConn
	tag  uint32 // verification tag the association expects
	// DATA chunks seen on the wire, in order of (first) appearance
	firstTSN uint32
	sent     map[uint32]int // tsn -> times seen
	size     map[uint32]int // tsn -> user bytes
	order    []uint32
	mtu      int
}

func (p *c10aPeer) inject(chunks ...chunk) {
	pkt := &packet{sourcePort: 5000, destinationPort: 5000, verificationTag: p.tag, chunks: chunks}
	raw, err := pkt.marshal(true)
	if err != nil {
		p.t.Fatalf("marshal: %v", err)
	}
	p.conn.in <- raw
}

// drain records everything the association has written so far; it returns the
// number of packets read.
func (p *c10aPeer) drain() int {
	n := 0
	for {
		select {
		case raw := <-p.conn.out:
			n++
			pkt := &packet{}
			if err := pkt.unmarshal(true, raw); err != nil {
				p.t.Fatalf("unmarshal outbound: %v", err)
			}
			if p.mtu != 0 && len(raw) > p.mtu {
				p.t.Errorf("packet of %d bytes exceeds the MTU", len(raw))
			}
			for _, c := range pkt.chunks {
				if d, ok := c.(*chunkPayloadData); ok {
					if p.sent[d.tsn] == 0 {
						p.order = append(p.order, d.tsn)
						p.size[d.tsn] = len(d.userData)
					}
					p.sent[d.tsn]++
				}
			}
		default:
			return n
		}
	}
}

// waitData waits until at least n distinct TSNs have been seen.
func (p *c10aPeer) waitData(n int, d time.Duration) bool {
	deadline := time.Now().Add(d)
	for {
		p.drain()
		if len(p.order) >= n {
			return true
		}
		if time.Now().After(deadline) {
			return false
		}
		time.Sleep(2 * time.Millisecond)
	}
}

// newC10aClient connects a client association to the scripted peer.
func newC10aClient(t *testing.T, lf logging.LoggerFactory, arwnd uint32, opts ...ClientOption) (*Association, *c10aPeer) {
	t.Helper()
	conn := newC10aConn()
	peer := &c10aPeer{t: t, conn: conn, sent: map[uint32]int{}, size: map[uint32]int{}}

	type res struct {
		a   *Association
		err error
	}
	ch := make(chan res, 1)
	go func() {
		all := append([]ClientOption{WithName("a0"), WithNetConn(conn), WithLoggerFactory(lf)}, opts...)
		a, err := ClientWithOptions(all...)
		ch <- res{a, err}
	}()

	cookie, err := newRandomStateCookie()
	if err != nil {
		t.Fatal(err)
	}
	deadline := time.After(20 * time.Second)
	for {
		select {
		case r := <-ch:
			if r.err != nil {
				t.Fatalf("client: %v", r.err)
			}

			peer.mtu = int(r.a.MTU())

			return r.a, peer
		case raw := <-conn.out:
			pkt := &packet{}
			if err := pkt.unmarshal(true, raw); err != nil {
				t.Fatalf("unmarshal: %v", err)
			}
			for _, c := range pkt.chunks {
				switch v := c.(type) {
				case *chunkInit:
					peer.tag = v.initiateTag
					peer.firstTSN = v.initialTSN
					ack := &chunkInitAck{}
					ack.initiateTag = 0x51515151
					ack.advertisedReceiverWindowCredit = arwnd
					ack.numInboundStreams = 1024
					ack.numOutboundStreams = 1024
					ack.initialTSN = 7000
					ack.params = []param{cookie, &paramSupportedExtensions{ChunkTypes: []chunkType{ctForwardTSN}}}
					peer.inject(ack)
				case *chunkCookieEcho:
					peer.inject(&chunkCookieAck{})
				}
			}
		case <-deadline:
			t.Fatal("handshake timed out")
		}
	}
}

func c10aWaitFor(d time.Duration, cond func() bool) bool {
	deadline := time.Now().Add(d)
	for !cond() {
		if time.Now().After(deadline) {
			return false
		}
		time.Sleep(time.Millisecond)
	}

	return true
}

// c10aLossScenario grows cwnd to 14820 by slow start, fills it with 12 full
// chunks on stream 1, then delivers a SACK that reports the oldest of them
// missing and two later ones received. A 1-chunk message is written to stream 2
// either while that SACK is being handled (interleaved: the read loop is parked
// in the buffered-amount bookkeeping that processAcknowledgement runs with the
// association lock released) or right after it has been handled (control).
func c10aLossScenario(t *testing.T, interleaved bool) (newData bool, cwndBefore, cwndAfter uint32, outstanding int) {
	t.Helper()

	lg := &c10aLogger{blocked: make(chan struct{}), release: make(chan struct{})}
	lg.match = func(format string, args []any) bool {
		// Stream.onBufferReleased of stream 1, reached from processAcknowledgement
		// with the association lock released.
		return strings.Contains(format, "bufferedAmount = ") && len(args) > 0 && fmt.Sprint(args[0]) == "1:a0"
	}

	a, peer := newC10aClient(t, &c10aLoggerFactory{lg}, 4*1024*1024)
	defer func() {
		select {
		case <-lg.release:
		default:
			close(lg.release)
		}
		_ = a.Close()
	}()

	chunkLen := int(a.maxPayloadSize) // one full DATA chunk at the default MTU

	s1, err := a.OpenStream(1, PayloadTypeWebRTCBinary)
	if err != nil {
		t.Fatal(err)
	}
	s2, err := a.OpenStream(2, PayloadTypeWebRTCBinary)
	if err != nil {
		t.Fatal(err)
	}

	sack := func(cum uint32, gaps ...gapAckBlock) {
		peer.inject(&chunkSelectiveAck{
			cumulativeTSNAck:               cum,
			advertisedReceiverWindowCredit: 4 * 1024 * 1024,
			gapAckBlocks:                   gaps,
		})
	}

	// --- grow the congestion window well above 4*MTU by slow start -----------
	// 21 one-chunk messages: 3 + 6 + 12 go out in three flights (cwnd 4380 ->
	// 7860 -> 14820), each acknowledged in full except the last.
	msg := make([]byte, chunkLen)
	for i := 0; i < 21; i++ {
		if _, err = s1.Write(msg); err != nil {
			t.Fatal(err)
		}
	}
	for _, want := range []int{3, 9} {
		if !peer.waitData(want, 10*time.Second) {
			t.Fatalf("precondition: expected %d chunks on the wire, have %d", want, len(peer.order))
		}
		time.Sleep(100 * time.Millisecond) // a round trip: keeps PTO away from the rest of the script
		peer.drain()
		if len(peer.order) != want {
			t.Fatalf("precondition: flight of %d chunks, want %d (cwnd=%d)", len(peer.order), want, a.CWND())
		}
		sack(peer.order[want-1])
	}
	if !peer.waitData(21, 10*time.Second) {
		t.Fatalf("precondition: expected 21 chunks on the wire, have %d", len(peer.order))
	}
	time.Sleep(100 * time.Millisecond)
	peer.drain()
	if len(peer.order) != 21 || a.BufferedAmount() != 12*chunkLen {
		t.Fatalf("precondition: %d chunks sent, %d bytes buffered", len(peer.order), a.BufferedAmount())
	}
	cwndBefore = a.CWND()
	if cwndBefore < 8*a.MTU() {
		t.Fatalf("precondition: cwnd=%d", cwndBefore)
	}
	// 12 chunks outstanding: the window is full, nothing is pending.
	base := peer.order[8] // cumulative ack point

	// --- the loss signal ------------------------------------------------------
	// base+1 is missing, base+2 and base+3 have arrived.
	write := func() {
		wrote := make(chan error, 1)
		go func() { // another goroutine of the application, another stream
			_, werr := s2.Write(msg)
			wrote <- werr
		}()
		if werr := <-wrote; werr != nil {
			t.Fatal(werr)
		}
		// the write loop either sends at once or not at all
		newData = peer.waitData(22, 300*time.Millisecond)
	}

	if interleaved {
		lg.armed.Store(true)
	}
	sack(base, gapAckBlock{start: 2, end: 3})

	if interleaved {
		select {
		case <-lg.blocked:
		case <-time.After(10 * time.Second):
			t.Fatal("precondition: the SACK handler did not reach the buffered-amount bookkeeping")
		}
		// The read loop is now inside processAcknowledgement, association lock released.
		write()
		close(lg.release)
	}

	// SACK handling completes: the loss response must have been applied.
	if !c10aWaitFor(10*time.Second, func() bool { return a.CWND() < cwndBefore }) {
		t.Fatalf("precondition: the SACK did not cut cwnd (cwnd=%d)", a.CWND())
	}
	if !interleaved {
		time.Sleep(20 * time.Millisecond)
		write()
	}
	time.Sleep(50 * time.Millisecond)
	peer.drain()
	cwndAfter = a.CWND()
	if n := a.stats.getNumT3Timeouts(); n != 0 {
		t.Fatalf("precondition: %d T3 timeouts", n)
	}

	// outstanding user bytes as the wire shows them: 21 (or 22) chunks sent,
	// 9 cumulatively and 2 selectively acknowledged.
	for _, tsn := range peer.order[9:] {
		outstanding += peer.size[tsn]
	}
	outstanding -= 2 * chunkLen

	return newData, cwndBefore, cwndAfter, outstanding
}

// TestZZHuntC10_1_NewDataAfterLossSignalBeforeCwndCut:
//
// A SACK that reports a loss (here: a gap report that lets the time-based
// detector declare the oldest chunk lost) makes the library (1) take the newly
// acknowledged bytes out of flight, (2) release the association lock to run the
// per-stream buffered-amount bookkeeping and only then (3) apply the congestion
// response. A Write from another goroutine that falls into (2) is put on the
// wire against the congestion window from before the loss, although the loss
// signal has already been received: when the SACK has been handled the window
// is half of what is outstanding, and new data has just been added to it.
func TestZZHuntC10_1_NewDataAfterLossSignalBeforeCwndCut(t *testing.T) {
	// control: the same write made right after the SACK has been handled stays queued
	newData, before, after, out := c10aLossScenario(t, false)
	t.Logf("control:     cwnd %d -> %d, outstanding=%d, new data sent=%v", before, after, out, newData)
	if newData || out <= int(after) {
		t.Fatalf("precondition: the scenario does not block new data after the loss (newData=%v cwnd=%d outstanding=%d)",
			newData, after, out)
	}

	newData, before, after, out = c10aLossScenario(t, true)
	t.Logf("interleaved: cwnd %d -> %d, outstanding=%d, new data sent=%v", before, after, out, newData)
	if newData {
		t.Errorf("new user data was put on the wire after the loss-reporting SACK had arrived: "+
			"%d user bytes are outstanding against a congestion window of %d (it was %d before the loss signal); "+
			"the same write made after the SACK was handled is held back",
			out, after, before)
	}
}
