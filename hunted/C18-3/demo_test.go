// SPDX-FileCopyrightText: 2026 The Pion community <https://pion.ly>
// SPDX-License-Identifier: MIT

package sctp

import (
	"context"
	"sync"
	"sync/atomic"
	"testing"
	"time"

	"github.com/stretchr/testify/require"
)

// huntC18StepGate keeps the packets a1 sends while it is closed and hands them to
// a2 one at a time (releaseOne) or all at once (open).
type huntC18StepGate struct {
	mu     sync.Mutex
	closed bool
	held   [][]byte
	next   dumbConnInboundHandler
}

func (g *huntC18StepGate) handle(p []byte) {
	g.mu.Lock()
	if g.closed {
		g.held = append(g.held, append([]byte{}, p...))
		g.mu.Unlock()

		return
	}
	g.mu.Unlock()
	g.next(p)
}

func (g *huntC18StepGate) close() {
	g.mu.Lock()
	g.closed = true
	g.mu.Unlock()
}

func (g *huntC18StepGate) nHeld() int {
	g.mu.Lock()
	defer g.mu.Unlock()

	return len(g.held)
}

func (g *huntC18StepGate) releaseOne() {
	g.mu.Lock()
	var p []byte
	if len(g.held) > 0 {
		p = g.held[0]
		g.held = g.held[1:]
	}
	g.mu.Unlock()
	if p != nil {
		g.next(p)
	}
}

func (g *huntC18StepGate) open() {
	g.mu.Lock()
	held := g.held
	g.held = nil
	g.closed = false
	g.mu.Unlock()
	for _, p := range held {
		g.next(p)
	}
}

func huntC18Wait(t *testing.T, what string, bound time.Duration, cond func() bool) {
	t.Helper()
	deadline := time.Now().Add(bound)
	for !cond() {
		if time.Now().After(deadline) {
			require.FailNow(t, "test precondition not reached: "+what)
		}
		time.Sleep(5 * time.Millisecond)
	}
}

// The scenario, identical in both sub-tests: three accepted messages of 1000 bytes
// are buffered on the stream (two in flight, one pending because the peer's window
// is used up), the low threshold is 2500. When the first message is acknowledged
// the buffered amount of ACCEPTED data falls from 3000 to 2000, i.e. through the
// threshold, and OnBufferedAmountLow has to be called.
//
// In the second sub-test a fourth Write is blocked (blocking-write mode) while that
// acknowledgement arrives and afterwards fails at its deadline. A failed write must
// have no effect - but its payload was added to bufferedAmount before the write was
// accepted, so the acknowledgement takes the amount from 4000 to 3000 (no crossing)
// and the failure path then takes it from 3000 to 2000 silently: the callback is
// never delivered, although BufferedAmount() is now below the threshold and stays
// there until it reaches 0.
func TestHuntC18_3_FailedBlockingWriteSwallowsBufferedAmountLowCallback(t *testing.T) {
	run := func(t *testing.T, withFailingWrite bool) {
		t.Helper()

		conn1, conn2 := createUDPConnPair()
		dc1, ok := conn1.(*dumbConn2)
		require.True(t, ok)
		dc2, ok := conn2.(*dumbConn2)
		require.True(t, ok)
		gate := &huntC18StepGate{next: dc2.inboundHandler}
		dc1.setRemoteHandler(gate.handle)

		a1, a2, err := createAssociationPairWithConfig(conn1, conn2, Config{BlockWrite: true, MaxReceiveBufferSize: 2500})
		require.NoError(t, err)
		defer a2.Close() //nolint:errcheck
		defer a1.Close() //nolint:errcheck

		s1, err := a1.OpenStream(1, PayloadTypeWebRTCBinary)
		require.NoError(t, err)
		_, err = s1.Write([]byte("hi"))
		require.NoError(t, err)
		r1, err := a2.AcceptStream()
		require.NoError(t, err)
		buf := make([]byte, 4096)
		n, err := r1.Read(buf)
		require.NoError(t, err)
		require.Equal(t, "hi", string(buf[:n]))
		huntC18Wait(t, "a1 idle", 10*time.Second, func() bool {
			a1.lock.RLock()
			defer a1.lock.RUnlock()

			return a1.inflightQueue.size() == 0 && a1.pendingQueue.size() == 0 && a1.RWND() >= 2400
		})
		require.Zero(t, s1.BufferedAmount())

		var lowCalls atomic.Int32
		s1.SetBufferedAmountLowThreshold(2500)
		s1.OnBufferedAmountLow(func() { lowCalls.Add(1) })

		msg := make([]byte, 1000)

		gate.close()
		_, err = s1.Write(msg) // M1: in flight (packet 1 held)
		require.NoError(t, err)
		huntC18Wait(t, "M1 on the wire", 10*time.Second, func() bool { return gate.nHeld() >= 1 })
		_, err = s1.Write(msg) // M2: in flight (packet 2 held), peer window now 500
		require.NoError(t, err)
		huntC18Wait(t, "M2 on the wire", 10*time.Second, func() bool { return gate.nHeld() >= 2 })
		_, err = s1.Write(msg) // M3: accepted, waits in the pending queue (window)
		require.NoError(t, err)
		require.Equal(t, uint64(3000), s1.BufferedAmount())
		require.Zero(t, lowCalls.Load())

		writeDone := make(chan error, 1)
		if withFailingWrite {
			// M4: has to wait for M3 to leave the pending queue
			go func() {
				_, werr := s1.Write(msg)
				writeDone <- werr
			}()
			huntC18Wait(t, "M4 blocked", 10*time.Second, func() bool { return s1.BufferedAmount() == 4000 })
		}

		// M1 reaches the peer and is acknowledged. The peer's application does not read,
		// so the window stays too small for M3 (1500 advertised - 1000 in flight).
		gate.releaseOne()
		acked := uint64(2000)
		if withFailingWrite {
			acked = 3000
		}
		huntC18Wait(t, "M1 acknowledged", 20*time.Second, func() bool { return s1.BufferedAmount() == acked })

		if withFailingWrite {
			select {
			case werr := <-writeDone:
				require.FailNow(t, "test assumption: M4 is still blocked", "%v", werr)
			default:
			}
			// M4 hits its deadline
			require.NoError(t, s1.SetWriteDeadline(time.Now().Add(-time.Second)))
			select {
			case werr := <-writeDone:
				require.ErrorIs(t, werr, context.DeadlineExceeded)
			case <-time.After(20 * time.Second):
				require.FailNow(t, "blocked write did not return at its deadline")
			}
			require.NoError(t, s1.SetWriteDeadline(time.Time{}))
		}

		// Accepted and not yet acknowledged: M2 and M3 = 2000 bytes <= threshold 2500,
		// down from 3000.
		require.Equal(t, uint64(2000), s1.BufferedAmount())
		time.Sleep(200 * time.Millisecond)
		callsAtCrossing := lowCalls.Load()

		// let everything drain
		gate.open()
		for i := 0; i < 3; i++ {
			require.NoError(t, r1.SetReadDeadline(time.Now().Add(20*time.Second)))
			n, err = r1.Read(buf)
			require.NoError(t, err)
			require.Equal(t, 1000, n)
		}
		huntC18Wait(t, "all acknowledged", 20*time.Second, func() bool { return s1.BufferedAmount() == 0 })

		require.Equal(t, int32(1), callsAtCrossing,
			"buffered amount of accepted data went 3000 -> 2000 through the threshold 2500: "+
				"OnBufferedAmountLow calls at that point = %d, in the whole run = %d",
			callsAtCrossing, lowCalls.Load())
	}

	t.Run("baseline_no_failing_write", func(t *testing.T) { run(t, false) })
	t.Run("with_blocking_write_failing_at_deadline", func(t *testing.T) { run(t, true) })
}
