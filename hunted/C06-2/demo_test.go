// SPDX-FileCopyrightText: 2026 The Pion community <https://pion.ly>
// SPDX-License-Identifier: MIT

package sctp

import (
	"errors"
	"io"
	"sync"
	"testing"
	"time"

	"github.com/pion/transport/v4/test"
	"github.com/stretchr/testify/require"
)

// C06 / finding 2
//
// A stream is configured with ReliabilityTypeRexmit, N=0. The PEER closes its
// side of the stream (outgoing stream reset). The local side sees EOF on Read but
// its own direction is still open (State()==open, Write succeeds, and the data is
// delivered to the peer - half-closed stream, explicitly supported by the library:
// "Remote has reset its send side of the stream, we can still send data").
//
// Property: whatever reliability policy a stream uses, under a retransmission
// limit N a chunk is put on the wire at most N+1 times.
//
// Observed: from the moment the peer's reset has been processed the policy of the
// stream is silently ignored: a lost chunk of a small (single chunk) message is
// retransmitted on every T3-rtx expiry, without bound, like on a reliable stream.
// checkPartialReliabilityStatus looks the policy up through a.streams[sid], from
// which the stream was removed by the inbound reset.
func TestHuntC06_2_RexmitLimitIgnoredAfterPeerResetItsDirection(t *testing.T) {
	lim := test.TimeOut(60 * time.Second)
	defer lim.Stop()

	const si uint16 = 3
	br := test.NewBridge()

	a0, a1, err := createNewAssociationPair(br, ackModeNoDelay, 0)
	require.NoError(t, err)

	s0, s1, err := establishSessionPair(br, a0, a1, si)
	require.NoError(t, err)

	a0.rtoMgr.setRTO(100.0, true)

	// N = 0: never retransmit.
	s0.SetReliabilityParams(true, ReliabilityTypeRexmit, 0)

	var (
		mu        sync.Mutex
		wireCount = map[uint32]int{}
		lossOn    = false
	)
	br.Filter(0, func(raw []byte) bool {
		p := &packet{}
		if err := p.unmarshal(true, raw); err != nil {
			return true
		}
		hasData := false
		mu.Lock()
		defer mu.Unlock()
		for _, c := range p.chunks {
			if d, ok := c.(*chunkPayloadData); ok && d.streamIdentifier == si && d.payloadType == PayloadTypeWebRTCBinary {
				if lossOn {
					wireCount[d.tsn]++
				}
				hasData = true
			}
		}

		return !(hasData && lossOn)
	})

	stop := make(chan struct{})
	var wg sync.WaitGroup
	wg.Add(1)
	go func() {
		defer wg.Done()
		for {
			select {
			case <-stop:
				return
			default:
			}
			br.Tick()
			time.Sleep(time.Millisecond)
		}
	}()

	// lossyWrite writes one small message while the path loses all DATA of the
	// stream for 2 s (100+200+400+800 ms: four T3-rtx expiries fit) and returns how
	// many distinct TSNs were seen and how often the most frequent one was seen.
	lossyWrite := func(payload string) (int, int, uint32) {
		mu.Lock()
		for k := range wireCount {
			delete(wireCount, k)
		}
		lossOn = true
		mu.Unlock()

		_, werr := s0.WriteSCTP([]byte(payload), PayloadTypeWebRTCBinary)
		require.NoError(t, werr)
		time.Sleep(2 * time.Second)

		mu.Lock()
		defer mu.Unlock()
		lossOn = false
		maxCount, maxTSN := 0, uint32(0)
		for tsn, c := range wireCount {
			if c > maxCount {
				maxCount, maxTSN = c, tsn
			}
		}

		return len(wireCount), maxCount, maxTSN
	}

	// Control experiment: while the peer's direction is still open the policy is honoured.
	nTSN, maxCount, maxTSN := lossyWrite("unreliable-message-before")
	t.Logf("before the peer's reset: distinct TSNs during loss=%d, worst TSN=%d seen %d times", nTSN, maxTSN, maxCount)
	require.Equal(t, 1, nTSN)
	require.Equal(t, 1, maxCount, "control: with N=0 the lost chunk is not retransmitted")
	time.Sleep(500 * time.Millisecond) // let the FORWARD-TSN exchange settle

	// The peer closes its direction of the stream.
	require.NoError(t, s1.Close())

	// Local side: Read reports EOF once the peer's reset has been performed.
	readDone := make(chan error, 1)
	go func() {
		buf := make([]byte, 1500)
		for {
			_, err := s0.Read(buf)
			if err != nil {
				readDone <- err

				return
			}
		}
	}()
	select {
	case err := <-readDone:
		require.True(t, errors.Is(err, io.EOF), "expected EOF, got %v", err)
	case <-time.After(20 * time.Second):
		require.Fail(t, "peer's stream reset was not seen")
	}

	// Our own direction is still open.
	require.Equal(t, StreamStateOpen, s0.State())

	// Control: a message written now still reaches the peer (half-closed stream works).
	_, err = s0.WriteSCTP([]byte("still-open"), PayloadTypeWebRTCBinary)
	require.NoError(t, err)
	rbuf := make([]byte, 1500)
	require.NoError(t, s1.SetReadDeadline(time.Now().Add(20*time.Second)))
	nr, _, err := s1.ReadSCTP(rbuf)
	require.NoError(t, err)
	require.Equal(t, "still-open", string(rbuf[:nr]))

	// Now the path starts losing DATA again, and one small message is written.
	nTSN, maxCount, maxTSN = lossyWrite("unreliable-message-after")

	close(stop)
	wg.Wait()

	t.Logf("after the peer's reset: distinct TSNs during loss=%d, worst TSN=%d seen %d times", nTSN, maxTSN, maxCount)

	require.Equal(t, 1, nTSN, "exactly one chunk was written during the loss period")
	require.LessOrEqualf(t, maxCount, 1,
		"rexmit limit N=0 allows 1 transmission per chunk, but TSN %d was put on the wire %d times", maxTSN, maxCount)

	closeAssociationPair(br, a0, a1)
}
