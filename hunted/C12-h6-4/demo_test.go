package sctp

import (
	"encoding/binary"
	"github.com/pion/logging"
	"testing"
)

func huntC12n4Packet(chunks ...[]byte) []byte {
	raw := make([]byte, packetHeaderSize)
	binary.BigEndian.PutUint16(raw[0:], 5000)
	binary.BigEndian.PutUint16(raw[2:], 5000)
	binary.BigEndian.PutUint32(raw[4:], 0x01020304)
	for _, c := range chunks {
		raw = append(raw, c...)
	}
	binary.LittleEndian.PutUint32(raw[8:], generatePacketChecksum(raw))

	return raw
}

// The meaning of a chunk must depend only on the bytes inside that chunk's own length:
// the very same chunk bytes (header, value, padding) must be decoded the same way
// whether the chunk is alone in the packet or other chunks follow it.
//
// chunkHeader.unmarshal receives everything up to the end of the PACKET and decides by
// "how many bytes are left after my value" whether it looks at the padding: the
// padding is only checked when fewer than 4 bytes follow, i.e. when the chunk is the
// last one of the packet.
func TestHuntC12n4_PaddingCheckDependsOnBundling(t *testing.T) {
	// HEARTBEAT, length 4+4+5=13, so 3 bytes of padding; the padding is not zero.
	hb := []byte{
		byte(ctHeartbeat), 0, 0, 13,
		0, 1, 0, 9, 'h', 'e', 'l', 'l', 'o', // Heartbeat Info, length 9
		0xde, 0xad, 0xbf, // padding
	}
	// COOKIE-ACK, length 4
	ca := []byte{byte(ctCookieAck), 0, 0, 4}

	alone := &packet{}
	errAlone := alone.unmarshal(true, huntC12n4Packet(hb))

	first := &packet{}
	errFirst := first.unmarshal(true, huntC12n4Packet(hb, ca))

	last := &packet{}
	errLast := last.unmarshal(true, huntC12n4Packet(ca, hb))

	t.Logf("HEARTBEAT alone: err=%v", errAlone)
	t.Logf("HEARTBEAT + COOKIE-ACK: err=%v chunks=%d", errFirst, len(first.chunks))
	t.Logf("COOKIE-ACK + HEARTBEAT: err=%v", errLast)

	if (errAlone == nil) != (errFirst == nil) {
		t.Errorf("the same HEARTBEAT chunk bytes are rejected when the chunk is alone in the packet (%v) "+
			"but accepted when a COOKIE-ACK is bundled behind it (err=%v)", errAlone, errFirst)
	}
	if (errLast == nil) != (errFirst == nil) {
		t.Errorf("HEARTBEAT+COOKIE-ACK decodes (err=%v), COOKIE-ACK+HEARTBEAT (the same two chunks) does not (%v)",
			errFirst, errLast)
	}
}

// The same through an association: the HEARTBEAT is answered or not depending on what
// is bundled behind it.
func TestHuntC12n4_AssociationAnswersDependingOnBundling(t *testing.T) {
	hb := []byte{
		byte(ctHeartbeat), 0, 0, 13,
		0, 1, 0, 9, 'h', 'e', 'l', 'l', 'o',
		0xde, 0xad, 0xbf,
	}
	ca := []byte{byte(ctCookieAck), 0, 0, 4} // discarded silently in ESTABLISHED

	answered := func(raw []byte) bool {
		a := createAssociationFromConfigWithTsn(&Config{LoggerFactory: huntC12n4Logger{}}, 100)
		defer a.closeAllTimers()
		a.lock.Lock()
		a.setState(established)
		a.sourcePort, a.destinationPort, a.peerVerificationTag = 5000, 5000, 7
		a.lock.Unlock()
		if err := a.handleInbound(raw); err != nil {
			t.Fatalf("handleInbound: %v", err)
		}
		a.lock.Lock()
		defer a.lock.Unlock()
		for _, p := range a.controlQueue.popAll() {
			for _, c := range p.chunks {
				if _, ok := c.(*chunkHeartbeatAck); ok {
					return true
				}
			}
		}

		return false
	}

	alone := answered(huntC12n4Packet(hb))
	bundled := answered(huntC12n4Packet(hb, ca))
	if alone != bundled {
		t.Errorf("HEARTBEAT answered with HEARTBEAT-ACK when alone: %v; when a COOKIE-ACK is bundled behind the same bytes: %v",
			alone, bundled)
	}
}

// A chunk length below 4 (smaller than the chunk header itself) is not rejected: the
// value length is computed as uint16(length-4), i.e. 65532..65535, and the "chunk"
// swallows whatever follows it in the packet. Alone such a chunk is rejected; with
// enough chunks bundled behind it, it is accepted and the chunks behind it disappear.
func TestHuntC12n4_LengthBelowHeaderSwallowsFollowingChunks(t *testing.T) {
	bogus := []byte{byte(ctCookieAck), 0, 0, 0} // length field 0

	alone := &packet{}
	errAlone := alone.unmarshal(true, huntC12n4Packet(bogus))
	if errAlone == nil {
		t.Fatalf("a chunk with length 0 alone in a packet was accepted")
	}

	// the same 4 bytes followed by 16383 SHUTDOWN-ACK chunks (4 bytes each: 65532 bytes)
	follow := make([]byte, 0, 65532)
	for range 16383 {
		follow = append(follow, byte(ctShutdownAck), 0, 0, 4)
	}
	bundled := &packet{}
	errBundled := bundled.unmarshal(true, huntC12n4Packet(bogus, follow))
	if errBundled == nil {
		t.Errorf("a COOKIE-ACK chunk whose length field is 0 is rejected alone (%v) but accepted when 16383 chunks follow it: "+
			"the packet decodes to %d chunk(s), the first is %T with a value of %d bytes",
			errAlone, len(bundled.chunks), bundled.chunks[0], bundled.chunks[0].valueLength())
	}
}

type huntC12n4Logger struct{}

func (huntC12n4Logger) NewLogger(string) logging.LeveledLogger { return huntC12n4Nop{} }

type huntC12n4Nop struct{}

func (huntC12n4Nop) Trace(string)          {}
func (huntC12n4Nop) Tracef(string, ...any) {}
func (huntC12n4Nop) Debug(string)          {}
func (huntC12n4Nop) Debugf(string, ...any) {}
func (huntC12n4Nop) Info(string)           {}
func (huntC12n4Nop) Infof(string, ...any)  {}
func (huntC12n4Nop) Warn(string)           {}
func (huntC12n4Nop) Warnf(string, ...any)  {}
func (huntC12n4Nop) Error(string)          {}
func (huntC12n4Nop) Errorf(string, ...any) {}
