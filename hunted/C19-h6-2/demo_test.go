// SPDX-License-Identifier: MIT

package sctp

import (
	"fmt"
	"io"
	"net"
	"strings"
	"sync"
	"sync/atomic"
	"testing"
	"time"

	"github.com/pion/logging"
)

// ---------------------------------------------------------------------------
// helpers (all names prefixed with c19b to stay clear of the existing helpers)
// ---------------------------------------------------------------------------

// c19bConn is one end of an in-memory datagram pipe. Every Write is passed to an
// optional hook that decides when the packet is forwarded to the peer and when
// Write returns (a slow transport).
type c19bConn struct {
	in     chan []byte
	peer   *c19bConn
	closed chan struct{}
	once   sync.Once
	mu     sync.Mutex
	hook   func(pkt []byte, forward func())
}

func newC19bConnPair() (*c19bConn, *c19bConn) {
	a := &c19bConn{in: make(chan []byte, 4096), closed: make(chan struct{})}
	b := &c19bConn{in: make(chan []byte, 4096), closed: make(chan struct{})}
	a.peer, b.peer = b, a

	return a, b
}

func (c *c19bConn) setHook(h func(pkt []byte, forward func())) {
	c.mu.Lock()
	c.hook = h
	c.mu.Unlock()
}

func (c *c19bConn) Read(p []byte) (int, error) {
	select {
	case b := <-c.in:
		return copy(p, b), nil
	case <-c.closed:
		return 0, io.EOF
	}
}

func (c *c19bConn) Write(p []byte) (int, error) {
	select {
	case <-c.closed:
		return 0, io.ErrClosedPipe
	default:
	}
	cp := append([]byte(nil), p...)
	forward := func() {
		select {
		case c.peer.in <- cp:
		case <-c.peer.closed:
		}
	}
	c.mu.Lock()
	h := c.hook
	c.mu.Unlock()
	if h != nil {
		h(cp, forward)
	} else {
		forward()
	}

	return len(p), nil
}

func (c *c19bConn) Close() error                       { c.once.Do(func() { close(c.closed) }); return nil }
func (c *c19bConn) LocalAddr() net.Addr                { return &net.UDPAddr{} }
func (c *c19bConn) RemoteAddr() net.Addr               { return &net.UDPAddr{} }
func (c *c19bConn) SetDeadline(time.Time) error        { return nil }
func (c *c19bConn) SetReadDeadline(time.Time) error    { return nil }
func (c *c19bConn) SetWriteDeadline(time.Time) error   { return nil }

type c19bLogLine struct {
	at  time.Time
	msg string
}

// c19bLogger records the lines it is given and can be told to block (a slow
// log sink) on the first line that contains a given text.
type c19bLogger struct {
	mu      sync.Mutex
	lines   []c19bLogLine
	armed   atomic.Bool
	pattern string
	blocked chan struct{}
	release chan struct{}
}

func newC19bLogger(pattern string) *c19bLogger {
	return &c19bLogger{pattern: pattern, blocked: make(chan struct{}), release: make(chan struct{})}
}

func (l *c19bLogger) logf(format string, args ...any) {
	msg := fmt.Sprintf(format, args...)
	l.mu.Lock()
	l.lines = append(l.lines, c19bLogLine{at: time.Now(), msg: msg})
	l.mu.Unlock()
	if strings.Contains(format, l.pattern) && l.armed.CompareAndSwap(true, false) {
		close(l.blocked)
		<-l.release
	}
}

func (l *c19bLogger) find(sub string, notBefore time.Time) (c19bLogLine, bool) {
	l.mu.Lock()
	defer l.mu.Unlock()
	for _, ln := range l.lines {
		if !ln.at.Before(notBefore) && strings.Contains(ln.msg, sub) {
			return ln, true
		}
	}

	return c19bLogLine{}, false
}

func (l *c19bLogger) Trace(msg string)                  { l.logf("%s", msg) }
func (l *c19bLogger) Tracef(format string, args ...any) { l.logf(format, args...) }
func (l *c19bLogger) Debug(msg string)                  { l.logf("%s", msg) }
func (l *c19bLogger) Debugf(format string, args ...any) { l.logf(format, args...) }
func (l *c19bLogger) Info(msg string)                   { l.logf("%s", msg) }
func (l *c19bLogger) Infof(format string, args ...any)  { l.logf(format, args...) }
func (l *c19bLogger) Warn(msg string)                   { l.logf("%s", msg) }
func (l *c19bLogger) Warnf(format string, args ...any)  { l.logf(format, args...) }
func (l *c19bLogger) Error(msg string)                  { l.logf("%s", msg) }
func (l *c19bLogger) Errorf(format string, args ...any) { l.logf(format, args...) }

type c19bLoggerFactory struct{ l logging.LeveledLogger }

func (f *c19bLoggerFactory) NewLogger(string) logging.LeveledLogger { return f.l }

type c19bNopLogger struct{}

func (c19bNopLogger) Trace(string)          {}
func (c19bNopLogger) Tracef(string, ...any) {}
func (c19bNopLogger) Debug(string)          {}
func (c19bNopLogger) Debugf(string, ...any) {}
func (c19bNopLogger) Info(string)           {}
func (c19bNopLogger) Infof(string, ...any)  {}
func (c19bNopLogger) Warn(string)           {}
func (c19bNopLogger) Warnf(string, ...any)  {}
func (c19bNopLogger) Error(string)          {}
func (c19bNopLogger) Errorf(string, ...any) {}

func c19bDataTSNs(raw []byte) []uint32 {
	p := &packet{}
	if err := p.unmarshal(false, raw); err != nil {
		return nil
	}
	var out []uint32
	for _, c := range p.chunks {
		if d, ok := c.(*chunkPayloadData); ok {
			out = append(out, d.tsn)
		}
	}

	return out
}

func c19bHasSack(raw []byte) bool {
	p := &packet{}
	if err := p.unmarshal(false, raw); err != nil {
		return false
	}
	for _, c := range p.chunks {
		if _, ok := c.(*chunkSelectiveAck); ok {
			return true
		}
	}

	return false
}

func c19bWaitFor(t *testing.T, what string, limit time.Duration, cond func() bool) {
	t.Helper()
	deadline := time.Now().Add(limit)
	for !cond() {
		if time.Now().After(deadline) {
			t.Fatalf("test setup: timed out waiting for %s", what)
		}
		time.Sleep(2 * time.Millisecond)
	}
}

func c19bHasForwardTSN(raw []byte) bool {
	p := &packet{}
	if err := p.unmarshal(false, raw); err != nil {
		return false
	}
	for _, c := range p.chunks {
		switch c.(type) {
		case *chunkForwardTSN, *chunkIForwardTSN:
			return true
		}
	}

	return false
}

func (l *c19bLogger) all(sub string, notBefore time.Time) []c19bLogLine {
	l.mu.Lock()
	defer l.mu.Unlock()
	var out []c19bLogLine
	for _, ln := range l.lines {
		if !ln.at.Before(notBefore) && strings.Contains(ln.msg, sub) {
			out = append(out, ln)
		}
	}

	return out
}

// ---------------------------------------------------------------------------
// C19 finding 2: a DATA chunk that was abandoned (partial reliability) and never
// reached the peer is used as a round-trip sample when the SACK that answers
// the FORWARD-TSN moves the cumulative ack point over it. The "RTT" is the time
// until T3-rtx expired plus the delayed ack of the FORWARD-TSN (> 1 s), so every
// lost message of an unreliable stream inflates SRTT / RTO.
// ---------------------------------------------------------------------------

func TestHuntC19_2_AbandonedLostChunkGivesRTTSample(t *testing.T) { //nolint:cyclop,gocyclo
	c0, c1 := newC19bConnPair()
	log0 := newC19bLogger("\x00never\x00")

	var wireMu sync.Mutex
	sent := map[uint32]int{}      // DATA transmissions per TSN (a0 -> a1)
	delivered := map[uint32]int{} // DATA deliveries per TSN
	fwdTSNs := 0
	var dropData atomic.Bool
	c0.setHook(func(pkt []byte, forward func()) {
		tsns := c19bDataTSNs(pkt)
		wireMu.Lock()
		for _, tsn := range tsns {
			sent[tsn]++
		}
		if c19bHasForwardTSN(pkt) {
			fwdTSNs++
		}
		drop := len(tsns) > 0 && dropData.Load()
		if !drop {
			for _, tsn := range tsns {
				delivered[tsn]++
			}
		}
		wireMu.Unlock()
		if drop {
			return // lost in the network
		}
		forward()
	})

	srvCh := make(chan *Association, 1)
	go func() {
		a, err := Server(Config{NetConn: c1, LoggerFactory: &c19bLoggerFactory{l: c19bNopLogger{}}, Name: "a1"})
		if err != nil {
			srvCh <- nil

			return
		}
		srvCh <- a
	}()
	a0, err := Client(Config{NetConn: c0, LoggerFactory: &c19bLoggerFactory{l: log0}, Name: "a0"})
	if err != nil {
		t.Fatalf("test setup: client: %v", err)
	}
	a1 := <-srvCh
	if a1 == nil {
		t.Fatalf("test setup: server failed")
	}
	defer func() {
		_ = a0.Close()
		_ = a1.Close()
	}()

	s0, err := a0.OpenStream(1, PayloadTypeWebRTCBinary)
	if err != nil {
		t.Fatalf("test setup: open: %v", err)
	}

	// Warm-up (reliable, two packets => immediate SACK): a genuine, small RTT sample.
	if _, err = s0.Write(make([]byte, 2000)); err != nil {
		t.Fatalf("test setup: warm-up write: %v", err)
	}
	s1, err := a1.AcceptStream()
	if err != nil {
		t.Fatalf("test setup: accept: %v", err)
	}
	go func() {
		buf := make([]byte, 65536)
		for {
			if _, rerr := s1.Read(buf); rerr != nil {
				return
			}
		}
	}()
	c19bWaitFor(t, "warm-up acknowledged", 5*time.Second, func() bool { return a0.BufferedAmount() == 0 })
	time.Sleep(50 * time.Millisecond)

	srttBefore := a0.SRTT()
	rtoBefore := a0.rtoMgr.getRTO()
	t.Logf("after warm-up: srtt=%.3f ms rto=%.0f ms", srttBefore, rtoBefore)
	if len(log0.all("SACK: measured-rtt", time.Time{})) == 0 {
		t.Fatalf("test setup: the warm-up gave no RTT sample")
	}

	// From now on the stream is unreliable: no retransmissions at all.
	s0.SetReliabilityParams(false, ReliabilityTypeRexmit, 0)
	dropData.Store(true) // ... and every DATA packet is lost on the way to a1
	lossStart := time.Now()

	for round := 1; round <= 3; round++ {
		wireMu.Lock()
		fwdBefore := fwdTSNs
		wireMu.Unlock()
		start := time.Now()
		if _, err = s0.Write([]byte("lost message")); err != nil {
			t.Fatalf("test setup: write: %v", err)
		}
		// the chunk is abandoned, T3-rtx expires, a FORWARD-TSN goes out and is acknowledged
		c19bWaitFor(t, "FORWARD-TSN acknowledged", 30*time.Second, func() bool {
			wireMu.Lock()
			f := fwdTSNs
			wireMu.Unlock()
			a0.lock.RLock()
			defer a0.lock.RUnlock()

			return f > fwdBefore && a0.inflightQueue.size() == 0 && a0.pendingQueue.size() == 0
		})
		time.Sleep(20 * time.Millisecond)

		samples := log0.all("SACK: measured-rtt", start)
		t.Logf("round %d: took %v, srtt=%.1f ms rto=%.0f ms, RTT samples logged in this round: %d",
			round, time.Since(start).Round(time.Millisecond), a0.SRTT(), a0.rtoMgr.getRTO(), len(samples))
		for _, s := range samples {
			t.Logf("   a0 log: %s", s.msg)
		}
	}

	wireMu.Lock()
	nDelivered, nRetrans := 0, 0
	for tsn, n := range sent {
		if n > 1 {
			nRetrans++
		}
		_ = tsn
	}
	for _, n := range delivered {
		nDelivered += n
	}
	wireMu.Unlock()
	t.Logf("DATA chunks delivered to a1 in total (warm-up only): %d, TSNs transmitted more than once: %d", nDelivered, nRetrans)

	srttAfter := a0.SRTT()
	rtoAfter := a0.rtoMgr.getRTO()
	// Since the warm-up not a single DATA chunk has reached the peer, so no DATA
	// chunk can have made a round trip: no SACK may have produced an RTT sample,
	// and (no heartbeat was sent either) SRTT and RTO must be what they were.
	bogus := log0.all("SACK: measured-rtt", lossStart)
	hb := log0.all("HB RTT", lossStart)
	if len(bogus) > 0 {
		t.Errorf("%d RTT sample(s) were taken from SACKs although no DATA chunk reached the peer: srtt %.3f -> %.1f ms, "+
			"rto %.0f -> %.0f ms (heartbeat samples in the same period: %d). The samples come from abandoned chunks that "+
			"were lost; they measure the T3-rtx expiry + FORWARD-TSN/SACK exchange",
			len(bogus), srttBefore, srttAfter, rtoBefore, rtoAfter, len(hb))
	}
}
