// SPDX-License-Identifier: MIT

package sctp

import (
	"fmt"
	"io"
	"net"
	"strings"
	"sync"
	"sync/atomic"
	"testing"
	"time"

	"github.com/pion/logging"
)

// ---------------------------------------------------------------------------
// helpers (all names prefixed with c19 to stay clear of the existing helpers)
// ---------------------------------------------------------------------------

// c19Conn is one end of an in-memory datagram pipe. Every Write is passed to an
// optional hook that decides when the packet is forwarded to the peer and when
// Write returns (a slow transport).
type c19Conn struct {
	in     chan []byte
	peer   *c19Conn
	closed chan struct{}
	once   sync.Once
	mu     sync.Mutex
	hook   func(pkt []byte, forward func())
}

func newC19ConnPair() (*c19Conn, *c19Conn) {
	a := &c19Conn{in: make(chan []byte, 4096), closed: make(chan struct{})}
	b := &c19Conn{in: make(chan []byte, 4096), closed: make(chan struct{})}
	a.peer, b.peer = b, a

	return a, b
}

func (c *c19Conn) setHook(h func(pkt []byte, forward func())) {
	c.mu.Lock()
	c.hook = h
	c.mu.Unlock()
}

func (c *c19Conn) Read(p []byte) (int, error) {
	select {
	case b := <-c.in:
		return copy(p, b), nil
	case <-c.closed:
		return 0, io.EOF
	}
}

func (c *c19Conn) Write(p []byte) (int, error) {
	select {
	case <-c.closed:
		return 0, io.ErrClosedPipe
	default:
	}
	cp := append([]byte(nil), p...)
	forward := func() {
		select {
		case c.peer.in <- cp:
		case <-c.peer.closed:
		}
	}
	c.mu.Lock()
	h := c.hook
	c.mu.Unlock()
	if h != nil {
		h(cp, forward)
	} else {
		forward()
	}

	return len(p), nil
}

func (c *c19Conn) Close() error                       { c.once.Do(func() { close(c.closed) }); return nil }
func (c *c19Conn) LocalAddr() net.Addr                { return &net.UDPAddr{} }
func (c *c19Conn) RemoteAddr() net.Addr               { return &net.UDPAddr{} }
func (c *c19Conn) SetDeadline(time.Time) error        { return nil }
func (c *c19Conn) SetReadDeadline(time.Time) error    { return nil }
func (c *c19Conn) SetWriteDeadline(time.Time) error   { return nil }

type c19LogLine struct {
	at  time.Time
	msg string
}

// c19Logger records the lines it is given and can be told to block (a slow
// log sink) on the first line that contains a given text.
type c19Logger struct {
	mu      sync.Mutex
	lines   []c19LogLine
	armed   atomic.Bool
	pattern string
	blocked chan struct{}
	release chan struct{}
}

func newC19Logger(pattern string) *c19Logger {
	return &c19Logger{pattern: pattern, blocked: make(chan struct{}), release: make(chan struct{})}
}

func (l *c19Logger) logf(format string, args ...any) {
	msg := fmt.Sprintf(format, args...)
	l.mu.Lock()
	l.lines = append(l.lines, c19LogLine{at: time.Now(), msg: msg})
	l.mu.Unlock()
	if strings.Contains(format, l.pattern) && l.armed.CompareAndSwap(true, false) {
		close(l.blocked)
		<-l.release
	}
}

func (l *c19Logger) find(sub string, notBefore time.Time) (c19LogLine, bool) {
	l.mu.Lock()
	defer l.mu.Unlock()
	for _, ln := range l.lines {
		if !ln.at.Before(notBefore) && strings.Contains(ln.msg, sub) {
			return ln, true
		}
	}

	return c19LogLine{}, false
}

func (l *c19Logger) Trace(msg string)                  { l.logf("%s", msg) }
func (l *c19Logger) Tracef(format string, args ...any) { l.logf(format, args...) }
func (l *c19Logger) Debug(msg string)                  { l.logf("%s", msg) }
func (l *c19Logger) Debugf(format string, args ...any) { l.logf(format, args...) }
func (l *c19Logger) Info(msg string)                   { l.logf("%s", msg) }
func (l *c19Logger) Infof(format string, args ...any)  { l.logf(format, args...) }
func (l *c19Logger) Warn(msg string)                   { l.logf("%s", msg) }
func (l *c19Logger) Warnf(format string, args ...any)  { l.logf(format, args...) }
func (l *c19Logger) Error(msg string)                  { l.logf("%s", msg) }
func (l *c19Logger) Errorf(format string, args ...any) { l.logf(format, args...) }

type c19LoggerFactory struct{ l logging.LeveledLogger }

func (f *c19LoggerFactory) NewLogger(string) logging.LeveledLogger { return f.l }

type c19NopLogger struct{}

func (c19NopLogger) Trace(string)          {}
func (c19NopLogger) Tracef(string, ...any) {}
func (c19NopLogger) Debug(string)          {}
func (c19NopLogger) Debugf(string, ...any) {}
func (c19NopLogger) Info(string)           {}
func (c19NopLogger) Infof(string, ...any)  {}
func (c19NopLogger) Warn(string)           {}
func (c19NopLogger) Warnf(string, ...any)  {}
func (c19NopLogger) Error(string)          {}
func (c19NopLogger) Errorf(string, ...any) {}

func c19DataTSNs(raw []byte) []uint32 {
	p := &packet{}
	if err := p.unmarshal(false, raw); err != nil {
		return nil
	}
	var out []uint32
	for _, c := range p.chunks {
		if d, ok := c.(*chunkPayloadData); ok {
			out = append(out, d.tsn)
		}
	}

	return out
}

func c19HasSack(raw []byte) bool {
	p := &packet{}
	if err := p.unmarshal(false, raw); err != nil {
		return false
	}
	for _, c := range p.chunks {
		if _, ok := c.(*chunkSelectiveAck); ok {
			return true
		}
	}

	return false
}

func c19WaitFor(t *testing.T, what string, limit time.Duration, cond func() bool) {
	t.Helper()
	deadline := time.Now().Add(limit)
	for !cond() {
		if time.Now().After(deadline) {
			t.Fatalf("test setup: timed out waiting for %s", what)
		}
		time.Sleep(2 * time.Millisecond)
	}
}

// ---------------------------------------------------------------------------
// C19 finding 1: an expiry of T3-rtx that was decided before the timer was
// stopped is acted upon after the timer has been stopped AND restarted for new
// data. The new data is "timed out" and retransmitted a few hundred
// microseconds after its first transmission although RTO >= 1 s.
// ---------------------------------------------------------------------------

func TestHuntC19_1_StaleT3ExpiryHitsRestartedTimer(t *testing.T) { //nolint:cyclop,gocyclo,maintidx
	c0, c1 := newC19ConnPair()
	log0 := newC19Logger("SACK: cumTSN=")

	// a0 -> a1 wire tap: remember when every DATA TSN goes out; optionally hold
	// the writer inside Write (after the packet was delivered).
	var wireMu sync.Mutex
	sent := map[uint32][]time.Time{}
	var blockNextData atomic.Bool
	wBlocked := make(chan uint32, 1)
	releaseW := make(chan struct{})
	c0.setHook(func(pkt []byte, forward func()) {
		tsns := c19DataTSNs(pkt)
		now := time.Now()
		wireMu.Lock()
		for _, tsn := range tsns {
			sent[tsn] = append(sent[tsn], now)
		}
		wireMu.Unlock()
		forward()
		if len(tsns) > 0 && blockNextData.CompareAndSwap(true, false) {
			wBlocked <- tsns[0]
			<-releaseW
		}
	})

	// a1 -> a0: SACKs can be held back (a slow return path).
	var holdSacks atomic.Bool
	var heldMu sync.Mutex
	var held []func()
	c1.setHook(func(pkt []byte, forward func()) {
		if holdSacks.Load() && c19HasSack(pkt) {
			heldMu.Lock()
			held = append(held, forward)
			heldMu.Unlock()

			return
		}
		forward()
	})

	srvCh := make(chan *Association, 1)
	go func() {
		a, err := Server(Config{NetConn: c1, LoggerFactory: &c19LoggerFactory{l: c19NopLogger{}}, Name: "a1"})
		if err != nil {
			srvCh <- nil

			return
		}
		srvCh <- a
	}()
	a0, err := Client(Config{NetConn: c0, LoggerFactory: &c19LoggerFactory{l: log0}, Name: "a0"})
	if err != nil {
		t.Fatalf("test setup: client: %v", err)
	}
	a1 := <-srvCh
	if a1 == nil {
		t.Fatalf("test setup: server failed")
	}
	defer func() {
		select {
		case <-releaseW:
		default:
			close(releaseW)
		}
		select {
		case <-log0.release:
		default:
			close(log0.release)
		}
		_ = a0.Close()
		_ = a1.Close()
	}()

	s0, err := a0.OpenStream(1, PayloadTypeWebRTCBinary)
	if err != nil {
		t.Fatalf("test setup: open: %v", err)
	}

	// Warm-up: two packets, so that the peer acknowledges at once and a0 gets a
	// small RTT sample (RTO stays at RTO.min = 1 s, the tail-loss-probe timer
	// becomes 2*srtt+200ms).
	if _, err = s0.Write(make([]byte, 2000)); err != nil {
		t.Fatalf("test setup: warm-up write: %v", err)
	}
	s1, err := a1.AcceptStream()
	if err != nil {
		t.Fatalf("test setup: accept: %v", err)
	}
	go func() {
		buf := make([]byte, 65536)
		for {
			if _, rerr := s1.Read(buf); rerr != nil {
				return
			}
		}
	}()
	c19WaitFor(t, "warm-up acknowledged", 5*time.Second, func() bool { return a0.BufferedAmount() == 0 })
	if rto := a0.rtoMgr.getRTO(); rto < 1000 {
		t.Fatalf("test setup: unexpected RTO %v", rto)
	}

	// --- message X: goes out, T3-rtx is started with RTO = 1 s; the write loop
	// stays inside netConn.Write for a while (slow transport). Its SACK is held.
	holdSacks.Store(true)
	blockNextData.Store(true)
	if _, err = s0.Write([]byte("XXXXXXXXXXXXXXXX")); err != nil {
		t.Fatalf("test setup: write X: %v", err)
	}
	var tsnX uint32
	select {
	case tsnX = <-wBlocked:
	case <-time.After(5 * time.Second):
		t.Fatalf("test setup: X never reached the wire")
	}
	t0 := time.Now()
	tsnY := tsnX + 1

	// --- message Y is queued by the application while the write loop is busy:
	// the wake-up token stays in awakeWriteLoopCh.
	if _, err = s0.Write([]byte("YYYYYYYYYYYYYYYY")); err != nil {
		t.Fatalf("test setup: write Y: %v", err)
	}

	// let the tail-loss-probe timer of X pass (it only wakes the writer because Y
	// is pending) so that it cannot interfere later
	c19WaitFor(t, "PTO of X", 700*time.Millisecond, func() bool {
		a0.lock.RLock()
		defer a0.lock.RUnlock()

		return a0.tlrActive
	})
	// the peer's (delayed) SACK for X is on its way
	c19WaitFor(t, "SACK for X", 5*time.Second, func() bool {
		heldMu.Lock()
		defer heldMu.Unlock()

		return len(held) > 0
	})
	if el := time.Since(t0); el > 800*time.Millisecond {
		t.Skipf("machine too slow for the choreography (%v elapsed before the SACK could be delivered)", el)
	}

	// --- the SACK for X arrives; its processing (which holds the association
	// lock) is slow - here: a slow log sink on the first line of handleSack.
	holdSacks.Store(false)
	log0.armed.Store(true)
	heldMu.Lock()
	for _, f := range held {
		f()
	}
	held = nil
	heldMu.Unlock()
	select {
	case <-log0.blocked:
	case <-time.After(5 * time.Second):
		t.Fatalf("test setup: handleSack never logged")
	}

	// --- the write loop comes back from netConn.Write, finds the wake-up token
	// and queues on the association lock.
	close(releaseW)
	time.Sleep(150 * time.Millisecond)
	if el := time.Since(t0); el > 950*time.Millisecond {
		t.Skipf("machine too slow for the choreography (%v elapsed before T3 expiry)", el)
	}

	// --- T3-rtx (started at t0 with RTO = 1 s) expires now: rtxTimer.timeout()
	// decides "expired" under its own mutex and then waits for the association lock.
	c19WaitFor(t, "T3-rtx expiry", 5*time.Second, func() bool {
		a0.t3RTX.mutex.Lock()
		defer a0.t3RTX.mutex.Unlock()

		return a0.t3RTX.nRtos >= 1
	})
	time.Sleep(100 * time.Millisecond)

	// --- SACK processing continues: X is acknowledged, T3-rtx is stopped; the
	// write loop then sends Y and starts T3-rtx afresh; then the stale expiry runs.
	resumed := time.Now()
	close(log0.release)

	c19WaitFor(t, "Y on the wire", 5*time.Second, func() bool {
		wireMu.Lock()
		defer wireMu.Unlock()

		return len(sent[tsnY]) > 0
	})
	time.Sleep(700 * time.Millisecond)

	wireMu.Lock()
	ySent := append([]time.Time(nil), sent[tsnY]...)
	xSent := append([]time.Time(nil), sent[tsnX]...)
	wireMu.Unlock()

	rtoNow := a0.rtoMgr.getRTO()
	t.Logf("X tsn=%d transmissions=%d, Y tsn=%d transmissions=%d, RTO now %.0f ms, nT3Timeouts=%d",
		tsnX, len(xSent), tsnY, len(ySent), rtoNow, a0.stats.getNumT3Timeouts())

	yQueued, ok := log0.find(fmt.Sprintf("tsn=%d ssn=", tsnY), resumed) // "sending ppi=.. tsn=Y ssn=.."
	if !ok {
		t.Fatalf("test setup: Y was never moved to the inflight queue")
	}
	if t3, found := log0.find("T3-rtx timed out", yQueued.at); found {
		d := t3.at.Sub(yQueued.at)
		t.Logf("a0 log: %q  at +%v after Y (tsn=%d) was sent and T3-rtx (re)started", t3.msg, d, tsnY)
		if rtx, f2 := log0.find(fmt.Sprintf("retransmitting tsn=%d", tsnY), yQueued.at); f2 {
			t.Logf("a0 log: %q at +%v", rtx.msg, rtx.at.Sub(yQueued.at))
		}
		if d < time.Second {
			t.Errorf("T3-rtx was (re)started with RTO=%.0f ms when tsn=%d was sent, but a T3-rtx timeout was processed %v later "+
				"(RTO.min is 1 s): the expiry belonged to the previous, already stopped run of the timer", rtoNow, tsnY, d)
		}
	}
	if len(ySent) >= 2 {
		d := ySent[1].Sub(ySent[0])
		if d < time.Second {
			t.Errorf("DATA tsn=%d was retransmitted %v after its first transmission although RTO is %.0f ms "+
				"(and never below RTO.min = 1 s)", tsnY, d, rtoNow)
		}
	}
}
