// SPDX-FileCopyrightText: 2026 The Pion community <https://pion.ly>
// SPDX-License-Identifier: MIT

package sctp

import (
	"io"
	"net"
	"sync"
	"testing"
	"time"

	"github.com/pion/logging"
)

// huntC023Conn: in-memory datagram pipe, loss free and in order. The only "fault" it can
// inject is a short period of back pressure: Write blocks while a gate is set.
type huntC023Conn struct {
	mu     sync.Mutex
	cond   *sync.Cond
	pkts   [][]byte
	closed bool
	peer   *huntC023Conn
	gate   chan struct{}
	atGate chan struct{} // signalled when a writer reached the gate
}

func newHuntC023Pipe() (*huntC023Conn, *huntC023Conn) {
	a, b := &huntC023Conn{}, &huntC023Conn{}
	a.cond, b.cond = sync.NewCond(&a.mu), sync.NewCond(&b.mu)
	a.peer, b.peer = b, a

	return a, b
}

func (c *huntC023Conn) Read(p []byte) (int, error) {
	c.mu.Lock()
	defer c.mu.Unlock()
	for {
		if len(c.pkts) > 0 {
			pkt := c.pkts[0]
			c.pkts = c.pkts[1:]

			return copy(p, pkt), nil
		}
		if c.closed {
			return 0, io.EOF
		}
		c.cond.Wait()
	}
}

func (c *huntC023Conn) Write(p []byte) (int, error) {
	c.mu.Lock()
	gate, atGate := c.gate, c.atGate
	c.mu.Unlock()
	if gate != nil {
		select {
		case atGate <- struct{}{}:
		default:
		}
		<-gate
	}
	c.mu.Lock()
	closed := c.closed
	c.mu.Unlock()
	if closed {
		return 0, io.ErrClosedPipe
	}
	cp := append([]byte(nil), p...)
	c.peer.mu.Lock()
	if !c.peer.closed {
		c.peer.pkts = append(c.peer.pkts, cp)
		c.peer.cond.Broadcast()
	}
	c.peer.mu.Unlock()

	return len(p), nil
}

func (c *huntC023Conn) Close() error {
	c.mu.Lock()
	c.closed = true
	c.cond.Broadcast()
	c.mu.Unlock()

	return nil
}

func (c *huntC023Conn) LocalAddr() net.Addr                { return &net.UDPAddr{} }
func (c *huntC023Conn) RemoteAddr() net.Addr               { return &net.UDPAddr{} }
func (c *huntC023Conn) SetDeadline(time.Time) error      { return nil }
func (c *huntC023Conn) SetReadDeadline(time.Time) error  { return nil }
func (c *huntC023Conn) SetWriteDeadline(time.Time) error { return nil }

// TestHuntC02_3_BlockWriteStuckAfterProbeAndReset:
//
// BlockWrite association. During a zero window episode (the reader pauses) the
// application writes its last message on stream 1 and closes the stream, the usual
// "send the final message, close the channel". The message leaves the pending
// queue as a zero window probe, the end-of-stream marker stays behind. The pending
// queue is then emptied by popping the marker - a path that does not wake the
// writers. From then on a.writePending is true for ever although nothing is
// pending: the reader resumes, everything written so far is delivered and
// acknowledged, the association is idle and healthy - and every Write on every
// stream of it blocks for ever.
func TestHuntC02_3_BlockWriteStuckAfterProbeAndReset(t *testing.T) {
	const (
		recvBuf  = 1500
		rtoMaxMs = 1000
		waitFor  = 20 * time.Second
	)

	c0, c1 := newHuntC023Pipe()
	lf := logging.NewDefaultLoggerFactory()

	type res struct {
		a   *Association
		err error
	}
	srvCh := make(chan res, 1)
	go func() {
		a, err := ServerWithOptions(WithNetConn(c1), WithLoggerFactory(lf), WithName("server"), WithRTOMax(rtoMaxMs),
			WithMaxReceiveBufferSize(recvBuf), WithEnableInterleaving(false), WithBlockWrite(true))
		srvCh <- res{a, err}
	}()
	client, err := ClientWithOptions(WithNetConn(c0), WithLoggerFactory(lf), WithName("client"), WithRTOMax(rtoMaxMs),
		WithMaxReceiveBufferSize(recvBuf), WithEnableInterleaving(false), WithBlockWrite(true))
	if err != nil {
		t.Fatalf("client: %v", err)
	}
	sr := <-srvCh
	if sr.err != nil {
		t.Fatalf("server: %v", sr.err)
	}
	server := sr.a
	defer func() {
		_ = client.Close()
		_ = server.Close()
	}()

	// Receiving application: accepts every stream at once, reads every stream - but
	// pauses reading for a while (until told to resume): a zero window episode.
	resume := make(chan struct{})
	type rcv struct {
		si uint16
		n  int
	}
	got := make(chan rcv, 100)
	go func() {
		for {
			s, aerr := server.AcceptStream()
			if aerr != nil {
				return
			}
			go func() {
				<-resume
				buf := make([]byte, 65536)
				for {
					n, rerr := s.Read(buf)
					if rerr != nil {
						return
					}
					got <- rcv{s.StreamIdentifier(), n}
				}
			}()
		}
	}()

	s1, err := client.OpenStream(1, PayloadTypeWebRTCBinary)
	if err != nil {
		t.Fatal(err)
	}
	s2, err := client.OpenStream(2, PayloadTypeWebRTCBinary)
	if err != nil {
		t.Fatal(err)
	}

	// 1000 of the peer's 1500 bytes of receive buffer get used and stay used (reader paused).
	if _, err = s1.Write(make([]byte, 1000)); err != nil {
		t.Fatal(err)
	}
	deadline := time.Now().Add(10 * time.Second)
	for client.BufferedAmount() != 0 || client.RWND() != 500 {
		if time.Now().After(deadline) {
			t.Fatalf("setup: first message not acknowledged (buffered=%d rwnd=%d)", client.BufferedAmount(), client.RWND())
		}
		time.Sleep(10 * time.Millisecond)
	}

	// A moment of transport back pressure, so that the write loop is busy while the
	// application does "write the last message, close the stream".
	gate := make(chan struct{})
	atGate := make(chan struct{}, 1)
	c0.mu.Lock()
	c0.gate, c0.atGate = gate, atGate
	c0.mu.Unlock()
	client.ActiveHeartbeat() // any packet: the write loop now sits in netConn.Write
	select {
	case <-atGate:
	case <-time.After(10 * time.Second):
		t.Fatal("setup: write loop did not reach the transport")
	}

	if _, err = s1.Write(make([]byte, 1000)); err != nil { // larger than the peer's window (500)
		t.Fatal(err)
	}
	if err = s1.Close(); err != nil {
		t.Fatal(err)
	}

	c0.mu.Lock()
	c0.gate, c0.atGate = nil, nil
	c0.mu.Unlock()
	close(gate) // back pressure is over; the connection is perfect from now on

	// The reader resumes: end of the zero window episode.
	time.Sleep(300 * time.Millisecond)
	close(resume)

	// Both messages written so far must arrive, and do.
	for i := 0; i < 2; i++ {
		select {
		case r := <-got:
			if r.si != 1 || r.n != 1000 {
				t.Fatalf("unexpected message %+v", r)
			}
		case <-time.After(waitFor):
			t.Fatalf("message %d on stream 1 not delivered", i)
		}
	}
	deadline = time.Now().Add(waitFor)
	for client.BufferedAmount() != 0 {
		if time.Now().After(deadline) {
			t.Fatalf("sender did not drain: buffered=%d", client.BufferedAmount())
		}
		time.Sleep(10 * time.Millisecond)
	}

	// The association is idle now: nothing pending, nothing in flight, window open,
	// reader reading. Write one small message on the other stream.
	wrote := make(chan error, 1)
	go func() {
		_, werr := s2.Write([]byte("hello"))
		wrote <- werr
	}()

	select {
	case werr := <-wrote:
		if werr != nil {
			t.Fatalf("write: %v", werr)
		}
	case <-time.After(waitFor):
		client.lock.RLock()
		wp, pend, infl := client.writePending, client.pendingQueue.size(), client.inflightQueue.size()
		state := client.getState()
		client.lock.RUnlock()
		server.lock.RLock()
		credit := server.getMyReceiverWindowCredit()
		server.lock.RUnlock()
		t.Fatalf("Write on an idle, established (state=%s) association has been blocked for %v: "+
			"writePending=%v although pending queue size=%d, inflight=%d, BufferedAmount=%d "+
			"(receiver's window credit=%d of %d, everything written before was delivered and read)",
			getAssociationStateString(state), waitFor, wp, pend, infl, client.BufferedAmount(), credit, recvBuf)
	}

	select {
	case r := <-got:
		if r.si != 2 || r.n != 5 {
			t.Fatalf("unexpected message %+v", r)
		}
	case <-time.After(waitFor):
		t.Fatalf("message on stream 2 not delivered")
	}
}
