// SPDX-FileCopyrightText: 2026 The Pion community <https://pion.ly>
// SPDX-License-Identifier: MIT

package sctp

import (
	"io"
	"net"
	"sync"
	"testing"
	"time"

	"github.com/pion/logging"
	"github.com/stretchr/testify/require"
)

// Property C10 (last clause): "the congestion window is cut on every loss signal yet
// never falls below one MTU".
//
// Demonstration: the sender declares a DATA chunk lost with its RACK logic (time based
// loss detection, run on every SACK and on the RACK timer), retransmits it at once, and
// leaves cwnd / ssthresh completely untouched. No fast recovery is entered and no T3-rtx
// timeout happens, so the loss goes by without any congestion response at all.
//
// The library under test talks to a fully scripted peer (this test), so every inbound
// packet is chosen by the test.

// ---- scripted peer plumbing -------------------------------------------------

type huntC10bConn struct {
	in     chan []byte // packets towards the association under test
	out    chan []byte // packets written by the association under test
	closed chan struct{}
	once   sync.Once
}

func newHuntC10bConn() *huntC10bConn {
	return &huntC10bConn{
		in:     make(chan []byte, 1024),
		out:    make(chan []byte, 1024),
		closed: make(chan struct{}),
	}
}

func (c *huntC10bConn) Read(p []byte) (int, error) {
	select {
	case b := <-c.in:
		return copy(p, b), nil
	case <-c.closed:
		return 0, io.EOF
	}
}

func (c *huntC10bConn) Write(p []byte) (int, error) {
	b := append([]byte(nil), p...)
	select {
	case c.out <- b:
		return len(p), nil
	case <-c.closed:
		return 0, io.ErrClosedPipe
	}
}

func (c *huntC10bConn) Close() error {
	c.once.Do(func() { close(c.closed) })

	return nil
}
func (c *huntC10bConn) LocalAddr() net.Addr              { return &net.UDPAddr{} }
func (c *huntC10bConn) RemoteAddr() net.Addr             { return &net.UDPAddr{} }
func (c *huntC10bConn) SetDeadline(time.Time) error      { return nil }
func (c *huntC10bConn) SetReadDeadline(time.Time) error  { return nil }
func (c *huntC10bConn) SetWriteDeadline(time.Time) error { return nil }

type huntC10bPeer struct {
	t       *testing.T
	conn    *huntC10bConn
	peerTag uint32 // verification tag the association under test expects
	a       *Association
	// first TSN the association under test will use
	firstTSN uint32
}

const huntC10bWait = 20 * time.Second

// next returns the next packet written by the association under test.
func (p *huntC10bPeer) next() *packet {
	p.t.Helper()
	select {
	case raw := <-p.conn.out:
		pkt := &packet{}
		require.NoError(p.t, pkt.unmarshal(true, raw))

		return pkt
	case <-time.After(huntC10bWait):
		require.FailNow(p.t, "timed out waiting for a packet from the association")

		return nil
	}
}

// nextData returns the DATA chunks of the next packet that carries DATA.
func (p *huntC10bPeer) nextData() []*chunkPayloadData {
	p.t.Helper()
	for {
		pkt := p.next()
		var res []*chunkPayloadData
		for _, c := range pkt.chunks {
			if d, ok := c.(*chunkPayloadData); ok {
				res = append(res, d)
			}
		}
		if len(res) > 0 {
			return res
		}
	}
}

func (p *huntC10bPeer) send(chunks ...chunk) {
	p.t.Helper()
	pkt := &packet{
		sourcePort:      defaultSCTPSrcDstPort,
		destinationPort: defaultSCTPSrcDstPort,
		verificationTag: p.peerTag,
		chunks:          chunks,
	}
	raw, err := pkt.marshal(true)
	require.NoError(p.t, err)
	p.conn.in <- raw
}

func (p *huntC10bPeer) sack(cumTSN uint32, arwnd uint32, gaps ...gapAckBlock) {
	p.t.Helper()
	p.send(&chunkSelectiveAck{
		cumulativeTSNAck:               cumTSN,
		advertisedReceiverWindowCredit: arwnd,
		gapAckBlocks:                   gaps,
	})
}

// huntC10bConnect creates a client association and plays the server side of the
// handshake by hand.
func huntC10bConnect(t *testing.T, arwnd uint32) *huntC10bPeer {
	t.Helper()

	conn := newHuntC10bConn()
	peer := &huntC10bPeer{t: t, conn: conn}

	type res struct {
		a   *Association
		err error
	}
	ch := make(chan res, 1)
	go func() {
		a, err := ClientWithOptions(
			WithNetConn(conn),
			WithName("hunted"),
			WithLoggerFactory(logging.NewDefaultLoggerFactory()),
			WithEnableInterleaving(false),
		)
		ch <- res{a, err}
	}()

	// INIT
	pkt := peer.next()
	init, ok := pkt.chunks[0].(*chunkInit)
	require.True(t, ok, "expected INIT")
	peer.peerTag = init.initiateTag
	peer.firstTSN = init.initialTSN

	// INIT ACK
	initAck := &chunkInitAck{}
	initAck.initiateTag = 0x12345678
	initAck.advertisedReceiverWindowCredit = arwnd
	initAck.numOutboundStreams = 1024
	initAck.numInboundStreams = 1024
	initAck.initialTSN = 1000
	cookie, err := newRandomStateCookie()
	require.NoError(t, err)
	initAck.params = []param{cookie}
	setSupportedExtensions(&initAck.chunkInitCommon, false)
	peer.send(initAck)

	// COOKIE ECHO
	pkt = peer.next()
	_, ok = pkt.chunks[0].(*chunkCookieEcho)
	require.True(t, ok, "expected COOKIE ECHO")

	// COOKIE ACK
	peer.send(&chunkCookieAck{})

	select {
	case r := <-ch:
		require.NoError(t, r.err)
		peer.a = r.a
	case <-time.After(huntC10bWait):
		require.FailNow(t, "handshake did not complete")
	}

	t.Cleanup(func() {
		_ = conn.Close()
		_ = peer.a.Close()
	})

	return peer
}

func huntC10bSnapshot(a *Association) (cwnd uint32, inFR bool, t3 uint64) {
	a.lock.RLock()
	defer a.lock.RUnlock()

	return a.CWND(), a.inFastRecovery, a.stats.getNumT3Timeouts()
}

func huntC10bWaitFor(t *testing.T, what string, cond func() bool) {
	t.Helper()
	deadline := time.Now().Add(huntC10bWait)
	for !cond() {
		if time.Now().After(deadline) {
			require.FailNow(t, "timed out waiting for "+what)
		}
		time.Sleep(2 * time.Millisecond)
	}
}

// ---- the demonstration --------------------------------------------------------

func TestHuntC10_2_RackLossDoesNotCutCwnd(t *testing.T) {
	msg := make([]byte, 1000)

	peer := huntC10bConnect(t, 1024*1024)
	a := peer.a
	mtu := a.MTU()

	s, err := a.OpenStream(1, PayloadTypeWebRTCBinary)
	require.NoError(t, err)

	// Three messages of 1000 bytes, written a few milliseconds apart so that their
	// transmission times are clearly ordered. All fit the initial cwnd (4380).
	t0 := peer.firstTSN
	for i := uint32(0); i < 3; i++ {
		_, err = s.WriteSCTP(msg, PayloadTypeWebRTCBinary)
		require.NoError(t, err)
		d := peer.nextData()
		require.Len(t, d, 1)
		require.Equal(t, t0+i, d[0].tsn)
		time.Sleep(5 * time.Millisecond)
	}

	before, inFR, _ := huntC10bSnapshot(a)
	require.False(t, inFR)
	t.Logf("mtu=%d cwnd before the loss=%d", mtu, before)

	// The first DATA chunk was lost on the way: the peer acknowledges t0+1 and t0+2
	// with a gap ack block and reports t0 missing (one single SACK).
	peer.sack(t0-1, 1024*1024, gapAckBlock{start: 2, end: 3})

	// The sender declares t0 lost and retransmits it straight away ...
	var rtx *chunkPayloadData
	for rtx == nil {
		for _, d := range peer.nextData() {
			if d.tsn == t0 {
				rtx = d
			}
		}
	}
	require.Len(t, rtx.userData, len(msg))

	a.lock.RLock()
	nFastRtx := a.stats.getNumFastRetrans()
	nT3 := a.stats.getNumT3Timeouts()
	fr := a.inFastRecovery
	ssthresh := a.ssthresh
	after := a.CWND()
	a.lock.RUnlock()
	t.Logf("t0 retransmitted: cwnd=%d ssthresh=%d fastRecovery=%v fastRetrans=%d t3Timeouts=%d",
		after, ssthresh, fr, nFastRtx, nT3)

	// ... and this was neither a classic fast retransmit nor a timeout:
	require.Zero(t, nT3, "no T3-rtx timeout is involved")
	require.Zero(t, nFastRtx, "no classic fast retransmit is involved")

	// The retransmission arrives, everything is acknowledged.
	peer.sack(t0+2, 1024*1024)
	huntC10bWaitFor(t, "all data acknowledged", func() bool {
		return a.BufferedAmount() == 0
	})

	final, _, t3 := huntC10bSnapshot(a)
	t.Logf("after recovery: cwnd=%d t3Timeouts=%d", final, t3)
	require.Zero(t, t3)

	require.GreaterOrEqual(t, after, mtu, "cwnd fell below one MTU")
	require.Less(t, after, before,
		"a chunk was declared lost and retransmitted: cwnd must have been cut (before=%d, at retransmission=%d, after recovery=%d)",
		before, after, final)
}
