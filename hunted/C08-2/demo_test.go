package sctp

import (
	"context"
	"errors"
	"io"
	"net"
	"sync"
	"testing"
	"time"

	"github.com/pion/logging"
)

// A lossless, in-order, in-memory datagram link. The only special thing: a
// Write on one end can be held up for a while (a slow transport), which keeps
// that association's write loop busy while the application goes on.

type c082End struct {
	in     chan []byte
	peer   *c082End
	closed chan struct{}
	once   sync.Once

	mu      sync.Mutex
	gate    chan struct{} // non-nil: writes wait until it is closed
	waiting chan struct{} // closed when a writer is waiting at the gate
}

type c082Addr struct{}

func (c082Addr) Network() string { return "mem" }
func (c082Addr) String() string  { return "mem" }

func newC082Link() (*c082End, *c082End) {
	a := &c082End{in: make(chan []byte, 1<<12), closed: make(chan struct{})}
	b := &c082End{in: make(chan []byte, 1<<12), closed: make(chan struct{})}
	a.peer, b.peer = b, a

	return a, b
}

func (e *c082End) holdWrites() (waiting <-chan struct{}, release func()) {
	e.mu.Lock()
	defer e.mu.Unlock()
	g := make(chan struct{})
	w := make(chan struct{})
	e.gate, e.waiting = g, w

	return w, func() {
		e.mu.Lock()
		e.gate, e.waiting = nil, nil
		e.mu.Unlock()
		close(g)
	}
}

func (e *c082End) Read(p []byte) (int, error) {
	select {
	case raw := <-e.in:
		return copy(p, raw), nil
	case <-e.closed:
		return 0, net.ErrClosed
	}
}

func (e *c082End) Write(p []byte) (int, error) {
	select {
	case <-e.closed:
		return 0, net.ErrClosed
	default:
	}
	e.mu.Lock()
	g, w := e.gate, e.waiting
	if w != nil {
		select {
		case <-w:
		default:
			close(w)
		}
	}
	e.mu.Unlock()
	if g != nil {
		select {
		case <-g:
		case <-e.closed:
			return 0, net.ErrClosed
		}
	}
	select {
	case e.peer.in <- append([]byte(nil), p...):
	case <-e.peer.closed:
	}

	return len(p), nil
}

func (e *c082End) Close() error                     { e.once.Do(func() { close(e.closed) }); return nil }
func (e *c082End) LocalAddr() net.Addr              { return c082Addr{} }
func (e *c082End) RemoteAddr() net.Addr             { return c082Addr{} }
func (e *c082End) SetDeadline(time.Time) error      { return nil }
func (e *c082End) SetReadDeadline(time.Time) error  { return nil }
func (e *c082End) SetWriteDeadline(time.Time) error { return nil }

func c082WaitFor(t *testing.T, what string, cond func() bool) {
	t.Helper()
	deadline := time.Now().Add(20 * time.Second)
	for !cond() {
		if time.Now().After(deadline) {
			t.Fatalf("timed out waiting for: %s", what)
		}
		time.Sleep(2 * time.Millisecond)
	}
}

// A stream identifier is used again after both directions of the old stream
// were reset (the normal life cycle of WebRTC data channel ids). The message
// written on the new stream is accepted by Write, acknowledged by the peer, and
// Shutdown returns nil - but the message is never readable at the peer.
//
//nolint:cyclop,gocyclo,maintidx
func c082Run(t *testing.T, interleaving bool) {
	ca, cb := newC082Link()
	type res struct {
		a   *Association
		err error
	}
	chA := make(chan res, 1)
	chB := make(chan res, 1)
	lf := logging.NewDefaultLoggerFactory()
	go func() {
		a, err := ClientWithOptions(WithName("A"), WithNetConn(ca), WithLoggerFactory(lf), WithEnableInterleaving(interleaving))
		chA <- res{a, err}
	}()
	go func() {
		b, err := ServerWithOptions(WithName("B"), WithNetConn(cb), WithLoggerFactory(lf), WithEnableInterleaving(interleaving))
		chB <- res{b, err}
	}()
	ra, rb := <-chA, <-chB
	if ra.err != nil || rb.err != nil {
		t.Fatalf("handshake: %v / %v", ra.err, rb.err)
	}
	a, b := ra.a, rb.a
	defer func() {
		_ = a.Close()
		_ = b.Close()
	}()

	// everything B's application can read, per accepted stream object
	type got struct {
		sid  uint16
		msgs []string
		err  error
	}
	var mu sync.Mutex
	var all []*got
	var wg sync.WaitGroup
	wg.Add(1)
	go func() {
		defer wg.Done()
		for {
			s, err := b.AcceptStream()
			if err != nil {
				return
			}
			g := &got{sid: s.StreamIdentifier()}
			mu.Lock()
			all = append(all, g)
			mu.Unlock()
			wg.Add(1)
			go func() {
				defer wg.Done()
				buf := make([]byte, 65536)
				for {
					n, err := s.Read(buf)
					mu.Lock()
					if err != nil {
						g.err = err
						mu.Unlock()
						if g.sid == 1 && errors.Is(err, io.EOF) {
							// B's application: the peer has closed the channel, close our side too
							_ = s.Close()
						}

						return
					}
					g.msgs = append(g.msgs, string(buf[:n]))
					mu.Unlock()
				}
			}()
		}
	}()
	countMsgs := func(sid uint16) int {
		mu.Lock()
		defer mu.Unlock()
		n := 0
		for _, g := range all {
			if g.sid == sid {
				n += len(g.msgs)
			}
		}

		return n
	}

	// 1. first life of stream 1, plus a second stream that stays open
	s1, err := a.OpenStream(1, PayloadTypeWebRTCBinary)
	if err != nil {
		t.Fatal(err)
	}
	s2, err := a.OpenStream(2, PayloadTypeWebRTCBinary)
	if err != nil {
		t.Fatal(err)
	}
	for _, m := range []string{"old-0", "old-1"} {
		if _, err = s1.Write([]byte(m)); err != nil {
			t.Fatal(err)
		}
	}
	if _, err = s2.Write([]byte("hello")); err != nil {
		t.Fatal(err)
	}
	c082WaitFor(t, "B reads the first messages", func() bool { return countMsgs(1) == 2 && countMsgs(2) == 1 })

	// 2. B's application closes stream 1 first (resets B's outgoing direction).
	b.lock.Lock()
	bs1 := b.streams[1]
	b.lock.Unlock()
	if err = bs1.Close(); err != nil {
		t.Fatal(err)
	}
	// A's application sees the end of the stream ...
	buf := make([]byte, 100)
	if _, err = s1.Read(buf); !errors.Is(err, io.EOF) {
		t.Fatalf("expected EOF on A's stream 1, got %v", err)
	}
	c082WaitFor(t, "B's reset request answered", func() bool {
		b.lock.Lock()
		defer b.lock.Unlock()

		return len(b.reconfigs) == 0
	})

	// 3. A's transport is slow for a moment: the write loop is busy with a packet.
	waiting, release := ca.holdWrites()
	if _, err = s2.Write([]byte("ping")); err != nil {
		t.Fatal(err)
	}
	select {
	case <-waiting:
	case <-time.After(20 * time.Second):
		t.Fatal("write loop never wrote the ping")
	}

	// 4. ... meanwhile A's application closes its side of stream 1 and uses the
	// identifier for a new stream at once.
	if err = s1.Close(); err != nil {
		t.Fatal(err)
	}
	s1new, err := a.OpenStream(1, PayloadTypeWebRTCBinary)
	if err != nil {
		t.Fatal(err)
	}
	if s1new == s1 {
		t.Fatal("test assumption: OpenStream returns a new stream")
	}
	if _, err = s1new.Write([]byte("new-0")); err != nil {
		t.Fatalf("write on the new stream not accepted: %v", err)
	}
	if _, err = s1new.Write([]byte("new-1")); err != nil {
		t.Fatalf("write on the new stream not accepted: %v", err)
	}
	release()

	// 5. graceful shutdown
	ctx, cancel := context.WithTimeout(context.Background(), 30*time.Second)
	defer cancel()
	shutdownErr := a.Shutdown(ctx)

	// B ends at the latest when its transport closes
	select {
	case <-b.readLoopCloseCh:
	case <-time.After(3 * time.Second):
	}
	_ = ca.Close()
	_ = cb.Close()
	wg.Wait()

	mu.Lock()
	defer mu.Unlock()
	var newMsgs []string
	for _, g := range all {
		t.Logf("B: stream object for id %d read %q, then %v", g.sid, g.msgs, g.err)
		if g.sid == 1 {
			for _, m := range g.msgs {
				if m != "old-0" && m != "old-1" {
					newMsgs = append(newMsgs, m)
				}
			}
		}
	}
	if shutdownErr != nil {
		a.lock.Lock()
		t.Logf("A: state=%s pending=%d inflight=%d reconfigs=%d", getAssociationStateString(a.getState()),
			a.pendingQueue.size(), a.inflightQueue.size(), len(a.reconfigs))
		a.lock.Unlock()
		t.Errorf("Shutdown did not complete on a lossless link: %v", shutdownErr)

		return
	}
	if len(newMsgs) != 2 || newMsgs[0] != "new-0" || newMsgs[1] != "new-1" {
		t.Errorf("Shutdown returned nil, but of the accepted messages [new-0 new-1] the peer could read only %q", newMsgs)
	}
}

func TestZZHuntC08_2_ReusedStreamIDDataAckedButNeverReadable(t *testing.T) {
	// default configuration: user message interleaving (I-DATA) is negotiated
	c082Run(t, true)
}

func TestZZHuntC08_2b_ReusedStreamIDShutdownHangsWithoutInterleaving(t *testing.T) {
	c082Run(t, false)
}
