package sctp

import (
	"errors"
	"net"
	"sync"
	"testing"
	"time"

	"github.com/pion/logging"
)

// Datagram transport driven by the test: every Write is handed to the test through
// "out", every packet the test puts into "in" is returned by Read.
type zzC04Conn4 struct {
	in     chan []byte
	out    chan []byte
	closed chan struct{}
	once   sync.Once
}

func newZZC04Conn4() *zzC04Conn4 {
	return &zzC04Conn4{
		in:     make(chan []byte, 1024),
		out:    make(chan []byte, 1024),
		closed: make(chan struct{}),
	}
}

func (c *zzC04Conn4) Read(b []byte) (int, error) {
	select {
	case p := <-c.in:
		return copy(b, p), nil
	case <-c.closed:
		return 0, net.ErrClosed
	}
}

func (c *zzC04Conn4) Write(b []byte) (int, error) {
	select {
	case <-c.closed:
		return 0, net.ErrClosed
	default:
	}
	select {
	case c.out <- append([]byte{}, b...):
	default:
	}

	return len(b), nil
}

func (c *zzC04Conn4) Close() error {
	c.once.Do(func() { close(c.closed) })

	return nil
}
func (c *zzC04Conn4) LocalAddr() net.Addr              { return &net.IPAddr{} }
func (c *zzC04Conn4) RemoteAddr() net.Addr             { return &net.IPAddr{} }
func (c *zzC04Conn4) SetDeadline(time.Time) error      { return nil }
func (c *zzC04Conn4) SetReadDeadline(time.Time) error  { return nil }
func (c *zzC04Conn4) SetWriteDeadline(time.Time) error { return nil }

// The peer does not answer within the client's whole T1-init retry budget (it starts too
// late; the INITs wait in the network). The connect call fails with ErrHandshakeInitAck -
// so far so good. But the failed association is left running in COOKIE-WAIT behind the
// caller's back: when the INIT ACK finally arrives it sends COOKIE ECHO, completes the
// handshake, and from then on acknowledges the server's data - although the only thing
// the client application was ever told is "handshake failed" (it did not even get an
// *Association it could close).
//
// (The COOKIE-ECHO path of the same situation is handled: handleCookieEcho does not
// answer with COOKIE ACK when the result can no longer be handed to the connect call.)
func TestZZHuntC04_4_FailedClientCompletesHandshakeLater(t *testing.T) {
	lf := logging.NewDefaultLoggerFactory()
	lf.DefaultLogLevel = logging.LogLevelDisabled

	connA := newZZC04Conn4()
	connB := newZZC04Conn4()
	defer connA.Close() //nolint:errcheck
	defer connB.Close() //nolint:errcheck

	// RTO.Max = 50 ms keeps the retry budget short: 9 transmissions, 50 ms apart.
	start := time.Now()
	_, err := ClientWithOptions(WithName("A"), WithNetConn(connA), WithLoggerFactory(lf), WithRTOMax(50))
	if !errors.Is(err, ErrHandshakeInitAck) {
		t.Fatalf("connect call: got %v, want ErrHandshakeInitAck", err)
	}
	t.Logf("connect call failed after %v: %v", time.Since(start), err)

	// all INITs A ever sent are still in the network
	var inits [][]byte
drain:
	for {
		select {
		case p := <-connA.out:
			inits = append(inits, p)
		default:
			break drain
		}
	}
	if len(inits) != 9 {
		t.Fatalf("expected 9 INIT transmissions, got %d", len(inits))
	}

	// Now the server side comes up and the (late) INITs are delivered; from here on the
	// network is perfect.
	type result struct {
		a   *Association
		err error
	}
	resB := make(chan result, 1)
	go func() {
		b, errB := ServerWithOptions(WithName("B"), WithNetConn(connB), WithLoggerFactory(lf))
		resB <- result{b, errB}
	}()
	for _, p := range inits {
		connB.in <- p
	}
	stop := make(chan struct{})
	defer close(stop)
	var fromA []chunkType
	var mu sync.Mutex
	pump := func(from, to *zzC04Conn4, record bool) {
		for {
			select {
			case p := <-from.out:
				if record {
					mu.Lock()
					fromA = append(fromA, chunkType(p[packetHeaderSize]))
					mu.Unlock()
				}
				select {
				case to.in <- p:
				default:
				}
			case <-stop:
				return
			}
		}
	}
	go pump(connA, connB, true)
	go pump(connB, connA, false)

	select {
	case r := <-resB:
		if r.err != nil {
			t.Fatalf("server: %v", r.err)
		}
		defer r.a.Close() //nolint:errcheck
		mu.Lock()
		sent := append([]chunkType{}, fromA...)
		mu.Unlock()
		t.Errorf("the server side was handed an ESTABLISHED association by a client whose connect call had "+
			"already failed with %q; packets the failed client sent after that failure: %v", err, sent)

		// and the failed client even acknowledges user data
		s, errOpen := r.a.OpenStream(1, PayloadTypeWebRTCBinary)
		if errOpen != nil {
			t.Fatal(errOpen)
		}
		if _, errWrite := s.Write([]byte("is anybody there?")); errWrite != nil {
			t.Fatal(errWrite)
		}
		deadline := time.Now().Add(5 * time.Second)
		for r.a.BufferedAmount() != 0 && time.Now().Before(deadline) {
			time.Sleep(10 * time.Millisecond)
		}
		if r.a.BufferedAmount() == 0 {
			t.Errorf("the server's message was acknowledged by the failed client (nobody will ever read it)")
		}
	case <-time.After(3 * time.Second):
		// expected: the failed client stays silent, the server keeps waiting
	}
}
