package sctp

import (
	"bytes"
	"encoding/binary"
	"testing"
)

func huntC12Packet2(chunks ...[]byte) []byte {
	raw := []byte{0x13, 0x88, 0x13, 0x88, 0x00, 0x00, 0x00, 0x01, 0, 0, 0, 0}
	for _, c := range chunks {
		raw = append(raw, c...)
	}
	binary.LittleEndian.PutUint32(raw[8:], generatePacketChecksum(raw))

	return raw
}

// The T bit of an ABORT chunk (RFC 9260 sec 3.3.7: the sender reflected the
// verification tag because it has no TCB) is a field of that chunk. The decoder
// keeps it (flags=1), the encoder throws it away: chunkAbort.marshal overwrites the
// flags with 0. SHUTDOWN-COMPLETE, the other chunk with a T bit, keeps it.
func TestHuntC12_2_AbortTBitLostByEncoder(t *testing.T) {
	// 1. decode an accepted packet, encode it again
	abortT := []byte{0x06, 0x01, 0x00, 0x08, 0x00, 0x0c, 0x00, 0x04} // ABORT, T=1, user initiated abort, no reason
	raw := huntC12Packet2(abortT)

	pkt := &packet{}
	if err := pkt.unmarshal(true, raw); err != nil {
		t.Fatalf("the decoder refuses an ABORT with the T bit: %v", err)
	}
	abort, ok := pkt.chunks[0].(*chunkAbort)
	if !ok || abort.flags != 1 || len(abort.errorCauses) != 1 {
		t.Fatalf("unexpected decode: %T %+v", pkt.chunks[0], pkt.chunks[0])
	}
	again, err := pkt.marshal(true)
	if err != nil {
		t.Fatalf("re-encode: %v", err)
	}
	if !bytes.Equal(again, raw) {
		t.Errorf("ABORT with T bit is not stable under decode + encode:\n in  % x\n out % x", raw, again)
	}
	pkt2 := &packet{}
	if err = pkt2.unmarshal(true, again); err != nil {
		t.Fatalf("decode of the re-encoded packet: %v", err)
	}
	if a2, ok := pkt2.chunks[0].(*chunkAbort); !ok {
		t.Fatalf("unexpected decode: %T", pkt2.chunks[0])
	} else if a2.flags != 1 {
		t.Errorf("the T bit is gone after one decode + encode + decode: flags=%#x, want 0x01", a2.flags)
	}

	// 2. build the chunk with the bit set, through the chunk interface
	var c chunk = &chunkAbort{chunkHeader: chunkHeader{flags: 1}}
	built, err := (&packet{sourcePort: 5000, destinationPort: 5000, verificationTag: 7, chunks: []chunk{c}}).marshal(true)
	if err != nil {
		t.Fatal(err)
	}
	if built[12] != byte(ctAbort) || built[13] != 1 {
		t.Errorf("ABORT built with flags=0x01 is emitted as % x (flags byte %#x)", built[12:], built[13])
	}

	// 3. same packet, bundled: [SACK, ABORT(T)] - the ABORT changes, the SACK does not
	sack := []byte{0x03, 0x00, 0x00, 0x10, 0, 0, 0, 9, 0, 0, 0x10, 0, 0, 0, 0, 0}
	raw = huntC12Packet2(sack, abortT)
	pkt = &packet{}
	if err = pkt.unmarshal(true, raw); err != nil {
		t.Fatal(err)
	}
	if again, err = pkt.marshal(true); err != nil || !bytes.Equal(again, raw) {
		t.Errorf("[SACK, ABORT(T)] is not stable under decode + encode: %v\n in  % x\n out % x", err, raw, again)
	}

	// Control: SHUTDOWN-COMPLETE carries the same T bit and keeps it.
	raw = huntC12Packet2([]byte{0x0e, 0x01, 0x00, 0x04})
	pkt = &packet{}
	if err = pkt.unmarshal(true, raw); err != nil {
		t.Fatal(err)
	}
	if again, err = pkt.marshal(true); err != nil || !bytes.Equal(again, raw) {
		t.Fatalf("control: SHUTDOWN-COMPLETE with T bit: %v % x", err, again)
	}
}
