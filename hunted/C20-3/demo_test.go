package sctp

import (
	"fmt"
	"io"
	"net"
	"os"
	"runtime"
	"strings"
	"sync"
	"sync/atomic"
	"testing"
	"time"

	"github.com/pion/logging"
)

// Concurrent writers on a few streams of an association that negotiated message
// interleaving, towards a peer with a small receive buffer: the scheduler interleaves the
// fragments of their messages, the receiver's buffer fills up with the beginnings of
// several messages, none of which is complete; it advertises a zero window and drops
// every further fragment (including the zero window probes) for ever.

type h3Conn struct {
	mu     sync.Mutex
	cond   *sync.Cond
	pkts   [][]byte
	closed bool
	peer   *h3Conn
	rdl    time.Time
}

func newH3ConnPair() (*h3Conn, *h3Conn) {
	a := &h3Conn{}
	b := &h3Conn{}
	a.cond = sync.NewCond(&a.mu)
	b.cond = sync.NewCond(&b.mu)
	a.peer = b
	b.peer = a

	return a, b
}

func (c *h3Conn) Read(p []byte) (int, error) {
	c.mu.Lock()
	defer c.mu.Unlock()
	for {
		if c.closed {
			return 0, io.EOF
		}
		if !c.rdl.IsZero() && !time.Now().Before(c.rdl) {
			return 0, os.ErrDeadlineExceeded
		}
		if len(c.pkts) > 0 {
			pkt := c.pkts[0]
			c.pkts = c.pkts[1:]

			return copy(p, pkt), nil
		}
		c.cond.Wait()
	}
}

func (c *h3Conn) Write(p []byte) (int, error) {
	c.mu.Lock()
	closed := c.closed
	c.mu.Unlock()
	if closed {
		return 0, net.ErrClosed
	}
	cp := append([]byte(nil), p...)
	c.peer.mu.Lock()
	if !c.peer.closed {
		c.peer.pkts = append(c.peer.pkts, cp)
		c.peer.cond.Broadcast()
	}
	c.peer.mu.Unlock()

	return len(p), nil
}

func (c *h3Conn) Close() error {
	c.mu.Lock()
	c.closed = true
	c.cond.Broadcast()
	c.mu.Unlock()

	return nil
}

func (c *h3Conn) LocalAddr() net.Addr              { return &net.UDPAddr{} }
func (c *h3Conn) RemoteAddr() net.Addr             { return &net.UDPAddr{} }
func (c *h3Conn) SetDeadline(time.Time) error      { return nil }
func (c *h3Conn) SetWriteDeadline(time.Time) error { return nil }
func (c *h3Conn) SetReadDeadline(t time.Time) error {
	c.mu.Lock()
	c.rdl = t
	c.cond.Broadcast()
	c.mu.Unlock()

	return nil
}

func h3Pair(t *testing.T, cfg Config) (*Association, *Association) {
	t.Helper()
	c0, c1 := newH3ConnPair()
	lf := logging.NewDefaultLoggerFactory()
	type res struct {
		a   *Association
		err error
	}
	ch0 := make(chan res, 1)
	ch1 := make(chan res, 1)
	go func() {
		a, err := Client(func() Config { c := cfg; c.NetConn = c0; c.LoggerFactory = lf; c.Name = "a0"; return c }())
		ch0 <- res{a, err}
	}()
	go func() {
		a, err := Server(func() Config { c := cfg; c.NetConn = c1; c.LoggerFactory = lf; c.Name = "a1"; return c }())
		ch1 <- res{a, err}
	}()
	var a0, a1 *Association
	for i := 0; i < 2; i++ {
		select {
		case r := <-ch0:
			if r.err != nil {
				t.Fatalf("client: %v", r.err)
			}
			a0 = r.a
		case r := <-ch1:
			if r.err != nil {
				t.Fatalf("server: %v", r.err)
			}
			a1 = r.a
		case <-time.After(30 * time.Second):
			t.Fatalf("handshake did not complete")
		}
	}

	return a0, a1
}

func h3Stacks(filter string) string {
	buf := make([]byte, 1<<20)
	n := runtime.Stack(buf, true)
	var out []string
	for _, g := range strings.Split(string(buf[:n]), "\n\n") {
		if strings.Contains(g, filter) {
			out = append(out, g)
		}
	}

	return strings.Join(out, "\n\n")
}

func TestHuntC20_3_ConcurrentWritersInterleavingSmallReceiveBuffer(t *testing.T) {
	const (
		recvBuf  = 4000
		msgSize  = 1500 // well below the receive buffer; two fragments at the default MTU
		nStreams = 8
		nMsgs    = 50
	)
	// RTOMax only caps the T3-rtx back-off, so that zero window probes keep going out once a second
	a0, a1 := h3Pair(t, Config{MaxReceiveBufferSize: recvBuf, RTOMax: 1000})
	defer func() {
		go a0.Close() //nolint:errcheck
		go a1.Close() //nolint:errcheck
	}()
	if md, ok := a0.Metadata(); !ok || !md.MessageInterleavingEnabled {
		t.Fatalf("interleaving was not negotiated: %+v", md)
	}

	var delivered atomic.Int64
	var finished atomic.Bool
	defer finished.Store(true)
	var lastProgress atomic.Int64
	lastProgress.Store(time.Now().UnixNano())
	var rwg sync.WaitGroup
	rwg.Add(nStreams)
	go func() {
		for i := 0; i < nStreams; i++ {
			s, err := a1.AcceptStream()
			if err != nil {
				return
			}
			go func() {
				defer rwg.Done()
				buf := make([]byte, 4096)
				for k := 0; k < nMsgs; k++ {
					n, err := s.Read(buf)
					if finished.Load() {
						return
					}
					if err != nil || n != msgSize {
						t.Errorf("stream %d: read %d: n=%d err=%v", s.StreamIdentifier(), k, n, err)

						return
					}
					delivered.Add(1)
					lastProgress.Store(time.Now().UnixNano())
				}
			}()
		}
	}()

	for i := 0; i < nStreams; i++ {
		s, err := a0.OpenStream(uint16(i), PayloadTypeWebRTCBinary)
		if err != nil {
			t.Fatal(err)
		}
		go func() {
			for k := 0; k < nMsgs; k++ {
				if _, err := s.Write(make([]byte, msgSize)); err != nil {
					if !finished.Load() {
						t.Errorf("write: %v", err)
					}

					return
				}
			}
		}()
	}

	done := make(chan struct{})
	go func() { rwg.Wait(); close(done) }()
	for {
		select {
		case <-done:
			return
		case <-time.After(time.Second):
		}
		if idle := time.Since(time.Unix(0, lastProgress.Load())); idle > 30*time.Second {
			a1.lock.Lock()
			credit := a1.getMyReceiverWindowCredit()
			partial := ""
			for id, s := range a1.streams {
				s.lock.RLock()
				partial += fmt.Sprintf(" stream %d: %d bytes queued, readable=%v;", id, s.getNumBytesInReassemblyQueue(), s.reassemblyQueue.isReadable())
				s.lock.RUnlock()
			}
			a1.lock.Unlock()
			a0.lock.Lock()
			snd := fmt.Sprintf("pending=%d chunks, inflight=%d chunks, rwnd=%d, T3 timeouts=%d", a0.pendingQueue.size(), a0.inflightQueue.size(),
				a0.RWND(), a0.stats.getNumT3Timeouts())
			a0.lock.Unlock()
			t.Fatalf("no message has been delivered for %v: %d of %d delivered, all readers are blocked in Read.\n"+
				"receiver: window credit=%d;%s\nsender: %s",
				idle.Round(time.Second), delivered.Load(), nStreams*nMsgs, credit, partial, snd)
		}
	}
}
