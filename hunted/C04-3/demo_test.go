package sctp

import (
	"net"
	"sync"
	"testing"
	"time"

	"github.com/pion/logging"
)

// A perfect in-memory datagram link (no loss, no reordering).
type zzC04Conn3 struct {
	in     chan []byte
	peer   *zzC04Conn3
	closed chan struct{}
	once   sync.Once
}

func newZZC04Pair3() (*zzC04Conn3, *zzC04Conn3) {
	a := &zzC04Conn3{in: make(chan []byte, 4096), closed: make(chan struct{})}
	b := &zzC04Conn3{in: make(chan []byte, 4096), closed: make(chan struct{})}
	a.peer, b.peer = b, a

	return a, b
}

func (c *zzC04Conn3) Read(b []byte) (int, error) {
	select {
	case p := <-c.in:
		return copy(b, p), nil
	case <-c.closed:
		return 0, net.ErrClosed
	}
}

func (c *zzC04Conn3) Write(b []byte) (int, error) {
	select {
	case <-c.closed:
		return 0, net.ErrClosed
	default:
	}
	select {
	case c.peer.in <- append([]byte{}, b...):
	default:
	}

	return len(b), nil
}

func (c *zzC04Conn3) Close() error {
	c.once.Do(func() { close(c.closed) })

	return nil
}
func (c *zzC04Conn3) LocalAddr() net.Addr              { return &net.IPAddr{} }
func (c *zzC04Conn3) RemoteAddr() net.Addr             { return &net.IPAddr{} }
func (c *zzC04Conn3) SetDeadline(time.Time) error      { return nil }
func (c *zzC04Conn3) SetReadDeadline(time.Time) error  { return nil }
func (c *zzC04Conn3) SetWriteDeadline(time.Time) error { return nil }

// Both endpoints start from exchanged out-of-band tokens. WithSNAP is an
// AssociationOption ("applies to both client and server") and ServerWithOptions accepts
// it without an error - and then ignores it: the server side sits in CLOSED waiting for
// an INIT the token-started peer will never send, while that peer is ESTABLISHED and
// transmits DATA into the void.
func TestZZHuntC04_3_ServerIgnoresOutOfBandTokens(t *testing.T) {
	lf := logging.NewDefaultLoggerFactory()
	lf.DefaultLogLevel = logging.LogLevelDisabled

	tokenA, err := GenerateOutOfBandToken()
	if err != nil {
		t.Fatal(err)
	}
	tokenB, err := GenerateOutOfBandToken()
	if err != nil {
		t.Fatal(err)
	}
	ca, cb := newZZC04Pair3()
	defer ca.Close() //nolint:errcheck
	defer cb.Close() //nolint:errcheck

	type result struct {
		a   *Association
		err error
	}
	resB := make(chan result, 1)
	go func() {
		b, errB := ServerWithOptions(WithName("B"), WithNetConn(cb), WithLoggerFactory(lf), WithSNAP(tokenB, tokenA))
		resB <- result{b, errB}
	}()

	a, err := ClientWithOptions(WithName("A"), WithNetConn(ca), WithLoggerFactory(lf), WithSNAP(tokenA, tokenB))
	if err != nil {
		t.Fatal(err)
	}
	defer a.Close() //nolint:errcheck
	if _, ok := a.Metadata(); !ok {
		t.Fatal("A is not established")
	}
	sa, err := a.OpenStream(1, PayloadTypeWebRTCBinary)
	if err != nil {
		t.Fatal(err)
	}
	if _, err = sa.Write([]byte("ping")); err != nil {
		t.Fatal(err)
	}

	var b *Association
	select {
	case r := <-resB:
		if r.err != nil {
			t.Fatalf("the token-started server side failed: %v", r.err)
		}
		b = r.a
	case <-time.After(10 * time.Second):
		t.Fatalf("10 s after both sides started from the exchanged tokens over a perfect link: " +
			"A is ESTABLISHED, the ServerWithOptions(WithSNAP(...)) call of B has still not returned")
	}
	defer b.Close() //nolint:errcheck

	got := make(chan string, 1)
	go func() {
		sb, errAccept := b.AcceptStream()
		if errAccept != nil {
			got <- "AcceptStream: " + errAccept.Error()

			return
		}
		buf := make([]byte, 64)
		n, errRead := sb.Read(buf)
		if errRead != nil {
			got <- "Read: " + errRead.Error()

			return
		}
		got <- string(buf[:n])
	}()
	select {
	case g := <-got:
		if g != "ping" {
			t.Errorf("B received %q", g)
		}
	case <-time.After(15 * time.Second):
		t.Errorf("B never received A's message")
	}
}
