package sctp

// Hunt C19, finding 2: an RTO.max below the protocol minimum is accepted and pulls every
// retransmission timeout below one second - down to zero.
//
// WithRTOMax only rejects values <= 0 (and Config.RTOMax is not checked at all). The
// timers compute min(RTO * 2^n, RTO.max), so any RTO.max < 1000 ms wins over RTO.min:
//   - WithRTOMax(300): INIT is retransmitted every 300 ms (no back-off either);
//   - WithRTOMax(0.5): time.Duration(0.5) == 0, T1-init expires 9 times back to back and
//     the handshake is reported as failed within a few milliseconds, long before the
//     INIT ACK of a perfectly healthy peer 40 ms away can arrive.

import (
	"errors"
	"io"
	"net"
	"sync"
	"testing"
	"time"

	"github.com/pion/logging"
)

type h2End struct {
	peer   *h2End // nil: black hole
	delay  time.Duration
	inbox  chan []byte
	closed chan struct{}
	once   sync.Once
	mu     sync.Mutex
	inits  []time.Time // times at which an INIT was written to this end
}

func newH2End() *h2End {
	return &h2End{inbox: make(chan []byte, 1024), closed: make(chan struct{})}
}

func (e *h2End) Read(p []byte) (int, error) {
	select {
	case raw := <-e.inbox:
		return copy(p, raw), nil
	case <-e.closed:
		return 0, io.EOF
	}
}

func (e *h2End) Write(p []byte) (int, error) {
	select {
	case <-e.closed:
		return 0, io.ErrClosedPipe
	default:
	}
	raw := append([]byte(nil), p...)
	pkt := &packet{}
	if err := pkt.unmarshal(true, raw); err == nil {
		for _, c := range pkt.chunks {
			if _, ok := c.(*chunkInit); ok {
				e.mu.Lock()
				e.inits = append(e.inits, time.Now())
				e.mu.Unlock()
			}
		}
	}
	if peer := e.peer; peer != nil {
		time.AfterFunc(e.delay, func() {
			select {
			case peer.inbox <- raw:
			case <-peer.closed:
			}
		})
	}

	return len(p), nil
}

func (e *h2End) initTimes() []time.Time {
	e.mu.Lock()
	defer e.mu.Unlock()

	return append([]time.Time(nil), e.inits...)
}

func (e *h2End) Close() error                     { e.once.Do(func() { close(e.closed) }); return nil }
func (e *h2End) LocalAddr() net.Addr              { return &net.UDPAddr{} }
func (e *h2End) RemoteAddr() net.Addr             { return &net.UDPAddr{} }
func (e *h2End) SetDeadline(time.Time) error      { return nil }
func (e *h2End) SetReadDeadline(time.Time) error  { return nil }
func (e *h2End) SetWriteDeadline(time.Time) error { return nil }

// An RTO.max of 300 ms: the peer never answers, watch the INIT retransmissions.
func TestZZHuntC19_2_RTOMaxBelowMinimum_InitEvery300ms(t *testing.T) {
	conn := newH2End() // black hole
	lf := logging.NewDefaultLoggerFactory()

	done := make(chan error, 1)
	go func() {
		_, err := ClientWithOptions(WithNetConn(conn), WithLoggerFactory(lf), WithName("A"), WithRTOMax(300))
		done <- err
	}()

	select {
	case err := <-done:
		if errors.Is(err, errInvalidRTOMax) {
			return // the setting was turned down: fine
		}
		// 9 INITs 300 ms apart: the attempt is over after 2.7 s
		t.Logf("connect attempt ended early: %v", err)
	case <-time.After(2500 * time.Millisecond):
	}
	_ = conn.Close()

	times := conn.initTimes()
	if len(times) == 0 {
		t.Fatal("no INIT seen")
	}
	var gaps []time.Duration
	for i := 1; i < len(times); i++ {
		gaps = append(gaps, times[i].Sub(times[i-1]).Round(time.Millisecond))
	}
	t.Logf("%d INITs within 2.5 s, gaps between them: %v", len(times), gaps)
	for i, g := range gaps {
		// a timer never fires early: a gap below one second is a timeout below RTO.min
		if g < time.Second {
			t.Fatalf("retransmission #%d of INIT came %v after the previous transmission: "+
				"the retransmission timeout is below the protocol minimum of 1 s", i+1, g)
		}
	}
}

// An RTO.max of 0.5 ms: the peer is healthy and 40 ms (one way) away.
func TestZZHuntC19_2_RTOMaxBelowMinimum_HandshakeFailsAtOnce(t *testing.T) {
	ca, cb := newH2End(), newH2End()
	ca.peer, cb.peer = cb, ca
	ca.delay, cb.delay = 40*time.Millisecond, 40*time.Millisecond
	lf := logging.NewDefaultLoggerFactory()

	go func() {
		// the peer: default settings
		if srv, err := ServerWithOptions(WithNetConn(cb), WithLoggerFactory(lf), WithName("B")); err == nil {
			defer srv.Close() //nolint:errcheck
			<-cb.closed
		}
	}()

	start := time.Now()
	type res struct {
		a   *Association
		err error
	}
	done := make(chan res, 1)
	go func() {
		a, err := ClientWithOptions(WithNetConn(ca), WithLoggerFactory(lf), WithName("A"), WithRTOMax(0.5))
		done <- res{a, err}
	}()

	var r res
	select {
	case r = <-done:
	case <-time.After(30 * time.Second):
		t.Fatal("connect attempt did not end")
	}
	took := time.Since(start)
	defer func() {
		if r.a != nil {
			_ = r.a.Close()
		}
		_ = ca.Close()
		_ = cb.Close()
	}()

	if errors.Is(r.err, errInvalidRTOMax) {
		return // the setting was turned down: fine
	}
	atReturn := len(ca.initTimes())
	time.Sleep(300 * time.Millisecond) // let what was queued go out
	times := ca.initTimes()
	spread := time.Duration(0)
	if len(times) > 1 {
		spread = times[len(times)-1].Sub(times[0])
	}
	t.Logf("connect attempt ended after %v with err=%v; INITs written by then: %d; INITs written in all: %d, "+
		"the last one %v after the first",
		took.Round(time.Microsecond), r.err, atReturn, len(times), spread.Round(time.Microsecond))
	if r.err != nil {
		t.Fatalf("handshake with a healthy peer 80 ms (RTT) away was reported as failed after %v and %d INITs: %v "+
			"(T1-init ran with a timeout of 0 instead of >= 1 s)", took.Round(time.Microsecond), len(times), r.err)
	}
	if len(times) > 1 {
		t.Fatalf("%d INITs were sent although the INIT ACK arrived after 80 ms (< RTO.min)", len(times))
	}
}

// The passive side has no T1 timer, so it gets through the handshake with RTO.max = 0.5 ms.
// One 5-byte message over a 100 ms round trip is then "timed out" tens of thousands of times.
func TestZZHuntC19_2_RTOMaxBelowMinimum_T3Storm(t *testing.T) {
	ca, cb := newH2End(), newH2End()
	ca.peer, cb.peer = cb, ca
	ca.delay, cb.delay = 50*time.Millisecond, 50*time.Millisecond
	lf := logging.NewDefaultLoggerFactory()

	type res struct {
		a   *Association
		err error
	}
	cch, sch := make(chan res, 1), make(chan res, 1)
	go func() {
		a, err := ClientWithOptions(WithNetConn(ca), WithLoggerFactory(lf), WithName("A"))
		cch <- res{a, err}
	}()
	go func() {
		a, err := ServerWithOptions(WithNetConn(cb), WithLoggerFactory(lf), WithName("B"), WithRTOMax(0.5))
		sch <- res{a, err}
	}()
	var a, b *Association
	for a == nil || b == nil {
		select {
		case r := <-cch:
			if r.err != nil {
				t.Fatalf("client: %v", r.err)
			}
			a = r.a
		case r := <-sch:
			if errors.Is(r.err, errInvalidRTOMax) {
				return // the setting was turned down: fine
			}
			if r.err != nil {
				t.Fatalf("server: %v", r.err)
			}
			b = r.a
		case <-time.After(30 * time.Second):
			t.Fatal("handshake did not complete")
		}
	}
	defer a.Close() //nolint:errcheck
	defer b.Close() //nolint:errcheck

	s, err := b.OpenStream(1, PayloadTypeWebRTCBinary)
	if err != nil {
		t.Fatal(err)
	}
	if _, err = s.Write([]byte("hello")); err != nil {
		t.Fatal(err)
	}
	// RTT 100 ms + at most 200 ms of delayed ack: the message is acknowledged long before
	// a retransmission timeout of >= 1 s could expire.
	time.Sleep(600 * time.Millisecond)

	nT3, nPkts := b.stats.getNumT3Timeouts(), b.stats.getNumPacketsSent()
	t.Logf("one 5-byte message, RTT 100 ms: T3-rtx expiries=%d, packets sent by the server=%d, left unacknowledged=%d bytes",
		nT3, nPkts, b.BufferedAmount())
	if nT3 != 0 {
		t.Fatalf("T3-rtx expired %d times within 600 ms (%d packets sent for one 5-byte message): "+
			"the retransmission timeout is far below the protocol minimum of 1 s", nT3, nPkts)
	}
}
