package sctp

import (
	"context"
	"net"
	"strings"
	"sync"
	"testing"
	"time"

	"github.com/pion/logging"
)

// c09d1Conn is a plain in-memory datagram transport: every Write is delivered
// to the peer's Read as one packet, Close wakes a blocked Read. A filter can be
// installed to lose packets in one direction.
type c09d1Conn struct {
	peer   *c09d1Conn
	mu     sync.Mutex
	cond   *sync.Cond
	q      [][]byte
	closed bool
	lose   func(raw []byte) bool
}

func newC09d1Pair() (*c09d1Conn, *c09d1Conn) {
	a, b := &c09d1Conn{}, &c09d1Conn{}
	a.cond, b.cond = sync.NewCond(&a.mu), sync.NewCond(&b.mu)
	a.peer, b.peer = b, a

	return a, b
}

func (c *c09d1Conn) Read(p []byte) (int, error) {
	c.mu.Lock()
	defer c.mu.Unlock()
	for {
		if c.closed {
			return 0, net.ErrClosed
		}
		if len(c.q) > 0 {
			pkt := c.q[0]
			c.q = c.q[1:]

			return copy(p, pkt), nil
		}
		c.cond.Wait()
	}
}

func (c *c09d1Conn) Write(p []byte) (int, error) {
	c.mu.Lock()
	closed, lose := c.closed, c.lose
	c.mu.Unlock()
	if closed {
		return 0, net.ErrClosed
	}
	if lose != nil && lose(p) {
		return len(p), nil
	}
	raw := append([]byte(nil), p...)
	c.peer.mu.Lock()
	if !c.peer.closed {
		c.peer.q = append(c.peer.q, raw)
		c.peer.cond.Broadcast()
	}
	c.peer.mu.Unlock()

	return len(p), nil
}

func (c *c09d1Conn) Close() error {
	c.mu.Lock()
	c.closed = true
	c.cond.Broadcast()
	c.mu.Unlock()

	return nil
}

func (c *c09d1Conn) setLose(f func(raw []byte) bool) {
	c.mu.Lock()
	c.lose = f
	c.mu.Unlock()
}

func (c *c09d1Conn) LocalAddr() net.Addr              { return &net.IPAddr{} }
func (c *c09d1Conn) RemoteAddr() net.Addr             { return &net.IPAddr{} }
func (c *c09d1Conn) SetDeadline(time.Time) error      { return nil }
func (c *c09d1Conn) SetReadDeadline(time.Time) error  { return nil }
func (c *c09d1Conn) SetWriteDeadline(time.Time) error { return nil }

// A calls Abort("c09-abort-reason") while B is blocked in Shutdown (B still has
// unacknowledged data, so its shutdown sequence is waiting). The ABORT reaches B
// and closes it; B's blocked Read gets an error with the cause, but the blocked
// Shutdown call returns an error that does not carry the abort cause.
func TestHuntC09_1_ShutdownErrorLacksAbortCause(t *testing.T) {
	const reason = "c09-abort-reason"

	ca, cb := newC09d1Pair()
	lf := logging.NewDefaultLoggerFactory()

	type res struct {
		a   *Association
		err error
	}
	chA, chB := make(chan res, 1), make(chan res, 1)
	go func() {
		x, err := Client(Config{NetConn: ca, LoggerFactory: lf, Name: "A"})
		chA <- res{x, err}
	}()
	go func() {
		x, err := Server(Config{NetConn: cb, LoggerFactory: lf, Name: "B"})
		chB <- res{x, err}
	}()
	var a, b *Association
	for a == nil || b == nil {
		select {
		case r := <-chA:
			if r.err != nil {
				t.Fatalf("client: %v", r.err)
			}
			a = r.a
		case r := <-chB:
			if r.err != nil {
				t.Fatalf("server: %v", r.err)
			}
			b = r.a
		case <-time.After(20 * time.Second):
			t.Fatal("handshake did not complete")
		}
	}
	defer func() {
		_ = a.Close()
		_ = b.Close()
	}()

	// a stream in both directions
	sa, err := a.OpenStream(1, PayloadTypeWebRTCBinary)
	if err != nil {
		t.Fatal(err)
	}
	if _, err = sa.Write([]byte("ping")); err != nil {
		t.Fatal(err)
	}
	sb, err := b.AcceptStream()
	if err != nil {
		t.Fatal(err)
	}
	buf := make([]byte, 1500)
	if _, err = sb.Read(buf); err != nil {
		t.Fatal(err)
	}

	// From now on everything A sends is lost, except an ABORT: B's data stays
	// unacknowledged, so B.Shutdown has to wait in SHUTDOWN-PENDING.
	ca.setLose(func(raw []byte) bool {
		return !(len(raw) > int(commonHeaderSize) && raw[commonHeaderSize] == byte(ctAbort))
	})
	if _, err = sb.Write([]byte("data that is never acknowledged")); err != nil {
		t.Fatal(err)
	}

	readErr := make(chan error, 1)
	go func() {
		rb := make([]byte, 1500)
		_, e := sb.Read(rb)
		readErr <- e
	}()

	shutdownErr := make(chan error, 1)
	go func() {
		ctx, cancel := context.WithTimeout(context.Background(), 30*time.Second)
		defer cancel()
		shutdownErr <- b.Shutdown(ctx)
	}()

	// wait until B is really inside its shutdown sequence
	deadline := time.Now().Add(20 * time.Second)
	for b.getState() != shutdownPending {
		if time.Now().After(deadline) {
			t.Fatalf("B did not reach SHUTDOWN-PENDING (state %s)", getAssociationStateString(b.getState()))
		}
		time.Sleep(5 * time.Millisecond)
	}
	time.Sleep(50 * time.Millisecond) // let the Shutdown call get to its wait

	a.Abort(reason)

	select {
	case e := <-readErr:
		// sanity: the ABORT has arrived with its cause, the reader sees it
		if e == nil || !strings.Contains(e.Error(), reason) {
			t.Fatalf("test assumption: B's blocked Read should report the abort cause, got: %v", e)
		}
		t.Logf("B's blocked Read returned: %v", e)
	case <-time.After(20 * time.Second):
		t.Fatal("B's blocked Read was not released by the ABORT")
	}

	select {
	case e := <-shutdownErr:
		t.Logf("B's blocked Shutdown returned: %v", e)
		if e == nil {
			t.Fatalf("B.Shutdown returned nil although the association was aborted by the peer")
		}
		if !strings.Contains(e.Error(), reason) {
			t.Fatalf("B was closed by the peer's ABORT, but the error of the blocked Shutdown call "+
				"does not carry the abort cause %q: %v", reason, e)
		}
	case <-time.After(20 * time.Second):
		t.Fatal("B's blocked Shutdown was not released by the ABORT")
	}
}
