package sctp

import (
	"errors"
	"net"
	"sync"
	"testing"
	"time"
)

// ---- a minimal in-memory datagram pipe that records everything written ----

type huntC12n1Conn struct {
	in     chan []byte
	peer   *huntC12n1Conn
	closed chan struct{}
	once   sync.Once

	mu   sync.Mutex
	sent [][]byte
}

func huntC12n1Pipe() (*huntC12n1Conn, *huntC12n1Conn) {
	a := &huntC12n1Conn{in: make(chan []byte, 1024), closed: make(chan struct{})}
	b := &huntC12n1Conn{in: make(chan []byte, 1024), closed: make(chan struct{})}
	a.peer, b.peer = b, a

	return a, b
}

func (c *huntC12n1Conn) Read(p []byte) (int, error) {
	select {
	case b := <-c.in:
		return copy(p, b), nil
	case <-c.closed:
		return 0, net.ErrClosed
	}
}

func (c *huntC12n1Conn) Write(p []byte) (int, error) {
	cp := append([]byte(nil), p...)
	c.mu.Lock()
	c.sent = append(c.sent, cp)
	c.mu.Unlock()
	select {
	case <-c.closed:
		return 0, net.ErrClosed
	default:
	}
	select {
	case c.peer.in <- cp:
	default: // peer queue full: drop like a network would
	}

	return len(p), nil
}

func (c *huntC12n1Conn) Close() error                     { c.once.Do(func() { close(c.closed) }); return nil }
func (c *huntC12n1Conn) LocalAddr() net.Addr              { return &net.UDPAddr{} }
func (c *huntC12n1Conn) RemoteAddr() net.Addr             { return &net.UDPAddr{} }
func (c *huntC12n1Conn) SetDeadline(time.Time) error      { return nil }
func (c *huntC12n1Conn) SetReadDeadline(time.Time) error  { return nil }
func (c *huntC12n1Conn) SetWriteDeadline(time.Time) error { return nil }

func (c *huntC12n1Conn) packets() [][]byte {
	c.mu.Lock()
	defer c.mu.Unlock()

	return append([][]byte(nil), c.sent...)
}

// Every packet emitted by an endpoint must be well formed, which includes the
// chunk-specific fields: the library's own validity check of a decoded chunk
// (chunk.check(), the one handleChunk applies to every received chunk) must
// accept what the library itself emits. With a small - but accepted - receive
// buffer the INIT (and the INIT ACK) carry a_rwnd < 1500, which the library's own
// check rejects, so two pion endpoints configured like this never connect.
func TestHuntC12n1_InitARwndBelow1500(t *testing.T) {
	const recvBuf = 1024 // accepted by WithMaxReceiveBufferSize / Config

	c0, c1 := huntC12n1Pipe()
	defer c0.Close() //nolint:errcheck
	defer c1.Close() //nolint:errcheck

	type res struct {
		a   *Association
		err error
	}
	cliCh := make(chan res, 1)
	srvCh := make(chan res, 1)
	go func() {
		a, err := ClientWithOptions(WithName("cli"), WithNetConn(c0), WithMaxReceiveBufferSize(recvBuf))
		cliCh <- res{a, err}
	}()
	go func() {
		a, err := ServerWithOptions(WithName("srv"), WithNetConn(c1), WithMaxReceiveBufferSize(recvBuf))
		srvCh <- res{a, err}
	}()

	// 1. wait for the first packet of the client (the INIT)
	var first []byte
	deadline := time.Now().Add(10 * time.Second)
	for time.Now().Before(deadline) {
		if pk := c0.packets(); len(pk) > 0 {
			first = pk[0]

			break
		}
		time.Sleep(5 * time.Millisecond)
	}
	if first == nil {
		t.Fatal("test problem: client emitted nothing")
	}

	p := &packet{}
	if err := p.unmarshal(true, first); err != nil {
		t.Fatalf("emitted packet does not decode: %v", err)
	}
	if err := checkPacket(p); err != nil {
		t.Fatalf("emitted packet fails checkPacket: %v", err)
	}
	bad := false
	for _, c := range p.chunks {
		if _, err := c.check(); err != nil {
			bad = true
			t.Errorf("emitted %T (a_rwnd=%d) is rejected by the library's own chunk check: %v",
				c, c.(*chunkInit).advertisedReceiverWindowCredit, err) //nolint:forcetypeassert
		}
	}

	// 2. end to end consequence: the handshake of two such endpoints never completes.
	established2 := false
	select {
	case r := <-cliCh:
		if r.err == nil {
			established2 = true
			defer r.a.Close() //nolint:errcheck
		} else if !errors.Is(r.err, ErrAssociationClosedBeforeConn) {
			t.Logf("client error: %v", r.err)
		}
	case <-time.After(5 * time.Second):
	}
	if !established2 {
		t.Errorf("handshake between two endpoints with MaxReceiveBufferSize=%d did not complete within 5 s "+
			"(client sent %d packets, server sent %d packets)", recvBuf, len(c0.packets()), len(c1.packets()))
	}
	_ = bad
	_ = srvCh
}
