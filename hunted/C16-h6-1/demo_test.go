package sctp

import (
	"encoding/binary"
	"io"
	"net"
	"sync"
	"testing"
	"time"

	"github.com/pion/logging"
)

// ---- a minimal in-memory datagram pipe with a per-direction packet filter ----

type zzC16Conn struct {
	mu     sync.Mutex
	cond   *sync.Cond
	q      [][]byte
	closed bool
	peer   *zzC16Conn
	// filter is applied to packets written on this conn (towards peer). It returns
	// the packet to forward (possibly rewritten) or nil to drop it.
	filter func([]byte) []byte
}

func newZZC16Pipe() (*zzC16Conn, *zzC16Conn) {
	a, b := &zzC16Conn{}, &zzC16Conn{}
	a.cond, b.cond = sync.NewCond(&a.mu), sync.NewCond(&b.mu)
	a.peer, b.peer = b, a

	return a, b
}

func (c *zzC16Conn) Read(b []byte) (int, error) {
	c.mu.Lock()
	defer c.mu.Unlock()
	for len(c.q) == 0 {
		if c.closed {
			return 0, io.EOF
		}
		c.cond.Wait()
	}
	p := c.q[0]
	c.q = c.q[1:]

	return copy(b, p), nil
}

func (c *zzC16Conn) Write(b []byte) (int, error) {
	c.mu.Lock()
	closed, f := c.closed, c.filter
	c.mu.Unlock()
	if closed {
		return 0, io.ErrClosedPipe
	}
	p := append([]byte(nil), b...)
	if f != nil {
		if p = f(p); p == nil {
			return len(b), nil
		}
	}
	c.peer.mu.Lock()
	if !c.peer.closed {
		c.peer.q = append(c.peer.q, p)
		c.peer.cond.Signal()
	}
	c.peer.mu.Unlock()

	return len(b), nil
}

func (c *zzC16Conn) setFilter(f func([]byte) []byte) {
	c.mu.Lock()
	c.filter = f
	c.mu.Unlock()
}

func (c *zzC16Conn) Close() error {
	c.mu.Lock()
	c.closed = true
	c.cond.Broadcast()
	c.mu.Unlock()

	return nil
}
func (c *zzC16Conn) LocalAddr() net.Addr              { return &net.UDPAddr{IP: net.IPv4(127, 0, 0, 1), Port: 1} }
func (c *zzC16Conn) RemoteAddr() net.Addr             { return &net.UDPAddr{IP: net.IPv4(127, 0, 0, 1), Port: 2} }
func (c *zzC16Conn) SetDeadline(time.Time) error      { return nil }
func (c *zzC16Conn) SetReadDeadline(time.Time) error  { return nil }
func (c *zzC16Conn) SetWriteDeadline(time.Time) error { return nil }

func zzC16Pair(t *testing.T, c0, c1 net.Conn) (*Association, *Association) {
	t.Helper()
	lf := logging.NewDefaultLoggerFactory()
	type res struct {
		a   *Association
		err error
	}
	ch0, ch1 := make(chan res, 1), make(chan res, 1)
	go func() {
		a, err := ClientWithOptions(WithName("a0"), WithNetConn(c0), WithLoggerFactory(lf), WithEnableInterleaving(false))
		ch0 <- res{a, err}
	}()
	go func() {
		a, err := ServerWithOptions(WithName("a1"), WithNetConn(c1), WithLoggerFactory(lf), WithEnableInterleaving(false))
		ch1 <- res{a, err}
	}()
	var r0, r1 res
	select {
	case r0 = <-ch0:
	case <-time.After(20 * time.Second):
		t.Fatal("handshake (client) timed out")
	}
	select {
	case r1 = <-ch1:
	case <-time.After(20 * time.Second):
		t.Fatal("handshake (server) timed out")
	}
	if r0.err != nil || r1.err != nil {
		t.Fatalf("handshake failed: %v %v", r0.err, r1.err)
	}

	return r0.a, r1.a
}

// TestZZHuntC16_1: an ordered, unreliable (max-retransmits 0) stream. The first
// message reaches the receiver (it is acknowledged and complete) but the
// application does not read yet. Then a long run of messages is lost on the wire
// (a few get through, so that the SACK clock keeps running) - the sender abandons
// them and announces every skip with FORWARD-TSN, each FORWARD-TSN skipping far
// fewer than 2^15 stream sequence numbers. After more than 2^15 sequence numbers
// have gone by, the link is good again and the application reads.
//
// Ordered delivery demands that the application sees the messages that reached
// the receiver in the order they were sent, starting with the first one, however
// many sequence numbers were used up in between.
func TestZZHuntC16_1(t *testing.T) {
	// the same scenario with a lossy period of 3000 messages works
	t.Run("control_3000_sequence_numbers_go_by", func(t *testing.T) { zzC16Run1(t, 3000) })
	// ... with 34000 (> 2^15) it does not
	t.Run("34000_sequence_numbers_go_by", func(t *testing.T) { zzC16Run1(t, 34000) })
}

func zzC16Run1(t *testing.T, lossTo uint32) {
	t.Helper()
	const (
		lossFrom  = 1   // message indices [lossFrom, lossTo) are subject to loss
		keepEvery = 997 // ... of which every 997th gets through
	)
	total := lossTo + 20

	c0, c1 := newZZC16Pipe()
	a0, a1 := zzC16Pair(t, c0, c1)
	defer func() {
		_ = a0.Close()
		_ = a1.Close()
	}()

	var fmu sync.Mutex
	passed := map[uint32]bool{} // message indices that were forwarded to a1

	// a0 -> a1: remove the DATA chunks that are "lost"
	c0.setFilter(func(raw []byte) []byte {
		p := &packet{}
		if err := p.unmarshal(true, raw); err != nil {
			return raw
		}
		kept := p.chunks[:0:0]
		changed := false
		for _, c := range p.chunks {
			if d, ok := c.(*chunkPayloadData); ok && len(d.userData) == 4 && d.payloadType == PayloadTypeWebRTCBinary {
				idx := binary.BigEndian.Uint32(d.userData)
				if idx >= lossFrom && idx < lossTo && idx%keepEvery != 0 {
					changed = true

					continue
				}
				fmu.Lock()
				passed[idx] = true
				fmu.Unlock()
			}
			kept = append(kept, c)
		}
		if !changed {
			return raw
		}
		if len(kept) == 0 {
			return nil
		}
		p.chunks = kept
		out, err := p.marshal(true)
		if err != nil {
			return nil
		}

		return out
	})

	const si = 7
	s0, err := a0.OpenStream(si, PayloadTypeWebRTCBinary)
	if err != nil {
		t.Fatal(err)
	}
	s0.SetReliabilityParams(false, ReliabilityTypeRexmit, 0) // ordered, no retransmission

	drain := func() {
		t.Helper()
		deadline := time.Now().Add(60 * time.Second)
		for {
			a0.lock.RLock()
			idle := a0.pendingQueue.size() == 0 && a0.inflightQueue.size() == 0
			a0.lock.RUnlock()
			if idle {
				return
			}
			if time.Now().After(deadline) {
				t.Fatalf("sender did not drain (test problem, not the finding)")
			}
			time.Sleep(5 * time.Millisecond)
		}
	}

	// The application writes at a moderate pace: at most 1500 messages are
	// outstanding at any time (far below the receiver's TSN window and below 2^15).
	buf := make([]byte, 4)
	for i := uint32(0); i < total; i++ {
		binary.BigEndian.PutUint32(buf, i)
		if _, err = s0.WriteSCTP(buf, PayloadTypeWebRTCBinary); err != nil {
			t.Fatalf("write %d: %v", i, err)
		}
		if i == 0 || i%1500 == 0 || i == lossTo-1 {
			drain()
		}
	}
	drain()
	time.Sleep(300 * time.Millisecond)

	s1, err := a1.AcceptStream()
	if err != nil {
		t.Fatal(err)
	}

	fmu.Lock()
	nPassed := len(passed)
	fmu.Unlock()
	t.Logf("%d messages reached the receiver", nPassed)
	s1.lock.RLock()
	{
		var ssns []uint16
		for _, cs := range s1.reassemblyQueue.ordered {
			ssns = append(ssns, cs.ssn)
		}
		if len(ssns) > 4 {
			ssns = ssns[:4]
		}
		t.Logf("receiver: nextSSN=%d, %d complete messages queued, the first ones have ssn=%v",
			s1.reassemblyQueue.nextSSN, len(s1.reassemblyQueue.ordered), ssns)
	}
	s1.lock.RUnlock()

	// Now the application reads. Every message that reached the receiver was a
	// complete, acknowledged, single-chunk message of an ordered stream.
	var got []uint32
	rbuf := make([]byte, 64)
	for len(got) < nPassed {
		_ = s1.SetReadDeadline(time.Now().Add(5 * time.Second))
		n, _, rerr := s1.ReadSCTP(rbuf)
		if rerr != nil {
			t.Errorf("read #%d: %v: %d of the %d messages that reached the receiver were delivered; delivered so far (first 10): %v",
				len(got), rerr, len(got), nPassed, zzC16Head10(got))

			break
		}
		if n != 4 {
			t.Fatalf("unexpected message length %d", n)
		}
		got = append(got, binary.BigEndian.Uint32(rbuf[:4]))
	}

	if len(got) > 0 && got[0] != 0 {
		t.Errorf("first message delivered is #%d, not #0 (which was received, acknowledged and queued first)", got[0])
	}
	for i := 1; i < len(got); i++ {
		if got[i] <= got[i-1] {
			t.Errorf("ordered stream delivered message #%d after message #%d", got[i], got[i-1])

			break
		}
	}
}

func zzC16Head10(v []uint32) []uint32 {
	if len(v) > 10 {
		return v[:10]
	}

	return v
}
