package sctp

import (
	"errors"
	"net"
	"strings"
	"sync"
	"sync/atomic"
	"testing"
	"time"

	"github.com/pion/logging"
)

// Finding C04/1: the connect call reports "handshake failed (INIT ACK)" although the
// INIT ACK arrived before T1-init ran out and was accepted (the association goes on to
// COOKIE-ECHOED and ESTABLISHED, the server side returns an established association).
//
// The last expiry of T1-init is decided by the timer goroutine under the timer's own
// mutex; the failure is reported to the association afterwards, under a.lock. If the
// read loop is inside handleInitAck at that moment (it got a.lock first), the INIT ACK
// is processed completely (T1-init "stopped", COOKIE ECHO sent, T1-cookie started) and
// only then the already decided failure is delivered and handed to the connect call.

// ---- a minimal in-memory datagram transport with a filter per direction ----

type c04h1Conn struct {
	in     chan []byte
	out    func([]byte)
	closed chan struct{}
	once   sync.Once
}

func newC04h1Conn() *c04h1Conn {
	return &c04h1Conn{in: make(chan []byte, 256), closed: make(chan struct{})}
}

func (c *c04h1Conn) Read(b []byte) (int, error) {
	select {
	case p := <-c.in:
		return copy(b, p), nil
	case <-c.closed:
		return 0, net.ErrClosed
	}
}

func (c *c04h1Conn) Write(b []byte) (int, error) {
	select {
	case <-c.closed:
		return 0, net.ErrClosed
	default:
	}
	cp := make([]byte, len(b))
	copy(cp, b)
	c.out(cp)

	return len(b), nil
}

func (c *c04h1Conn) deliver(p []byte) {
	select {
	case c.in <- p:
	case <-c.closed:
	}
}

func (c *c04h1Conn) Close() error                     { c.once.Do(func() { close(c.closed) }); return nil }
func (c *c04h1Conn) LocalAddr() net.Addr              { return nil }
func (c *c04h1Conn) RemoteAddr() net.Addr             { return nil }
func (c *c04h1Conn) SetDeadline(time.Time) error      { return nil }
func (c *c04h1Conn) SetReadDeadline(time.Time) error  { return nil }
func (c *c04h1Conn) SetWriteDeadline(time.Time) error { return nil }

// ---- a logger that stalls the goroutine logging one particular message ----

type c04h1Logger struct {
	logging.LeveledLogger
	match string
	stall time.Duration
	hits  *int32
}

func (l *c04h1Logger) Debugf(format string, args ...any) {
	if strings.Contains(format, l.match) {
		atomic.AddInt32(l.hits, 1)
		time.Sleep(l.stall)
	}
}

type c04h1LoggerFactory struct {
	match string
	stall time.Duration
	hits  int32
}

func (f *c04h1LoggerFactory) NewLogger(string) logging.LeveledLogger {
	silent := logging.NewDefaultLoggerFactory()
	silent.DefaultLogLevel = logging.LogLevelDisabled

	return &c04h1Logger{LeveledLogger: silent.NewLogger("sctp"), match: f.match, stall: f.stall, hits: &f.hits}
}

func TestZZHuntC04_1_InitAckAcceptedButConnectFails(t *testing.T) {
	const rtoMax = 100 // ms: every T1-init period is 100 ms, the budget is 9 periods

	ca, cb := newC04h1Conn(), newC04h1Conn()
	defer ca.Close() //nolint:errcheck
	defer cb.Close() //nolint:errcheck

	// client -> server: lose the INIT and its first 7 retransmissions, let the 8th
	// (last) retransmission through. Everything else passes unharmed.
	var nInit int32
	ca.out = func(p []byte) {
		if len(p) > 12 && chunkType(p[12]) == ctInit {
			if atomic.AddInt32(&nInit, 1) <= 8 {
				return
			}
		}
		cb.deliver(p)
	}
	cb.out = func(p []byte) { ca.deliver(p) }

	silent := logging.NewDefaultLoggerFactory()
	silent.DefaultLogLevel = logging.LogLevelDisabled

	type result struct {
		a   *Association
		err error
	}
	srvCh := make(chan result, 1)
	go func() {
		a, err := ServerWithOptions(WithNetConn(cb), WithLoggerFactory(silent), WithName("server"))
		srvCh <- result{a, err}
	}()

	// The read loop of the client is slow in handleInitAck (it holds a.lock while
	// logging): 4 T1-init periods, so the last T1-init expiry (1 period after the last
	// INIT) certainly falls into it.
	clientLF := &c04h1LoggerFactory{match: "chunkInitAck received in state", stall: 4 * rtoMax * time.Millisecond}
	cliCh := make(chan result, 1)
	start := time.Now()
	go func() {
		a, err := ClientWithOptions(WithNetConn(ca), WithLoggerFactory(clientLF), WithName("client"),
			WithRTOMax(rtoMax))
		cliCh <- result{a, err}
	}()

	var cli, srv result
	select {
	case cli = <-cliCh:
	case <-time.After(20 * time.Second):
		t.Fatal("client connect call did not return")
	}
	t.Logf("client connect returned after %v: err=%v (INITs sent: %d, INIT ACKs handled: %d)",
		time.Since(start), cli.err, atomic.LoadInt32(&nInit), atomic.LoadInt32(&clientLF.hits))

	select {
	case srv = <-srvCh:
		t.Logf("server accept returned: err=%v", srv.err)
	case <-time.After(5 * time.Second):
		t.Log("server accept call did not return within 5 s")
	}

	if atomic.LoadInt32(&clientLF.hits) == 0 {
		t.Fatal("test setup: the client never handled an INIT ACK")
	}

	// The INIT ACK answering the last retransmitted INIT arrived (and was taken into
	// processing) before T1-init ran out: the handshake has to succeed on both sides.
	if srv.a != nil {
		if m, ok := srv.a.Metadata(); ok {
			t.Logf("server side is ESTABLISHED: %+v", m)
		}
	}
	if cli.err != nil {
		if errors.Is(cli.err, ErrHandshakeInitAck) && srv.err == nil && srv.a != nil {
			t.Errorf("client connect call failed with %q although its INIT ACK was accepted in time: "+
				"the server side returned an ESTABLISHED association, the two sides disagree", cli.err)
		} else {
			t.Errorf("client connect call failed: %v (server: %v)", cli.err, srv.err)
		}
	}
	if cli.a != nil {
		_ = cli.a.Close()
	}
	if srv.a != nil {
		_ = srv.a.Close()
	}
}
