// SPDX-FileCopyrightText: 2026 The Pion community <https://pion.ly>
// SPDX-License-Identifier: MIT

//go:build !js

package sctp

import (
	"encoding/binary"
	"net"
	"testing"
	"time"

	"github.com/stretchr/testify/require"
)

// C13: "An endpoint emits a zero checksum only after the peer advertised acceptance
// with the DTLS error-detection method".
//
// A client is in COOKIE-ECHOED: the INIT ACK of the peer it is associating with did
// NOT carry Zero Checksum Acceptable. An INIT that declares acceptance (a stale INIT
// of an earlier incarnation / configuration of the peer) reaches the client before
// the COOKIE ACK does. handleInit takes sendZeroChecksum from that INIT although
// RFC 9260 5.2.1 forbids an INIT received in COOKIE-ECHOED to change the
// association, and nothing resets it afterwards: the COOKIE ACK completes the
// handshake with the peer that never offered to accept zero checksums, and every
// packet of the association is sent to it with checksum 0.
// (Commits 3a4b466 / ba811b3 fixed the same leak for COOKIE-WAIT and CLOSED.)
func TestHuntC13_2_InitInCookieEchoedTurnsOnZeroChecksum(t *testing.T) {
	ca, cb := net.Pipe()
	defer cb.Close() //nolint:errcheck

	// Everything the client writes, one packet per element.
	fromClient := make(chan []byte, 1024)
	go func() {
		for {
			buf := make([]byte, 8192)
			n, rerr := cb.Read(buf)
			if rerr != nil {
				close(fromClient)

				return
			}
			fromClient <- buf[:n]
		}
	}()

	// next packet of the client whose first chunk has the given type
	waitFor := func(typ chunkType) []byte {
		t.Helper()
		deadline := time.After(20 * time.Second)
		for {
			select {
			case raw, ok := <-fromClient:
				require.True(t, ok, "connection closed while waiting for %s", typ)
				if len(raw) > packetHeaderSize && chunkType(raw[packetHeaderSize]) == typ {
					return raw
				}
			case <-deadline:
				require.FailNow(t, "timed out", "waiting for %s from the client", typ)
			}
		}
	}

	send := func(p *packet) {
		t.Helper()
		raw, merr := p.marshal(true) // the fake peer always sends a correct CRC32c
		require.NoError(t, merr)
		_, werr := cb.Write(raw)
		require.NoError(t, werr)
	}

	type result struct {
		a   *Association
		err error
	}
	done := make(chan result, 1)
	go func() {
		a, cerr := ClientWithOptions(WithName("client"), WithNetConn(ca), WithEnableInterleaving(false))
		done <- result{a, cerr}
	}()

	// 1. INIT of the client
	rawInit := waitFor(ctInit)
	initPkt := &packet{}
	require.NoError(t, initPkt.unmarshal(true, rawInit))
	clientInit, ok := initPkt.chunks[0].(*chunkInit)
	require.True(t, ok)

	const (
		peerTag uint32 = 0x51515151
		peerTSN uint32 = 1000
	)
	extensions := func() param {
		return &paramSupportedExtensions{ChunkTypes: []chunkType{ctReconfig, ctForwardTSN}}
	}

	// 2. INIT ACK of the peer: NO Zero Checksum Acceptable parameter.
	initAck := &chunkInitAck{}
	initAck.initiateTag = peerTag
	initAck.initialTSN = peerTSN
	initAck.numOutboundStreams = 16
	initAck.numInboundStreams = 16
	initAck.advertisedReceiverWindowCredit = 1024 * 1024
	initAck.params = []param{&paramStateCookie{cookie: []byte("0123456789abcdef0123456789abcdef")}, extensions()}
	send(&packet{
		sourcePort:      defaultSCTPSrcDstPort,
		destinationPort: defaultSCTPSrcDstPort,
		verificationTag: clientInit.initiateTag,
		chunks:          []chunk{initAck},
	})

	// 3. the client answers with COOKIE ECHO and is in COOKIE-ECHOED now
	rawCookieEcho := waitFor(ctCookieEcho)
	require.Equal(t, generatePacketChecksum(rawCookieEcho), binary.LittleEndian.Uint32(rawCookieEcho[8:]))

	// 4. an INIT that declares zero checksum acceptance arrives before the COOKIE ACK.
	//    (Same tag and initial TSN as the INIT ACK, so that it changes nothing else.)
	staleInit := &chunkInit{}
	staleInit.initiateTag = peerTag
	staleInit.initialTSN = peerTSN
	staleInit.numOutboundStreams = 16
	staleInit.numInboundStreams = 16
	staleInit.advertisedReceiverWindowCredit = 1024 * 1024
	staleInit.params = []param{extensions(), &paramZeroChecksumAcceptable{edmid: dtlsErrorDetectionMethod}}
	send(&packet{
		sourcePort:      defaultSCTPSrcDstPort,
		destinationPort: defaultSCTPSrcDstPort,
		verificationTag: 0,
		chunks:          []chunk{staleInit},
	})
	_ = waitFor(ctInitAck) // the client's answer to it; readLoop has handled the INIT

	// 5. COOKIE ACK of the peer whose INIT ACK did not declare acceptance
	send(&packet{
		sourcePort:      defaultSCTPSrcDstPort,
		destinationPort: defaultSCTPSrcDstPort,
		verificationTag: clientInit.initiateTag,
		chunks:          []chunk{&chunkCookieAck{}},
	})

	var assoc *Association
	select {
	case res := <-done:
		require.NoError(t, res.err)
		assoc = res.a
	case <-time.After(20 * time.Second):
		require.FailNow(t, "handshake did not complete")
	}
	defer func() {
		go assoc.Close() //nolint:errcheck
		time.Sleep(50 * time.Millisecond)
		_ = cb.Close()
	}()

	// 6. user data of the established association
	stream, err := assoc.OpenStream(1, PayloadTypeWebRTCBinary)
	require.NoError(t, err)
	_, err = stream.WriteSCTP([]byte("hello"), PayloadTypeWebRTCBinary)
	require.NoError(t, err)

	rawData := waitFor(ctPayloadData)
	got := binary.LittleEndian.Uint32(rawData[8:])
	want := generatePacketChecksum(rawData)
	require.Equalf(t, want, got,
		"C13 violated: the peer that completed the handshake (INIT ACK without Zero Checksum Acceptable, "+
			"COOKIE ACK) never advertised acceptance, but the DATA packet carries checksum %#x instead of the "+
			"CRC32c %#x", got, want)
}
