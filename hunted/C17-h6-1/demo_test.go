package sctp

import (
	"fmt"
	"strings"
	"sync"
	"testing"
	"time"

	"github.com/pion/logging"
	"github.com/pion/transport/v4/test"
	"github.com/stretchr/testify/require"
)

// zzC17n1Pair builds a connected client/server pair over a test bridge. The client
// gets the extra options (the scheduler configuration under test).
func zzC17n1Pair(t *testing.T, br *test.Bridge, clientExtra ...ClientOption) (*Association, *Association) {
	t.Helper()

	type result struct {
		a      *Association
		err    error
		client bool
	}
	ch := make(chan result, 2)
	lf := logging.NewDefaultLoggerFactory()

	go func() {
		opts := []ClientOption{
			WithName("c17-client"), WithNetConn(br.GetConn0()), WithLoggerFactory(lf),
			WithEnableInterleaving(true),
		}
		opts = append(opts, clientExtra...)
		a, err := ClientWithOptions(opts...)
		ch <- result{a: a, err: err, client: true}
	}()
	go func() {
		a, err := ServerWithOptions(
			WithName("c17-server"), WithNetConn(br.GetConn1()), WithLoggerFactory(lf),
			WithEnableInterleaving(true),
		)
		ch <- result{a: a, err: err}
	}()

	var a0, a1 *Association
	deadline := time.Now().Add(20 * time.Second)
	for (a0 == nil || a1 == nil) && time.Now().Before(deadline) {
		br.Tick()
		select {
		case r := <-ch:
			require.NoError(t, r.err)
			if r.client {
				a0 = r.a
			} else {
				a1 = r.a
			}
		case <-time.After(2 * time.Millisecond):
		}
	}
	require.NotNil(t, a0, "handshake (client)")
	require.NotNil(t, a1, "handshake (server)")

	return a0, a1
}

type zzC17n1Sent struct {
	sid uint16
	n   int
	tsn uint32
	fsn uint32
}

// Weighted fair queueing: stream 2 (weight 1) is in the middle of a long message and
// the congestion window is full, so the next fragment of stream 2 has only been
// looked at (Peek) by the sender. Stream 1 (weight 4) now queues a long message.
// From here on both streams are continuously backlogged, and all chunks have the same
// (maximum) size L. WFQ must keep S1/4 and S2/1 within L/4 + L/1 of each other
// over every stretch of that period.
func TestZZHuntC17_1_WFQStaleSelection(t *testing.T) {
	lim := test.TimeOut(60 * time.Second)
	defer lim.Stop()

	const (
		sidHeavy  uint16 = 1 // weight 4
		sidLight  uint16 = 2 // weight 1 (default)
		wHeavy           = 4.0
		wLight           = 1.0
		fragments        = 30
	)

	br := test.NewBridge()
	a0, a1 := zzC17n1Pair(t, br, WithInterleavingOptions(
		WithInterleavingWeightedFairQueueingScheduler(),
		WithInterleavingWeightedFairQueueingWeight(sidHeavy, 4),
	))
	defer closeAssociationPair(br, a0, a1)

	require.True(t, a0.useInterleaving)
	require.True(t, a1.useInterleaving)

	// record every data chunk the client sends, in the order of first transmission
	var (
		mu   sync.Mutex
		seen = map[uint32]bool{}
		sent []zzC17n1Sent
	)
	br.Filter(0, func(raw []byte) bool {
		p := &packet{}
		if err := p.unmarshal(true, raw); err != nil {
			return true
		}
		mu.Lock()
		defer mu.Unlock()
		for _, c := range p.chunks {
			if pd, ok := c.(*chunkPayloadData); ok && !seen[pd.tsn] {
				seen[pd.tsn] = true
				sent = append(sent, zzC17n1Sent{sid: pd.streamIdentifier, n: len(pd.userData), tsn: pd.tsn, fsn: pd.fragmentSequenceNumber})
			}
		}

		return true
	})
	nSent := func() int {
		mu.Lock()
		defer mu.Unlock()

		return len(sent)
	}

	sHeavy, err := a0.OpenStream(sidHeavy, PayloadTypeWebRTCBinary)
	require.NoError(t, err)
	sLight, err := a0.OpenStream(sidLight, PayloadTypeWebRTCBinary)
	require.NoError(t, err)

	chunkLen := int(a0.maxPayloadSize) // every fragment below has exactly this size
	msg := make([]byte, fragments*chunkLen)

	// 1. the light stream starts alone; nothing is delivered (the bridge is not ticked),
	//    so the sender stops as soon as the congestion window is full.
	_, err = sLight.Write(msg)
	require.NoError(t, err)

	stableSince := time.Now()
	last := -1
	for time.Since(stableSince) < 300*time.Millisecond {
		if n := nSent(); n != last {
			last = n
			stableSince = time.Now()
		}
		time.Sleep(5 * time.Millisecond)
	}
	sentAlone := nSent()
	require.Greater(t, sentAlone, 0)
	require.Less(t, sentAlone, fragments, "the light stream must still be backlogged")

	// 2. the heavy stream becomes backlogged too.
	_, err = sHeavy.Write(msg)
	require.NoError(t, err)
	time.Sleep(50 * time.Millisecond)

	// 3. let the network run until everything is out.
	for i := 0; nSent() < 2*fragments; i++ {
		require.Less(t, i, 20000, "data not sent in time")
		if br.Tick() == 0 {
			time.Sleep(time.Millisecond)
		}
	}

	mu.Lock()
	all := append([]zzC17n1Sent{}, sent...)
	mu.Unlock()

	// sanity of the observation itself
	for i := 1; i < len(all); i++ {
		require.Equal(t, all[i-1].tsn+1, all[i].tsn, "chunks recorded in TSN order")
	}
	for _, c := range all[:sentAlone] {
		require.Equal(t, sidLight, c.sid)
	}

	// The period in which both streams are continuously backlogged: from the moment the
	// heavy stream's message was queued until one of the two has handed over its last fragment.
	both := all[sentAlone:]
	cnt := map[uint16]int{sidLight: sentAlone}
	end := len(both)
	for i, c := range both {
		cnt[c.sid]++
		if cnt[c.sid] == fragments {
			end = i + 1

			break
		}
	}
	both = both[:end]

	var order strings.Builder
	d := make([]float64, 0, len(both)+1) // normalised service difference heavy - light
	d = append(d, 0)
	var sH, sL float64
	for _, c := range both {
		require.Equal(t, chunkLen, c.n, "all chunks of the period have the maximum size")
		if c.sid == sidHeavy {
			sH += float64(c.n)
			order.WriteString("H")
		} else {
			sL += float64(c.n)
			order.WriteString("L")
		}
		d = append(d, sH/wHeavy-sL/wLight)
	}

	bound := float64(chunkLen)/wHeavy + float64(chunkLen)/wLight
	worst, wi, wj := 0.0, 0, 0
	for i := range d {
		for j := i + 1; j < len(d); j++ {
			diff := d[j] - d[i]
			if diff < 0 {
				diff = -diff
			}
			if diff > worst {
				worst, wi, wj = diff, i, j
			}
		}
	}

	t.Logf("sent alone by light stream: %d; order while both backlogged (H=weight 4, L=weight 1): %s", sentAlone, order.String())
	t.Logf("worst stretch: chunks %d..%d of that period, normalised service differs by %.1f (bound %.1f = L/4 + L/1, L=%d)",
		wi+1, wj, worst, bound, chunkLen)

	require.LessOrEqual(t, worst, bound+1e-6, fmt.Sprintf(
		"WFQ: over chunks %d..%d (%s) the weight-normalised service of two continuously backlogged streams "+
			"differs by %.1f, more than one maximum-size chunk per stream (%.1f)",
		wi+1, wj, order.String()[wi:wj], worst, bound))
}
