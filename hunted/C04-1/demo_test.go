package sctp

import (
	"net"
	"sync"
	"testing"
	"time"

	"github.com/pion/logging"
)

// A minimal datagram transport for the test: every Write is handed to the test
// through "out", every packet the test puts into "in" is returned by Read.
type zzC04Conn1 struct {
	in     chan []byte
	out    chan []byte
	closed chan struct{}
	once   sync.Once
}

func newZZC04Conn1() *zzC04Conn1 {
	return &zzC04Conn1{
		in:     make(chan []byte, 1024),
		out:    make(chan []byte, 1024),
		closed: make(chan struct{}),
	}
}

func (c *zzC04Conn1) Read(b []byte) (int, error) {
	select {
	case p := <-c.in:
		return copy(b, p), nil
	case <-c.closed:
		return 0, net.ErrClosed
	}
}

func (c *zzC04Conn1) Write(b []byte) (int, error) {
	select {
	case <-c.closed:
		return 0, net.ErrClosed
	default:
	}
	select {
	case c.out <- append([]byte{}, b...):
	default: // queue full: the packet is lost
	}

	return len(b), nil
}

func (c *zzC04Conn1) Close() error {
	c.once.Do(func() { close(c.closed) })

	return nil
}
func (c *zzC04Conn1) LocalAddr() net.Addr              { return &net.IPAddr{} }
func (c *zzC04Conn1) RemoteAddr() net.Addr             { return &net.IPAddr{} }
func (c *zzC04Conn1) SetDeadline(time.Time) error      { return nil }
func (c *zzC04Conn1) SetReadDeadline(time.Time) error  { return nil }
func (c *zzC04Conn1) SetWriteDeadline(time.Time) error { return nil }

func zzC04NextPacket(t *testing.T, c *zzC04Conn1, what string) []byte {
	t.Helper()
	select {
	case p := <-c.out:
		return p
	case <-time.After(10 * time.Second):
		t.Fatalf("timed out waiting for %s", what)

		return nil
	}
}

func zzC04FirstChunkType(raw []byte) chunkType {
	return chunkType(raw[packetHeaderSize])
}

// Scenario: the peer (B) used to run with Zero Checksum Acceptable and sent an INIT
// (simultaneous open). It was restarted without that option and now waits as a server.
// The INIT of the previous instance is still in the network. Our client A receives that
// stale INIT while in COOKIE-WAIT (it answers with an INIT ACK, as RFC 9260 5.2.1
// demands), then receives the INIT ACK of the current B - which does NOT declare zero
// checksums acceptable - and completes the handshake with it.
//
// A must not send zero checksums to B: B never declared them acceptable in the
// handshake that established the association.
func zzC04RunStaleInit(t *testing.T, withStaleInit bool) {
	t.Helper()

	lf := logging.NewDefaultLoggerFactory()
	lf.DefaultLogLevel = logging.LogLevelDisabled

	// 1. A genuine INIT of the previous instance of B (zero checksum acceptable).
	var staleInit []byte
	if withStaleInit {
		old := newZZC04Conn1()
		oldDone := make(chan struct{})
		go func() {
			defer close(oldDone)
			_, _ = ClientWithOptions(WithNetConn(old), WithLoggerFactory(lf), WithName("B-old"),
				WithEnableZeroChecksum(true))
		}()
		staleInit = zzC04NextPacket(t, old, "INIT of the previous instance")
		if zzC04FirstChunkType(staleInit) != ctInit {
			t.Fatalf("expected INIT, got %s", zzC04FirstChunkType(staleInit))
		}
		_ = old.Close() // the previous instance is gone
		<-oldDone
	}

	connA := newZZC04Conn1()
	connB := newZZC04Conn1()
	defer connA.Close() //nolint:errcheck
	defer connB.Close() //nolint:errcheck

	// 2. A starts as a client.
	type result struct {
		a   *Association
		err error
	}
	resA := make(chan result, 1)
	go func() {
		a, err := ClientWithOptions(WithNetConn(connA), WithLoggerFactory(lf), WithName("A"))
		resA <- result{a, err}
	}()
	initA := zzC04NextPacket(t, connA, "INIT of A")
	if zzC04FirstChunkType(initA) != ctInit {
		t.Fatalf("expected INIT, got %s", zzC04FirstChunkType(initA))
	}

	// 3. The stale INIT reaches A (COOKIE-WAIT). A answers it with an INIT ACK, which
	// goes nowhere (the instance that sent the INIT does not exist any more).
	if withStaleInit {
		connA.in <- staleInit
		for {
			p := zzC04NextPacket(t, connA, "INIT ACK answering the stale INIT")
			if zzC04FirstChunkType(p) == ctInitAck {
				break
			}
			// (a retransmitted INIT of A: B is not up yet, it is lost)
		}
	}

	// 4. The current B starts as a server WITHOUT zero checksum; from here on the
	// network is perfect in both directions.
	resB := make(chan result, 1)
	go func() {
		b, err := ServerWithOptions(WithNetConn(connB), WithLoggerFactory(lf), WithName("B"),
			WithEnableZeroChecksum(false))
		resB <- result{b, err}
	}()
	connB.in <- initA
	stop := make(chan struct{})
	defer close(stop)
	pump := func(from, to *zzC04Conn1) {
		for {
			select {
			case p := <-from.out:
				select {
				case to.in <- p:
				default:
				}
			case <-stop:
				return
			}
		}
	}
	go pump(connA, connB)
	go pump(connB, connA)

	var a, b *Association
	for a == nil || b == nil {
		select {
		case r := <-resA:
			if r.err != nil {
				t.Fatalf("A: connect failed: %v", r.err)
			}
			a = r.a
		case r := <-resB:
			if r.err != nil {
				t.Fatalf("B: accept failed: %v", r.err)
			}
			b = r.a
		case <-time.After(20 * time.Second):
			t.Fatal("handshake did not complete")
		}
	}
	defer a.Close() //nolint:errcheck
	defer b.Close() //nolint:errcheck

	mdA, ok := a.Metadata()
	if !ok {
		t.Fatal("A is not established")
	}
	mdB, ok := b.Metadata()
	if !ok {
		t.Fatal("B is not established")
	}
	if mdB.ZeroChecksumReceivingEnabled {
		t.Fatal("test assumption broken: B accepts zero checksums")
	}
	if mdA.ZeroChecksumSendingEnabled {
		t.Errorf("A sends zero checksums although B did not declare them acceptable in its INIT ACK")
	}

	// 5. The consequence: nothing A sends is accepted by B any more.
	sa, err := a.OpenStream(7, PayloadTypeWebRTCBinary)
	if err != nil {
		t.Fatalf("OpenStream: %v", err)
	}
	if _, err = sa.Write([]byte("ping")); err != nil {
		t.Fatalf("Write: %v", err)
	}
	got := make(chan string, 1)
	go func() {
		sb, errAccept := b.AcceptStream()
		if errAccept != nil {
			got <- "AcceptStream: " + errAccept.Error()

			return
		}
		buf := make([]byte, 64)
		n, errRead := sb.Read(buf)
		if errRead != nil {
			got <- "Read: " + errRead.Error()

			return
		}
		got <- string(buf[:n])
	}()
	select {
	case s := <-got:
		if s != "ping" {
			t.Errorf("B received %q, want %q", s, "ping")
		}
	case <-time.After(15 * time.Second):
		// T3-rtx has retransmitted the DATA at 1 s, 3 s and 7 s by now.
		t.Errorf("B never received the message A sent over a perfect network (15 s)")
	}
}

func TestZZHuntC04_1_StaleInitZeroChecksumSticksThroughInitAck(t *testing.T) {
	t.Run("control_without_stale_INIT", func(t *testing.T) { zzC04RunStaleInit(t, false) })
	t.Run("stale_INIT_with_zero_checksum_then_INIT_ACK_without", func(t *testing.T) { zzC04RunStaleInit(t, true) })
}
