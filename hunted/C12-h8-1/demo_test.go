package sctp

import (
	"bytes"
	"encoding/binary"
	"testing"
)

// huntC12Packet puts chunk bytes behind a common header and gives the packet a
// correct CRC32c, so that the verdict never depends on the checksum rules.
func huntC12Packet(chunks ...[]byte) []byte {
	raw := []byte{0x13, 0x88, 0x13, 0x88, 0x00, 0x00, 0x00, 0x01, 0, 0, 0, 0}
	for _, c := range chunks {
		raw = append(raw, c...)
	}
	binary.LittleEndian.PutUint32(raw[8:], generatePacketChecksum(raw))

	return raw
}

// A HEARTBEAT-ACK chunk without a body (05 00 00 04) is accepted by the decoder
// (alone and inside a bundle), but what it decodes to cannot be encoded again:
// chunkHeartbeatAck.marshal refuses it, and with it the whole packet.
func TestHuntC12_1_EmptyHeartbeatAckAcceptedButNotReencodable(t *testing.T) {
	hbAck := []byte{0x05, 0x00, 0x00, 0x04}
	sack := []byte{0x03, 0x00, 0x00, 0x10, 0, 0, 0, 9, 0, 0, 0x10, 0, 0, 0, 0, 0}
	cookieAck := []byte{0x0b, 0x00, 0x00, 0x04}

	for name, raw := range map[string][]byte{
		"alone":                  huntC12Packet(hbAck),
		"bundled before a SACK":  huntC12Packet(hbAck, sack),
		"bundled after a COOKIE": huntC12Packet(cookieAck, hbAck),
	} {
		pkt := &packet{}
		if err := pkt.unmarshal(true, raw); err != nil {
			// not the finding: the decoder would have to refuse the packet for the
			// property to hold in this way
			t.Logf("%s: decoder refuses the packet (%v): nothing to re-encode", name, err)

			continue
		}

		again, err := pkt.marshal(true)
		if err != nil {
			t.Errorf("%s: packet % x was accepted by packet.unmarshal (%d chunks), "+
				"but re-encoding the decoded packet fails: %v", name, raw, len(pkt.chunks), err)

			continue
		}
		if !bytes.Equal(again, raw) {
			t.Errorf("%s: re-encoded packet differs:\n in  % x\n out % x", name, raw, again)
		}
	}

	// Control: the same shape for the request chunk (HEARTBEAT, 04 00 00 04) is
	// accepted and re-encodes to the same bytes, so the harness is not at fault.
	raw := huntC12Packet([]byte{0x04, 0x00, 0x00, 0x04})
	pkt := &packet{}
	if err := pkt.unmarshal(true, raw); err != nil {
		t.Fatalf("control: %v", err)
	}
	again, err := pkt.marshal(true)
	if err != nil || !bytes.Equal(again, raw) {
		t.Fatalf("control: empty HEARTBEAT does not survive: %v % x", err, again)
	}
}
