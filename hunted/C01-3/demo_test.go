// SPDX-FileCopyrightText: 2026 The Pion community <https://pion.ly>
// SPDX-License-Identifier: MIT

package sctp

import (
	"io"
	"net"
	"sync"
	"sync/atomic"
	"testing"
	"time"

	"github.com/pion/logging"
)

// --- an in-order in-memory datagram pipe that can lose selected packets ---------------

type huntC01n3Conn struct {
	mu     sync.Mutex
	cond   *sync.Cond
	pkts   [][]byte
	closed bool
	peer   *huntC01n3Conn
	// lose reports whether the packet is lost on the way to the peer (nil: never)
	lose func(raw []byte) bool
}

func newHuntC01n3Pipe() (*huntC01n3Conn, *huntC01n3Conn) {
	a, b := &huntC01n3Conn{}, &huntC01n3Conn{}
	a.cond, b.cond = sync.NewCond(&a.mu), sync.NewCond(&b.mu)
	a.peer, b.peer = b, a

	return a, b
}

func (c *huntC01n3Conn) Read(p []byte) (int, error) {
	c.mu.Lock()
	defer c.mu.Unlock()
	for {
		if len(c.pkts) > 0 {
			pkt := c.pkts[0]
			c.pkts = c.pkts[1:]

			return copy(p, pkt), nil
		}
		if c.closed {
			return 0, io.EOF
		}
		c.cond.Wait()
	}
}

func (c *huntC01n3Conn) Write(p []byte) (int, error) {
	c.mu.Lock()
	closed := c.closed
	c.mu.Unlock()
	if closed {
		return 0, net.ErrClosed
	}
	if c.lose != nil && c.lose(p) {
		return len(p), nil
	}
	cp := append([]byte(nil), p...)
	c.peer.mu.Lock()
	if !c.peer.closed {
		c.peer.pkts = append(c.peer.pkts, cp)
		c.peer.cond.Signal()
	}
	c.peer.mu.Unlock()

	return len(p), nil
}

func (c *huntC01n3Conn) Close() error {
	c.mu.Lock()
	c.closed = true
	c.cond.Broadcast()
	c.mu.Unlock()

	return nil
}
func (c *huntC01n3Conn) LocalAddr() net.Addr              { return &net.UDPAddr{} }
func (c *huntC01n3Conn) RemoteAddr() net.Addr             { return &net.UDPAddr{} }
func (c *huntC01n3Conn) SetDeadline(time.Time) error      { return nil }
func (c *huntC01n3Conn) SetReadDeadline(time.Time) error  { return nil }
func (c *huntC01n3Conn) SetWriteDeadline(time.Time) error { return nil }

// TestHuntC01_3_HeadOfLineLossHalfSSNSpace:
// DATA mode (no interleaving), receive buffer of 5 MiB. One reliable ordered stream
// carries a run of 3-byte messages; a reader is blocked in Read all the time. The
// packet carrying message #1 is lost, and so are its first retransmissions (3 or 4
// packets in all), until the last message written has passed the network - an outage
// that hits one packet while the rest of the traffic flows. After that the network is
// perfect. All messages must be delivered, in order.
// With 32767 messages behind the lost one they are; with 32768 the reader never gets
// anything any more although every chunk has been received and acknowledged.
func TestHuntC01_3_HeadOfLineLossHalfSSNSpace(t *testing.T) {
	// control: one message less is written behind the lost one - everything is delivered
	t.Run("control_32767_messages_behind_the_gap", func(t *testing.T) { huntC01n3Run(t, 32767) })
	// 32768 messages are written behind the lost one - the stream is dead for good
	t.Run("32768_messages_behind_the_gap", func(t *testing.T) { huntC01n3Run(t, 32768) })
}

func huntC01n3Run(t *testing.T, span int) {
	t.Helper()

	const (
		victim = 1 // stream sequence number of the message that gets lost
		wait   = 45 * time.Second
	)
	nTotal := victim + span + 1       // messages 0 .. victim+span
	lastHeld := uint16(victim + span) //nolint:gosec // outage lasts until this message reached the receiver

	c0, c1 := newHuntC01n3Pipe()
	lf := logging.NewDefaultLoggerFactory()

	var (
		outage      atomic.Bool
		sawLastHeld atomic.Bool
		nLost       atomic.Int32
	)
	// A -> B: while the outage lasts, every packet that carries message `victim` of stream 7 is lost.
	c0.lose = func(raw []byte) bool {
		p := &packet{}
		if err := p.unmarshal(true, raw); err != nil {
			return false
		}
		lost := false
		for _, ch := range p.chunks {
			d, ok := ch.(*chunkPayloadData)
			if !ok || d.streamIdentifier != 7 {
				continue
			}
			if d.streamSequenceNumber == victim && outage.Load() {
				lost = true
			}
		}
		if lost {
			nLost.Add(1)

			return true
		}
		for _, ch := range p.chunks {
			if d, ok := ch.(*chunkPayloadData); ok && d.streamIdentifier == 7 && d.streamSequenceNumber == lastHeld {
				sawLastHeld.Store(true)
			}
		}

		return false
	}

	type res struct {
		a   *Association
		err error
	}
	ch0, ch1 := make(chan res, 1), make(chan res, 1)
	go func() {
		a, err := ClientWithOptions(
			Config{Name: "snd", NetConn: c0, LoggerFactory: lf, MaxReceiveBufferSize: 5 << 20},
			WithEnableInterleaving(false))
		ch0 <- res{a, err}
	}()
	go func() {
		a, err := ServerWithOptions(
			Config{Name: "rcv", NetConn: c1, LoggerFactory: lf, MaxReceiveBufferSize: 5 << 20},
			WithEnableInterleaving(false))
		ch1 <- res{a, err}
	}()
	r0, r1 := <-ch0, <-ch1
	if r0.err != nil || r1.err != nil {
		t.Fatalf("handshake: %v %v", r0.err, r1.err)
	}
	snd, rcv := r0.a, r1.a
	defer func() {
		_ = c0.Close()
		_ = c1.Close()
		_ = snd.Close()
		_ = rcv.Close()
	}()
	if m, _ := snd.Metadata(); m.MessageInterleavingEnabled {
		t.Fatal("test assumption: DATA mode expected")
	}

	sS, err := snd.OpenStream(7, PayloadTypeWebRTCBinary)
	if err != nil {
		t.Fatal(err)
	}
	msg := func(i int) []byte { return []byte{byte(i), byte(i >> 8), byte(i >> 16)} }

	// message 0 opens the stream at the receiver
	if _, err = sS.Write(msg(0)); err != nil {
		t.Fatal(err)
	}
	sR, err := rcv.AcceptStream()
	if err != nil {
		t.Fatal(err)
	}

	// the reader: reads all the time, records the index of the next message it expects
	var nRead atomic.Int32
	readErr := make(chan string, 1)
	readDone := make(chan struct{})
	go func() {
		buf := make([]byte, 64)
		for i := 0; i < nTotal; i++ {
			n, rerr := sR.Read(buf)
			if rerr != nil {
				readErr <- "read: " + rerr.Error()

				return
			}
			got := -1
			if n == 3 {
				got = int(buf[0]) | int(buf[1])<<8 | int(buf[2])<<16
			}
			if got != i {
				readErr <- "out of order / altered message"

				return
			}
			nRead.Add(1)
		}
		close(readDone)
	}()

	// wait until message 0 is through, then start the outage and write the rest
	for d := time.Now().Add(10 * time.Second); nRead.Load() < 1; {
		if time.Now().After(d) {
			t.Fatal("test assumption: message 0 not delivered")
		}
		time.Sleep(time.Millisecond)
	}
	outage.Store(true)
	for i := 1; i < nTotal; i++ {
		if _, err = sS.Write(msg(i)); err != nil {
			t.Fatalf("write %d: %v", i, err)
		}
	}

	// the outage ends once message victim+32768 has passed the network
	for d := time.Now().Add(wait); !sawLastHeld.Load(); {
		if time.Now().After(d) {
			t.Fatalf("test assumption: message %d was not sent within %v (sender buffered=%d)",
				lastHeld, wait, snd.BufferedAmount())
		}
		time.Sleep(5 * time.Millisecond)
	}
	outage.Store(false)
	t.Logf("outage over: %d packets with message %d were lost", nLost.Load(), victim)

	select {
	case <-readDone:
	case e := <-readErr:
		t.Fatalf("%s (after %d messages)", e, nRead.Load())
	case <-time.After(wait):
		sR.lock.RLock()
		nQueued := len(sR.reassemblyQueue.ordered)
		nextSSN := sR.reassemblyQueue.nextSSN
		var first, last uint16
		if nQueued > 0 {
			first = sR.reassemblyQueue.ordered[0].ssn
			last = sR.reassemblyQueue.ordered[nQueued-1].ssn
		}
		sR.lock.RUnlock()
		t.Fatalf("%v after the network became perfect again the reader has got %d of %d accepted messages "+
			"and is blocked; receiver expects ssn=%d and holds %d complete messages, the first queued has ssn=%d, "+
			"the last ssn=%d; sender still buffers %d bytes",
			wait, nRead.Load(), nTotal, nextSSN, nQueued, first, last, snd.BufferedAmount())
	}
}
