package sctp

import (
	"bytes"
	"errors"
	"net"
	"sync"
	"testing"
	"time"

	"github.com/pion/logging"
)

// huntC12Conn is one end of an in-memory, packet preserving, loss free pipe.
type huntC12Conn struct {
	in        chan []byte
	out       chan []byte
	closed    chan struct{}
	closeOnce sync.Once
}

func huntC12Pipe() (*huntC12Conn, *huntC12Conn) {
	ab, ba := make(chan []byte, 1024), make(chan []byte, 1024)

	return &huntC12Conn{in: ba, out: ab, closed: make(chan struct{})},
		&huntC12Conn{in: ab, out: ba, closed: make(chan struct{})}
}

func (c *huntC12Conn) Read(p []byte) (int, error) {
	select {
	case b := <-c.in:
		return copy(p, b), nil
	case <-c.closed:
		return 0, net.ErrClosed
	}
}

func (c *huntC12Conn) Write(p []byte) (int, error) {
	select {
	case <-c.closed:
		return 0, net.ErrClosed
	default:
	}
	c.out <- append([]byte(nil), p...)

	return len(p), nil
}

func (c *huntC12Conn) Close() error {
	c.closeOnce.Do(func() { close(c.closed) })

	return nil
}
func (c *huntC12Conn) LocalAddr() net.Addr              { return &net.UDPAddr{} }
func (c *huntC12Conn) RemoteAddr() net.Addr             { return &net.UDPAddr{} }
func (c *huntC12Conn) SetDeadline(time.Time) error      { return nil }
func (c *huntC12Conn) SetReadDeadline(time.Time) error  { return nil }
func (c *huntC12Conn) SetWriteDeadline(time.Time) error { return nil }

var errHuntC12Timeout = errors.New("timeout")

func (c *huntC12Conn) readPacket(d time.Duration) (*packet, []byte, error) {
	select {
	case b := <-c.in:
		p := &packet{}
		if err := p.unmarshal(true, b); err != nil {
			return nil, b, err
		}

		return p, b, nil
	case <-time.After(d):
		return nil, nil, errHuntC12Timeout
	}
}

// A peer that has not announced FORWARD-TSN support sends a FORWARD-TSN chunk to an
// established association. The association answers with an ERROR chunk "Unrecognized
// Chunk Type" - whose only field, the unrecognized chunk, is missing: the cause is
// the bare 4-byte cause header (00 06 00 04).
func TestHuntC12_4_EmittedUnrecognizedChunkCauseIsEmpty(t *testing.T) {
	const wait = 20 * time.Second
	srvConn, peer := huntC12Pipe()
	defer srvConn.Close() //nolint:errcheck
	defer peer.Close()    //nolint:errcheck

	type res struct {
		a   *Association
		err error
	}
	done := make(chan res, 1)
	go func() {
		a, err := Server(Config{NetConn: srvConn, LoggerFactory: logging.NewDefaultLoggerFactory()})
		done <- res{a, err}
	}()

	send := func(tag uint32, c chunk) {
		t.Helper()
		raw, err := (&packet{sourcePort: 5000, destinationPort: 5000, verificationTag: tag, chunks: []chunk{c}}).marshal(true)
		if err != nil {
			t.Fatal(err)
		}
		if _, err = peer.Write(raw); err != nil {
			t.Fatal(err)
		}
	}

	// handshake by hand: INIT without any parameter (so: no FORWARD-TSN support announced)
	init := &chunkInit{}
	init.initiateTag = 0x11111111
	init.advertisedReceiverWindowCredit = 128 * 1024
	init.numInboundStreams = 10
	init.numOutboundStreams = 10
	init.initialTSN = 100
	send(0, init)

	pkt, _, err := peer.readPacket(wait)
	if err != nil {
		t.Fatalf("no INIT-ACK: %v", err)
	}
	initAck, ok := pkt.chunks[0].(*chunkInitAck)
	if !ok {
		t.Fatalf("expected INIT-ACK, got %T", pkt.chunks[0])
	}
	var cookie []byte
	for _, p := range initAck.params {
		if c, isCookie := p.(*paramStateCookie); isCookie {
			cookie = c.cookie
		}
	}
	peerTag := initAck.initiateTag
	send(peerTag, &chunkCookieEcho{cookie: cookie})

	pkt, _, err = peer.readPacket(wait)
	if err != nil {
		t.Fatalf("no COOKIE-ACK: %v", err)
	}
	if _, ok = pkt.chunks[0].(*chunkCookieAck); !ok {
		t.Fatalf("expected COOKIE-ACK, got %T", pkt.chunks[0])
	}
	var assoc *Association
	select {
	case r := <-done:
		if r.err != nil {
			t.Fatalf("Server: %v", r.err)
		}
		assoc = r.a
	case <-time.After(wait):
		t.Fatal("Server() did not return")
	}
	defer assoc.Close() //nolint:errcheck

	// the offending chunk
	fwd := &chunkForwardTSN{newCumulativeTSN: 105, streams: []chunkForwardTSNStream{{identifier: 1, sequence: 2}}}
	fwdRaw, err := fwd.marshal()
	if err != nil {
		t.Fatal(err)
	}
	send(peerTag, fwd)

	deadline := time.Now().Add(wait)
	for time.Now().Before(deadline) {
		var raw []byte
		pkt, raw, err = peer.readPacket(time.Until(deadline))
		if errors.Is(err, errHuntC12Timeout) {
			break
		}
		if err != nil {
			t.Fatalf("the association emitted a packet its own decoder refuses: %v (% x)", err, raw)
		}
		for _, c := range pkt.chunks {
			cerr, isErr := c.(*chunkError)
			if !isErr {
				continue
			}
			if len(cerr.errorCauses) != 1 || cerr.errorCauses[0].errorCauseCode() != unrecognizedChunkType {
				t.Fatalf("unexpected ERROR chunk: %s (% x)", cerr, raw)
			}
			cause, _ := cerr.errorCauses[0].(*errorCauseUnrecognizedChunkType)
			// RFC 9260 sec 3.3.10.6: the cause value is the unrecognized chunk (type, flags,
			// length, value); the shortest possible chunk makes a cause of 8 bytes.
			// (a truncated copy would still be accepted here, an absent one is not)
			if cause.length() < 8 || !bytes.HasPrefix(fwdRaw, cause.unrecognizedChunk) {
				t.Fatalf("emitted ERROR chunk % x: the Unrecognized Chunk Type cause has length %d and carries "+
					"% x, the chunk it is about is % x", raw[12:], cause.length(), cause.unrecognizedChunk, fwdRaw)
			}

			return // well formed
		}
	}
	t.Log("no ERROR chunk was emitted (the association dealt with the chunk in another way)")
}
