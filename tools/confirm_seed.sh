#!/bin/bash
# usage: confirm_seed.sh <ID> <A|B>  -- confirms a seeded change on a scratch worktree of /repo HEAD:
#   (1) patch applies and compiles, (2) repo suite passes with it, (3) demo fails with it, (4) demo passes without it.
ROOT=${SEEDROOT:-/tmp/seedout}; ID=$1; X=$2; SRC=$ROOT/$ID/$X
export GOFLAGS=-mod=mod GOPROXY=off
D=/tmp/wt-confirm-$ID-$X-$$
git -C /repo worktree add --detach $D HEAD -q || exit 9
res="apply=?"
cd $D
if git apply $SRC/patch.diff 2>/dev/null; then res="apply=ok"; else res="apply=FAIL"; fi
if [ "$res" = "apply=ok" ]; then
  go build ./... >/dev/null 2>&1 && res="$res build=ok" || res="$res build=FAIL"
  s=$(go test -vet=off -count=1 -timeout 25m . 2>&1 | tail -1); case "$s" in ok*) res="$res suite=pass";; *) res="$res suite=FAIL";; esac
  cp $SRC/demo_test.go zz_demo_seed_test.go
  names=$(grep -o '^func Test[A-Za-z0-9_]*' zz_demo_seed_test.go | sed 's/func //' | paste -sd'|')
  d=$(go test -vet=off -count=1 -timeout 10m -run "^($names)\$" . 2>&1 | tail -1); case "$d" in ok*) res="$res demo_with=PASS(bad)";; *) res="$res demo_with=fail(good)";; esac
  git checkout -q -- . 
  d=$(go test -vet=off -count=1 -timeout 10m -run "^($names)\$" . 2>&1 | tail -1); case "$d" in ok*) res="$res demo_without=pass(good)";; *) res="$res demo_without=FAIL(bad)";; esac
fi
cd /; git -C /repo worktree remove --force $D
echo "$ID/$X $res"
