#!/usr/bin/env python3
"""Archive confirmed seeded changes into /verif/seeded/<PROP>-<X>/ (patch.diff, demo_test.go, meta.json).

usage: archive_seeds.py <seedroot> <confirm.log> <matrix.log> [--round N]
  confirm.log lines:  C01/A apply=ok build=ok suite=pass demo_with=fail(good) demo_without=pass(good)
  matrix.log lines:   C01/A violations=640   (own property's quick check against the patched copy)
Only seeds whose confirm line is all-good are kept.
"""
import json, os, re, shutil, subprocess, sys

root, conf, matrix = sys.argv[1:4]
rnd = "1"
if "--round" in sys.argv:
    rnd = sys.argv[sys.argv.index("--round") + 1]
head = subprocess.check_output(["git", "-C", "/repo", "rev-parse", "--short", "HEAD"], text=True).strip()
if "--head" in sys.argv:
    head = sys.argv[sys.argv.index("--head") + 1]
good = {}
for ln in open(conf):
    k, _, rest = ln.strip().partition(" ")
    good[k] = rest
mat = {}
for ln in (open(matrix) if os.path.exists(matrix) else []):
    m = re.match(r"(\S+) (\S+)=(\d+)(?: by=(\S+))?", ln.strip())
    if m:
        mat.setdefault(m.group(1), []).append((m.group(4) or m.group(1).split("/")[0], int(m.group(3))))
out = "/verif/seeded"
os.makedirs(out, exist_ok=True)
for k, rest in sorted(good.items()):
    ok = all(s in rest for s in ("apply=ok", "build=ok", "suite=pass", "demo_with=fail(good)", "demo_without=pass(good)"))
    pid, x = k.split("/")
    name = f"{pid}-{x}" if rnd == "1" else f"{pid}-r{rnd}{x}"
    if not ok:
        print(f"skip {k}: {rest}")
        continue
    src = os.path.join(root, pid, x)
    dst = os.path.join(out, name)
    os.makedirs(dst, exist_ok=True)
    shutil.copy(os.path.join(src, "patch.diff"), os.path.join(dst, "patch.diff"))
    shutil.copy(os.path.join(src, "demo_test.go"), os.path.join(dst, "demo_test.go"))
    try:
        am = json.load(open(os.path.join(src, "meta.json")))
    except Exception as e:
        am = {"note": f"agent meta.json unreadable: {e}"}
    meta = {
        "property": pid,
        "seed": name,
        "summary": am.get("summary", ""),
        "file": am.get("file", ""),
        "function": am.get("function", ""),
        "needs_to_manifest": am.get("needs_to_manifest", ""),
        "author": "fresh sub-agent given only the property text and a scratch worktree of /repo",
        "agent_commands_run": am.get("commands_run", []),
        "agent_results": am.get("results", ""),
        "confirmed_by_me": {
            "repo_head": head,
            "how": "tools/confirm_seed.sh: scratch worktree of /repo HEAD; git apply patch.diff; go build ./...; "
                   "go test -vet=off -count=1 -timeout 25m . (unedited suite); demo test with the change; demo test without it",
            "result": rest,
        },
        "detection": "see detection.json next to this file (written by tools/seed_matrix.py)",
        "how_to_rerun": f"tools/mutrun.sh seeded/{name}/patch.diff {pid} quick   (patched scratch copy of /repo, removed afterwards)",
    }
    json.dump(meta, open(os.path.join(dst, "meta.json"), "w"), indent=1)
    print(f"kept {name}")
