#!/usr/bin/env python3
"""Detection matrix: run checks against every archived seeded change.

usage: seed_matrix.py [--only NAME[,NAME..]] [--extra C14,C20] [--tier quick]
For each /verif/seeded/<NAME>/patch.diff: scratch copy of /repo (rsync, no .git) under /tmp,
`git apply` semantics via patch -p1 (fuzz disabled), ./check <own property> <tier> with
VERIF_REPO pointing at the copy and VERIF_OUTDIR at a scratch dir, copy removed afterwards.
Writes seeded/<NAME>/detection.json: repo head, per check: violations, first oracle/case.
The seeded change is never applied to /repo itself.
"""
import glob, json, os, shutil, subprocess, sys, tempfile

VERIF = os.path.dirname(os.path.dirname(os.path.abspath(__file__)))
args = sys.argv[1:]
only = None
extra = {}
tier = "quick"
if "--only" in args:
    only = set(args[args.index("--only") + 1].split(","))
if "--tier" in args:
    tier = args[args.index("--tier") + 1]
if "--extra" in args:
    # NAME:PROP,NAME:PROP
    for kv in args[args.index("--extra") + 1].split(","):
        n, p = kv.split(":")
        extra.setdefault(n, []).append(p)
head = subprocess.check_output(["git", "-C", "/repo", "rev-parse", "--short", "HEAD"], text=True).strip()
for d in sorted(glob.glob(os.path.join(VERIF, "seeded", "*"))):
    name = os.path.basename(d)
    if only and name not in only:
        continue
    patch = os.path.join(d, "patch.diff")
    if not os.path.exists(patch):
        continue
    meta = json.load(open(os.path.join(d, "meta.json")))
    detp = os.path.join(d, "detection.json")
    det = json.load(open(detp)) if os.path.exists(detp) else {"runs": {}}
    props = [meta["property"]] + [p for p in meta.get("also_run", []) if p != meta["property"]] + extra.get(name, [])
    work = tempfile.mkdtemp(prefix="seedmx.", dir="/tmp")
    repo = os.path.join(work, "repo")
    subprocess.run(["rsync", "-a", "--exclude", ".git", "/repo/", repo + "/"], check=True)
    r = subprocess.run(["patch", "-p1", "-s", "-F0", "-i", patch], cwd=repo, capture_output=True, text=True)
    if r.returncode != 0:
        det["applies_to_head"] = {"head": head, "ok": False, "msg": (r.stdout + r.stderr)[-400:]}
        json.dump(det, open(detp, "w"), indent=1)
        print(f"{name} PATCH-FAILS on {head}")
        shutil.rmtree(work, ignore_errors=True)
        continue
    det["applies_to_head"] = {"head": head, "ok": True}
    for p in props:
        out = os.path.join(work, "out-" + p)
        env = dict(os.environ, VERIF_REPO=repo, VERIF_OUTDIR=out)
        r = subprocess.run([os.path.join(VERIF, "check"), p, tier], cwd=VERIF, env=env, capture_output=True, text=True)
        nv, first = 0, None
        try:
            ev = json.load(open(os.path.join(out, "evidence", p + ".json")))
            nv = ev.get("violations", 0)
        except Exception as e:
            first = {"error": f"no evidence: {e}", "tail": (r.stdout + r.stderr)[-300:]}
        reps = sorted(glob.glob(os.path.join(out, "replays", p + "-*.json")))
        if reps:
            fv = json.load(open(reps[0]))
            first = {"oracle": fv.get("oracle"), "case": fv.get("case"), "msg": (fv.get("msg") or "")[:300]}
        det["runs"][f"{p} {tier}"] = {"repo_head": head, "exit_code": r.returncode, "violations": nv, "caught": r.returncode == 1 and nv > 0, "first": first}
        print(f"{name} {p} {tier}: rc={r.returncode} violations={nv} {(first or {}).get('oracle', '')}", flush=True)
    json.dump(det, open(detp, "w"), indent=1)
    shutil.rmtree(work, ignore_errors=True)
