#!/bin/bash
# usage: confirm_archived.sh <seeded-dir-name>  -- like confirm_seed.sh, for an archived seed (seeded/<name>/)
N=$1; SRC=/verif/seeded/$N
export GOFLAGS=-mod=mod GOPROXY=off
D=/tmp/wt-confirm-$N-$$
git -C /repo worktree add --detach $D HEAD -q || exit 9
cd $D
res="apply=?"
if git apply $SRC/patch.diff 2>/dev/null; then res="apply=ok"; else res="apply=FAIL"; fi
if [ "$res" = "apply=ok" ]; then
  go build ./... >/dev/null 2>&1 && res="$res build=ok" || res="$res build=FAIL"
  s=$(go test -vet=off -count=1 -timeout 25m . 2>&1 | tail -1); case "$s" in ok*) res="$res suite=pass";; *) res="$res suite=FAIL";; esac
  cp $SRC/demo_test.go zz_demo_seed_test.go
  names=$(grep -o '^func Test[A-Za-z0-9_]*' zz_demo_seed_test.go | sed 's/func //' | paste -sd'|')
  d=$(go test -vet=off -count=1 -timeout 10m -run "^($names)\$" . 2>&1 | tail -1); case "$d" in ok*) res="$res demo_with=PASS(bad)";; *) res="$res demo_with=fail(good)";; esac
  git checkout -q -- .
  d=$(go test -vet=off -count=1 -timeout 10m -run "^($names)\$" . 2>&1 | tail -1); case "$d" in ok*) res="$res demo_without=pass(good)";; *) res="$res demo_without=FAIL(bad)";; esac
fi
cd /; git -C /repo worktree remove --force $D
echo "$N $(git -C /repo rev-parse --short HEAD) $res"
