#!/bin/bash
# usage: tools/mutrun.sh <patch.diff | sed-expr-file> <PROP> <tier> [extra env]
# Applies a patch to a scratch copy of /repo (never /repo itself), runs the check against it, removes the copy.
set -u
PATCH=$(readlink -f $1); PROP=$2; TIER=${3:-quick}
D=$(mktemp -d /tmp/mutrepo.XXXXXX)
rsync -a --exclude .git /repo/ $D/
( cd $D && patch -p1 -s < $PATCH ) || { echo "PATCH FAILED"; rm -rf $D; exit 3; }
( cd /verif && VERIF_OUTDIR=/tmp/mutout VERIF_REPO=$D ./check $PROP $TIER ) | sed "s|$D|/repo|g" | tail -${TAIL:-8}
rc=${PIPESTATUS[0]}
rm -rf $D
exit $rc
