#!/usr/bin/env python3
"""Regenerates /verif/MANIFEST.json from the table below (single source of truth)."""
import json, os
V = os.path.dirname(os.path.dirname(os.path.abspath(__file__)))
props = [json.loads(l) for l in open(os.path.join(V, "properties.jsonl"))]
ids = [p["id"] for p in props]

# id -> (engine, technique, level text, level note, design ref)
CLAIMS = {}
def claim(pid, engine, technique, text, note, ref):
    CLAIMS[pid] = dict(engine=engine, technique=technique, text=text, note=note, ref=ref)

exec(open(os.path.join(V, "tools", "claims.py")).read())

checks = []
for pid in ids:
    if pid not in CLAIMS: continue
    c = CLAIMS[pid]
    checks.append({
        "property_id": pid,
        "quick_cmd": f"./check {pid} quick",
        "thorough_cmd": f"./check {pid} thorough",
        "evidence_file": f"/verif/evidence/{pid}.json",
        "replay_cmd_template": "./check replay {path}",
        "engine": c["engine"],
        "level_claimed": {"category": "model_checking", "text": c["text"], "design_ref": c["ref"]},
        "level_note": c["note"],
        "technique": c["technique"],
    })
na = [{"property_id": pid, "reason": "check not built yet; work in progress (see DESIGN.md section 3 for the plan)"} for pid in ids if pid not in CLAIMS]
man = {
    "version": 1,
    "setup_cmd": "./check setup",
    "hooks": {
        "guard": "verif-overlay",
        "enable": "no source change in /repo: every check builds /repo's working tree with `go1.26 test -c -overlay <generated overlay.json>` (tools/mkoverlay): import paths sync/time -> shim packages, select -> priority cascade, harness added as in-package test files",
        "baseline_off_cmd": "cd /repo && GOFLAGS=-mod=mod GOPROXY=off go test -vet=off -count=1 -timeout 25m ./...",
        "source_commits": [],
        "add_only": True,
    },
    "engines": [
        {"name": "cosched", "path": "shim/vsched + harness/{wire,sim,explore}.go", "serves_properties": [p for p in ids if p in CLAIMS and CLAIMS[p]["engine"].startswith("cosched")],
         "kind_free_text": "stateless model checking of the real implementation: cooperative scheduler in a testing/synctest bubble, fault-injecting wire, deviation-bounded DFS over scheduler/network choices"},
        {"name": "seq", "path": "harness/seq_*.go", "serves_properties": [p for p in ids if p in CLAIMS and CLAIMS[p]["engine"].startswith("seq")],
         "kind_free_text": "explicit-state BFS over operation sequences on real component objects against reference models"},
    ],
    "checks": checks,
    "not_applicable": na,
    "notes": "All checks rebuild from /repo's working tree. known_findings.json lists confirmed defects (fixed/known).",
}
json.dump(man, open(os.path.join(V, "MANIFEST.json"), "w"), indent=1)
print("claimed", len(checks), "not_applicable", len(na))
