#!/usr/bin/env python3
"""Diagnostic: which blocks of pion/sctp do the checks execute?

usage:  mkdir -p /tmp/covout
        for p in C01 ... C20; do VERIF_BLOCKCOV=1 VERIF_COVOUT=/tmp/covout VERIF_OUTDIR=/tmp/covev ./check $p quick; done
        tools/covreport.py /tmp/covout [file-substring]
Prints per file the blocks no worker entered (function, kind, line, source line).  A block
nobody executes is a place where a change cannot be noticed: a pointer to missing scenarios.
Never part of a registered command; evidence of such runs goes to VERIF_OUTDIR.
"""
import glob, json, os, sys
d = sys.argv[1]
only = sys.argv[2] if len(sys.argv) > 2 else ""
sites = json.load(open(os.path.join(d, "cov.json")))
hit = set()
for f in glob.glob(os.path.join(d, "C*-*.json")):
    hit.update(json.load(open(f)))
byfile = {}
for s in sites:
    byfile.setdefault(s["file"], []).append(s)
tot = cov = 0
for fn in sorted(byfile):
    ss = byfile[fn]
    t, c = len(ss), sum(1 for s in ss if s["id"] in hit)
    tot += t; cov += c
    if only and only not in fn:
        continue
    print(f"== {fn}: {c}/{t} blocks executed")
    try:
        src = open(os.path.join("/repo", fn)).read().split("\n")
    except OSError:
        src = []
    for s in ss:
        if s["id"] not in hit:
            line = src[s["line"] - 1].strip() if 0 < s["line"] <= len(src) else ""
            print(f"   {fn}:{s['line']:<5} {s['kind']:<7} {s['func'][:44]:<44} | {line[:90]}")
print(f"TOTAL {cov}/{tot} blocks executed ({100.0*cov/tot:.1f}%)")
