// mkoverlay builds the `go build -overlay` description that turns /repo's *current working
// tree* into the instrumented build used by every check.  /repo is never modified.
//
//  1. every *_test.go of the root package is removed from the build;
//  2. every other root-package file is replaced by a copy in which only (a) the import
//     paths "sync" and "time" point at the shim packages (package names unchanged) and
//     (b) multi-case select statements are turned into a priority cascade, so that a
//     select entered with several ready cases resolves deterministically;
//  3. the shim packages are added as virtual packages inside the module;
//  4. the harness files are added as in-package test files zz_verif_*_test.go.
package main

import (
	"bytes"
	"encoding/json"
	"flag"
	"fmt"
	"go/ast"
	"go/importer"
	"go/parser"
	"go/types"
	"go/printer"
	"go/token"
	"os"
	"path/filepath"
	"sort"
	"strconv"
	"strings"
)

var (
	repo    = flag.String("repo", "/repo", "repository root")
	verif   = flag.String("verif", "/verif", "verif root")
	out     = flag.String("out", "/verif/.build/ovl", "scratch directory for rewritten sources")
	selrev  = flag.Bool("selrev", false, "try select clauses in reverse textual order")
	noshim  = flag.Bool("noshim", false, "do not rewrite imports/selects (race build): only drop tests and add harness")
	harness = flag.String("harness", "harness", "harness directory under verif")
	// blockcov: diagnostic build that records which blocks of the library the checks execute
	// (tools/covreport.py); never used by the registered commands
	blockcov = flag.Bool("blockcov", false, "insert a coverage probe at the start of every block")
)

type covSite struct {
	ID   int    `json:"id"`
	File string `json:"file"`
	Line int    `json:"line"`
	Kind string `json:"kind"`
	Func string `json:"func"`
}

var covSites []covSite

// addBlockCov prepends vverifsched.Cov(id) to every function body, branch body and case
// clause of f.
func addBlockCov(fset *token.FileSet, f *ast.File, name string) bool {
	probe := func(pos token.Pos, kind, fn string) ast.Stmt {
		id := len(covSites)
		covSites = append(covSites, covSite{ID: id, File: name, Line: fset.Position(pos).Line, Kind: kind, Func: fn})
		return &ast.ExprStmt{X: &ast.CallExpr{Fun: &ast.SelectorExpr{X: ast.NewIdent("vverifsched"), Sel: ast.NewIdent("Cov")},
			Args: []ast.Expr{&ast.BasicLit{Kind: token.INT, Value: strconv.Itoa(id)}}}}
	}
	changed := false
	for _, d := range f.Decls {
		fd, ok := d.(*ast.FuncDecl)
		if !ok || fd.Body == nil {
			continue
		}
		fn := fd.Name.Name
		if fd.Recv != nil && len(fd.Recv.List) == 1 {
			var b bytes.Buffer
			_ = printer.Fprint(&b, fset, fd.Recv.List[0].Type)
			fn = "(" + b.String() + ")." + fn
		}
		fd.Body.List = append([]ast.Stmt{probe(fd.Body.Lbrace, "func", fn)}, fd.Body.List...)
		changed = true
		ast.Inspect(fd.Body, func(n ast.Node) bool {
			switch x := n.(type) {
			case *ast.FuncLit:
				x.Body.List = append([]ast.Stmt{probe(x.Body.Lbrace, "funclit", fn)}, x.Body.List...)
			case *ast.IfStmt:
				x.Body.List = append([]ast.Stmt{probe(x.Body.Lbrace, "if", fn)}, x.Body.List...)
				if eb, ok := x.Else.(*ast.BlockStmt); ok {
					eb.List = append([]ast.Stmt{probe(eb.Lbrace, "else", fn)}, eb.List...)
				}
			case *ast.ForStmt:
				x.Body.List = append([]ast.Stmt{probe(x.Body.Lbrace, "for", fn)}, x.Body.List...)
			case *ast.RangeStmt:
				x.Body.List = append([]ast.Stmt{probe(x.Body.Lbrace, "range", fn)}, x.Body.List...)
			case *ast.CaseClause:
				x.Body = append([]ast.Stmt{probe(x.Colon, "case", fn)}, x.Body...)
			case *ast.CommClause:
				x.Body = append([]ast.Stmt{probe(x.Colon, "comm", fn)}, x.Body...)
			}
			return true
		})
	}
	return changed
}

func main() {
	flag.Parse()
	if err := run(); err != nil {
		fmt.Fprintln(os.Stderr, "mkoverlay:", err)
		os.Exit(2)
	}
}

func modulePath() (string, error) {
	b, err := os.ReadFile(filepath.Join(*repo, "go.mod"))
	if err != nil {
		return "", err
	}
	for _, l := range strings.Split(string(b), "\n") {
		l = strings.TrimSpace(l)
		if strings.HasPrefix(l, "module ") {
			return strings.TrimSpace(strings.TrimPrefix(l, "module ")), nil
		}
	}
	return "", fmt.Errorf("no module line")
}

type info struct {
	MapRanges       int      `json:"map_ranges_sorted"`
	MapRangesKept   int      `json:"map_ranges_kept"`
	TypeCheck       string   `json:"typecheck"`
	Files           []string `json:"files_rewritten"`
	SelectsRewriten int      `json:"selects_rewritten"`
	SelectsKept     int      `json:"selects_kept"`
	TestsRemoved    int      `json:"tests_removed"`
}

func run() error {
	mod, err := modulePath()
	if err != nil {
		return err
	}
	if err := os.RemoveAll(*out); err != nil {
		return err
	}
	if err := os.MkdirAll(*out, 0o755); err != nil {
		return err
	}
	replace := map[string]string{}
	var inf info

	ents, err := os.ReadDir(*repo)
	if err != nil {
		return err
	}
	fset := token.NewFileSet()
	type src struct {
		name string
		f    *ast.File
	}
	var srcs []src
	for _, e := range ents {
		name := e.Name()
		if e.IsDir() || !strings.HasSuffix(name, ".go") {
			continue
		}
		full := filepath.Join(*repo, name)
		if strings.HasSuffix(name, "_test.go") {
			replace[full] = ""
			inf.TestsRemoved++
			continue
		}
		if *noshim {
			continue
		}
		f, err := parser.ParseFile(fset, full, nil, parser.SkipObjectResolution)
		if err != nil {
			return fmt.Errorf("%s: %w", name, err)
		}
		srcs = append(srcs, src{name, f})
	}
	if !*noshim {
		// type-check once so that range-over-map statements can be given a deterministic order
		tinfo := &types.Info{Types: map[ast.Expr]types.TypeAndValue{}}
		var files []*ast.File
		for _, s := range srcs {
			files = append(files, s.f)
		}
		cwd, _ := os.Getwd()
		_ = os.Chdir(*repo)
		conf := types.Config{Importer: importer.ForCompiler(fset, "source", nil), Error: func(error) {}}
		_, terr := conf.Check(mod, fset, files, tinfo)
		_ = os.Chdir(cwd)
		if terr != nil {
			inf.TypeCheck = "failed: " + terr.Error()
		} else {
			inf.TypeCheck = "ok"
			for _, s := range srcs {
				if sortMapRanges(s.f, tinfo, &inf) {
					addImport(s.f, "vverifsched", mod+"/internal/vsched")
				}
			}
		}
		for _, s := range srcs {
			if *blockcov && addBlockCov(fset, s.f, s.name) {
				addImport(s.f, "vverifsched", mod+"/internal/vsched")
			}
			dst := filepath.Join(*out, s.name)
			if err := rewrite(fset, s.f, dst, mod, &inf); err != nil {
				return fmt.Errorf("%s: %w", s.name, err)
			}
			replace[filepath.Join(*repo, s.name)] = dst
			inf.Files = append(inf.Files, s.name)
		}
	}

	// virtual shim packages
	if !*noshim {
		for _, pkg := range []string{"vsched", "vsync", "vtime"} {
			dir := filepath.Join(*verif, "shim", pkg)
			files, err := filepath.Glob(filepath.Join(dir, "*.go"))
			if err != nil {
				return err
			}
			asm, _ := filepath.Glob(filepath.Join(dir, "*.s"))
			files = append(files, asm...)
			for _, f := range files {
				replace[filepath.Join(*repo, "internal", pkg, filepath.Base(f))] = f
			}
		}
	} else {
		// the harness still imports vsched (inactive): provide it
		dir := filepath.Join(*verif, "shim", "vsched")
		files, _ := filepath.Glob(filepath.Join(dir, "*.go"))
		asm, _ := filepath.Glob(filepath.Join(dir, "*.s"))
		files = append(files, asm...)
		for _, f := range files {
			replace[filepath.Join(*repo, "internal", "vsched", filepath.Base(f))] = f
		}
	}

	// harness files
	hfiles, err := filepath.Glob(filepath.Join(*verif, *harness, "*.go"))
	if err != nil {
		return err
	}
	sort.Strings(hfiles)
	for _, f := range hfiles {
		base := strings.TrimSuffix(filepath.Base(f), ".go")
		base = strings.TrimSuffix(base, "_test")
		replace[filepath.Join(*repo, "zz_verif_"+base+"_test.go")] = f
	}

	ov := map[string]any{"Replace": replace}
	b, _ := json.MarshalIndent(ov, "", " ")
	if err := os.WriteFile(filepath.Join(*out, "overlay.json"), b, 0o644); err != nil {
		return err
	}
	if *blockcov {
		cb, _ := json.Marshal(covSites)
		if err := os.WriteFile(filepath.Join(*out, "cov.json"), cb, 0o644); err != nil {
			return err
		}
	}
	ib, _ := json.MarshalIndent(inf, "", " ")
	return os.WriteFile(filepath.Join(*out, "info.json"), ib, 0o644)
}

func addImport(f *ast.File, alias, path string) {
	for _, im := range f.Imports {
		if im.Name != nil && im.Name.Name == alias {
			return
		}
	}
	spec := &ast.ImportSpec{Name: ast.NewIdent(alias), Path: &ast.BasicLit{Kind: token.STRING, Value: strconv.Quote(path)}}
	for _, d := range f.Decls {
		if gd, ok := d.(*ast.GenDecl); ok && gd.Tok == token.IMPORT {
			gd.Specs = append(gd.Specs, spec)
			if !gd.Lparen.IsValid() {
				gd.Lparen = gd.Pos()
				gd.Rparen = gd.End()
			}
			f.Imports = append(f.Imports, spec)
			return
		}
	}
	gd := &ast.GenDecl{Tok: token.IMPORT, Specs: []ast.Spec{spec}}
	f.Decls = append([]ast.Decl{gd}, f.Decls...)
	f.Imports = append(f.Imports, spec)
}

func simpleExpr(e ast.Expr) bool {
	switch x := e.(type) {
	case *ast.Ident:
		return true
	case *ast.SelectorExpr:
		return simpleExpr(x.X)
	case *ast.ParenExpr:
		return simpleExpr(x.X)
	}
	return false
}

// sortMapRanges rewrites `for k, v := range m {B}` over maps with ordered keys into an
// iteration over the sorted key snapshot (one of the orders the language allows), so that
// executions do not depend on the runtime's random map iteration order.
func sortMapRanges(f *ast.File, tinfo *types.Info, inf *info) bool {
	changed := false
	labeled := map[*ast.RangeStmt]bool{}
	ast.Inspect(f, func(n ast.Node) bool {
		if l, ok := n.(*ast.LabeledStmt); ok {
			if r, ok := l.Stmt.(*ast.RangeStmt); ok {
				labeled[r] = true
			}
		}
		return true
	})
	ast.Inspect(f, func(n ast.Node) bool {
		r, ok := n.(*ast.RangeStmt)
		if !ok {
			return true
		}
		tv, ok := tinfo.Types[r.X]
		if !ok {
			return true
		}
		m, ok := tv.Type.Underlying().(*types.Map)
		if !ok {
			return true
		}
		b, okb := m.Key().Underlying().(*types.Basic)
		ordered := okb && b.Info()&(types.IsInteger|types.IsString|types.IsFloat) != 0
		if !ordered || labeled[r] || r.Tok != token.DEFINE || !simpleExpr(r.X) || (r.Key == nil && r.Value == nil) {
			inf.MapRangesKept++
			return true
		}
		keyName := "vverifK"
		if id, ok := r.Key.(*ast.Ident); ok && id.Name != "_" {
			keyName = id.Name
		}
		var pre []ast.Stmt
		if r.Value != nil {
			if id, ok := r.Value.(*ast.Ident); !ok || id.Name != "_" {
				pre = append(pre,
					&ast.AssignStmt{Lhs: []ast.Expr{r.Value, ast.NewIdent("vverifOK")}, Tok: token.DEFINE,
						Rhs: []ast.Expr{&ast.IndexExpr{X: r.X, Index: ast.NewIdent(keyName)}}},
					&ast.IfStmt{Cond: &ast.UnaryExpr{Op: token.NOT, X: ast.NewIdent("vverifOK")},
						Body: &ast.BlockStmt{List: []ast.Stmt{&ast.BranchStmt{Tok: token.CONTINUE}}}})
			}
		}
		if len(pre) == 0 {
			// key-only iteration: still skip keys deleted meanwhile
			pre = append(pre,
				&ast.IfStmt{
					Init: &ast.AssignStmt{Lhs: []ast.Expr{ast.NewIdent("_"), ast.NewIdent("vverifOK")}, Tok: token.DEFINE,
						Rhs: []ast.Expr{&ast.IndexExpr{X: r.X, Index: ast.NewIdent(keyName)}}},
					Cond: &ast.UnaryExpr{Op: token.NOT, X: ast.NewIdent("vverifOK")},
					Body: &ast.BlockStmt{List: []ast.Stmt{&ast.BranchStmt{Tok: token.CONTINUE}}}})
		}
		r.Body.List = append(pre, r.Body.List...)
		r.Key = ast.NewIdent("_")
		r.Value = ast.NewIdent(keyName)
		r.X = &ast.CallExpr{Fun: &ast.SelectorExpr{X: ast.NewIdent("vverifsched"), Sel: ast.NewIdent("SortedKeys")}, Args: []ast.Expr{r.X}}
		inf.MapRanges++
		changed = true
		return true
	})
	return changed
}

func rewrite(fset *token.FileSet, f *ast.File, dst, mod string, inf *info) error {
	for _, im := range f.Imports {
		p, _ := strconv.Unquote(im.Path.Value)
		var shim, name string
		switch p {
		case "sync":
			shim, name = mod+"/internal/vsync", "sync"
		case "time":
			shim, name = mod+"/internal/vtime", "time"
		default:
			continue
		}
		im.Path.Value = strconv.Quote(shim)
		if im.Name == nil {
			im.Name = ast.NewIdent(name)
		}
	}
	if markSelectClauses(f) {
		addImport(f, "vverifsched", mod+"/internal/vsched")
	}
	rewriteSelects(f, inf)
	if guardGoStmts(f) {
		addImport(f, "vverifsched", mod+"/internal/vsched")
	}
	var buf bytes.Buffer
	cfg := printer.Config{Mode: printer.UseSpaces | printer.TabIndent, Tabwidth: 8}
	if err := cfg.Fprint(&buf, fset, f); err != nil {
		return err
	}
	return os.WriteFile(dst, buf.Bytes(), 0o644)
}

// guardGoStmts makes every goroutine started by the package report a panic to the scheduler
// instead of killing the worker process: `go f()` -> `go func() { defer RecoverGo(); f() }()`
// (only when the call has no arguments, so evaluation order is unchanged) and
// `go func(..){B}(..)` -> the deferred call is prepended to B.
func guardGoStmts(f *ast.File) bool {
	changed := false
	deferStmt := func() ast.Stmt {
		return &ast.DeferStmt{Call: &ast.CallExpr{Fun: &ast.SelectorExpr{X: ast.NewIdent("vverifsched"), Sel: ast.NewIdent("RecoverGo")}}}
	}
	ast.Inspect(f, func(n ast.Node) bool {
		g, ok := n.(*ast.GoStmt)
		if !ok {
			return true
		}
		enter := func() ast.Stmt {
			return &ast.ExprStmt{X: &ast.CallExpr{Fun: &ast.SelectorExpr{X: ast.NewIdent("vverifsched"), Sel: ast.NewIdent("EnterGo")}}}
		}
		if lit, ok := g.Call.Fun.(*ast.FuncLit); ok {
			lit.Body.List = append([]ast.Stmt{enter(), deferStmt()}, lit.Body.List...)
			changed = true
			return true
		}
		if len(g.Call.Args) == 0 {
			inner := g.Call
			g.Call = &ast.CallExpr{Fun: &ast.FuncLit{
				Type: &ast.FuncType{Params: &ast.FieldList{}},
				Body: &ast.BlockStmt{List: []ast.Stmt{&ast.ExprStmt{X: &ast.CallExpr{Fun: &ast.SelectorExpr{X: ast.NewIdent("vverifsched"), Sel: ast.NewIdent("EnterGo")}}}, deferStmt(), &ast.ExprStmt{X: inner}}},
			}}
			changed = true
		}
		return true
	})
	return changed
}

func hasLabel(stmts []ast.Stmt) bool {
	found := false
	for _, s := range stmts {
		ast.Inspect(s, func(n ast.Node) bool {
			if _, ok := n.(*ast.LabeledStmt); ok {
				found = true
			}
			return !found
		})
	}
	return found
}

// markSelectClauses prepends vverifsched.AfterSelect() to the body of every communication
// clause: the instant a select fires becomes a (switchable) scheduling point.
func markSelectClauses(f *ast.File) bool {
	changed := false
	ast.Inspect(f, func(n ast.Node) bool {
		cc, ok := n.(*ast.CommClause)
		if !ok || cc.Comm == nil {
			return true
		}
		call := &ast.ExprStmt{X: &ast.CallExpr{Fun: &ast.SelectorExpr{X: ast.NewIdent("vverifsched"), Sel: ast.NewIdent("AfterSelect")}}}
		cc.Body = append([]ast.Stmt{call}, cc.Body...)
		changed = true
		return true
	})
	return changed
}

// rewriteSelects turns every select with >= 2 communication clauses into a cascade.
func rewriteSelects(f *ast.File, inf *info) {
	var visit func(n ast.Node) bool
	visit = func(n ast.Node) bool {
		sel, ok := n.(*ast.SelectStmt)
		if !ok {
			return true
		}
		// inner selects first (bodies may contain selects)
		for _, c := range sel.Body.List {
			cc := c.(*ast.CommClause)
			for _, s := range cc.Body {
				ast.Inspect(s, visit)
			}
		}
		var comm []*ast.CommClause
		var def *ast.CommClause
		for _, c := range sel.Body.List {
			cc := c.(*ast.CommClause)
			if cc.Comm == nil {
				def = cc
			} else {
				comm = append(comm, cc)
			}
		}
		if len(comm) < 2 {
			return false
		}
		for _, cc := range comm {
			if hasLabel(cc.Body) {
				inf.SelectsKept++
				return false
			}
		}
		if def != nil && hasLabel(def.Body) {
			inf.SelectsKept++
			return false
		}
		order := append([]*ast.CommClause(nil), comm...)
		if *selrev {
			for i, j := 0, len(order)-1; i < j; i, j = i+1, j-1 {
				order[i], order[j] = order[j], order[i]
			}
		}
		// innermost statement
		var inner ast.Stmt
		if def == nil {
			orig := &ast.SelectStmt{Body: &ast.BlockStmt{List: append([]ast.Stmt(nil), sel.Body.List...)}}
			inner = orig
		} else {
			last := order[len(order)-1]
			order = order[:len(order)-1]
			inner = &ast.SelectStmt{Body: &ast.BlockStmt{List: []ast.Stmt{
				&ast.CommClause{Comm: last.Comm, Body: last.Body},
				&ast.CommClause{Comm: nil, Body: def.Body},
			}}}
		}
		for i := len(order) - 1; i >= 0; i-- {
			c := order[i]
			inner = &ast.SelectStmt{Body: &ast.BlockStmt{List: []ast.Stmt{
				&ast.CommClause{Comm: c.Comm, Body: c.Body},
				&ast.CommClause{Comm: nil, Body: []ast.Stmt{inner}},
			}}}
		}
		*sel = *(inner.(*ast.SelectStmt))
		inf.SelectsRewriten++
		return false
	}
	ast.Inspect(f, visit)
}
