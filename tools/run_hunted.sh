#!/bin/bash
# usage: tools/run_hunted.sh [name ...]  -- runs the bug-hunting agents' demonstration tests (hunted/<name>/demo_test.go,
# written against the tree as it was before the repairs) on a scratch worktree of /repo HEAD and reports pass/fail per test file.
# A demonstration of a repaired defect passes now; those of the known findings (F43, F45, F47) and of reports not pursued still fail.
export GOFLAGS=-mod=mod GOPROXY=off
D=/tmp/wt-hunted-$$
git -C /repo worktree add --detach $D HEAD -q || exit 9
names=${@:-$(ls /verif/hunted)}
for n in $names; do
  f=/verif/hunted/$n/demo_test.go
  [ -f $f ] || continue
  cp $f $D/zz_hunted_test.go
  tests=$(grep -o '^func Test[A-Za-z0-9_]*' $D/zz_hunted_test.go | sed 's/func //' | paste -sd'|')
  out=$(cd $D && timeout 600 go test -vet=off -count=1 -timeout 9m -run "^($tests)\$" . 2>&1 | tail -1)
  case "$out" in ok*) r=pass;; *) r=FAIL;; esac
  echo "$n $r"
  rm -f $D/zz_hunted_test.go
done
cd /; git -C /repo worktree remove --force $D
