#!/usr/bin/env python3
"""Regenerate the detection table of DESIGN.md section 11 from seeded/*/meta.json and
seeded/*/detection.json (written by tools/seed_matrix.py).

usage: seed_table.py [--write]   (without --write the table and the summary counts are printed)
The table in DESIGN.md is the block of lines starting with '| seed | site | caught by'.
"""
import glob, json, os, re, sys

VERIF = os.path.dirname(os.path.dirname(os.path.abspath(__file__)))


def order(name):
    m = re.match(r"(C\d\d)-(?:r(\d))?(\w+)", name)
    return (m.group(1), int(m.group(2) or 1), m.group(3))


rows, own, cross, none = [], 0, 0, 0
crossnames, nonenames = [], []
for d in sorted(glob.glob(os.path.join(VERIF, "seeded", "*")), key=lambda p: order(os.path.basename(p))):
    name = os.path.basename(d)
    try:
        meta = json.load(open(os.path.join(d, "meta.json")))
        det = json.load(open(os.path.join(d, "detection.json")))
    except Exception:
        continue
    prop = meta["property"]
    site = (meta.get("file", "") + " " + meta.get("function", "")).strip()[:66]
    caught = []
    ownhit = False
    for k, r in det.get("runs", {}).items():
        p = k.split()[0]
        if r.get("caught"):
            caught.append((p != prop, p, r["violations"], (r.get("first") or {}).get("oracle", "")))
            if p == prop:
                ownhit = True
    caught.sort()
    txt = "; ".join(f"{p}: {n} × `{o}`" for _, p, n, o in caught)
    tags = ""
    if meta.get("rebased") or meta.get("confirmed_rebased"):
        tags = " [re-based]"
    st = meta.get("status_on_current_head", "")
    if ownhit:
        own += 1
    elif caught:
        cross += 1
        crossnames.append(name)
        txt += f" (not by {prop})"
    else:
        none += 1
        nonenames.append(name)
        txt = f"— (not by {prop})"
        if st:
            txt += " — " + st[:90]
    if not det.get("applies_to_head", {}).get("ok", True):
        txt += " [patch no longer applies]"
    rows.append(f"| `{name}` | {site} | {txt}{tags} |")

table = "| seed | site | caught by (quick tier) |\n|---|---|---|\n" + "\n".join(rows)
print(f"total={len(rows)} own={own} cross={cross} none={none}", file=sys.stderr)
print("cross:", crossnames, file=sys.stderr)
print("none:", nonenames, file=sys.stderr)
if "--write" in sys.argv:
    p = os.path.join(VERIF, "DESIGN.md")
    s = open(p).read()
    i = s.index("| seed | site | caught by (quick tier) |")
    j = i
    lines = s[i:].split("\n")
    n = 0
    for ln in lines:
        if not ln.startswith("|"):
            break
        n += len(ln) + 1
    s = s[:i] + table + "\n" + s[i + n:]
    open(p, "w").write(s)
else:
    print(table)
