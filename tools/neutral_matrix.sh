#!/bin/bash
# usage: tools/neutral_matrix.sh <dir with NN/patch.diff> [props...]
# Runs the quick checks against scratch copies of /repo with one behaviour-preserving patch
# applied each: every check must stay silent (exit 0, no VIOLATION line).  Copies are removed.
ROOT=$1; shift
PROPS=${@:-C01 C02 C03 C04 C05 C06 C07 C08 C09 C10 C11 C12 C13 C14 C15 C16 C17 C18 C19 C20}
for d in "$ROOT"/*/; do
  n=$(basename "$d")
  [ -f "$d/patch.diff" ] || continue
  D=$(mktemp -d /tmp/neutral.XXXXXX)
  rsync -a --exclude .git /repo/ "$D"/
  if ! ( cd "$D" && patch -p1 -s < "$d/patch.diff" ); then echo "$n PATCH-FAILS"; rm -rf "${D:?}"; continue; fi
  for p in $PROPS; do
    out=$(cd /verif && VERIF_OUTDIR=/tmp/neutral_out_ev VERIF_REPO="$D" ./check $p quick 2>&1)
    rc=$?
    v=$(echo "$out" | grep -c "^VIOLATION")
    if [ $rc -ne 0 ] || [ $v -ne 0 ]; then echo "$n $p ALARM rc=$rc violations=$v :: $(echo "$out" | grep -E 'BUILD-ERROR|VIOLATION|error' | head -3 | tr '\n' ' ')"; else echo "$n $p ok"; fi
  done
  rm -rf "${D:?}"
done
rm -rf /tmp/neutral_out_ev
