package sctp

import (
	"errors"
	"fmt"
	"io"
	"strings"
	"time"

	"github.com/pion/sctp/internal/vsched"
)

func init() { register("C14", propC14) }

type resetSpec struct {
	A, B       epCfg
	SIDs       []uint16
	Sizes      []int // messages written by A before Close (per stream)
	Unordered  bool
	LateReader bool // B reads only after the reset has been processed
	Cycles     int
	Faults     faultSet
	SSNStart   uint16 // first cycle: pre-set sequence cursors (wrap coverage)
	MIDStart   uint32
	BackSizes  []int         // messages B writes back before closing its direction
	CloseGap   time.Duration // pause between the Close calls of successive streams (separate RECONFIG packets)
	MsgGap     time.Duration // pause between the writes of one stream
	// EagerReopen: the next cycle starts as soon as the identifier is free on both sides (both
	// readers saw end-of-stream), without waiting for the responses to the reset requests.
	EagerReopen bool
	// SuspendTimers: after the handshake every timer expiry may be postponed past the next
	// packet delivery (a schedule deviation)
	SuspendTimers bool
	// KillResetReq: the first n packets from A that carry an outgoing reset request are lost
	KillResetReq int
	// DeadlineReader: B's reader works with short read deadlines and idles with an expired
	// deadline for a while before re-arming; A writes and closes during such an idle phase
	DeadlineReader bool
	// C15: low-threshold callback on A's streams; the amount is above the threshold when Close
	// is called and crosses it while the stream is closing
	Threshold     uint64
	CheckCallback bool
	CheckBuffered bool // C15: per-stream buffered amount must be zero after the reset
	// MixedDCEP: every second message is written with the DCEP payload type, which is sent
	// ordered even on an unordered stream: ordered and unordered messages of one stream are
	// queued when Close is called
	MixedDCEP bool
	// SlowReader: B's readers start only after this pause (the advertised window shrinks while
	// the data waits: with a small receive buffer the sender ends up probing a closed window)
	SlowReader time.Duration
	// ReopenAtEOF: the next cycle opens the identifier again in the instant both readers have
	// seen end-of-stream (both directions are reset then), without looking at internal tables
	ReopenAtEOF bool
	// CloseWhileWriting: A's messages are written by a thread of their own (blocking-write mode:
	// it ends up parked behind a closed window) and Close is called this long after it began;
	// writes that fail are not owed, every write that returned success is
	CloseWhileWriting time.Duration
	// DoubleClose: Close is called a second time a little later, while the stream is still
	// closing (an explicit Close plus a deferred one): it must be a no-op
	DoubleClose bool
}

type resetObs struct {
	got [2]map[uint16][]rmsg
	err [2]map[uint16]error
}

func resetScenario(spec *resetSpec) *Scenario {
	return &Scenario{
		Name:    "reset",
		Horizon: 300 * time.Second,
		Setup: func(m *Sim) {
			m.W.faults = spec.Faults
			if spec.KillResetReq > 0 {
				n := 0
				m.W.killFn = func(p *wpkt) bool {
					if p.from != 0 || p.dec == nil {
						return false
					}
					for _, c := range p.dec.Chunks {
						if c.Typ == wRECONFIG && strings.Contains(c.Summary(), "OutReset") && n < spec.KillResetReq {
							n++
							return true
						}
					}
					return false
				}
			}
		},
		Body: func(m *Sim) {
			if !m.Connect(spec.A, spec.B) {
				m.Failf("connect", "handshake failed: %v %v", m.Err[0], m.Err[1])
				m.closeFailedTransports()
				m.CloseBoth()
				return
			}
			m.W.faultsOn = true
			if spec.SuspendTimers {
				m.S.SuspendTimers = true
			}
			for cycle := 0; cycle < spec.Cycles; cycle++ {
				if !resetCycle(m, spec, cycle) {
					break
				}
			}
			m.W.faultsOn = false
			m.CloseBoth()
		},
		Final: func(m *Sim, x *Exec) {
			generalVerdicts(m, x, false)
			resetOrderMonitor(m, x)
		},
	}
}

func resetCycle(m *Sim, spec *resetSpec, cycle int) bool {
	mu := &m.mu
	type pair struct{ a, b *Stream }
	streams := map[uint16]pair{}
	for _, sid := range spec.SIDs {
		sa, err := m.As[0].OpenStream(sid, PayloadTypeWebRTCBinary)
		if err != nil {
			m.Failf("reopen", "cycle %d: OpenStream(%d) on A: %v", cycle, sid, err)
			return false
		}
		sb, err := m.As[1].OpenStream(sid, PayloadTypeWebRTCBinary)
		if err != nil {
			m.Failf("reopen", "cycle %d: OpenStream(%d) on B: %v", cycle, sid, err)
			return false
		}
		if sa.State() != StreamStateOpen || sb.State() != StreamStateOpen {
			m.Failf("reopen", "cycle %d: stream %d reopened in state %v/%v (old incarnation still registered?)", cycle, sid, sa.State(), sb.State())
			return false
		}
		sa.SetReliabilityParams(spec.Unordered, ReliabilityTypeReliable, 0)
		sb.SetReliabilityParams(spec.Unordered, ReliabilityTypeReliable, 0)
		if cycle == 0 && (spec.SSNStart != 0 || spec.MIDStart != 0) {
			for _, s := range []*Stream{sa, sb} {
				s.sequenceNumber = spec.SSNStart
				s.nextOrderedMID = spec.MIDStart
				s.nextUnorderedMID = spec.MIDStart
				s.reassemblyQueue.nextSSN = spec.SSNStart
				s.reassemblyQueue.nextMID = spec.MIDStart
			}
		}
		m.streamsSeen = append(m.streamsSeen, sa, sb)
		streams[sid] = pair{sa, sb}
	}
	got := [2]map[uint16][]rmsg{{}, {}}
	rerr := [2]map[uint16]error{{}, {}}
	var readers []*vsched.Thread
	startReader := func(ep int, sid uint16, s *Stream, late bool) {
		readers = append(readers, m.Go(fmt.Sprintf("c%d.read%d.%d", cycle, ep, sid), func() {
			if spec.SlowReader > 0 && ep == 1 {
				m.Sleep(spec.SlowReader)
			}
			if late {
				// wait until the reset has been processed on this side (stream unregistered)
				m.WaitUntil("reset-processed", 60*time.Second, func() bool { return s.readErr != nil })
			}
			buf := make([]byte, 4096)
			for {
				if spec.DeadlineReader && ep == 1 {
					_ = s.SetReadDeadline(time.Now().Add(40 * time.Millisecond))
				}
				n, ppi, err := s.ReadSCTP(buf)
				if err != nil && spec.DeadlineReader && ep == 1 && errors.Is(err, ErrReadDeadlineExceeded) {
					m.Sleep(200 * time.Millisecond) // idle, the expired deadline stays in place
					continue
				}
				if err != nil {
					mu.Lock()
					rerr[ep][sid] = err
					mu.Unlock()
					return
				}
				mu.Lock()
				got[ep][sid] = append(got[ep][sid], rmsg{Data: string(buf[:n]), PPI: ppi})
				mu.Unlock()
				m.Logf(fmt.Sprintf("c%d read%d sid=%d", cycle, ep, sid), "n=%d", n)
			}
		}))
	}
	for _, sid := range spec.SIDs {
		startReader(1, sid, streams[sid].b, spec.LateReader)
		startReader(0, sid, streams[sid].a, false)
	}
	cbCount := map[uint16]int{}
	if spec.CheckCallback {
		for _, sid := range spec.SIDs {
			sid := sid
			sa := streams[sid].a
			sa.SetBufferedAmountLowThreshold(spec.Threshold)
			sa.OnBufferedAmountLow(func() {
				if held := m.S.HeldClasses(); len(held) > 0 {
					m.Failf("callback.locks", "OnBufferedAmountLow of stream %d invoked with internal locks held: %v", sid, held)
				}
				mu.Lock()
				cbCount[sid]++
				mu.Unlock()
			})
		}
	}
	if spec.DeadlineReader {
		m.Sleep(100 * time.Millisecond)
	}
	// A writes and closes
	want := [2]map[uint16][]string{{}, {}}
	var writers []*vsched.Thread
	if spec.CloseWhileWriting > 0 {
		for _, sid := range spec.SIDs {
			sid := sid
			writers = append(writers, m.Go(fmt.Sprintf("c%d.write.%d", cycle, sid), func() {
				for i, sz := range spec.Sizes {
					data := payload(sid, cycle*16+i, sz)
					if _, err := streams[sid].a.WriteSCTP(data, PayloadTypeWebRTCBinary); err != nil {
						m.Logf(fmt.Sprintf("c%d write sid=%d", cycle, sid), "message %d: %v", i, err)
						return
					}
					mu.Lock()
					want[1][sid] = append(want[1][sid], string(data))
					mu.Unlock()
				}
			}))
		}
		m.Sleep(spec.CloseWhileWriting)
	}
	for _, sid := range spec.SIDs {
		if spec.CloseWhileWriting > 0 {
			break
		}
		for i, sz := range spec.Sizes {
			if i > 0 && spec.MsgGap > 0 {
				m.Sleep(spec.MsgGap)
			}
			data := payload(sid, cycle*16+i, sz)
			ppi := PayloadTypeWebRTCBinary
			if spec.MixedDCEP && i%2 == 1 {
				ppi = PayloadTypeWebRTCDCEP
			}
			if _, err := streams[sid].a.WriteSCTP(data, ppi); err != nil {
				m.Failf("write", "cycle %d: write on A stream %d: %v", cycle, sid, err)
				return false
			}
			want[1][sid] = append(want[1][sid], string(data))
		}
	}
	for i, sid := range spec.SIDs {
		if i > 0 && spec.CloseGap > 0 {
			m.Sleep(spec.CloseGap)
		}
		if err := streams[sid].a.Close(); err != nil {
			m.Failf("close", "cycle %d: Close on A stream %d: %v", cycle, sid, err)
		}
		m.Logf(fmt.Sprintf("c%d closeA sid=%d", cycle, sid), "ok")
	}
	if spec.DoubleClose {
		m.Sleep(3 * time.Millisecond)
		for _, sid := range spec.SIDs {
			_ = streams[sid].a.Close()
		}
	}
	m.Join(writers...)
	// B: once its reader saw the end of the stream it writes back and closes its direction
	ok := m.WaitUntil("eof-at-B", 120*time.Second, func() bool {
		for _, sid := range spec.SIDs {
			if rerr[1][sid] == nil {
				return false
			}
		}
		return true
	})
	if !ok {
		m.Failf("reset.stall", "cycle %d: B's readers did not see the end of the stream within 120 s (got %v)", cycle, lens(got[1]))
		return false
	}
	for _, sid := range spec.SIDs {
		for i, sz := range spec.BackSizes {
			data := payload(sid, 100+cycle*16+i, sz)
			if _, err := streams[sid].b.WriteSCTP(data, PayloadTypeWebRTCBinary); err != nil {
				m.Failf("write", "cycle %d: write back on B stream %d: %v", cycle, sid, err)
				return false
			}
			want[0][sid] = append(want[0][sid], string(data))
		}
		if err := streams[sid].b.Close(); err != nil {
			m.Failf("close", "cycle %d: Close on B stream %d: %v", cycle, sid, err)
		}
	}
	ok = m.WaitUntil("eof-at-A", 120*time.Second, func() bool {
		for _, sid := range spec.SIDs {
			if rerr[0][sid] == nil {
				return false
			}
		}
		return true
	})
	if !ok {
		m.Failf("reset.stall", "cycle %d: A's readers did not see the end of the stream within 120 s", cycle)
		return false
	}
	m.Join(readers...)
	// both directions reset: identifiers free again, nothing buffered
	ok = m.WaitUntil("reset-done", 120*time.Second, func() bool {
		if spec.ReopenAtEOF && cycle+1 < spec.Cycles {
			return true
		}
		for _, sid := range spec.SIDs {
			if _, in := m.As[0].streams[sid]; in {
				return false
			}
			if _, in := m.As[1].streams[sid]; in {
				return false
			}
		}
		if spec.EagerReopen && cycle+1 < spec.Cycles {
			return true
		}
		return drained(m.As[0]) && drained(m.As[1]) && len(m.As[0].reconfigs) == 0 && len(m.As[1].reconfigs) == 0
	})
	if !ok {
		m.Failf("reset.stall", "cycle %d: reset handshake not finished after 120 s (streams A=%d B=%d, reconfigs A=%d B=%d)", cycle, len(m.As[0].streams), len(m.As[1].streams), len(m.As[0].reconfigs), len(m.As[1].reconfigs))
		return false
	}
	// oracle: exactly the written messages, in order (ordered) / as a set (unordered), then EOF
	for ep := 0; ep < 2; ep++ {
		for _, sid := range spec.SIDs {
			g, w := got[ep][sid], want[ep][sid]
			if rerr[ep][sid] != io.EOF {
				m.Failf("reset.eof", "cycle %d endpoint %d stream %d: reader ended with %v, want io.EOF", cycle, ep, sid, rerr[ep][sid])
			}
			if len(g) != len(w) {
				m.Failf("reset.data", "cycle %d endpoint %d stream %d: %d of %d messages were read before end-of-stream", cycle, ep, sid, len(g), len(w))
				continue
			}
			used := make([]bool, len(w))
			for i := range g {
				if !spec.Unordered {
					if g[i].Data != w[i] {
						m.Failf("reset.data", "cycle %d endpoint %d stream %d: message %d differs from what was written", cycle, ep, sid, i)
						break
					}
					continue
				}
				found := false
				for k := range w {
					if !used[k] && w[k] == g[i].Data {
						used[k], found = true, true
						break
					}
				}
				if !found {
					m.Failf("reset.data", "cycle %d endpoint %d stream %d: read a message that was not written in this incarnation", cycle, ep, sid)
					break
				}
			}
		}
	}
	if spec.CheckCallback {
		for _, sid := range spec.SIDs {
			total := 0
			for _, sz := range spec.Sizes {
				total += sz
			}
			mu.Lock()
			n := cbCount[sid]
			mu.Unlock()
			if uint64(total) > spec.Threshold && streams[sid].a.BufferedAmount() <= spec.Threshold && n == 0 {
				m.Failf("callback.missing", "cycle %d stream %d: %d bytes were buffered when Close was called, the amount has fallen to %d (threshold %d) but OnBufferedAmountLow never fired", cycle, sid, total, streams[sid].a.BufferedAmount(), spec.Threshold)
			}
		}
	}
	if spec.CheckBuffered {
		for _, sid := range spec.SIDs {
			for _, s := range []*Stream{streams[sid].a, streams[sid].b} {
				if b := s.BufferedAmount(); b != 0 {
					m.Failf("buffered.after-reset", "cycle %d stream %d: %d bytes still counted as buffered after everything was acknowledged and the reset completed", cycle, sid, b)
				}
			}
		}
	}
	m.Observe("c%d ok", cycle)
	return len(m.viol) == 0
}

func lens(mm map[uint16][]rmsg) map[uint16]int {
	out := map[uint16]int{}
	for k, v := range mm {
		out[k] = len(v)
	}
	return out
}

func propC14(j *Job) {
	modes := stdModes()
	faults := faultSet{Drop: true, Dup: true, Late: true, Swap: true}
	// blocking-write mode against a small, slowly drained receive buffer: the last message
	// leaves as a window probe, the end-of-stream marker is alone in the queue behind it; the
	// next incarnation of the stream (and every other writer) must still get its turn
	// the same, with Close called while a write of the stream is parked behind the closed window
	for _, mode := range modes {
		a, b := withBase(mode.A, 1200, 0xFFFFFFFA, 4000), withBase(mode.B, 1200, 0xFFFFFFF0, 4000)
		a.BlockWrite = true
		b.RecvBuf = 1500
		spec := &resetSpec{A: a, B: b, SIDs: []uint16{5}, Sizes: []int{1000, 400, 1000, 300, 200}, Cycles: 2, Faults: faults, BackSizes: []int{12}, SlowReader: 300 * time.Millisecond, CloseWhileWriting: 100 * time.Millisecond}
		j.Explore(fmt.Sprintf("R/%s/close-while-blocked", mode.Name), resetScenario(spec), Budget{K: 0}, nil)
	}
	for _, mode := range modes {
		for _, sz := range [][]int{{1000, 1000}, {1000, 400, 1000}} {
			a, b := withBase(mode.A, 1200, 0xFFFFFFFA, 4000), withBase(mode.B, 1200, 0xFFFFFFF0, 4000)
			a.BlockWrite = true
			b.RecvBuf = 1500
			spec := &resetSpec{A: a, B: b, SIDs: []uint16{5}, Sizes: sz, Cycles: 2, Faults: faults, BackSizes: []int{12}, SlowReader: 300 * time.Millisecond}
			j.Explore(fmt.Sprintf("R/%s/block-probe/m%d", mode.Name, len(sz)), resetScenario(spec), Budget{K: 0}, nil)
			if j.capped() {
				return
			}
		}
	}
	for _, mode := range modes {
		mtu := uint32(100)
		il := !mode.A.NoInterleave
		P := int(maxPayloadSizeForMTU(mtu, il))
		sizeSets := [][]int{{}, {9}, {10, 2*P + 3, 11}, {30, 31, 32, 33, 34, 35, 36, 37, 38, 39, 40, 41}}
		for si, sizes := range sizeSets {
			for _, unordered := range []bool{false, true} {
				for _, late := range []bool{false, true} {
					for _, two := range []bool{false, true} {
						if !j.Thorough() && ((two && (si == 0 || unordered || late)) || (unordered && late)) {
							continue
						}
						sids := []uint16{5}
						if two {
							sids = []uint16{5, 6}
						}
						spec := &resetSpec{
							A: withBase(mode.A, mtu, 0xFFFFFFFA, 4000), B: withBase(mode.B, mtu, 0xFFFFFFF0, 4000),
							SIDs: sids, Sizes: sizes, Unordered: unordered, LateReader: late, Cycles: 2, Faults: faults,
							SSNStart: 65534, MIDStart: 0xFFFFFFFE, BackSizes: []int{12},
						}
						k := 1
						if j.Thorough() {
							k = 2
						}
						if si == 3 && !j.Thorough() {
							k = 1
						}
						j.Explore(fmt.Sprintf("R/%s/m%d/U%v/late%v/two%v", mode.Name, len(sizes), unordered, late, two), resetScenario(spec), Budget{K: k}, nil)
						if j.capped() {
							return
						}
						if !two && !late && (si == 2 || (j.Thorough() && si == 1)) {
							// the identifier is re-opened while answers to the reset requests may
							// still be missing; the new incarnation's writes are spread over time
							sp := *spec
							sp.EagerReopen, sp.MsgGap, sp.Cycles = true, 1200*time.Millisecond, 3
							j.Explore(fmt.Sprintf("R/%s/m%d/U%v/eager", mode.Name, len(sizes), unordered), resetScenario(&sp), Budget{K: k}, nil)
							if j.capped() {
								return
							}
						}
						if !two && !late && si == 1 {
							sp := *spec
							sp.DoubleClose = true
							j.Explore(fmt.Sprintf("R/%s/m%d/U%v/double-close", mode.Name, len(sizes), unordered), resetScenario(&sp), Budget{K: k}, nil)
						}
						if !two && !late && si == 1 && !unordered {
							// re-open in the instant of end-of-stream, under every schedule with one deviation
							sp := *spec
							sp.ReopenAtEOF, sp.Cycles = true, 3
							j.Explore(fmt.Sprintf("R/%s/m%d/reopen-at-eof", mode.Name, len(sizes)), resetScenario(&sp), Budget{K: 0, D: 1}, nil)
							if j.capped() {
								return
							}
						}
						if j.Thorough() && !late && si == 1 {
							// timer expiries against packet arrivals: one fault and one postponed timer
							sp := *spec
							sp.SuspendTimers = true
							j.Explore(fmt.Sprintf("R/%s/m%d/U%v/two%v/suspend", mode.Name, len(sizes), unordered, two), resetScenario(&sp), Budget{K: 1, D: 1}, nil)
							if j.capped() {
								return
							}
						}
						if !two && !late && si == 1 && !unordered {
							// a burst of losses on the reset request itself: it is retransmitted
							// for as long as it takes
							sp := *spec
							sp.KillResetReq, sp.Cycles = 7, 1
							j.Explore(fmt.Sprintf("R/%s/m%d/reset-req-lost7", mode.Name, len(sizes)), resetScenario(&sp), Budget{K: 0}, nil)
							if j.capped() {
								return
							}
						}
						if !two && !late && si == 3 && unordered {
							sp := *spec
							sp.MixedDCEP = true
							j.Explore(fmt.Sprintf("R/%s/m%d/U%v/mixed-dcep", mode.Name, len(sizes), unordered), resetScenario(&sp), Budget{K: k}, nil)
							if j.capped() {
								return
							}
						}
						if !two && !late && si == 2 {
							sp := *spec
							sp.DeadlineReader = true
							j.Explore(fmt.Sprintf("R/%s/m%d/U%v/deadline-reader", mode.Name, len(sizes), unordered), resetScenario(&sp), Budget{K: k}, nil)
							if j.capped() {
								return
							}
						}
						if two && (j.Thorough() || si == 1) {
							// the two reset requests travel in separate packets: one can be lost
							// while the other is answered
							sp := *spec
							sp.CloseGap = 5 * time.Millisecond
							j.Explore(fmt.Sprintf("R/%s/m%d/U%v/late%v/two-gap", mode.Name, len(sizes), unordered, late), resetScenario(&sp), Budget{K: k}, nil)
							if j.capped() {
								return
							}
						}
					}
				}
			}
		}
	}
}

// resetOrderMonitor (wire level): an Outgoing SSN Reset Request names the last TSN the sender
// has assigned; until the peer has answered it the sender puts no new data of the
// listed streams on the wire beyond that TSN - such data would reach the peer's old
// incarnation after its end, or be thrown away with it ("ordered after the stream's data").
func resetOrderMonitor(m *Sim, x *Exec) {
	type req struct {
		sids map[uint16]bool
		last uint32
	}
	open := [2]map[uint32]*req{{}, {}}
	seen := [2]map[uint32]bool{{}, {}}
	answered := [2]map[uint32]bool{{}, {}}
	requested := [2]map[uint16]uint32{{}, {}}
	for _, ev := range x.Events {
		if ev.Pkt == nil || ev.Pkt.dec == nil {
			continue
		}
		for _, c := range ev.Pkt.dec.Chunks {
			switch {
			case ev.Kind == "send" && c.Typ == wRECONFIG:
				for _, p := range c.Params {
					if p.Typ == 13 && len(p.Val) >= 12 {
						rsn := be32(p.Val)
						// (a request the peer has answered already may be repeated when the answer is late)
						if open[ev.From][rsn] == nil && !answered[ev.From][rsn] {
							r := &req{sids: map[uint16]bool{}, last: be32(p.Val[8:])}
							for o := 12; o+1 < len(p.Val); o += 2 {
								sid := be16(p.Val[o:])
								r.sids[sid] = true
								// one request ends one incarnation: a second one (another request number) while the
								// first is unanswered would reset whatever holds the identifier when it arrives -
								// possibly the next incarnation
								if prev, ok := requested[ev.From][sid]; ok && prev != rsn && open[ev.From][prev] != nil {
									m.Failf("reset.request-repeated", "endpoint %d sends a second outgoing reset request (%d) for stream %d while its first one (%d) is still unanswered", ev.From, rsn, sid, prev)
									return
								}
								requested[ev.From][sid] = rsn
							}
							open[ev.From][rsn] = r
						}
					}
				}
			}
			switch {
			case ev.Kind == "send" && c.Typ == wRECONFIG:
				for _, p := range c.Params {
					// a final answer (anything but "in progress") closes the request from the moment the
					// peer gives it, whether or not it arrives: the peer has performed the reset then, and
					// what follows belongs to the next incarnation
					if p.Typ == 16 && len(p.Val) >= 8 && be32(p.Val[4:]) != 6 {
						delete(open[1-ev.From], be32(p.Val))
						answered[1-ev.From][be32(p.Val)] = true
					}
				}
			case ev.Kind == "send" && (c.Typ == wDATA || c.Typ == wIDATA):
				if seen[ev.From][c.TSN] {
					continue
				}
				seen[ev.From][c.TSN] = true
				delete(requested[ev.From], c.SID) // data of the next incarnation
				for rsn, r := range open[ev.From] {
					if r.sids[c.SID] && sna32GT(c.TSN, r.last) {
						m.Failf("reset.data-after-request", "endpoint %d: new data of stream %d (TSN %d) is sent while its outgoing reset request %d, which names %d as the last TSN assigned, is still unanswered: the message was queued behind the end-of-stream marker", ev.From, c.SID, c.TSN, rsn, r.last)
						return
					}
				}
			}
		}
	}
}
