package sctp

import (
	"time"
	"fmt"
	"sort"
	"strings"
)

func init() { register("C05", propC05) }

// reference model of the receive-side TSN tracker: cumulative point + set of TSNs above it
type rpqModel struct {
	cum uint32
	set map[uint32]bool
	w   uint32
}

func (m *rpqModel) key() string {
	offs := make([]int, 0, len(m.set))
	for t := range m.set {
		offs = append(offs, int(t-m.cum))
	}
	sort.Ints(offs)
	return fmt.Sprintf("%d:%v", m.cum, offs)
}

func (m *rpqModel) advance() {
	for m.set[m.cum+1] {
		delete(m.set, m.cum+1)
		m.cum++
	}
}

// data returns whether the chunk is a duplicate by the model's account
func (m *rpqModel) data(tsn uint32) {
	d := tsn - m.cum
	if d == 0 || d >= 1<<31 {
		return // at or below the cumulative point
	}
	if d > m.w {
		return // beyond the window
	}
	m.set[tsn] = true
	m.advance()
}

func (m *rpqModel) fwd(n uint32) {
	d := n - m.cum
	if d == 0 || d >= 1<<31 {
		return
	}
	for t := range m.set {
		if dd := t - m.cum; dd <= d {
			delete(m.set, t)
		}
	}
	m.cum = n
	m.advance()
}

func (m *rpqModel) gaps() []gapAckBlock {
	offs := make([]int, 0, len(m.set))
	for t := range m.set {
		offs = append(offs, int(t-m.cum))
	}
	sort.Ints(offs)
	var out []gapAckBlock
	for i := 0; i < len(offs); {
		k := i
		for k+1 < len(offs) && offs[k+1] == offs[k]+1 {
			k++
		}
		out = append(out, gapAckBlock{start: uint16(offs[i]), end: uint16(offs[k])})
		i = k + 1
	}
	return out
}

type rpqOp struct {
	fwd   bool
	delta int64 // relative to the current cumulative point
}

func (o rpqOp) String() string {
	if o.fwd {
		return fmt.Sprintf("fwd(cum%+d)", o.delta)
	}
	return fmt.Sprintf("data(cum%+d)", o.delta)
}

// applyReal applies op the way the association composes the queue operations
// (handleData / handleForwardTSN + handlePeerLastTSNAndAcknowledgement).
func applyRealRPQ(q *receivePayloadQueue, o rpqOp) {
	tsn := q.getcumulativeTSN() + uint32(o.delta)
	if o.fwd {
		if sna32LTE(tsn, q.getcumulativeTSN()) {
			return
		}
		q.advanceCumulativeTSN(tsn)
	} else {
		if q.canPush(tsn) {
			q.push(tsn)
		}
	}
	for q.pop(false) {
	}
}

func propC05(j *Job) {
	type cfg struct {
		w     uint32 // requested max TSN offset
		bases []uint32
		depth int
		scan  uint32 // membership scan width beyond the window
	}
	var cfgs []cfg
	depthS, depthL := 4, 3
	if j.Thorough() {
		depthS, depthL = 5, 4
	}
	for _, w := range []uint32{64, 128, 192, 320} {
		var bases []uint32
		stride := uint32(7)
		if j.Thorough() {
			stride = 1
		}
		for b := uint32(0); b <= w+3; b += stride {
			bases = append(bases, uint32(0)-w-2+b)
		}
		bases = append(bases, 0, 1000, 1<<31-1, 1<<31, 0xFFFFFFFF, 0xFFFFFFFF-w/2)
		cfgs = append(cfgs, cfg{w: w, bases: bases, depth: depthS})
	}
	// the window the association derives from every class of configured receive buffer size
	wins := []uint32{2048, 4032, 4160}
	seenW := map[uint32]bool{}
	// (256 KiB and 512 KiB + 4000: offsets that are not multiples of 64 while offset/64 is a power of two)
	for _, rb := range []uint32{0, 1, 1500, 65536, 256 << 10, 512<<10 + 4000, initialRecvBufSize, 8 << 20, 16 << 20, 64 << 20, 1 << 30, 1<<31 - 1, 1 << 31, 0xFFFFFFFF} {
		if w := getMaxTSNOffset(rb); !seenW[w] {
			seenW[w] = true
			wins = append(wins, w)
		}
	}
	for _, w := range wins {
		ww := ((w + 63) / 64) * 64
		bases := []uint32{0, 1000, 1<<31 - 1, 0xFFFFFFFF, 0xFFFFFFFF - ww/2, 0xFFFFFFFF - ww + 1, 0xFFFFFFFF - 70, uint32(0) - ww - 2, 0xFFFFFFFF - 4100}
		cfgs = append(cfgs, cfg{w: w, bases: bases, depth: depthL})
	}
	// the densest gap pattern every window admits (every other TSN above a hole): the SACK that
	// has to name all of them must still be a chunk the peer can decode
	if j.mine(0) {
		for _, w := range wins {
			for _, base := range []uint32{1000, 0xFFFFFFFF - w/2} {
				c05DensestGaps(j, w, base)
			}
		}
	}
	if j.mine(1) {
		for _, w := range []uint32{64, 2048} {
			c05RingReuse(j, w)
		}
	}
	item := 0
	for _, c := range cfgs {
		for _, base := range c.bases {
			item++
			if !j.mine(item) {
				continue
			}
			if j.capped() {
				return
			}
			c05Search(j, c.w, base, c.depth)
		}
	}
	c05EndToEnd(j)
	c05FullBuffer(j)
}

// c05EndToEnd: SACK soundness/completeness monitor over fault-enumerated two-endpoint runs.
func c05EndToEnd(j *Job) {
	modes := stdModes()
	var cases []xferCase
	k := 1
	if j.Thorough() {
		k = 2
	}
	cases = append(cases, famW1(modes, []uint32{0, 6}, k)...)
	cases = append(cases, famW5(modes, k)...)
	cases = append(cases, famW2(modes[:1], 1)...)
	cases = append(cases, famZ4([]uint32{520000, 1048576}, []int{300, 4200})...)
	runCases(j, cases, func(spec *xferSpec) func(m *Sim, x *Exec, r *xferResult) {
		return deliveryFinal(spec, false, monOpts{Sack: true, SackComplete: true})
	})
}

func c05Search(j *Job, wReq uint32, base uint32, depth int) {
	probe := newReceivePayloadQueue(wReq)
	W := probe.maxTSNOffset
	caseName := fmt.Sprintf("rpq/w%d/base%d", W, base)
	deltas := []int64{-1, 0, 1, 2, 3, 63, 64, 65, 127, 128, int64(W) - 1, int64(W), int64(W) + 1}
	// offsets that alias modulo the word count across the 2^32 boundary
	words := int64(len(probe.tsnBitmask))
	alias := (int64(1) << 26) % words * 64
	if alias != 0 && alias < int64(W) {
		deltas = append(deltas, alias, alias+1, int64(W)-alias)
	}
	var ops []rpqOp
	seenD := map[int64]bool{}
	for _, d := range deltas {
		if d > int64(W)+1 || seenD[d] {
			continue
		}
		seenD[d] = true
		ops = append(ops, rpqOp{delta: d})
	}
	for _, d := range []int64{-1, 0, 1, 2, 64, int64(W) / 2, int64(W), int64(W) + 5} {
		ops = append(ops, rpqOp{fwd: true, delta: d})
	}
	type node struct{ path []rpqOp }
	seen := map[string]bool{}
	frontier := []node{{}}
	m0 := &rpqModel{cum: base, set: map[uint32]bool{}, w: W}
	seen[m0.key()] = true
	j.Stats.Cases++
	for d := 0; d < depth; d++ {
		var next []node
		for _, nd := range frontier {
			for _, op := range ops {
				// rebuild real object and model along the path, then apply op
				q := newReceivePayloadQueue(wReq)
				q.init(base)
				m := &rpqModel{cum: base, set: map[uint32]bool{}, w: W}
				for _, p := range nd.path {
					applyRealRPQ(q, p)
					applyModelRPQ(m, p)
				}
				prevCum := q.getcumulativeTSN()
				applyRealRPQ(q, op)
				applyModelRPQ(m, op)
				j.Stats.Steps++
				path := append(append([]rpqOp{}, nd.path...), op)
				if msg := compareRPQ(q, m, prevCum); msg != "" {
					j.failSeq("rpq."+strings.SplitN(msg, ":", 2)[0], caseName, fmt.Sprintf("window %d base %d after %v: %s", W, base, path, msg), path)
					continue
				}
				k := m.key()
				if !seen[k] {
					seen[k] = true
					next = append(next, node{path: path})
				}
			}
		}
		frontier = next
	}
	j.Stats.NewStates += int64(len(seen))
	j.Stats.Execs += len(seen)
	j.sample(map[string]any{"engine": "seq", "case": caseName, "depth": depth, "ops": fmt.Sprint(ops), "states": len(seen)})
}

func applyModelRPQ(m *rpqModel, o rpqOp) {
	tsn := m.cum + uint32(o.delta)
	if o.fwd {
		m.fwd(tsn)
	} else {
		m.data(tsn)
	}
}

// compareRPQ checks the real queue's observable state against the model.
func compareRPQ(q *receivePayloadQueue, m *rpqModel, prevCum uint32) string {
	if q.getcumulativeTSN() != m.cum {
		return fmt.Sprintf("cum: real %d model %d", q.getcumulativeTSN(), m.cum)
	}
	if sna32LT(q.getcumulativeTSN(), prevCum) {
		return fmt.Sprintf("monotone: cum moved backwards %d -> %d", prevCum, q.getcumulativeTSN())
	}
	if q.size() != len(m.set) {
		return fmt.Sprintf("size: real %d model %d", q.size(), len(m.set))
	}
	// membership over the whole window and a margin
	lo := m.cum - 2
	n := m.w + 70
	for i := uint32(0); i < n; i++ {
		t := lo + i
		if q.hasChunk(t) != m.set[t] {
			return fmt.Sprintf("member: hasChunk(cum%+d)=%v model %v", int64(int32(t-m.cum)), q.hasChunk(t), m.set[t])
		}
	}
	for t := range m.set {
		if off := t - m.cum; off > 65535 {
			return fmt.Sprintf("gaps: a TSN accepted %d above the cumulative point cannot be named by a SACK (gap offsets are 16 bit): it is reported as offset %d", off, uint16(off))
		}
	}
	got := q.getGapAckBlocks()
	want := m.gaps()
	if len(got) != len(want) {
		return fmt.Sprintf("gaps: real %v model %v", got, want)
	}
	for i := range got {
		if got[i] != want[i] {
			return fmt.Sprintf("gaps: real %v model %v", got, want)
		}
	}
	if last, ok := q.getLastTSNReceived(); ok != (len(m.set) > 0) {
		return fmt.Sprintf("last: ok=%v with %d queued", ok, len(m.set))
	} else if ok {
		var mx uint32
		first := true
		for t := range m.set {
			if first || sna32GT(t, mx) {
				mx, first = t, false
			}
		}
		if last != mx {
			return fmt.Sprintf("last: real %d model %d", last, mx)
		}
	}
	return ""
}

// c05DensestGaps fills the tracker of an association with every other TSN of its window and
// lets the association build and serialise the SACK: an independent decoder must read back a
// SACK that names exactly the accepted TSNs.
func c05DensestGaps(j *Job, wReq uint32, base uint32) {
	a := &Association{payloadQueue: newReceivePayloadQueue(wReq), myMaxNumInboundStreams: 1, mtu: initialMTU}
	a.payloadQueue.init(base)
	W := a.payloadQueue.maxTSNOffset
	want := map[uint32]bool{}
	for off := uint32(2); off <= W; off += 2 {
		tsn := base + off
		if a.payloadQueue.canPush(tsn) {
			a.payloadQueue.push(tsn)
			want[tsn] = true
		}
	}
	caseName := fmt.Sprintf("sack-densest/w%d/base%d", W, base)
	j.Stats.Cases++
	j.Stats.Execs++
	sack := a.createSelectiveAckChunk()
	p := &packet{sourcePort: 5000, destinationPort: 5000, verificationTag: 1, chunks: []chunk{sack}}
	raw, err := p.marshal(true)
	if err != nil {
		// refusing to build it is an honest answer; an unreadable packet is not
		return
	}
	dec, derr := wDecode(raw)
	if derr != nil || len(dec.Chunks) != 1 || dec.Chunks[0].Typ != wSACK {
		j.failSeq("sack.undecodable", caseName, fmt.Sprintf("%d TSNs (every other one of the %d-TSN window above cumulative TSN %d) were accepted; the SACK that reports them is %d bytes long and does not decode (%v): the 16-bit chunk length cannot hold %d gap blocks", len(want), W, base, len(raw), derr, len(sack.gapAckBlocks)), nil)
		return
	}
	got := map[uint32]bool{}
	for _, g := range dec.Chunks[0].Gaps {
		for o := uint32(g.Start); o <= uint32(g.End); o++ {
			got[dec.Chunks[0].CumAck+o] = true
		}
	}
	for t := range want {
		if !got[t] {
			j.failSeq("sack.incomplete", caseName, fmt.Sprintf("accepted TSN %d is not reported by the SACK built right after (%d accepted, %d reported)", t, len(want), len(got)), nil)
			return
		}
	}
	for t := range got {
		if !want[t] {
			j.failSeq("sack.unsound", caseName, fmt.Sprintf("the SACK reports TSN %d, which was never accepted", t), nil)
			return
		}
	}
}

// c05FullBufferScenario: "acknowledged" means "accepted" also at the edges of acceptance - the
// receive buffer exactly full or nearly so, a chunk that fills a hole below the highest TSN
// received or lies above it, and an ordered DATA chunk whose stream sequence number can or cannot
// be placed relative to a reader that is `backlog` messages behind.  A bare association (no
// loops) is driven chunk by chunk; after every chunk each TSN the SACK names above the
// cumulative point must be held by the stream it was sent on.
func c05FullBufferScenario(backlog int, free uint32, hole bool, ahead uint32) *Scenario {
	return &Scenario{
		Name:    "accept-vs-ack",
		Horizon: 10 * time.Second,
		Body: func(m *Sim) {
			recvBuf := uint32(backlog) + 2 + free
			a, err := createServerAssociation(Config{NetConn: m.conn(0), LoggerFactory: nopLoggerFactory{}, MaxReceiveBufferSize: recvBuf})
			if err != nil {
				m.Failf("e3.base", "bare association: %v", err)
				return
			}
			initial := uint32(0xffffc000)
			a.payloadQueue.init(initial - 1)
			a.setState(established)
			mk := func(tsn uint32, sid, ssn uint16, n int) *chunkPayloadData {
				return &chunkPayloadData{tsn: tsn, streamIdentifier: sid, streamSequenceNumber: ssn, beginningFragment: true, endingFragment: true,
					payloadType: PayloadTypeWebRTCBinary, userData: make([]byte, n)}
			}
			tsn := initial
			for i := 0; i < backlog; i++ {
				a.handleData(mk(tsn, 1, uint16(i), 1))
				tsn++
			}
			cum := tsn - 1
			if a.peerLastTSN() != cum {
				m.Failf("e3.base", "backlog of %d messages not taken in sequence (cumulative %d, want %d)", backlog, a.peerLastTSN(), cum)
				return
			}
			// cum+1 and cum+2 are missing; cum+3 (stream 2, two bytes) arrives
			a.handleData(mk(cum+3, 2, 0, 2))
			late := cum + 2
			if !hole {
				late = cum + 4
			}
			sent := map[uint32]uint16{cum + 3: 2, late: 1}
			a.handleData(mk(late, 1, uint16(uint32(backlog)+ahead), 1))
			holds := func(sid uint16, t uint32) bool {
				s := a.streams[sid]
				if s == nil {
					return false
				}
				q := s.reassemblyQueue
				for _, set := range q.ordered {
					for _, c := range set.chunks {
						if c.tsn == t {
							return true
						}
					}
				}
				for _, set := range q.unordered {
					for _, c := range set.chunks {
						if c.tsn == t {
							return true
						}
					}
				}
				for _, c := range q.unorderedChunks {
					if c.tsn == t {
						return true
					}
				}
				return false
			}
			sack := a.createSelectiveAckChunk()
			var named []uint32
			for _, b := range sack.gapAckBlocks {
				for off := uint32(b.start); off <= uint32(b.end); off++ {
					named = append(named, sack.cumulativeTSNAck+off)
				}
			}
			for t := cum + 1; sna32LTE(t, sack.cumulativeTSNAck); t++ {
				named = append(named, t)
			}
			for _, t := range named {
				sid, ok := sent[t]
				if !ok {
					m.Failf("sack.unsound", "the SACK (cum %d, gaps %v) names TSN cum+%d, which was never sent", sack.cumulativeTSNAck-cum, sack.gapAckBlocks, t-cum)
				} else if !holds(sid, t) {
					m.Failf("sack.unsound", "reader %d ordered messages behind, %d bytes of receive buffer free, chunk cum+%d of stream %d with SSN %d ahead of the newest queued one: the SACK (gaps %v) acknowledges it, but no stream holds it - the sender will never send it again", backlog, free, t-cum, sid, ahead, sack.gapAckBlocks)
				}
			}
			m.Observe("named=%d credit=%d", len(named), a.getMyReceiverWindowCredit())
		},
	}
}

func c05FullBuffer(j *Job) {
	for _, backlog := range []int{3, 1 << 15} {
		for _, free := range []uint32{0, 1, 2} {
			for _, hole := range []bool{true, false} {
				for _, ahead := range []uint32{0, 1, 1<<15 - 4, 1<<15 - 3} {
					j.Explore(fmt.Sprintf("AV/backlog%d/free%d/hole%v/ahead%d", backlog, free, hole, ahead), c05FullBufferScenario(backlog, free, hole, ahead), Budget{}, nil)
				}
			}
		}
	}
}

// c05RingReuse: chunks queued behind a hole and straddling a 64-TSN word of the bitmap are
// swept away by a skip (FORWARD-TSN) that reaches beyond all of them; the traffic then goes on
// in order for exactly one ring length, and at the TSN that shares a bitmap slot with one of the
// swept chunks a packet is lost while its successors arrive.  Every step is compared with the
// reference model (cumulative point, membership, gap blocks): a slot that was not wiped makes
// the lost TSN look received one ring later.
func c05RingReuse(j *Job, wReq uint32) {
	probe := newReceivePayloadQueue(wReq)
	ring := uint32(len(probe.tsnBitmask)) * 64
	for align := uint32(0); align < 64; align += 7 {
		for _, span := range []uint32{3, 40, 70, 130} {
			base := uint32(0xFFFFFF00) + align
			caseName := fmt.Sprintf("ring-reuse/w%d/align%d/span%d", probe.maxTSNOffset, align, span)
			j.Stats.Cases++
			j.Stats.Execs++
			q := newReceivePayloadQueue(wReq)
			q.init(base)
			m := &rpqModel{cum: base, set: map[uint32]bool{}, w: q.maxTSNOffset}
			var hist []string
			step := func(o rpqOp) bool {
				prev := m.cum
				hist = append(hist, o.String())
				if len(hist) > 12 {
					hist = hist[len(hist)-12:]
				}
				applyRealRPQ(q, o)
				if o.fwd {
					m.fwd(m.cum + uint32(o.delta))
				} else {
					m.data(m.cum + uint32(o.delta))
				}
				j.Stats.Steps++
				if msg := compareRPQ(q, m, prev); msg != "" {
					j.failSeq("rpq.member", caseName, fmt.Sprintf("%s (ring of %d TSNs; last operations %v)", msg, ring, hist), nil)
					return false
				}
				return true
			}
			ok := true
			// chunks behind a hole: cum+2 .. cum+1+span
			for d := uint32(2); d <= 1+span && ok; d++ {
				ok = step(rpqOp{delta: int64(d)})
			}
			// the skip reaches two beyond the highest of them
			if ok {
				ok = step(rpqOp{fwd: true, delta: int64(span + 3)})
			}
			// one ring of in-order traffic, except that every 5th TSN arrives one late
			start := m.cum
			for ok && m.cum-start < ring+span+8 {
				if (m.cum-start)%5 == 4 {
					if ok = step(rpqOp{delta: 2}); ok {
						ok = step(rpqOp{delta: 3})
					}
					if ok {
						ok = step(rpqOp{delta: 1})
					}
				} else {
					ok = step(rpqOp{delta: 1})
				}
			}
		}
	}
}
