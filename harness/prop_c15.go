package sctp

import (
	"fmt"
	"github.com/pion/sctp/internal/vsched"
	"time"
)

func init() { register("C15", propC15) }

// unackedOf sums the user bytes of stream sid still pending or in flight (white box).
func unackedOf(a *Association, sid uint16) int {
	n := 0
	walk := func(b *pendingBaseQueue) {
		if b == nil {
			return
		}
		for _, c := range b.queue {
			if c.streamIdentifier == sid {
				n += len(c.userData)
			}
		}
	}
	switch p := a.pendingQueue.policy.(type) {
	case *messagePendingQueuePolicy:
		walk(p.unorderedQueue)
		walk(p.orderedQueue)
	case *interleavingStreamSchedulerPolicy:
		switch sch := p.scheduler.(type) {
		case *roundRobinPendingQueuePolicy:
			walk(sch.streamQueues[sid])
		case *weightedFairQueueingPendingQueuePolicy:
			walk(sch.streamQueues[sid])
		}
	}
	q := a.inflightQueue
	for i := 0; i < q.chunks.Len(); i++ {
		if c := q.chunks.At(i); c.streamIdentifier == sid {
			n += len(c.userData)
		}
	}
	return n
}

type baState struct {
	s         *Stream
	ep        int
	threshold uint64
	callbacks int
	armed     bool // amount was seen above the threshold since the last callback
	armedSeen int  // callbacks count when armed
	lastCbVal uint64
	sinceCb   int // bytes accepted since the last callback
	haveCb    bool
	wroteAtCb int
	pending   []pendingCrossing
}

// pendingCrossing: a downward crossing seen while a write was waiting for its turn; it is a
// violation only if that write fails (its bytes were never part of the amount).
type pendingCrossing struct {
	wid int
	msg string
}

func c15Spec(mode modeSpec, th uint64, reenter bool, kills []killRule, pr bool, block bool) (*xferSpec, *[]*baState) {
	mtu := uint32(100)
	il := !mode.A.NoInterleave
	P := int(maxPayloadSizeForMTU(mtu, il))
	a := withBase(mode.A, mtu, 0xFFFFFFF8, 4000)
	b := withBase(mode.B, mtu, 70, 4000)
	if block {
		a.BlockWrite = true
		b.RecvBuf = 1500
	}
	states := &[]*baState{}
	s1 := streamSpec{SID: 1, From: 0, Msgs: []msgSpec{{Size: 1, PPI: 53}, {Size: 100, PPI: 53}, {Size: 250, PPI: 53}, {Size: 3 * P, PPI: 53}}}
	s2 := streamSpec{SID: 2, From: 0, Msgs: []msgSpec{{Size: 250, PPI: 51}, {Size: 100, PPI: 51}, {Size: 3 * P, PPI: 51}}}
	if pr {
		s1.RelType, s1.RelVal = ReliabilityTypeRexmit, 0
	}
	spec := &xferSpec{A: a, B: b, Streams: []streamSpec{s1, s2}, Faults: faultSet{Drop: true, Dup: true, Late: true, Swap: true}, Interleave: true, Kill: kills}
	if block {
		// more data than the peer's buffer holds: once the window is closed a write waits, and
		// gives up at its deadline
		var big []msgSpec
		for i := 0; i < 5; i++ {
			big = append(big, msgSpec{Size: 400 + i, PPI: 53})
		}
		spec.Streams[0].Msgs = big
		spec.Streams[1].Msgs = big[:3]
		spec.WriteTimeout = 700 * time.Millisecond
		spec.PauseReader = 2 * time.Second
	}
	spec.OnSendStream = func(m *Sim, st streamSpec, s *Stream) {
		bs := &baState{s: s, ep: st.From, threshold: th}
		m.mu.Lock()
		*states = append(*states, bs)
		m.mu.Unlock()
		s.SetBufferedAmountLowThreshold(th)
		s.OnBufferedAmountLow(func() {
			if held := m.S.HeldClasses(); len(held) > 0 {
				m.Failf("callback.locks", "OnBufferedAmountLow of stream %d invoked with internal locks held: %v", st.SID, held)
			}
			v := s.BufferedAmount()
			_ = m.As[st.From].BufferedAmount()
			if v > bs.threshold {
				m.Failf("callback.spurious", "stream %d: callback invoked with buffered amount %d above the threshold %d", st.SID, v, bs.threshold)
			}
			// upper bound of what may have been added since the last callback: everything that has
			// returned since then plus a write that is in progress now (whether an implementation
			// counts that one from the call or from its acceptance)
			m.mu.Lock()
			completed := m.wroteBytes[s]
			wrote := completed + m.inWrite[s]
			m.mu.Unlock()
			if bs.haveCb && bs.lastCbVal+uint64(bs.sinceCb)+uint64(wrote-bs.wroteAtCb) <= bs.threshold {
				m.Failf("callback.spurious", "stream %d: second callback although the amount cannot have risen above the threshold %d in between (was %d, +%d written)", st.SID, bs.threshold, bs.lastCbVal, bs.sinceCb+wrote-bs.wroteAtCb)
			}
			bs.callbacks++
			bs.haveCb, bs.lastCbVal, bs.sinceCb, bs.wroteAtCb = true, v, 0, completed
			m.Logf(fmt.Sprintf("callback sid=%d", st.SID), "buffered=%d", v)
			if reenter {
				s.SetBufferedAmountLowThreshold(bs.threshold)
				if bs.callbacks == 1 {
					n, err := s.WriteSCTP([]byte{0xEE, byte(st.SID), 1, 2}, PayloadTypeWebRTCBinary)
					if err == nil {
						bs.sinceCb += n
					}
				}
			}
		})
	}
	spec.Final = nil
	return spec, states
}

func propC15(j *Job) {
	modes := stdModes()
	type variant struct {
		name    string
		th      uint64
		reenter bool
		kills   []killRule
		pr      bool
		block   bool
		k       int
	}
	vs := []variant{
		{"th0", 0, false, nil, false, false, 1},
		{"th150-reenter", 150, true, nil, false, false, 1},
		{"th400", 400, false, nil, false, false, 1},
		{"pr-kill", 150, true, []killRule{{SID: 1, Msg: 1, Frag: -1, N: 1}}, true, false, 1},
		{"pr-kill-last", 0, false, []killRule{{SID: 1, Msg: 3, Frag: 1, N: 1}}, true, false, 1},
		// the abandoned message is the last thing written: nothing of the peer triggers its
		// release, only the sender's own timer can
		{"pr-kill-tail", 0, false, []killRule{{SID: 1, Msg: 2, Frag: -1, N: 1}}, true, false, 1},
		{"block-deadline", 150, false, nil, false, true, 1},
		{"block-deadline-unordered", 150, false, nil, false, true, 1},
	}
	for mi, mode := range modes {
		for vi, v := range vs {
			if !j.Thorough() && mi > 0 && vi%2 == 1 {
				continue
			}
			spec, states := c15Spec(mode, v.th, v.reenter, v.kills, v.pr, v.block)
			if v.name == "pr-kill-tail" {
				spec.Streams = spec.Streams[:1]
				spec.Streams[0].Msgs = spec.Streams[0].Msgs[:3]
			}
			if v.name == "block-deadline-unordered" {
				spec.Streams[0].Unordered = true
			}
			k := v.k
			if j.Thorough() {
				k = 2
			}
			res := &xferResult{}
			sc := xferScenario(spec, res)
			setup := sc.Setup
			sc.Setup = func(m *Sim) {
				*states = nil
				setup(m)
				m.quiescentHooks = append(m.quiescentHooks, func() {
					m.mu.Lock()
					defer m.mu.Unlock()
					for _, bs := range *states {
						a := m.As[bs.ep]
						if a == nil {
							continue
						}
						// the amount the property speaks of: accepted (= queued) and not yet acknowledged
						truth := unackedOf(a, bs.s.streamIdentifier)
						got := int(bs.s.bufferedAmount)
						// (a write in progress may already be counted: that is a legitimate view as
						// long as the write goes on to be accepted; see the judgement of crossings)
						if got != truth && got != truth+m.inWrite[bs.s] {
							m.viol = append(m.viol, Violation{Oracle: "buffered.stream", Msg: fmt.Sprintf("stream %d: BufferedAmount=%d but %d user bytes are pending or unacknowledged (at %v)", bs.s.streamIdentifier, got, truth, m.S.Now())})
						}
						if uint64(truth) > bs.threshold {
							if !bs.armed {
								bs.armed, bs.armedSeen = true, bs.callbacks
							}
						} else if bs.armed {
							if bs.callbacks == bs.armedSeen {
								msg := fmt.Sprintf("stream %d: the accepted and unacknowledged bytes fell from above the threshold %d to %d without a callback (BufferedAmount reads %d)", bs.s.streamIdentifier, bs.threshold, truth, got)
								if m.inWrite[bs.s] > 0 {
									// a write is waiting for its turn: if it ends up accepted, counting it from the
									// start is a defensible reading and nothing was crossed; if it fails, its bytes
									// were never part of the amount and the crossing was real
									bs.pending = append(bs.pending, pendingCrossing{wid: m.inWriteID[bs.s], msg: msg + fmt.Sprintf(": hidden by the %d bytes of a blocked write that failed afterwards", m.inWrite[bs.s])})
								} else {
									m.viol = append(m.viol, Violation{Oracle: "callback.missing", Msg: msg})
								}
							}
							bs.armed = false
						}
					}
					for i, a := range m.As {
						if a == nil {
							continue
						}
						if nc, nb, ok := pendingContents(a.pendingQueue); ok {
							_ = nc
							sum := 0
							q := a.inflightQueue
							for k := 0; k < q.chunks.Len(); k++ {
								sum += len(q.chunks.At(k).userData)
							}
							if a.pendingQueue.getNumBytes()+a.inflightQueue.getNumBytes() != nb+sum {
								m.viol = append(m.viol, Violation{Oracle: "buffered.assoc", Msg: fmt.Sprintf("endpoint %d: association BufferedAmount would be %d but pending+in-flight user bytes are %d", i, a.pendingQueue.getNumBytes()+a.inflightQueue.getNumBytes(), nb+sum)})
							}
						}
					}
				})
			}
			spec.BeforeClose = func(m *Sim, r *xferResult) {
				for i := 0; i < 2; i++ {
					if m.As[i] != nil {
						r.BufAtDrain[i] = m.As[i].BufferedAmount()
					}
				}
				if r.Drained {
					for _, bs := range *states {
						if b := bs.s.BufferedAmount(); b != 0 {
							m.Failf("buffered.zero", "stream %d: BufferedAmount=%d although nothing is pending or in flight", bs.s.streamIdentifier, b)
						}
					}
					for i := 0; i < 2; i++ {
						if r.BufAtDrain[i] != 0 {
							m.Failf("buffered.zero", "endpoint %d: association BufferedAmount=%d although everything was acknowledged", i, r.BufAtDrain[i])
						}
					}
				}
			}
			spec.Final = func(m *Sim, x *Exec, r *xferResult) {
				generalVerdicts(m, x, false)
				for _, bs := range *states {
					for _, pc := range bs.pending {
						if m.failedWrite[bs.s][pc.wid] {
							m.Failf("callback.missing", "%s", pc.msg)
						}
					}
				}
				if !r.Drained {
					m.Failf("stall", "not drained: buffered A=%d", bufAmt(m.As[0]))
				}
				cb := 0
				for _, bs := range *states {
					cb += bs.callbacks
				}
				m.Observe("drained=%v callbacks=%d", r.Drained, cb)
			}
			j.Explore(fmt.Sprintf("B/%s/%s", mode.Name, v.name), sc, Budget{K: k}, nil)
			if j.capped() {
				return
			}
		}
	}
	for mi, mode := range modes {
		if mi > 1 && !j.Thorough() {
			break
		}
		for _, what := range []string{"close", "blockwrite"} {
			a, b := withBase(mode.A, 228, 9, 4000), withBase(mode.B, 228, 99, 4000)
			a.BlockWrite = what == "blockwrite"
			j.Explore(fmt.Sprintf("B/%s/reenter-%s", mode.Name, what), callbackReenterScenario(a, b, what), Budget{K: 0}, nil)
		}
	}
	// one SACK for several streams, callbacks that write on the other streams
	for mi, mode := range modes {
		if mi > 1 && !j.Thorough() {
			break
		}
		for _, n := range []int{2, 4} {
			j.Explore(fmt.Sprintf("XS/%s/streams%d", mode.Name, n), crossStreamScenario(withBase(mode.A, 1191, 9, 4000), withBase(mode.B, 1191, 99, 4000), n), Budget{K: 0}, nil)
		}
	}
	// a writer racing Stream.Close: whichever writes are refused, the figures end at zero
	for mi, mode := range modes {
		if mi > 0 && !j.Thorough() {
			break
		}
		j.Explore(fmt.Sprintf("B/%s/write-vs-close", mode.Name), concScenario(&concSpec{A: withBase(mode.A, 228, 0xFFFFFFFE, 4000), B: withBase(mode.B, 228, 0xFFFFFFF0, 4000), prog: "W1m R1 Xs"}), Budget{D: 1}, nil)
	}
	for _, mode := range modes {
		j.Explore(fmt.Sprintf("B/%s/release-after-peer-reset/reopen", mode.Name), peerResetReleaseScenario(withBase(mode.A, 228, 9, 4000), withBase(mode.B, 228, 99, 4000), true), Budget{K: 0}, nil)
	}
	for _, mode := range modes {
		j.Explore(fmt.Sprintf("B/%s/release-after-peer-reset", mode.Name), peerResetReleaseScenario(withBase(mode.A, 228, 9, 4000), withBase(mode.B, 228, 99, 4000)), Budget{K: 0}, nil)
	}
	// the threshold is crossed while the stream is closing (Close called with data outstanding)
	for _, mode := range modes {
		for _, th := range []uint64{0, 100} {
			spec := &resetSpec{A: withBase(mode.A, 100, 9, 4000), B: withBase(mode.B, 100, 99, 4000), SIDs: []uint16{5}, Sizes: []int{200, 300}, Cycles: 1,
				Faults: faultSet{Drop: true, Late: true}, BackSizes: []int{12}, CheckCallback: true, Threshold: th}
			j.Explore(fmt.Sprintf("B/%s/close-with-data/th%d", mode.Name, th), resetScenario(spec), Budget{K: 1}, nil)
		}
	}
	// buffered amount of a stream that keeps writing after its inbound direction was reset (C14 cycle)
	for _, mode := range modes[:1] {
		spec := &resetSpec{A: withBase(mode.A, 100, 9, 4000), B: withBase(mode.B, 100, 99, 4000), SIDs: []uint16{5}, Sizes: []int{9}, Cycles: 1,
			Faults: faultSet{Drop: true}, BackSizes: []int{12}, CheckBuffered: true}
		j.Explore("B/after-inbound-reset", resetScenario(spec), Budget{K: 0}, nil)
	}
}

// peerResetReleaseScenario: two streams of A have data in flight whose acknowledgements are
// delayed; the peer resets its direction of the lower-numbered stream, which unregisters that
// stream at A.  The SACK that finally arrives covers chunks of both streams: the registered
// stream must get its bytes released whatever happens to the unregistered one (F14).
func peerResetReleaseScenario(a, b epCfg, reopen ...bool) *Scenario {
	return &Scenario{
		Name:    "release-after-peer-reset",
		Horizon: 60 * time.Second,
		Setup: func(m *Sim) {
			m.W.killFn = func(p *wpkt) bool {
				if p.from != 1 || p.dec == nil || m.S.Now() > 1500*time.Millisecond {
					return false
				}
				for _, c := range p.dec.Chunks {
					if c.Typ == wSACK {
						return true
					}
				}
				return false
			}
		},
		Body: func(m *Sim) {
			if !m.Connect(a, b) {
				m.Failf("connect", "handshake failed")
				m.closeFailedTransports()
				m.CloseBoth()
				return
			}
			s1, _ := m.As[0].OpenStream(1, PayloadTypeWebRTCBinary)
			s2, _ := m.As[0].OpenStream(2, PayloadTypeWebRTCBinary)
			sb1, _ := m.As[1].OpenStream(1, PayloadTypeWebRTCBinary)
			sb2, _ := m.As[1].OpenStream(2, PayloadTypeWebRTCBinary)
			m.streamsSeen = append(m.streamsSeen, s1, s2, sb1, sb2)
			cb := 0
			s2.SetBufferedAmountLowThreshold(10)
			s2.OnBufferedAmountLow(func() { cb++ })
			// the stream that gets unregistered has a callback too: it is entered without
			// internal locks (it calls back into the association) like any other
			cb1 := 0
			s1.SetBufferedAmountLowThreshold(10)
			s1.OnBufferedAmountLow(func() {
				if held := m.S.HeldClasses(); len(held) > 0 {
					m.Failf("callback.locks", "OnBufferedAmountLow of a stream the peer has reset was invoked with internal locks held: %v", held)
					return // calling back would deadlock
				}
				_ = m.As[0].BufferedAmount()
				cb1++
			})
			for _, s := range []*Stream{sb1, sb2} {
				s := s
				m.Go(fmt.Sprintf("rd%d", s.streamIdentifier), func() {
					buf := make([]byte, 2000)
					for {
						if _, _, err := s.ReadSCTP(buf); err != nil {
							return
						}
					}
				})
			}
			_, _ = s1.WriteSCTP(payload(1, 0, 300), PayloadTypeWebRTCBinary)
			_, _ = s2.WriteSCTP(payload(2, 0, 300), PayloadTypeWebRTCBinary)
			m.Sleep(100 * time.Millisecond)
			_ = sb1.Close() // the peer resets its sending direction of stream 1
			var s1n *Stream
			if len(reopen) > 0 && reopen[0] {
				// the identifier is closed locally too and opened again while the acknowledgements
				// of the first incarnation are still missing: each incarnation is credited with
				// its own bytes
				m.WaitUntil("reset-at-A", 5*time.Second, func() bool { _, in := m.As[0].streams[1]; return !in })
				_ = s1.Close()
				m.Sleep(200 * time.Millisecond)
				if sn, err := m.As[0].OpenStream(1, PayloadTypeWebRTCBinary); err == nil && sn != s1 {
					s1n = sn
					m.streamsSeen = append(m.streamsSeen, s1n)
					_, _ = s1n.WriteSCTP(payload(1, 5, 120), PayloadTypeWebRTCBinary)
				}
			}
			ok := m.WaitUntil("drained", 30*time.Second, func() bool { return drained(m.As[0]) })
			// (the queues empty before the read loop has told the streams: let it finish the SACK)
			m.S.WaitIdle()
			if !ok {
				m.Failf("stall", "A never drained: buffered=%d", bufAmt(m.As[0]))
			} else {
				if _, in := m.As[0].streams[1]; in {
					m.Observe("stream 1 still registered at A")
				}
				if b1 := s1.BufferedAmount(); b1 != 0 {
					m.Failf("buffered.zero", "stream 1 (unregistered by the peer's reset while its data was in flight): BufferedAmount=%d although everything was acknowledged", b1)
				} else if cb1 == 0 {
					m.Failf("callback.missing", "stream 1: the amount fell from 300 to 0 across the threshold 10 without a callback")
				}
				if s1n != nil {
					if bn := s1n.BufferedAmount(); bn != 0 {
						m.Failf("buffered.zero", "stream 1, second incarnation: BufferedAmount=%d although everything was acknowledged (bytes of the first incarnation were credited to the wrong one)", bn)
					}
				}
				if b2 := s2.BufferedAmount(); b2 != 0 {
					m.Failf("buffered.zero", "stream 2: BufferedAmount=%d although everything was acknowledged (a SACK that also covered chunks of the reset stream 1 did not release it)", b2)
				} else if cb == 0 {
					m.Failf("callback.missing", "stream 2: the amount fell from 300 to 0 across the threshold 10 without a callback")
				}
			}
			m.Observe("cb=%d", cb)
			m.CloseBoth()
		},
		Final: func(m *Sim, x *Exec) { generalVerdicts(m, x, false) },
	}
}

// callbackReenterScenario: "it may call back into the stream or association".  The callback
// (a) closes the association, or (b) in blocking-write mode writes the next message while the
// previous one is still being sent.  Both calls are ordinary uses of the API from a callback
// that holds no internal lock; they have to return.
func callbackReenterScenario(a, b epCfg, what string) *Scenario {
	return &Scenario{
		Name:    "callback-reenter",
		Horizon: 120 * time.Second,
		Body: func(m *Sim) {
			if !m.Connect(a, b) {
				m.Failf("connect", "handshake failed: %v %v", m.Err[0], m.Err[1])
				m.closeFailedTransports()
				m.CloseBoth()
				return
			}
			sa, _ := m.As[0].OpenStream(1, PayloadTypeWebRTCBinary)
			sb, _ := m.As[1].OpenStream(1, PayloadTypeWebRTCBinary)
			m.streamsSeen = append(m.streamsSeen, sa, sb)
			rd := m.Go("readB", func() {
				buf := make([]byte, 70000)
				for {
					if _, _, err := sb.ReadSCTP(buf); err != nil {
						return
					}
				}
			})
			entered, returned := false, false
			sa.SetBufferedAmountLowThreshold(5000)
			sa.OnBufferedAmountLow(func() {
				if entered {
					return
				}
				entered = true
				if held := m.S.HeldClasses(); len(held) > 0 {
					m.Failf("callback.locks", "OnBufferedAmountLow invoked with internal locks held: %v", held)
				}
				switch what {
				case "close":
					_ = m.As[0].Close()
				case "blockwrite":
					_, _ = sa.WriteSCTP(payload(1, 1, 300), PayloadTypeWebRTCBinary)
				}
				returned = true
			})
			if _, err := sa.WriteSCTP(payload(1, 0, 6000), PayloadTypeWebRTCBinary); err != nil {
				m.Failf("write", "first write: %v", err)
			}
			m.WaitUntil("callback-entered", 20*time.Second, func() bool { return entered })
			ok := m.WaitUntil("callback-returned", 10*time.Second, func() bool { return returned })
			if entered && !ok {
				m.Failf("callback.reenter", "%s called from the OnBufferedAmountLow callback has not returned after 10 s: the callback runs on the association's read loop, which the call waits for", map[string]string{"close": "Association.Close", "blockwrite": "a blocking Stream.Write"}[what])
			} else if !entered {
				m.Failf("callback.missing", "the callback was never invoked")
			}
			m.Observe("%s returned=%v", what, returned)
			xt := m.Go("cleanup", func() {
				if what == "close" && !returned {
					// A's read loop waits for itself: nothing can end that association any more
					_ = m.As[1].Close()
					return
				}
				m.CloseBoth()
			})
			(&wconn{w: m.W, id: 0}).Close()
			(&wconn{w: m.W, id: 1}).Close()
			m.WaitUntil("all-back", 3*time.Second, func() bool { return rd.Done && xt.Done })
		},
		Final: func(m *Sim, x *Exec) { generalVerdicts(m, x, false) },
	}
}

// crossStreamScenario: one SACK acknowledges data of several streams; the low-threshold callback
// of one stream looks at the others (amounts, association figure) and writes on them.  At the
// start of every callback and at every quiescent point each stream's amount equals its accepted
// and unacknowledged bytes, and each stream gets one callback per downward crossing of that
// quantity - whatever is written from another stream's callback in between.
func crossStreamScenario(a, b epCfg, nStreams int, unregister ...bool) *Scenario {
	// unregister: instead of writing, every callback takes the next stream's handler away
	// (OnBufferedAmountLow(nil)) - possibly between the SACK that drained both and the call
	unreg := len(unregister) > 0 && unregister[0]
	return &Scenario{
		Name:    "cross-stream",
		Horizon: 120 * time.Second,
		Setup: func(m *Sim) {
			m.W.delay = [2]time.Duration{20 * time.Millisecond, 20 * time.Millisecond}
		},
		Body: func(m *Sim) {
			if !m.Connect(a, b) {
				m.Failf("connect", "handshake failed: %v %v", m.Err[0], m.Err[1])
				m.closeFailedTransports()
				m.CloseBoth()
				return
			}
			A := m.As[0]
			const th = 600
			type st struct {
				s         *Stream
				callbacks int
				crossings int
				armed     bool
				wrote     bool
			}
			var ss []*st
			var rds []*vsched.Thread
			for i := 0; i < nStreams; i++ {
				sid := uint16(i + 1)
				sa, _ := A.OpenStream(sid, PayloadTypeWebRTCBinary)
				sb, _ := m.As[1].OpenStream(sid, PayloadTypeWebRTCBinary)
				m.streamsSeen = append(m.streamsSeen, sa, sb)
				ss = append(ss, &st{s: sa})
				rds = append(rds, m.Go(fmt.Sprintf("readB%d", sid), func() {
					buf := make([]byte, 70000)
					for {
						if _, _, err := sb.ReadSCTP(buf); err != nil {
							return
						}
					}
				}))
			}
			// sample: the true amount of every stream, its crossings, and what BufferedAmount says
			sample := func(where string) {
				for _, x := range ss {
					truth := unackedOf(A, x.s.streamIdentifier)
					// (fields read directly: the quiescent hook runs on the scheduler, not on a thread)
					if got := int(x.s.bufferedAmount); got != truth {
						m.viol = append(m.viol, Violation{Oracle: "buffered.stream", Msg: fmt.Sprintf("%s: stream %d reports BufferedAmount=%d but %d of its bytes are pending or unacknowledged (association figure %d)", where, x.s.streamIdentifier, got, truth, A.pendingQueue.getNumBytes()+A.inflightQueue.getNumBytes())})
					}
					if truth > th {
						x.armed = true
					} else if x.armed {
						x.armed = false
						x.crossings++
					}
				}
			}
			for i, x := range ss {
				i, x := i, x
				x.s.SetBufferedAmountLowThreshold(th)
				x.s.OnBufferedAmountLow(func() {
					if held := m.S.HeldClasses(); len(held) > 0 {
						m.Failf("callback.locks", "OnBufferedAmountLow invoked with internal locks held: %v", held)
					}
					x.callbacks++
					sample(fmt.Sprintf("in the callback of stream %d", x.s.streamIdentifier))
					// write on the next stream, once
					y := ss[(i+1)%len(ss)]
					if unreg {
						y.s.OnBufferedAmountLow(nil)
						return
					}
					if !x.wrote {
						x.wrote = true
						_, _ = y.s.WriteSCTP(payload(y.s.streamIdentifier, 50+i, 2000), PayloadTypeWebRTCBinary)
						sample(fmt.Sprintf("after the write made in the callback of stream %d", x.s.streamIdentifier))
					}
				})
			}
			m.quiescentHooks = append(m.quiescentHooks, func() { sample("quiescent") })
			m.W.onQuiescent = m.invariantsAll
			// one burst: a chunk of every stream leaves before any acknowledgement comes back
			for i, x := range ss {
				_, _ = x.s.WriteSCTP(payload(x.s.streamIdentifier, i, 1000), PayloadTypeWebRTCBinary)
			}
			sample("after the burst")
			m.WaitUntil("drained", 30*time.Second, func() bool { return drained(A) })
			m.Sleep(2 * time.Second)
			sample("at the end")
			for _, x := range ss {
				if unreg {
					// (a handler taken away may or may not have been called for a crossing that
					// was already decided; it is never called more often than there were crossings)
					if x.callbacks > x.crossings {
						m.Failf("callback.spurious", "stream %d: %d crossings, %d callbacks", x.s.streamIdentifier, x.crossings, x.callbacks)
					}
					continue
				}
				if x.callbacks != x.crossings {
					m.Failf("callback.missing", "stream %d: its accepted and unacknowledged bytes crossed the threshold %d downwards %d times, the callback fired %d times (a write made from another stream's callback, while the same SACK was still being applied, hid a crossing)", x.s.streamIdentifier, th, x.crossings, x.callbacks)
				}
			}
			m.Observe("streams=%d", nStreams)
			m.CloseBoth()
			m.Join(rds...)
		},
		Final: func(m *Sim, x *Exec) { generalVerdicts(m, x, false) },
	}
}
