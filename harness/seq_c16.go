package sctp

import (
	"fmt"
	"sort"
)

func init() { register("C16", propC16) }

// reference serial-number relation from the difference d = b - a (mod 2^n)
//   d == 0 -> EQ ; 0 < d < half -> LT ; d > half -> GT ; d == half -> undefined (RFC 1982)

type sna16Result struct{ lt, lte, gt, gte, eq bool }

func sna16All(a, b uint16) sna16Result {
	return sna16Result{sna16LT(a, b), sna16LTE(a, b), sna16GT(a, b), sna16GTE(a, b), sna16EQ(a, b)}
}

type sna32Result struct{ lt, lte, gt, gte, eq bool }

func sna32All(a, b uint32) sna32Result {
	return sna32Result{sna32LT(a, b), sna32LTE(a, b), sna32GT(a, b), sna32GTE(a, b), sna32EQ(a, b)}
}

// c16LongSkips: the read cursor of an ordered DATA stream is moved forward by skips (FORWARD-TSN)
// while a complete message the application has not read yet stays queued.  However far the
// cursor moves - up to just under 2^15 stream sequence numbers past the queued message -
// the queued message and whatever arrives at the cursor afterwards are delivered, in that order.
// The distances stop at 2^15-1: the property speaks of values less than half the number space
// apart, and a queued message 2^15 or more behind the cursor is outside it (the bug-hunting
// agent's reports C16-1/C16-2 are of that kind and are recorded in DESIGN 9a as out of domain).
func c16LongSkips(j *Job) {
	if !j.mine(5) {
		return
	}
	mk := func(ssn uint16, tsn uint32, data string) *chunkPayloadData {
		return &chunkPayloadData{streamIdentifier: 1, streamSequenceNumber: ssn, tsn: tsn, beginningFragment: true, endingFragment: true, userData: []byte(data), payloadType: 53}
	}
	for _, base := range []uint16{0, 40000, 65530} {
		for _, dist := range []uint32{100, 20000, 32765, 32766} {
			for _, step := range []uint32{1500, 40000} {
				caseName := fmt.Sprintf("long-skips/base%d/dist%d/step%d", base, dist, step)
				j.Stats.Cases++
				j.Stats.Execs++
				r := newReassemblyQueue(1, 0)
				r.nextSSN = base
				if _, err := r.pushWithError(mk(base, 1000, "first")); err != nil {
					j.failSeq("skip.unread", caseName, "push of the first message failed: "+err.Error(), nil)
					continue
				}
				// the sender abandons everything up to base+dist, announced in steps
				for off := uint32(0); off < dist; {
					off += step
					if off > dist {
						off = dist
					}
					r.forwardTSNForOrdered(base + uint16(off))
				}
				next := base + uint16(dist) + 1
				if _, err := r.pushWithError(mk(next, 1000+dist+1, "later")); err != nil {
					j.failSeq("skip.unread", caseName, "push of the message at the cursor failed: "+err.Error(), nil)
					continue
				}
				var got []string
				buf := make([]byte, 64)
				for k := 0; k < 3; k++ {
					n, _, err := r.read(buf)
					if err != nil {
						break
					}
					got = append(got, string(buf[:n]))
				}
				if len(got) != 2 || got[0] != "first" || got[1] != "later" {
					j.failSeq("skip.unread", caseName, fmt.Sprintf("a complete unread message (SSN %d) stayed queued while skips moved the cursor %d sequence numbers ahead (in steps of %d); then the message at the cursor (SSN %d) arrived: the reader gets %q, expected [first later]", base, dist, step, next, got), nil)
				}
			}
		}
	}
}

func propC16(j *Job) {
	c16LongSkips(j)
	c16Algebra16(j)
	c16Algebra32(j)
	c16Sorts(j)
	c16PayloadQueueGet(j)
	c11Reassembly(j) // the reassembly model search runs at sequence-number bases around the wraps
	c16EndToEnd(j)
}

func c16Algebra16(j *Job) {
	// for every difference d the answer at base 0; then every pair (a, a+d) must agree (shift invariance)
	var ref [65536]sna16Result
	for d := 0; d < 65536; d++ {
		r := sna16All(0, uint16(d))
		ref[d] = r
		var want sna16Result
		switch {
		case d == 0:
			want = sna16Result{false, true, false, true, true}
		case d < 1<<15:
			want = sna16Result{true, true, false, false, false}
		case d > 1<<15:
			want = sna16Result{false, false, true, true, false}
		default:
			continue
		}
		if r != want {
			j.failSeq("sna16.rfc1982", "algebra16", fmt.Sprintf("sna16(0,%d) = %+v, RFC 1982 says %+v", d, r, want), nil)
		}
	}
	// all pairs (thorough) or 4096 bases spread + wrap neighbourhoods (quick)
	bases := []int{}
	if j.Thorough() {
		for a := 0; a < 65536; a++ {
			bases = append(bases, a)
		}
	} else {
		for a := 0; a < 65536; a += 61 {
			bases = append(bases, a)
		}
		for _, c := range []int{0, 1 << 15, 65535} {
			for k := -40; k <= 40; k++ {
				bases = append(bases, (c+k+65536)%65536)
			}
		}
	}
	var n int64
	for i, a := range bases {
		if !j.mine(i) {
			continue
		}
		for d := 0; d < 65536; d++ {
			b := uint16(a + d)
			r := sna16All(uint16(a), b)
			if r != ref[d] {
				j.failSeq("sna16.shift", "algebra16", fmt.Sprintf("sna16(%d,%d) = %+v but sna16(0,%d) = %+v (not shift invariant)", a, b, r, d, ref[d]), nil)
			}
			if d != 0 && d != 1<<15 {
				if r.lt != sna16GT(b, uint16(a)) {
					j.failSeq("sna16.antisym", "algebra16", fmt.Sprintf("LT(%d,%d)=%v but GT(%d,%d)=%v", a, b, r.lt, b, a, !r.lt), nil)
				}
			}
			n++
		}
	}
	j.Stats.NewStates += n
	j.Stats.Steps += n * 6
	j.Stats.Execs += int(n / 65536)
	j.extra("pairs16", n)
	j.sample(map[string]any{"engine": "seq", "what": "all (a,b) 16-bit pairs vs RFC 1982 and shift invariance", "bases": len(bases)})
}

func c16Algebra32(j *Job) {
	bases := []uint32{0, 1, 1<<31 - 1, 1 << 31, 1<<31 + 1, 0xFFFFFFFF, 0x12345678}
	type rng struct{ lo, hi uint64 }
	var ranges []rng
	if j.Thorough() {
		// every difference, split into 64 slices
		step := uint64(1) << 26
		for lo := uint64(0); lo < 1<<32; lo += step {
			ranges = append(ranges, rng{lo, lo + step})
		}
	} else {
		w := uint64(1) << 17
		ranges = []rng{{0, w}, {1<<31 - w, 1<<31 + w}, {1<<32 - w, 1 << 32}}
		// plus a stride sweep
		ranges = append(ranges, rng{0, 0})
	}
	var n int64
	check := func(a uint32, d uint32) {
		b := a + d
		r := sna32All(a, b)
		var want sna32Result
		switch {
		case d == 0:
			want = sna32Result{false, true, false, true, true}
		case d < 1<<31:
			want = sna32Result{true, true, false, false, false}
		case d > 1<<31:
			want = sna32Result{false, false, true, true, false}
		default:
			// half: undefined; only require shift invariance w.r.t. base 0
			want = sna32All(0, d)
		}
		if r != want {
			j.failSeq("sna32.rfc1982", "algebra32", fmt.Sprintf("sna32(%d,%d) [d=%d] = %+v, want %+v", a, b, d, r, want), nil)
		}
		if d != 0 && d != 1<<31 && r.lt != sna32GT(b, a) {
			j.failSeq("sna32.antisym", "algebra32", fmt.Sprintf("LT(%d,%d)=%v but GT(%d,%d) disagrees", a, b, r.lt, b, a), nil)
		}
		n++
	}
	for ri, r := range ranges {
		if !j.mine(ri) {
			continue
		}
		if r.lo == 0 && r.hi == 0 {
			for d := uint64(0); d < 1<<32; d += 65521 {
				for _, a := range bases {
					check(a, uint32(d))
				}
			}
			continue
		}
		for d := r.lo; d < r.hi; d++ {
			for _, a := range bases {
				check(a, uint32(d))
			}
		}
		if j.capped() {
			break
		}
	}
	j.Stats.NewStates += n
	j.Stats.Steps += n * 6
	j.extra("diffs32_x_bases", n)
}

// c16Sorts: ordering helpers at every base in a wrap neighbourhood, all subsets of a small window.
func c16Sorts(j *Job) {
	if !j.mine(3) {
		return
	}
	var n int64
	offsets := []uint32{0, 1, 2, 3, 5, 9}
	for _, centre := range []uint64{0, 1 << 16, 1 << 31, 1 << 32} {
		for delta := -12; delta <= 12; delta++ {
			base32 := uint32(int64(centre) + int64(delta))
			base16 := uint16(int64(centre) + int64(delta))
			// all permutations of up to 5 offsets
			perm := func(k int, f func([]uint32)) {
				idx := make([]int, 0, k)
				used := make([]bool, len(offsets))
				var rec func()
				rec = func() {
					if len(idx) == k {
						o := make([]uint32, k)
						for i, x := range idx {
							o[i] = offsets[x]
						}
						f(o)
						return
					}
					for i := range offsets {
						if !used[i] {
							used[i] = true
							idx = append(idx, i)
							rec()
							idx = idx[:len(idx)-1]
							used[i] = false
						}
					}
				}
				rec()
			}
			for k := 2; k <= 4; k++ {
				perm(k, func(o []uint32) {
					n++
					want := append([]uint32(nil), o...)
					sort.Slice(want, func(a, b int) bool { return want[a] < want[b] })
					// TSN
					cs := make([]*chunkPayloadData, len(o))
					for i, x := range o {
						cs[i] = &chunkPayloadData{tsn: base32 + x, fragmentSequenceNumber: base32 + x}
					}
					sortChunksByTSN(cs)
					for i := range cs {
						if cs[i].tsn-base32 != want[i] {
							j.failSeq("sort.tsn", "sorts", fmt.Sprintf("sortChunksByTSN base=%d offsets=%v gives %d at %d", base32, o, cs[i].tsn-base32, i), nil)
							break
						}
					}
					cs2 := make([]*chunkPayloadData, len(o))
					for i, x := range o {
						cs2[i] = &chunkPayloadData{fragmentSequenceNumber: base32 + x}
					}
					sortChunksByFSN(cs2)
					for i := range cs2 {
						if cs2[i].fragmentSequenceNumber-base32 != want[i] {
							j.failSeq("sort.fsn", "sorts", fmt.Sprintf("sortChunksByFSN base=%d offsets=%v wrong", base32, o), nil)
							break
						}
					}
					ss := make([]*chunkSet, len(o))
					for i, x := range o {
						ss[i] = &chunkSet{ssn: base16 + uint16(x)}
					}
					sortChunksBySSN(ss)
					for i := range ss {
						if uint32(ss[i].ssn-base16) != want[i] {
							j.failSeq("sort.ssn", "sorts", fmt.Sprintf("sortChunksBySSN base=%d offsets=%v wrong", base16, o), nil)
							break
						}
					}
					var ms []*chunkSetMID
					for _, x := range o {
						ms = insertChunkSetByMID(ms, &chunkSetMID{mid: base32 + x})
					}
					for i := range ms {
						if ms[i].mid-base32 != want[i] {
							j.failSeq("sort.mid", "sorts", fmt.Sprintf("insertChunkSetByMID base=%d offsets=%v wrong", base32, o), nil)
							break
						}
					}
				})
			}
		}
	}
	j.Stats.NewStates += n
	j.Stats.Steps += n * 4
	j.extra("sort_cases", n)
}

// c16PayloadQueueGet: offset arithmetic of the in-flight queue across the wrap.
func c16PayloadQueueGet(j *Job) {
	if !j.mine(4) {
		return
	}
	var n int64
	for delta := -40; delta <= 40; delta++ {
		base := uint32(int64(1<<32) + int64(delta))
		for length := 0; length <= 20; length++ {
			q := newPayloadQueue()
			for i := 0; i < length; i++ {
				q.pushNoCheck(&chunkPayloadData{tsn: base + uint32(i), userData: []byte{1}})
			}
			for popped := 0; popped <= length; popped++ {
				for probe := -3; probe <= length+3; probe++ {
					tsn := base + uint32(probe)
					c, ok := q.get(tsn)
					want := probe >= popped && probe < length
					n++
					if ok != want || (ok && c.tsn != tsn) {
						j.failSeq("payloadqueue.get", "payloadQueue", fmt.Sprintf("base=%d len=%d popped=%d get(%d) ok=%v want %v", base, length, popped, tsn, ok, want), nil)
					}
				}
				if popped < length {
					if _, ok := q.pop(base + uint32(popped)); !ok {
						j.failSeq("payloadqueue.pop", "payloadQueue", fmt.Sprintf("base=%d pop(%d) failed", base, base+uint32(popped)), nil)
					}
				}
			}
		}
	}
	j.Stats.NewStates += n
	j.Stats.Steps += n
}

// c16EndToEnd is defined in prop_c16_e2e.go
