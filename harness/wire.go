package sctp

import (
	"errors"
	"fmt"
	"io"
	"net"
	"os"
	"sort"
	"sync"
	"time"

	"github.com/pion/sctp/internal/vsched"
)

// wire is the fault-injecting network between two endpoints (0 = A, 1 = B).  Every packet
// written is held in flight; delivering, dropping, duplicating and delaying it are explicit
// scheduler choices.

type wpkt struct {
	seq     int
	from    int
	data    []byte
	sent    time.Duration // virtual time of the Write
	due     time.Duration
	copyN   int // 0 original, >0 duplicate copy
	dec     *wPacket
	decErr  error
	tag     string // "dup", "late", "swap" annotations
	noFault bool
}

type sendSnap struct{ cwnd, rwnd uint32 }

type wireEvent struct {
	At   time.Duration
	Kind string // send deliver undeliverable drop dup late swap inject kill
	Seq  int
	From int
	Pkt  *wpkt
	snap *sendSnap
}

type wendpoint struct {
	inbox            []*wpkt
	closed           bool
	readErr          error
	writeErr         error
	rdDeadline       time.Time
	nWrites          int
	writesAfterClose int
}

type faultSet struct {
	Drop, Dup, Late, Swap bool
}

type wire struct {
	s           *vsched.Sched
	mu          sync.Mutex
	seq         int
	inflight    []*wpkt
	ep          [2]*wendpoint
	delay       [2]time.Duration
	lateBy      time.Duration
	dupAfter    time.Duration
	faults      faultSet
	faultsOn    bool
	faultDir    [2]bool // directions in which faults are offered
	events      []wireEvent
	onSend      func(ev *wireEvent)         // called in the writer's context
	filter      func(p *wpkt) bool          // packets for which faults are offered (nil = all)
	blackhole   [2]bool                     // drop everything sent by endpoint i (silent peer)
	killFn      func(p *wpkt) bool          // deterministic drop rule applied at send time
	delayFn     func(p *wpkt) time.Duration // deterministic extra delay applied at send time
	envPreempt  bool
	closeErr    [2]error // what Close of endpoint i's transport returns (the transport is closed all the same)
	onQuiescent func()
}

func newWire(s *vsched.Sched) *wire {
	w := &wire{s: s, lateBy: 1500 * time.Millisecond, dupAfter: 15 * time.Millisecond}
	w.ep[0], w.ep[1] = &wendpoint{}, &wendpoint{}
	w.delay = [2]time.Duration{10 * time.Millisecond, 10 * time.Millisecond}
	w.faultDir = [2]bool{true, true}
	return w
}

func (w *wire) now() time.Duration { return w.s.Now() }

func (w *wire) sortInflight() {
	sort.SliceStable(w.inflight, func(i, j int) bool {
		if w.inflight[i].due != w.inflight[j].due {
			return w.inflight[i].due < w.inflight[j].due
		}
		return w.inflight[i].seq < w.inflight[j].seq
	})
}

func (w *wire) record(kind string, p *wpkt) {
	w.events = append(w.events, wireEvent{At: w.now(), Kind: kind, Seq: p.seq, From: p.from, Pkt: p})
}

// send is called by conn.Write.
func (w *wire) send(from int, b []byte) {
	w.mu.Lock()
	defer w.mu.Unlock()
	p := &wpkt{seq: w.seq, from: from, data: append([]byte(nil), b...), sent: w.now()}
	w.seq++
	p.due = p.sent + w.delay[from]
	p.dec, p.decErr = wDecode(p.data)
	w.record("send", p)
	if w.onSend != nil {
		w.onSend(&w.events[len(w.events)-1])
	}
	if w.blackhole[from] {
		w.record("drop", p)
		return
	}
	if w.killFn != nil && w.killFn(p) {
		w.record("kill", p)
		return
	}
	if w.delayFn != nil {
		if d := w.delayFn(p); d > 0 {
			p.due += d
			p.tag = "delayed"
			w.record("late", p)
		}
	}
	w.inflight = append(w.inflight, p)
	w.sortInflight()
}

// inject puts a crafted packet directly into an endpoint's inbox (scripted peer).
func (w *wire) inject(to int, b []byte) {
	w.mu.Lock()
	defer w.mu.Unlock()
	p := &wpkt{seq: w.seq, from: 1 - to, data: append([]byte(nil), b...), sent: w.now(), due: w.now(), noFault: true}
	w.seq++
	p.dec, p.decErr = wDecode(p.data)
	w.record("inject", p)
	w.ep[to].inbox = append(w.ep[to].inbox, p)
}

func (w *wire) deliver(p *wpkt) {
	to := 1 - p.from
	if w.ep[to].closed {
		w.record("undeliverable", p)
		return
	}
	w.record("deliver", p)
	w.ep[to].inbox = append(w.ep[to].inbox, p)
}

func (w *wire) remove(p *wpkt) {
	for i, q := range w.inflight {
		if q == p {
			w.inflight = append(w.inflight[:i], w.inflight[i+1:]...)
			return
		}
	}
}

func (w *wire) sig(kind string, p *wpkt) string {
	s := "?"
	if p.dec != nil {
		s = chunkKinds(p.dec)
	}
	return fmt.Sprintf("net:%s:%d>%d:%s", kind, p.from, 1-p.from, s)
}

func chunkKinds(p *wPacket) string {
	s := ""
	for i, c := range p.Chunks {
		if i > 0 {
			s += "+"
		}
		s += wTypeName(c.Typ)
	}
	return s
}

// Actions implements vsched.Env.
func (w *wire) Actions(threadsEnabled bool) []vsched.Action {
	if threadsEnabled && !w.envPreempt {
		return nil
	}
	if !threadsEnabled && w.onQuiescent != nil {
		w.onQuiescent()
	}
	w.mu.Lock()
	defer w.mu.Unlock()
	if len(w.inflight) == 0 {
		return nil
	}
	now := w.now()
	p := w.inflight[0]
	if p.due > now {
		return nil
	}
	cat := vsched.CatDefault
	if threadsEnabled {
		cat = vsched.CatSched
	}
	acts := []vsched.Action{{Sig: w.sig("deliver", p), Cat: cat, Run: func() {
		w.mu.Lock()
		w.remove(p)
		w.deliver(p)
		w.mu.Unlock()
	}}}
	if threadsEnabled || !w.faultsOn || p.noFault || !w.faultDir[p.from] || (w.filter != nil && !w.filter(p)) {
		return acts
	}
	if w.faults.Drop {
		acts = append(acts, vsched.Action{Sig: w.sig("drop", p), Cat: vsched.CatFault, Run: func() {
			w.mu.Lock()
			w.remove(p)
			w.record("drop", p)
			w.mu.Unlock()
		}})
	}
	if w.faults.Dup {
		acts = append(acts, vsched.Action{Sig: w.sig("dup", p), Cat: vsched.CatFault, Run: func() {
			w.mu.Lock()
			w.remove(p)
			w.deliver(p)
			c := &wpkt{seq: p.seq, from: p.from, data: p.data, sent: p.sent, due: w.now() + w.dupAfter, copyN: p.copyN + 1, dec: p.dec, decErr: p.decErr, tag: "dup"}
			w.record("dup", c)
			w.inflight = append(w.inflight, c)
			w.sortInflight()
			w.mu.Unlock()
		}})
	}
	if w.faults.Late {
		acts = append(acts, vsched.Action{Sig: w.sig("late", p), Cat: vsched.CatFault, Run: func() {
			w.mu.Lock()
			p.due = w.now() + w.lateBy
			p.tag = "late"
			w.record("late", p)
			w.sortInflight()
			w.mu.Unlock()
		}})
	}
	if w.faults.Swap {
		// deliver the next in-flight packet of the same direction first
		var next *wpkt
		for _, q := range w.inflight[1:] {
			if q.from == p.from {
				next = q
				break
			}
		}
		if next != nil {
			acts = append(acts, vsched.Action{Sig: w.sig("swap", p), Cat: vsched.CatFault, Run: func() {
				w.mu.Lock()
				p.due = next.due
				// order after next: bump seq ordering by giving it a fractional later due
				p.due += time.Nanosecond
				p.tag = "swap"
				w.record("swap", p)
				w.sortInflight()
				w.mu.Unlock()
			}})
		}
	}
	return acts
}

// NextWake implements vsched.Env.
func (w *wire) NextWake() time.Time {
	w.mu.Lock()
	defer w.mu.Unlock()
	if len(w.inflight) == 0 {
		return time.Time{}
	}
	d := w.inflight[0].due - w.now()
	if d < 0 {
		d = 0
	}
	return time.Now().Add(d)
}

func (w *wire) idle() bool {
	w.mu.Lock()
	defer w.mu.Unlock()
	return len(w.inflight) == 0
}

// ---------------------------------------------------------------------------------

type wconn struct {
	w  *wire
	id int
}

var errWireClosed = errors.New("wire: use of closed connection")

type wireTimeout struct{}

func (wireTimeout) Error() string     { return "wire: i/o timeout" }
func (wireTimeout) Timeout() bool     { return true }
func (wireTimeout) Temporary() bool   { return true }
func (wireTimeout) Is(err error) bool { return err == os.ErrDeadlineExceeded }

func (c *wconn) Read(b []byte) (int, error) {
	e := c.w.ep[c.id]
	var p *wpkt
	var rerr error
	c.w.s.Point(vsched.OpRead, "conn", func() bool {
		c.w.mu.Lock()
		defer c.w.mu.Unlock()
		if len(e.inbox) > 0 || e.closed || e.readErr != nil {
			return true
		}
		if !e.rdDeadline.IsZero() && !time.Now().Before(e.rdDeadline) {
			return true
		}
		return false
	}, func(_ *vsched.Thread) {
		c.w.mu.Lock()
		defer c.w.mu.Unlock()
		switch {
		case e.closed:
			rerr = errWireClosed
		case e.readErr != nil:
			rerr = e.readErr
		case !e.rdDeadline.IsZero() && !time.Now().Before(e.rdDeadline):
			rerr = wireTimeout{}
		default:
			p = e.inbox[0]
			e.inbox = e.inbox[1:]
		}
	})
	if rerr != nil {
		return 0, rerr
	}
	n := copy(b, p.data)
	return n, nil
}

func (c *wconn) Write(b []byte) (int, error) {
	e := c.w.ep[c.id]
	c.w.s.Point(vsched.OpWrite, "conn", nil, nil)
	c.w.mu.Lock()
	e.nWrites++
	closed, werr := e.closed, e.writeErr
	if closed {
		e.writesAfterClose++
	}
	c.w.mu.Unlock()
	if closed {
		return 0, io.ErrClosedPipe
	}
	if werr != nil {
		return 0, werr
	}
	c.w.send(c.id, b)
	return len(b), nil
}

func (c *wconn) Close() error {
	c.w.s.Point(vsched.OpConn, "close", nil, nil)
	c.w.mu.Lock()
	c.w.ep[c.id].closed = true
	err := c.w.closeErr[c.id]
	c.w.mu.Unlock()
	return err
}

func (c *wconn) LocalAddr() net.Addr  { return wireAddr(c.id) }
func (c *wconn) RemoteAddr() net.Addr { return wireAddr(1 - c.id) }

func (c *wconn) SetDeadline(t time.Time) error {
	_ = c.SetReadDeadline(t)
	return nil
}

func (c *wconn) SetReadDeadline(t time.Time) error {
	c.w.s.Point(vsched.OpConn, "rdl", nil, nil)
	c.w.mu.Lock()
	c.w.ep[c.id].rdDeadline = t
	c.w.mu.Unlock()
	if !t.IsZero() {
		if d := time.Until(t); d > 0 {
			s := c.w.s
			time.AfterFunc(d, func() { s.Poke() })
		}
	}
	return nil
}

func (c *wconn) SetWriteDeadline(time.Time) error { return nil }

type wireAddr int

func (a wireAddr) Network() string { return "wire" }
func (a wireAddr) String() string  { return fmt.Sprintf("ep%d", int(a)) }
