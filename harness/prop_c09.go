package sctp

import (
	"context"
	"errors"
	"fmt"
	"io"
	"strings"
	"time"

	"github.com/pion/sctp/internal/vsched"
)

func init() { register("C09", propC09) }

// Crash-point enumeration: a long base run (handshake, transfer with callers blocked in
// every API call, stream reset, graceful shutdown) with one teardown event X injected
// after the i-th wire event, for every i.

type crashSpec struct {
	A, B   epCfg
	X      string // closeA closeB abortA abortB readerrA readerrB writeerrA writeerrB conncloseA conncloseB
	At     int    // inject after this many wire events
	AtStep int    // or: inject exactly at this scheduling step (mid-handler crash points)
	X2     string // optional second event (thorough)
	Faults faultSet
}

func sideOf(x string) int {
	if strings.HasSuffix(x, "B") {
		return 1
	}
	return 0
}

func (m *Sim) inject(x string) {
	side := sideOf(x)
	kind := strings.TrimSuffix(strings.TrimSuffix(x, "A"), "B")
	a := m.As[side]
	switch kind {
	case "close":
		if a != nil {
			err := a.Close()
			m.Logf("X "+x, "Close err=%v", err)
			// repeated Close is harmless
			err = a.Close()
			m.Logf("X "+x, "Close again err=%v", err)
			return
		}
		(&wconn{w: m.W, id: side}).Close()
		m.Logf("X "+x, "(no association object yet) transport closed")
	case "abort":
		if a != nil {
			a.Abort("why")
			m.Logf("X "+x, "Abort returned")
			return
		}
		(&wconn{w: m.W, id: side}).Close()
		m.Logf("X "+x, "(no association object yet) transport closed")
	case "readerr":
		m.W.mu.Lock()
		m.W.ep[side].readErr = errors.New("injected read error")
		m.W.mu.Unlock()
		m.S.Yield()
		m.Logf("X "+x, "read error injected")
	case "writeerr", "writeeof":
		m.W.mu.Lock()
		if kind == "writeeof" {
			// a transport that reports its failure as io.EOF on the write side only
			m.W.ep[side].writeErr = fmt.Errorf("transport gone: %w", io.EOF)
		} else {
			m.W.ep[side].writeErr = errors.New("injected write error")
		}
		m.W.mu.Unlock()
		// make sure something is written soon: poke the association if it exists
		if a != nil {
			a.lock.Lock()
			a.awakeWriteLoop()
			a.lock.Unlock()
		}
		m.Logf("X "+x, "write error injected")
	case "ctxcancel":
		m.mu.Lock()
		c := m.dialCancel[side]
		m.mu.Unlock()
		if c != nil {
			c()
		}
		m.S.Yield()
		m.Logf("X "+x, "dial context cancelled")
	case "connclose":
		(&wconn{w: m.W, id: side}).Close()
		m.Logf("X "+x, "transport closed by its owner")
	}
}

func crashScenario(spec *crashSpec) *Scenario {
	var sideThreads [2][]*vsched.Thread
	var all []*vsched.Thread
	var closeDone time.Duration
	var xDone time.Duration
	var abortSeenBy = -1
	return &Scenario{
		Name:    "crash",
		Horizon: 200 * time.Second,
		Setup: func(m *Sim) {
			sideThreads = [2][]*vsched.Thread{}
			all = nil
			m.W.faults = spec.Faults
			m.W.faultsOn = true
		},
		Body: func(m *Sim) {
			mu := &m.mu
			var readErrs []string
			track := func(side int, t *vsched.Thread) *vsched.Thread {
				mu.Lock()
				sideThreads[side] = append(sideThreads[side], t)
				all = append(all, t)
				mu.Unlock()
				return t
			}
			var shutdownAErr error
			var shutdownAAt, shutdownAFrom time.Duration
			shutdownAReturned := false
			noteErr := func(who string, err error) {
				mu.Lock()
				readErrs = append(readErrs, fmt.Sprintf("%s: %v", who, err))
				mu.Unlock()
				m.Logf(who, "returned err=%v", err)
			}
			// the base run
			session := func(side int) {
				a, err := m.Dial(side, [2]epCfg{spec.A, spec.B}[side])
				if err != nil {
					return
				}
				if side == 1 {
					// B: acceptor (stays blocked after two streams), readers, one with a far read deadline
					track(1, m.Go("acceptB", func() {
						for i := 0; ; i++ {
							s, err := a.AcceptStream()
							if err != nil {
								noteErr("acceptB", err)
								return
							}
							mu.Lock()
							m.streamsSeen = append(m.streamsSeen, s)
							mu.Unlock()
							i := i
							track(1, m.Go(fmt.Sprintf("readB.%d", s.StreamIdentifier()), func() {
								// far read deadlines on every stream, also on the one the peer
								// resets (its deadline goroutine must not outlive the association)
								_ = s.SetReadDeadline(time.Now().Add(time.Duration(150-i) * time.Second))
								buf := make([]byte, 4096)
								for {
									_, _, err := s.ReadSCTP(buf)
									if err != nil {
										noteErr(fmt.Sprintf("readB.%d", s.StreamIdentifier()), err)
										return
									}
								}
							}))
						}
					}))
					return
				}
				// A: blocking writer on stream 1, stream 2 written and closed (reset), reader, then Shutdown
				s1, err := a.OpenStream(1, PayloadTypeWebRTCBinary)
				if err != nil {
					return
				}
				s2, err := a.OpenStream(2, PayloadTypeWebRTCBinary)
				if err != nil {
					return
				}
				mu.Lock()
				m.streamsSeen = append(m.streamsSeen, s1, s2)
				mu.Unlock()
				track(0, m.Go("readA.1", func() {
					buf := make([]byte, 4096)
					for {
						_, _, err := s1.ReadSCTP(buf)
						if err != nil {
							noteErr("readA.1", err)
							return
						}
					}
				}))
				w := track(0, m.Go("writeA.1", func() {
					for i := 0; i < 6; i++ {
						_, err := s1.WriteSCTP(payload(1, i, 300), PayloadTypeWebRTCBinary)
						if err != nil {
							noteErr("writeA.1", err)
							return
						}
						m.S.Yield()
					}
				}))
				// a second blocking writer on another stream: two goroutines wait for the one
				// "writable" notification
				if s3, err := a.OpenStream(3, PayloadTypeWebRTCBinary); err == nil {
					mu.Lock()
					m.streamsSeen = append(m.streamsSeen, s3)
					mu.Unlock()
					track(0, m.Go("writeA.3", func() {
						for i := 0; i < 4; i++ {
							_, err := s3.WriteSCTP(payload(3, i, 280), PayloadTypeWebRTCBinary)
							if err != nil {
								noteErr("writeA.3", err)
								return
							}
							m.S.Yield()
						}
					}))
				}
				if s4, err := a.OpenStream(4, PayloadTypeWebRTCBinary); err == nil {
					mu.Lock()
					m.streamsSeen = append(m.streamsSeen, s4)
					mu.Unlock()
					track(0, m.Go("writeA.4", func() {
						for i := 0; i < 3; i++ {
							_, err := s4.WriteSCTP(payload(4, i, 260), PayloadTypeWebRTCBinary)
							if err != nil {
								noteErr("writeA.4", err)
								return
							}
							m.S.Yield()
						}
					}))
				}
				track(0, m.Go("resetA.2", func() {
					if _, err := s2.WriteSCTP(payload(2, 0, 40), PayloadTypeWebRTCBinary); err != nil {
						noteErr("writeA.2", err)
						return
					}
					if err := s2.Close(); err != nil {
						noteErr("closeA.2", err)
					}
				}))
				m.S.Join(w)
				m.Sleep(300 * time.Millisecond)
				ctx, cancel := context.WithTimeout(context.Background(), 100*time.Second)
				defer cancel()
				shutdownAStart := m.S.Now()
				err = a.Shutdown(ctx)
				noteErr("shutdownA", err)
				mu.Lock()
				shutdownAErr, shutdownAAt, shutdownAFrom, shutdownAReturned = err, m.S.Now(), shutdownAStart, true
				mu.Unlock()
			}
			track(0, m.Go("sessA", func() { session(0) }))
			track(1, m.Go("sessB", func() { session(1) }))

			// the prober: in the instant the read loop of the terminated side has finished its
			// teardown the association accepts no new work (a stream opened then would never
			// be unregistered: its reader hangs for ever)
			pside := sideOf(spec.X)
			lateOpened := false
			_ = lateOpened
			probe := m.Go("probe", func() {
				me := m.S.Cur()
				m.S.SetUrgent(me, true)
				ok := m.WaitUntil("readloop-ended", 190*time.Second, func() bool {
					a := m.As[pside]
					if a == nil {
						return false
					}
					select {
					case <-a.readLoopCloseCh:
						return true
					default:
						return false
					}
				})
				m.S.SetUrgent(me, false)
				if !ok {
					return
				}
				ls, err := m.As[pside].OpenStream(77, PayloadTypeWebRTCBinary)
				if err != nil {
					return
				}
				// accepted: then it is a stream like any other, a reader blocked on it has to come
				// back with the closure like every other call of that side
				mu.Lock()
				m.streamsSeen = append(m.streamsSeen, ls)
				mu.Unlock()
				lateOpened = true
				track(pside, m.Go("read-late-stream", func() {
					buf := make([]byte, 64)
					for {
						if _, _, err := ls.ReadSCTP(buf); err != nil {
							noteErr("read-late-stream", err)
							return
						}
					}
				}))
			})
			_ = probe
			// the crasher
			var reached bool
			if spec.AtStep > 0 {
				me := m.S.Cur()
				m.S.SetUrgent(me, true)
				reached = m.WaitUntil("crashstep", 150*time.Second, func() bool { return m.S.Steps() >= spec.AtStep })
				m.S.SetUrgent(me, false)
			} else {
				reached = m.WaitUntil("crashpoint", 150*time.Second, func() bool { return len(m.W.events) >= spec.At })
			}
			m.Observe("reached=%v", reached)
			side := sideOf(spec.X)
			peerEstablished := m.As[1-side] != nil && m.As[1-side].getState() == established
			selfEstablished := m.As[side] != nil && m.As[side].getState() == established
			if reached {
				t0 := m.S.Now()
				m.W.mu.Lock()
				writes0 := m.W.ep[side].nWrites
				m.W.mu.Unlock()
				m.inject(spec.X)
				if d := m.S.Now() - t0; d > 1100*time.Millisecond {
					m.Failf("teardown.slow", "%s took %v to return", spec.X, d)
				}
				if spec.X2 != "" {
					m.inject(spec.X2)
				}
				xDone = m.S.Now()
				// every call blocked on that side returns promptly
				okSide := m.WaitUntil("side-unblocked", 1500*time.Millisecond, func() bool {
					for _, t := range sideThreads[side] {
						if !t.Done {
							return false
						}
					}
					return true
				})
				if !okSide && strings.HasPrefix(spec.X, "write") {
					// a failing write side is only noticed when the endpoint writes: if it had
					// nothing to send in the meantime there is nothing to judge yet
					m.W.mu.Lock()
					wrote := m.W.ep[side].nWrites > writes0
					m.W.mu.Unlock()
					if !wrote {
						okSide = true
					}
				}
				if !okSide {
					var stuck []string
					for _, t := range sideThreads[side] {
						if !t.Done {
							stuck = append(stuck, t.Name)
						}
					}
					m.Failf("teardown.blocked", "after %s at event %d these calls on that side are still blocked 1.5 s later: %v", spec.X, spec.At, stuck)
				}
				// (a second event on the peer's side terminates the peer by itself, possibly before
				// the ABORT is processed: the cause oracle applies to single events only)
				if strings.HasPrefix(spec.X, "abort") && peerEstablished && selfEstablished && (spec.X2 == "" || sideOf(spec.X2) == side) {
					// the peer is closed by the ABORT, with an error that carries the cause
					okPeer := m.WaitUntil("peer-aborted", 1500*time.Millisecond, func() bool {
						for _, t := range sideThreads[1-side] {
							if !t.Done {
								return false
							}
						}
						return true
					})
					abortDelivered := false
					var abortAt time.Duration
					for _, ev := range m.W.events {
						if ev.Kind == "deliver" && ev.From == side && ev.Pkt.dec != nil {
							for _, c := range ev.Pkt.dec.Chunks {
								if c.Typ == wABORT && !abortDelivered {
									abortDelivered = true
									abortAt = ev.At
								}
							}
						}
					}
					if abortDelivered {
						abortSeenBy = 1 - side
						if !okPeer {
							m.Failf("abort.peer", "ABORT was delivered but calls on the peer are still blocked")
						}
						// every stream the peer still had open fails with an error that carries the cause
						if okPeer {
							pa := m.As[1-side]
							if st := pa.getState(); st != closed {
								m.Failf("abort.peer", "peer is in state %s after receiving ABORT", getAssociationStateString(st))
							}
							var bad []string
							mu.Lock()
							for _, s := range m.streamsSeen {
								if s.association != pa || s.readErr == nil || errors.Is(s.readErr, io.EOF) {
									continue
								}
								if e := s.readErr.Error(); !strings.Contains(e, "User Initiated Abort") || !strings.Contains(e, "why") {
									bad = append(bad, fmt.Sprintf("peer stream %d failed with %q, which does not carry the abort cause", s.streamIdentifier, e))
								}
							}
							// a Shutdown call of the peer that was waiting when the ABORT arrived and ends with
							// an error: that error is how this caller learns why, so it carries the cause too
							if pa == m.As[0] && shutdownAReturned && shutdownAErr != nil && shutdownAFrom < abortAt && shutdownAAt >= abortAt {
								if e := shutdownAErr.Error(); !strings.Contains(e, "User Initiated Abort") || !strings.Contains(e, "why") {
									bad = append(bad, fmt.Sprintf("the peer's Shutdown call, blocked when the ABORT arrived, failed with %q, which does not carry the abort cause", e))
								}
							}
							mu.Unlock() // Failf takes the same mutex
							for _, b := range bad {
								m.Failf("abort.cause", "%s", b)
							}
						}
					}
				}
			}
			// tear the rest down: close both associations and both transports
			m.W.faultsOn = false
			for i := 0; i < 2; i++ {
				if m.As[i] != nil {
					m.As[i].Close()
				}
				(&wconn{w: m.W, id: i}).Close()
			}
			closeDone = m.S.Now()
			okAll := m.WaitUntil("all-unblocked", 1500*time.Millisecond, func() bool {
				mu.Lock()
				defer mu.Unlock()
				for _, t := range all {
					if !t.Done {
						return false
					}
				}
				return true
			})
			if !okAll {
				var stuck []string
				for _, t := range all {
					if !t.Done {
						stuck = append(stuck, t.Name)
					}
				}
				m.Failf("teardown.blocked", "after closing both sides these calls are still blocked: %v", stuck)
			}
			m.Observe("X=%s ok", spec.X)
		},
		Final: func(m *Sim, x *Exec) {
			generalVerdicts(m, x, true)
			if len(x.ArmedTimers) > 0 {
				m.Failf("timer-leak", "%d timers still armed after both associations were closed: %v", len(x.ArmedTimers), x.ArmedTimers)
			}
			for _, ev := range x.Events {
				if ev.Kind == "send" && closeDone > 0 && ev.At > closeDone {
					m.Failf("write-after-close", "endpoint %d wrote %s at %v, after both associations were closed at %v", ev.From, ev.Pkt.dec.Summary(), ev.At, closeDone)
					break
				}
			}
			_ = xDone
			_ = abortSeenBy
		},
	}
}

func propC09(j *Job) {
	xs := []string{"closeA", "closeB", "abortA", "abortB", "readerrA", "readerrB", "writeerrA", "writeerrB", "conncloseA", "conncloseB", "ctxcancelA", "writeeofA", "writeeofB"}
	type base struct {
		name string
		a, b epCfg
	}
	bases := []base{
		{"cs-data", epCfg{NoInterleave: true, BlockWrite: true, MTU: 228, RTOMax: 4000, InitTSN: 0xFFFFFFF0}, epCfg{Server: true, NoInterleave: true, MTU: 228, RTOMax: 4000, InitTSN: 5, RecvBuf: 1500}},
		{"cs-idata", epCfg{BlockWrite: true, MTU: 228, RTOMax: 4000, InitTSN: 7}, epCfg{Server: true, MTU: 228, RTOMax: 4000, InitTSN: 0xFFFFFFFB, RecvBuf: 3000}},
		{"cc-data", epCfg{NoInterleave: true, BlockWrite: true, MTU: 228, RTOMax: 4000, InitTSN: 11}, epCfg{NoInterleave: true, MTU: 228, RTOMax: 4000, InitTSN: 12, RecvBuf: 1500}},
	}
	maxAt := 70
	stride := 1
	if !j.Thorough() {
		stride = 2
	}
	n := 0
	for bi, b := range bases {
		for xi, x := range xs {
			for at := 1; at <= maxAt; at += stride {
				if !j.Thorough() && bi > 0 && (at+xi)%3 != 0 {
					continue
				}
				if x == "ctxcancelA" && at > 12 {
					continue // only meaningful while the dial is in progress
				}
				n++
				spec := &crashSpec{A: b.a, B: b.b, X: x, At: at}
				k := 0
				if j.Thorough() && bi == 0 && at%5 == 0 {
					k = 1
					spec.Faults = faultSet{Drop: true, Late: true}
				}
				if j.Thorough() && at%7 == 0 {
					spec.X2 = xs[(xi+3)%len(xs)]
				}
				j.Explore(fmt.Sprintf("X/%s/%s/at%d", b.name, x, at), crashScenario(spec), Budget{K: k}, nil)
				if j.capped() {
					return
				}
			}
		}
	}
	// several readers on one stream / a read deadline that outlives the association
	for bi, b := range bases {
		if bi == 2 {
			continue
		}
		for _, kind := range []string{"multi", "stale", "expired", "reset"} {
			for _, x := range []string{"closeB", "abortB", "abortA", "readerrB", "conncloseB", "closeA"} {
				for _, when := range []time.Duration{50 * time.Millisecond, 300 * time.Millisecond} {
					if !j.Thorough() && when != 50*time.Millisecond && bi > 0 {
						continue
					}
					d := 1
					if j.Thorough() {
						d = 2
					}
					j.Explore(fmt.Sprintf("R/%s/%s/%s/at%v", b.name, kind, x, when), readersScenario(b.a, b.b, kind, x, when), Budget{D: d}, nil)
					if j.capped() {
						return
					}
				}
			}
		}
	}
	// ABORT while the other side is still inside its connect call
	for _, b := range bases[:2] { // (two clients complete each other's handshake without COOKIE-ACKs)
		j.Explore(fmt.Sprintf("AH/%s", b.name), abortDuringConnectScenario(b.a, b.b), Budget{}, nil)
		j.Explore(fmt.Sprintf("AS/%s", b.name), abortDuringShutdownScenario(b.a, b.b), Budget{D: map[bool]int{false: 2, true: 3}[j.Thorough()]}, nil)
		j.Explore(fmt.Sprintf("AS/%s/close-fails", b.name), abortDuringShutdownScenario(b.a, b.b, true), Budget{}, nil)
		j.Explore(fmt.Sprintf("AS/%s/crossed", b.name), abortDuringShutdownScenario(b.a, b.b, false, true), Budget{D: 2}, nil)
	}
	// a blocking write made from the buffered-amount callback, ended by Close / Abort
	for bi, b := range bases {
		if bi == 2 {
			continue
		}
		for _, x := range []string{"closeA", "abortA"} {
			j.Explore(fmt.Sprintf("CW/%s/%s", b.name, x), callbackWriterScenario(b.a, b.b, x), Budget{}, nil)
			if j.capped() {
				return
			}
		}
	}
	// crash points at exact scheduling steps (inside handlers, between two lock acquisitions)
	for bi, b := range bases {
		if bi > 0 && !j.Thorough() {
			break
		}
		for _, x := range xs {
			maxStep, st := 900, 7
			if j.Thorough() {
				st = 1
			}
			if x == "ctxcancelA" {
				maxStep, st = 160, 1
			}
			for step := 2; step <= maxStep; step += st {
				spec := &crashSpec{A: b.a, B: b.b, X: x, AtStep: step}
				j.Explore(fmt.Sprintf("X/%s/%s/step%d", b.name, x, step), crashScenario(spec), Budget{}, nil)
				if j.capped() {
					return
				}
			}
		}
	}
}

// readersScenario: established association, stream 1 open on both sides.  On side B either
// (kind "multi") three goroutines are blocked in ReadSCTP on the same stream, or (kind
// "stale") a read deadline is armed while nobody reads and expires only after the
// termination.  Termination event x; every reader must come back with the closure.
func readersScenario(a, b epCfg, kind, x string, when time.Duration) *Scenario {
	return &Scenario{
		Name:    "readers",
		Horizon: 120 * time.Second,
		Body: func(m *Sim) {
			if !m.Connect(a, b) {
				m.Failf("connect", "handshake failed: %v %v", m.Err[0], m.Err[1])
				m.closeFailedTransports()
				m.CloseBoth()
				return
			}
			sa, _ := m.As[0].OpenStream(1, PayloadTypeWebRTCBinary)
			sb, _ := m.As[1].OpenStream(1, PayloadTypeWebRTCBinary)
			m.streamsSeen = append(m.streamsSeen, sa, sb)
			mu := &m.mu
			errs := map[string]error{}
			var ts []*vsched.Thread
			loop := func(name string, s *Stream) {
				buf := make([]byte, 2000)
				for {
					_, _, err := s.ReadSCTP(buf)
					if err == nil {
						continue
					}
					if errors.Is(err, ErrReadDeadlineExceeded) {
						// what a deadline-aware application does: extend and read on
						_ = s.SetReadDeadline(time.Time{})
						continue
					}
					mu.Lock()
					errs[name] = err
					mu.Unlock()
					return
				}
			}
			switch kind {
			case "multi":
				for i := 0; i < 3; i++ {
					name := fmt.Sprintf("rd%d", i)
					ts = append(ts, m.Go(name, func() { loop(name, sb) }))
				}
			case "expired":
				// the deadline expires (idle stream) shortly before the termination
				_ = sb.SetReadDeadline(time.Now().Add(when - 20*time.Millisecond))
				ts = append(ts, m.Go("late-reader", func() {
					m.Sleep(when + 900*time.Millisecond)
					loop("late-reader", sb)
				}))
			case "reset":
				// a far read deadline on a stream nobody reads from at the moment; the peer then
				// resets the stream, which takes it out of the association's table: the deadline's
				// goroutine still has to go when the association does
				_ = sb.SetReadDeadline(time.Now().Add(90 * time.Second))
				_ = sa.Close()
			case "stale":
				_ = sb.SetReadDeadline(time.Now().Add(when + 400*time.Millisecond))
				ts = append(ts, m.Go("late-reader", func() {
					m.Sleep(when + 900*time.Millisecond)
					loop("late-reader", sb)
				}))
			}
			if kind != "reset" {
				_, _ = sa.WriteSCTP(payload(1, 0, 30), PayloadTypeWebRTCBinary)
			}
			m.Sleep(when)
			m.inject(x)
			side := sideOf(x)
			// the ABORT / closure reaches side B within a link delay or through the transport
			if side == 0 && (strings.HasPrefix(x, "close") || strings.HasPrefix(x, "conn") || strings.HasSuffix(x, "errA")) {
				// A went away silently: B learns it when its own transport is closed
				m.Sleep(200 * time.Millisecond)
				(&wconn{w: m.W, id: 1}).Close()
			}
			ok := m.WaitUntil("readers-back", 5*time.Second, func() bool {
				for _, t := range ts {
					if !t.Done {
						return false
					}
				}
				return true
			})
			if !ok {
				var stuck []string
				for _, t := range ts {
					if !t.Done {
						stuck = append(stuck, t.Name)
					}
				}
				m.Failf("teardown.blocked", "%s readers, %s: 5 s after the association on their side terminated these readers have not seen the closure: %v", kind, x, stuck)
			}
			mu.Lock()
			for name, err := range errs {
				if err == nil || errors.Is(err, ErrReadDeadlineExceeded) {
					m.Failf("teardown.error", "%s returned %v instead of the closure", name, err)
				}
			}
			mu.Unlock()
			m.CloseBoth()
			(&wconn{w: m.W, id: 0}).Close()
			(&wconn{w: m.W, id: 1}).Close()
			m.WaitUntil("all-back", 2*time.Second, func() bool {
				for _, t := range ts {
					if !t.Done {
						return false
					}
				}
				return true
			})
			m.Observe("%s %s ok=%v", kind, x, ok)
		},
		Final: func(m *Sim, x *Exec) { generalVerdicts(m, x, true) },
	}
}

// callbackWriterScenario: blocking-write mode; the application's OnBufferedAmountLow callback
// writes the next message, the canonical use of that callback.  The callback runs on the
// association's read loop: while its write waits for the queue to drain nobody processes
// acknowledgements, so it waits until something from outside ends it.  Close / Abort called by
// the application on that association is such a thing: the blocked write and the call itself
// must return.
func callbackWriterScenario(a, b epCfg, x string) *Scenario {
	return &Scenario{
		Name:    "callback-writer",
		Horizon: 120 * time.Second,
		Body: func(m *Sim) {
			if !m.Connect(a, b) {
				m.Failf("connect", "handshake failed: %v %v", m.Err[0], m.Err[1])
				m.closeFailedTransports()
				m.CloseBoth()
				return
			}
			sa, _ := m.As[0].OpenStream(1, PayloadTypeWebRTCBinary)
			sb, _ := m.As[1].OpenStream(1, PayloadTypeWebRTCBinary)
			m.streamsSeen = append(m.streamsSeen, sa, sb)
			rd := m.Go("readB", func() {
				buf := make([]byte, 70000)
				for {
					if _, _, err := sb.ReadSCTP(buf); err != nil {
						return
					}
				}
			})
			var cbErr error
			cbReturned, cbEntered := false, false
			sa.SetBufferedAmountLowThreshold(5000)
			sa.OnBufferedAmountLow(func() {
				if cbEntered {
					return
				}
				cbEntered = true
				_, cbErr = sa.WriteSCTP(payload(1, 1, 300), PayloadTypeWebRTCBinary)
				cbReturned = true
			})
			if _, err := sa.WriteSCTP(payload(1, 0, 6000), PayloadTypeWebRTCBinary); err != nil {
				m.Failf("write", "first write: %v", err)
			}
			m.WaitUntil("callback-entered", 20*time.Second, func() bool { return cbEntered })
			m.Sleep(2 * time.Second)
			blocked := cbEntered && !cbReturned
			m.Observe("callback write blocked=%v", blocked)
			t0 := m.S.Now()
			xt := m.Go("x", func() { m.inject(x) })
			ok := m.WaitUntil("x-returned", 5*time.Second, func() bool { return xt.Done })
			if !ok {
				m.Failf("teardown.blocked", "%s has not returned 5 s after it was called (a write made from the OnBufferedAmountLow callback is waiting in blocking-write mode: callback returned=%v)", x, cbReturned)
			} else if d := m.S.Now() - t0; d > 1100*time.Millisecond {
				m.Failf("teardown.slow", "%s took %v to return", x, d)
			}
			if cbEntered && !cbReturned {
				m.Failf("teardown.blocked", "the write made from the OnBufferedAmountLow callback is still blocked after %s", x)
			} else if blocked && cbErr == nil {
				m.Failf("teardown.error", "the blocked write returned success after %s", x)
			}
			m.CloseBoth()
			(&wconn{w: m.W, id: 0}).Close()
			(&wconn{w: m.W, id: 1}).Close()
			m.WaitUntil("all-back", 3*time.Second, func() bool { return rd.Done && xt.Done })
		},
		Final: func(m *Sim, x *Exec) { generalVerdicts(m, x, true) },
	}
}

// abortDuringConnectScenario: the answering side is established (it has the COOKIE-ECHO), the
// connecting side is not yet (every COOKIE-ACK is lost) when the established side aborts.  The
// connect call of the other side ends with an error that carries the abort cause.
func abortDuringConnectScenario(a, b epCfg) *Scenario {
	return &Scenario{
		Name:    "abort-during-connect",
		Horizon: 120 * time.Second,
		Setup: func(m *Sim) {
			m.W.killFn = func(p *wpkt) bool {
				if p.dec == nil || p.from != 1 {
					return false
				}
				for _, c := range p.dec.Chunks {
					if c.Typ == wCOOKIEACK {
						return true
					}
				}
				return false
			}
		},
		Body: func(m *Sim) {
			ta := m.Go("connA", func() { m.Dial(0, a) })
			tb := m.Go("connB", func() { m.Dial(1, b) })
			m.S.Join(tb)
			if m.As[1] == nil || m.Err[1] != nil {
				m.Failf("connect", "the answering side did not get established: %v", m.Err[1])
				m.closeFailedTransports()
				m.CloseBoth()
				return
			}
			m.Sleep(100 * time.Millisecond)
			if ta.Done {
				m.Failf("connect", "the connecting side finished without a COOKIE-ACK: %v", m.Err[0])
			}
			m.As[1].Abort("why")
			ok := m.WaitUntil("connect-failed", 5*time.Second, func() bool { return ta.Done })
			switch {
			case !ok:
				m.Failf("abort.peer", "the ABORT reached the connecting side but its connect call has not returned 5 s later")
			case m.Err[0] == nil:
				m.Failf("abort.peer", "the connect call succeeded after the peer had aborted")
			default:
				if e := m.Err[0].Error(); !strings.Contains(e, "User Initiated Abort") || !strings.Contains(e, "why") {
					m.Failf("abort.cause", "the connect call of the side that received the ABORT failed with %q, which does not carry the abort cause", e)
				}
			}
			m.closeFailedTransports()
			m.CloseBoth()
			(&wconn{w: m.W, id: 0}).Close()
			(&wconn{w: m.W, id: 1}).Close()
		},
		Final: func(m *Sim, x *Exec) { generalVerdicts(m, x, true) },
	}
}

// closeDuringShutdownScenario: A has written a message that never gets through, calls Shutdown
// (which waits in SHUTDOWN-PENDING) and another goroutine of A calls Close.  The data was not
// delivered: whatever the order in which the closing write loop, the ending read loop and the
// Shutdown call see each other, Shutdown does not return nil.
func closeDuringShutdownScenario(a, b epCfg) *Scenario {
	return &Scenario{
		Name:    "close-during-shutdown",
		Horizon: 120 * time.Second,
		Body: func(m *Sim) {
			if !m.Connect(a, b) {
				m.Failf("connect", "handshake failed: %v %v", m.Err[0], m.Err[1])
				m.closeFailedTransports()
				m.CloseBoth()
				return
			}
			sa, _ := m.As[0].OpenStream(1, PayloadTypeWebRTCBinary)
			m.streamsSeen = append(m.streamsSeen, sa)
			m.W.killFn = func(p *wpkt) bool {
				if p.dec == nil || p.from != 0 {
					return false
				}
				for _, c := range p.dec.Chunks {
					if c.Typ == wDATA || c.Typ == wIDATA {
						return true
					}
				}
				return false
			}
			_, _ = sa.WriteSCTP(payload(1, 0, 100), PayloadTypeWebRTCBinary)
			var shutErr error
			ts := m.Go("shutdownA", func() {
				ctx, cancel := context.WithTimeout(context.Background(), 60*time.Second)
				defer cancel()
				shutErr = m.As[0].Shutdown(ctx)
			})
			m.Sleep(300 * time.Millisecond)
			if ts.Done || m.As[0].getState() != shutdownPending {
				m.Failf("e1.base", "Shutdown is not waiting in SHUTDOWN-PENDING (done=%v state=%s)", ts.Done, getAssociationStateString(m.As[0].getState()))
			}
			_ = m.As[0].Close()
			ok := m.WaitUntil("shutdown-returned", 5*time.Second, func() bool { return ts.Done })
			switch {
			case !ok:
				m.Failf("shutdown.stuck", "Close was called on the side blocked in Shutdown but the Shutdown call has not returned 5 s later")
			case shutErr == nil:
				m.Failf("shutdown.nil", "Shutdown returned nil although the association was closed under it with its message unacknowledged (the peer has received no DATA chunk)")
			}
			m.Observe("err=%v", shutErr != nil)
			m.W.killFn = nil
			m.CloseBoth()
		},
		Final: func(m *Sim, x *Exec) { generalVerdicts(m, x, true) },
	}
}

// abortDuringShutdownScenario: one side has data it cannot get acknowledged (its DATA packets
// are lost) and is blocked in Shutdown, waiting in SHUTDOWN-PENDING, when the peer aborts.  The
// Shutdown call - and, blockWrite, a write blocked behind the pending data - returns promptly
// with an error that carries the abort cause: it is how this caller learns why.
// closeFails: Close of the aborted side's transport returns an error (the transport is closed all
// the same): the callers still learn the abort cause, not the transport's complaint.
func abortDuringShutdownScenario(a, b epCfg, closeFails ...bool) *Scenario {
	return &Scenario{
		Name:    "abort-during-shutdown",
		Horizon: 120 * time.Second,
		Setup: func(m *Sim) {
			if len(closeFails) > 0 && closeFails[0] {
				m.W.closeErr[0] = errors.New("transport: close failed")
			}
		},
		Body: func(m *Sim) {
			if !m.Connect(a, b) {
				m.Failf("connect", "handshake failed: %v %v", m.Err[0], m.Err[1])
				m.closeFailedTransports()
				m.CloseBoth()
				return
			}
			sa, _ := m.As[0].OpenStream(1, PayloadTypeWebRTCBinary)
			m.streamsSeen = append(m.streamsSeen, sa)
			m.W.killFn = func(p *wpkt) bool {
				if p.dec == nil || p.from != 0 {
					return false
				}
				for _, c := range p.dec.Chunks {
					if c.Typ == wDATA || c.Typ == wIDATA {
						return true
					}
				}
				return false
			}
			_, _ = sa.WriteSCTP(payload(1, 0, 100), PayloadTypeWebRTCBinary)
			var readErr error
			tr := m.Go("readA", func() {
				buf := make([]byte, 100)
				for {
					if _, _, err := sa.ReadSCTP(buf); err != nil {
						readErr = err
						return
					}
				}
			})
			var shutErr error
			ts := m.Go("shutdownA", func() {
				ctx, cancel := context.WithTimeout(context.Background(), 60*time.Second)
				defer cancel()
				shutErr = m.As[0].Shutdown(ctx)
			})
			m.Sleep(300 * time.Millisecond)
			if ts.Done || m.As[0].getState() != shutdownPending {
				m.Failf("e1.base", "Shutdown is not waiting in SHUTDOWN-PENDING (done=%v state=%s)", ts.Done, getAssociationStateString(m.As[0].getState()))
			}
			if len(closeFails) > 1 && closeFails[1] {
				// crossed: the peer's own SHUTDOWN arrives first (it does not acknowledge the data), the
				// caller now waits in SHUTDOWN-RECEIVED
				m.Go("shutdownB", func() {
					ctx, cancel := context.WithTimeout(context.Background(), 20*time.Second)
					defer cancel()
					_ = m.As[1].Shutdown(ctx)
				})
				if !m.WaitUntil("crossed", 5*time.Second, func() bool { return m.As[0].getState() == shutdownReceived }) {
					m.Failf("e1.base", "A did not reach SHUTDOWN-RECEIVED (state %s)", getAssociationStateString(m.As[0].getState()))
				}
			}
			m.As[1].Abort("why")
			ok := m.WaitUntil("shutdown-returned", 5*time.Second, func() bool { return ts.Done })
			switch {
			case !ok:
				m.Failf("abort.peer", "the ABORT reached the side blocked in Shutdown but the call has not returned 5 s later")
			case shutErr == nil:
				m.Failf("abort.peer", "Shutdown returned nil after the peer had aborted with data unacknowledged")
			default:
				if e := shutErr.Error(); !strings.Contains(e, "User Initiated Abort") || !strings.Contains(e, "why") {
					m.Failf("abort.cause", "the Shutdown call of the side that received the ABORT failed with %q, which does not carry the abort cause", e)
				}
			}
			if m.WaitUntil("reader-returned", 5*time.Second, func() bool { return tr.Done }) {
				if e := fmt.Sprint(readErr); !strings.Contains(e, "User Initiated Abort") || !strings.Contains(e, "why") {
					m.Failf("abort.cause", "the read blocked on the side that received the ABORT failed with %q, which does not carry the abort cause", e)
				}
			} else {
				m.Failf("abort.peer", "the ABORT reached the side but its blocked read has not returned 5 s later")
			}
			m.W.killFn = nil
			m.CloseBoth()
			(&wconn{w: m.W, id: 0}).Close()
			(&wconn{w: m.W, id: 1}).Close()
		},
		Final: func(m *Sim, x *Exec) { generalVerdicts(m, x, true) },
	}
}
