package sctp

import (
	"context"
	"errors"
	"fmt"
	"time"

	"github.com/pion/sctp/internal/vsched"
)

func init() { register("C08", propC08) }

type shutSpec struct {
	A, B      epCfg
	Sizes     []int // A's messages before Shutdown
	BSizes    []int // B's messages (written before anything is shut down)
	Crossed   int   // 0 no, 1 same instant, 2 B a little later
	LateWrite bool
	Faults    faultSet
	PauseRead time.Duration
	// deterministic loss pattern: the first transmission of B's DATA with these TSN offsets
	// (from B's initial TSN) is lost, and so are the first KillSacks packets from A that carry a
	// SACK but no SHUTDOWN: the SHUTDOWN chunks then acknowledge B's data only partially.
	KillBOff  []uint32
	KillSacks int
	// Interrupted: none of A's DATA reaches B (every copy is lost) and, InterruptAfter into
	// A's Shutdown, B terminates the association ("abortB") or A's transport fails
	// ("readerrA"): whatever Shutdown on A returns then, nil must still mean "delivered".
	Interrupted    string
	InterruptAfter time.Duration
	SuspendTimers  bool // timer expiries may be postponed past the next delivery (deviation)
	// KillShutdown: the first n packets from A carrying SHUTDOWN are lost (a loss burst on the
	// shutdown chunk itself: it is retransmitted until it gets through)
	KillShutdown int
	// ExpiredReader: B's reader polls with short read deadlines and, when one expires, idles
	// for a while with the expired deadline in place before it re-arms and reads on: the
	// closure of the association must still reach it (and every message before that).
	ExpiredReader bool
}

func shutScenario(spec *shutSpec) *Scenario {
	return &Scenario{
		Name:    "shutdown",
		Horizon: 900 * time.Second,
		Setup: func(m *Sim) {
			m.W.faults = spec.Faults
			if spec.KillShutdown > 0 {
				n := 0
				m.W.killFn = func(p *wpkt) bool {
					if p.dec == nil || p.from != 0 {
						return false
					}
					for _, c := range p.dec.Chunks {
						if c.Typ == wSHUTDOWN && n < spec.KillShutdown {
							n++
							return true
						}
					}
					return false
				}
			} else if spec.Interrupted != "" {
				m.W.killFn = func(p *wpkt) bool {
					if p.dec == nil || p.from != 0 {
						return false
					}
					for _, c := range p.dec.Chunks {
						if c.Typ == wDATA || c.Typ == wIDATA {
							return true
						}
					}
					return false
				}
			} else if len(spec.KillBOff) > 0 || spec.KillSacks > 0 {
				seen := map[uint32]bool{}
				sacks := 0
				m.W.killFn = func(p *wpkt) bool {
					if p.dec == nil {
						return false
					}
					kill := false
					hasSack, hasShut := false, false
					for _, c := range p.dec.Chunks {
						switch c.Typ {
						case wDATA, wIDATA:
							if p.from == 1 {
								for _, off := range spec.KillBOff {
									if c.TSN == spec.B.InitTSN+off && !seen[c.TSN] {
										seen[c.TSN] = true
										kill = true
									}
								}
							}
						case wSACK:
							hasSack = true
						case wSHUTDOWN:
							hasShut = true
						}
					}
					if p.from == 0 && hasSack && !hasShut && sacks < spec.KillSacks {
						sacks++
						kill = true
					}
					return kill
				}
			}
		},
		Body: func(m *Sim) {
			if !m.Connect(spec.A, spec.B) {
				m.Failf("connect", "handshake failed: %v %v", m.Err[0], m.Err[1])
				m.closeFailedTransports()
				m.CloseBoth()
				return
			}
			mu := &m.mu
			sa, _ := m.As[0].OpenStream(1, PayloadTypeWebRTCBinary)
			sbOut, _ := m.As[1].OpenStream(11, PayloadTypeWebRTCBinary)
			// both sides pre-open the peer's stream so that readers exist even for m = 0
			sbIn, _ := m.As[1].OpenStream(1, PayloadTypeWebRTCBinary)
			saIn, _ := m.As[0].OpenStream(11, PayloadTypeWebRTCBinary)
			m.streamsSeen = append(m.streamsSeen, sa, sbOut, sbIn, saIn)
			var got [2][]rmsg
			var rerr [2]error
			reader := func(ep int, s *Stream) *vsched.Thread {
				return m.Go(fmt.Sprintf("read%d", ep), func() {
					if spec.PauseRead > 0 {
						m.Sleep(spec.PauseRead)
					}
					buf := make([]byte, 8192)
					for {
						if spec.ExpiredReader && ep == 1 {
							_ = s.SetReadDeadline(time.Now().Add(300 * time.Millisecond))
						}
						n, ppi, err := s.ReadSCTP(buf)
						if err != nil && spec.ExpiredReader && ep == 1 && errors.Is(err, ErrReadDeadlineExceeded) {
							m.Sleep(5 * time.Second)
							continue
						}
						if err != nil {
							mu.Lock()
							rerr[ep] = err
							mu.Unlock()
							return
						}
						mu.Lock()
						got[ep] = append(got[ep], rmsg{Data: string(buf[:n]), PPI: ppi})
						mu.Unlock()
						m.Logf(fmt.Sprintf("read%d", ep), "n=%d", n)
					}
				})
			}
			rB := reader(1, sbIn)
			rA := reader(0, saIn)
			m.W.faultsOn = true
			if spec.SuspendTimers {
				m.S.SuspendTimers = true
			}
			var want [2][]string
			for i, sz := range spec.Sizes {
				d := payload(1, i, sz)
				if _, err := sa.WriteSCTP(d, PayloadTypeWebRTCBinary); err != nil {
					m.Failf("write", "A write before shutdown: %v", err)
				}
				want[1] = append(want[1], string(d))
			}
			for i, sz := range spec.BSizes {
				d := payload(11, i, sz)
				if _, err := sbOut.WriteSCTP(d, PayloadTypeWebRTCBinary); err != nil {
					m.Failf("write", "B write before shutdown: %v", err)
				}
				want[0] = append(want[0], string(d))
			}
			var serr [2]error
			var sdone [2]time.Duration
			shut := func(ep int, delay time.Duration) *vsched.Thread {
				return m.Go(fmt.Sprintf("shut%d", ep), func() {
					if delay > 0 {
						m.Sleep(delay)
					}
					ctx, cancel := context.WithTimeout(context.Background(), 600*time.Second)
					defer cancel()
					err := m.As[ep].Shutdown(ctx)
					mu.Lock()
					serr[ep], sdone[ep] = err, m.S.Now()
					mu.Unlock()
					m.Logf(fmt.Sprintf("shutdown%d", ep), "err=%v", err)
				})
			}
			ts := []*vsched.Thread{shut(0, 0)}
			switch spec.Crossed {
			case 1:
				ts = append(ts, shut(1, 0))
			case 2:
				ts = append(ts, shut(1, 15*time.Millisecond))
			}
			if spec.Interrupted != "" {
				m.Sleep(spec.InterruptAfter)
				m.inject(spec.Interrupted)
			}
			if spec.LateWrite {
				m.WaitUntil("shutdown-begun", 10*time.Second, func() bool { return m.As[0].getState() != established })
				n, err := sa.WriteSCTP(payload(1, 99, 17), PayloadTypeWebRTCBinary)
				if err == nil || n != 0 {
					m.Failf("latewrite", "write on A after Shutdown began returned n=%d err=%v", n, err)
				}
				m.WaitUntil("peer-learned", 10*time.Second, func() bool { return m.As[1].getState() != established })
				if m.As[1].getState() != established {
					n, err = sbOut.WriteSCTP(payload(11, 99, 18), PayloadTypeWebRTCBinary)
					if err == nil || n != 0 {
						m.Failf("latewrite", "write on B after it entered shutdown returned n=%d err=%v", n, err)
					}
				}
			}
			// one side completes by protocol means; the other at the latest when its transport closes
			// (the last packet of the exchange can always be lost)
			firstClosed := m.WaitUntil("one-closed", 600*time.Second, func() bool { return m.As[0].getState() == closed || m.As[1].getState() == closed })
			tFirst := m.S.Now()
			m.WaitUntil("peer-closed", 10*time.Second, func() bool { return m.As[1].getState() == closed && m.As[0].getState() == closed })
			m.W.faultsOn = false
			st := [2]uint32{m.As[0].getState(), m.As[1].getState()}
			(&wconn{w: m.W, id: 0}).Close()
			(&wconn{w: m.W, id: 1}).Close()
			tClose := m.S.Now()
			m.Join(ts...)
			if d := m.S.Now() - tClose; d > time.Second {
				m.Failf("shutdown.stall", "Shutdown calls returned only %v after the transports were closed", d)
			}
			if !firstClosed {
				m.Failf("shutdown.stall", "neither endpoint completed the shutdown within 600 s (state A=%s B=%s)", getAssociationStateString(st[0]), getAssociationStateString(st[1]))
			}
			_ = tFirst
			m.CloseBoth()
			m.Join(rA, rB)
			st = [2]uint32{m.As[0].getState(), m.As[1].getState()}
			// oracles
			if serr[0] != nil && spec.Interrupted != "" {
				// the association was terminated under the shutdown: an error is the honest answer
				m.Observe("interrupted: %v", serr[0] != nil)
			} else if serr[0] != nil {
				m.Failf("shutdown.stall", "Shutdown on A returned %v (state A=%s B=%s)", serr[0], getAssociationStateString(st[0]), getAssociationStateString(st[1]))
			} else {
				cmpHistory(m, "shutdown.delivery", "B", got[1], want[1])
				if st[0] != closed {
					m.Failf("shutdown.closed", "A is in state %s after Shutdown returned nil", getAssociationStateString(st[0]))
				}
			}
			if spec.Crossed != 0 {
				if serr[1] != nil && serr[1].Error() != "" {
					// a crossed Shutdown may legitimately find the association no longer established
					if m.As[1].getState() != closed {
						m.Failf("shutdown.stall", "crossed Shutdown on B returned %v", serr[1])
					}
				} else {
					cmpHistory(m, "shutdown.delivery", "A", got[0], want[0])
				}
			}
			for ep := 0; ep < 2; ep++ {
				if m.As[ep].getState() != closed {
					m.Failf("shutdown.closed", "endpoint %d still in state %s after its transport was closed", ep, getAssociationStateString(m.As[ep].getState()))
				}
				if rerr[ep] == nil {
					m.Failf("shutdown.closed", "endpoint %d: reader never saw the closure", ep)
				}
			}
			m.Observe("serr=%v/%v got=%d/%d", serr[0], serr[1], len(got[0]), len(got[1]))
		},
		Final: func(m *Sim, x *Exec) {
			generalVerdicts(m, x, true)
			// no stall: Shutdown returns within 8 RTOmax (+ drain time) of the heal point
		},
	}
}

func cmpHistory(m *Sim, oracle, who string, got []rmsg, want []string) {
	if len(got) != len(want) {
		m.Failf(oracle, "%s read %d messages before closure, %d were accepted before Shutdown", who, len(got), len(want))
		return
	}
	for i := range got {
		if got[i].Data != want[i] {
			m.Failf(oracle, "%s: message %d differs from what was written", who, i)
			return
		}
	}
}

func propC08(j *Job) {
	// Shutdown while four writers on four streams are blocked in blocking-write mode (program of
	// C20): all of them are released, the call returns and both sides close
	{
		mode := stdModes()[0]
		a := withBase(mode.A, 228, 0xFFFFFFFE, 4000)
		a.BlockWrite = true
		b := withBase(mode.B, 228, 0xFFFFFFF0, 4000)
		b.RecvBuf = 1500
		j.Explore("CB/"+mode.Name+"/W1b+Wxb+Wyb+Wzb+Xh", concScenario(&concSpec{A: a, B: b, prog: "W1b Wxb Wyb Wzb Xh", yield: true}), Budget{}, nil)
	}
	// Close by another goroutine while Shutdown waits for data that never gets through
	for _, mode := range stdModes()[:2] {
		j.Explore("CS/"+mode.Name, closeDuringShutdownScenario(withBase(mode.A, 228, 0xFFFFFFFE, 4000), withBase(mode.B, 228, 50, 4000)), Budget{D: map[bool]int{false: 2, true: 3}[j.Thorough()]}, nil)
	}
	modes := stdModes()
	faults := faultSet{Drop: true, Dup: true, Late: true, Swap: true}
	for mi, mode := range modes {
		mtu := uint32(100)
		il := !mode.A.NoInterleave
		P := int(maxPayloadSizeForMTU(mtu, il))
		sizeSets := [][]int{{}, {9}, {60, 3*P + 1, 61, 62, 63, 64, 65, 66}}
		for si, sizes := range sizeSets {
			for crossed := 0; crossed <= 2; crossed++ {
				for _, bdata := range []bool{false, true} {
					for _, late := range []bool{false, true} {
						if !j.Thorough() && (late && (crossed != 0 || bdata)) {
							continue
						}
						if !j.Thorough() && mi > 0 && crossed == 2 {
							continue
						}
						var bs []int
						if bdata {
							bs = []int{20, 2*P + 2, 21, 22, 23, 24, 25}
						}
						spec := &shutSpec{A: withBase(mode.A, mtu, 0xFFFFFFFC, 4000), B: withBase(mode.B, mtu, 0xFFFFFFF7, 4000),
							Sizes: sizes, BSizes: bs, Crossed: crossed, LateWrite: late, Faults: faults}
						k := 1
						if j.Thorough() {
							k = 2
						}
						if !j.Thorough() && si == 1 && crossed == 0 && !bdata && !late {
							k = 2
						}
						j.Explore(fmt.Sprintf("S/%s/m%d/x%d/bdata%v/late%v", mode.Name, len(sizes), crossed, bdata, late), shutScenario(spec), Budget{K: k}, nil)
						if j.capped() {
							return
						}
						if j.Thorough() && !late && si == 1 {
							ss := *spec
							ss.SuspendTimers = true
							j.Explore(fmt.Sprintf("S/%s/m%d/x%d/bdata%v/suspend", mode.Name, len(sizes), crossed, bdata), shutScenario(&ss), Budget{K: 1, D: 1}, nil)
							if j.capped() {
								return
							}
						}
						if !bdata && !late && crossed == 0 && si == 1 {
							ks := *spec
							ks.KillShutdown = 7
							j.Explore(fmt.Sprintf("S/%s/m%d/shutdown-lost7", mode.Name, len(sizes)), shutScenario(&ks), Budget{K: 0}, nil)
							if j.capped() {
								return
							}
						}
						if !bdata && !late && si > 0 && crossed < 2 {
							es := *spec
							es.ExpiredReader = true
							j.Explore(fmt.Sprintf("S/%s/m%d/x%d/expired-reader", mode.Name, len(sizes), crossed), shutScenario(&es), Budget{K: 1}, nil)
							if j.capped() {
								return
							}
						}
						if !bdata && !late && si > 0 {
							// (crossed: B's SHUTDOWN finds A with all its data still unacknowledged)
							for _, ev := range []string{"abortB", "readerrA", "closeB"} {
								is := *spec
								is.Interrupted, is.InterruptAfter = ev, 2*time.Second
								name := fmt.Sprintf("S/%s/m%d/interrupted/%s", mode.Name, len(sizes), ev)
								if crossed != 0 {
									name = fmt.Sprintf("S/%s/m%d/x%d/interrupted/%s", mode.Name, len(sizes), crossed, ev)
								}
								j.Explore(name, shutScenario(&is), Budget{K: 0}, nil)
								if j.capped() {
									return
								}
							}
						}
						if bdata && !late && crossed == 0 && si < 2 {
							// the peer's data is acknowledged by SHUTDOWN chunks only, and partially
							for _, ks := range []int{0, 2, 100000} {
								for _, offs := range [][]uint32{{5, 6}, {4}, {1, 8}} {
									if !j.Thorough() && (ks == 0 || len(offs) == 1) {
										continue
									}
									ls := *spec
									ls.KillBOff, ls.KillSacks = offs, ks
									kk := 0
									if j.Thorough() {
										kk = 1
									}
									j.Explore(fmt.Sprintf("S/%s/m%d/partial-ack/sacks%d/off%v", mode.Name, len(sizes), ks, offs), shutScenario(&ls), Budget{K: kk}, nil)
									if j.capped() {
										return
									}
								}
							}
						}
					}
				}
			}
		}
	}
}
