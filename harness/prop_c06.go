package sctp

import (
	"fmt"
	"github.com/pion/sctp/internal/vsched"
	"sort"
	"strings"
	"time"
)

func init() {
	register("C06", propC06)
	register("C07", propC07)
}

// msgOfTSN maps every transmitted TSN of endpoint snd to the message fragment it carries.
func msgOfTSN(spec *xferSpec, f *wireFacts, snd int) map[uint32]fragID {
	tab := fragTable(spec)
	out := map[uint32]fragID{}
	for tsn, rec := range f.Xmit[snd] {
		if id, ok := tab[fmt.Sprintf("%d/%s", rec.SID, rec.Data)]; ok {
			out[tsn] = id
		}
	}
	return out
}

// policyOracle: transmission-count and lifetime bounds of partially reliable streams.
func policyOracle(m *Sim, spec *xferSpec, f *wireFacts) {
	for _, st := range spec.Streams {
		snd := st.From
		ids := msgOfTSN(spec, f, snd)
		firstTx := map[int]time.Duration{} // message -> first transmission of any of its chunks
		for tsn, id := range ids {
			if id.SID != st.SID {
				continue
			}
			t0 := f.Xmit[snd][tsn].Times[0]
			if old, ok := firstTx[id.Msg]; !ok || t0 < old {
				firstTx[id.Msg] = t0
			}
		}
		// instant from which every fragment of a message has been on the wire at least once
		// (never, if some fragment was not transmitted at all)
		nFrags := map[int]int{}
		for _, id := range fragTable(spec) {
			if id.SID == st.SID {
				nFrags[id.Msg]++
			}
		}
		sentFrags := map[int]int{}
		allSentAt := map[int]time.Duration{}
		for tsn, id := range ids {
			if id.SID != st.SID {
				continue
			}
			sentFrags[id.Msg]++
			if t0 := f.Xmit[snd][tsn].Times[0]; t0 > allSentAt[id.Msg] {
				allSentAt[id.Msg] = t0
			}
		}
		late := map[int]int{}
		for tsn, id := range ids {
			if id.SID != st.SID {
				continue
			}
			rec := f.Xmit[snd][tsn]
			ms := st.Msgs[id.Msg]
			relType, relVal := st.RelType, st.RelVal
			// per-message overrides
			for i := 0; i <= id.Msg; i++ {
				if r := st.Msgs[i].Rel; r != nil {
					relType, relVal = r.Type, r.Val
				}
			}
			if ms.PPI == PayloadTypeWebRTCDCEP {
				if rec.U {
					m.Failf("policy.dcep", "stream %d: DCEP message %d was sent with the U bit", st.SID, id.Msg)
				}
				continue
			}
			switch relType {
			case ReliabilityTypeRexmit:
				if len(rec.Times) > int(relVal)+1 {
					// classified apart: the excess transmission happened while later fragments of
					// the same message had not been sent yet (the message cannot be abandoned then)
					oracle := "policy.rexmit"
					if extra := rec.Times[int(relVal)+1]; sentFrags[id.Msg] < nFrags[id.Msg] || extra <= allSentAt[id.Msg] {
						oracle = "policy.rexmit.partly-sent"
					}
					m.Failf(oracle, "stream %d (rexmit %d): TSN %d (message %d fragment %d) was put on the wire %d times at %v", st.SID, relVal, tsn, id.Msg, id.Frag, len(rec.Times), rec.Times)
				}
			case ReliabilityTypeTimed:
				limit := firstTx[id.Msg] + time.Duration(relVal)*time.Millisecond
				for _, t := range rec.Times[1:] {
					if t > limit {
						late[id.Msg]++
					}
				}
			}
		}
		for msg, n := range late {
			if n > 1 {
				m.Failf("policy.timed", "stream %d (lifetime %d ms): message %d had %d transmissions after its lifetime expired (first sent at %v)", st.SID, st.RelVal, msg, n, firstTx[msg])
			}
		}
	}
}

// fullyDeliveredOracle: a message all of whose fragments reached the receiver before any
// FORWARD-TSN covering one of them was delivered must be readable, whatever else was skipped.
func fullyDeliveredOracle(m *Sim, x *Exec, spec *xferSpec, f *wireFacts, r *xferResult) {
	for _, st := range spec.Streams {
		snd := st.From
		ids := msgOfTSN(spec, f, snd)
		// per message: set of fragments; delivery time of each TSN at the receiver
		type mstat struct {
			frags  map[int]uint32
			nfrags int
		}
		ms := map[int]*mstat{}
		for tsn, id := range ids {
			if id.SID != st.SID {
				continue
			}
			if ms[id.Msg] == nil {
				ms[id.Msg] = &mstat{frags: map[int]uint32{}}
			}
			ms[id.Msg].frags[id.Frag] = tsn
		}
		P := 0
		for i := range st.Msgs {
			data := payload(st.SID, i, st.Msgs[i].Size)
			if ms[i] != nil {
				if P == 0 {
					for _, tsn := range ms[i].frags {
						if l := f.Xmit[snd][tsn].Len; l > P {
							P = l
						}
					}
				}
			}
			_ = data
		}
		// first delivery order index of every TSN and of every FORWARD-TSN point
		firstDeliv := map[uint32]int{}
		type fw struct {
			at  int
			cum uint32
		}
		var fwds []fw
		for i, ev := range x.Events {
			if ev.Kind != "deliver" || ev.From != snd || ev.Pkt.dec == nil {
				continue
			}
			for _, c := range ev.Pkt.dec.Chunks {
				switch c.Typ {
				case wDATA, wIDATA:
					if _, ok := firstDeliv[c.TSN]; !ok {
						firstDeliv[c.TSN] = i
					}
				case wFWDTSN, wIFWDTSN:
					fwds = append(fwds, fw{i, c.NewCum})
				}
			}
		}
		readSet := map[int]bool{}
		for _, rm := range r.Read[st.SID] {
			readSet[msgID(r.Written[st.SID], rm)] = true
		}
		for idx, w := range r.Written[st.SID] {
			if w.Err != nil || len(w.Data) == 0 || readSet[idx] {
				continue
			}
			st2 := ms[idx]
			if st2 == nil {
				continue
			}
			// how many fragments should exist?
			nf := 0
			for fI := range st2.frags {
				if fI+1 > nf {
					nf = fI + 1
				}
			}
			total := 0
			for _, tsn := range st2.frags {
				total += f.Xmit[snd][tsn].Len
			}
			if total != len(w.Data) || len(st2.frags) != nf {
				continue // not every fragment was ever transmitted
			}
			complete := true
			last := -1
			for _, tsn := range st2.frags {
				d, ok := firstDeliv[tsn]
				if !ok {
					complete = false
					break
				}
				if d > last {
					last = d
				}
			}
			if !complete {
				continue
			}
			skippedEarlier := false
			for _, fwd := range fwds {
				if fwd.at < last {
					for _, tsn := range st2.frags {
						if sna32lte(tsn, fwd.cum) {
							skippedEarlier = true
						}
					}
				}
			}
			if skippedEarlier {
				continue
			}
			if !r.Drained {
				continue
			}
			m.Failf("skip.destroyed", "stream %d message %d: every fragment reached the receiver (before any skip covering it) but it was never readable; read: %s", st.SID, idx, deliverySummary(spec, r))
		}
	}
}

// forwardTSNOracle: the stream list of every (I-)FORWARD-TSN names exactly the abandoned messages.
func forwardTSNOracle(m *Sim, x *Exec, spec *xferSpec, f *wireFacts) {
	for snd := 0; snd < 2; snd++ {
		ids := msgOfTSN(spec, f, snd)
		// sender's cumulative ack point over time: from SACKs delivered to snd
		ack := f.InitTSN[snd] - 1
		haveAck := f.HaveInit[snd]
		for _, ev := range x.Events {
			if ev.Pkt.dec == nil {
				continue
			}
			if ev.Kind == "deliver" && ev.From == 1-snd {
				for _, c := range ev.Pkt.dec.Chunks {
					if c.Typ == wSACK && haveAck && sna32lt(ack, c.CumAck) {
						ack = c.CumAck
					}
				}
			}
			if ev.Kind != "send" || ev.From != snd || !haveAck {
				continue
			}
			for _, c := range ev.Pkt.dec.Chunks {
				if c.Typ != wFWDTSN && c.Typ != wIFWDTSN {
					continue
				}
				type key struct {
					sid uint16
					u   bool
				}
				want := map[key]uint32{}
				for tsn := ack + 1; sna32lte(tsn, c.NewCum); tsn++ {
					rec := f.Xmit[snd][tsn]
					if rec == nil {
						m.Failf("fwd.range", "endpoint %d: FORWARD-TSN to %d covers TSN %d that was never sent", snd, c.NewCum, tsn)
						break
					}
					if c.Typ == wFWDTSN {
						if rec.U {
							continue // unordered messages have no stream entry
						}
						k := key{rec.SID, false}
						if old, ok := want[k]; !ok || sna16LT(uint16(old), rec.SSN) {
							want[k] = uint32(rec.SSN)
						}
					} else {
						k := key{rec.SID, rec.U}
						if old, ok := want[k]; !ok || sna32lt(old, rec.MID) {
							want[k] = rec.MID
						}
					}
					// an acknowledged-by-gap or reliable chunk must never be skipped
					if id, ok := ids[tsn]; ok {
						for _, st := range spec.Streams {
							if st.SID == id.SID && st.From == snd && isReliable(st) && st.Msgs[id.Msg].Rel == nil {
								m.Failf("fwd.reliable", "endpoint %d: FORWARD-TSN to %d skips TSN %d of reliable stream %d (message %d)", snd, c.NewCum, tsn, st.SID, id.Msg)
							}
						}
					}
				}
				got := map[key]uint32{}
				for _, s := range c.Streams {
					if c.Typ == wFWDTSN {
						got[key{s.SID, false}] = uint32(s.SSN)
					} else {
						got[key{s.SID, s.Unordered}] = s.MID
					}
				}
				if len(got) != len(want) {
					m.Failf("fwd.list", "endpoint %d: %s names %v but the abandoned range (%d,%d] calls for %v", snd, c.Summary(), got, ack, c.NewCum, want)
					continue
				}
				keys := make([]key, 0, len(want))
				for k := range want {
					keys = append(keys, k)
				}
				sort.Slice(keys, func(i, j int) bool { return keys[i].sid < keys[j].sid })
				for _, k := range keys {
					if g, ok := got[k]; !ok || g != want[k] {
						m.Failf("fwd.list", "endpoint %d: %s names %v but the abandoned range (%d,%d] calls for %v", snd, c.Summary(), got, ack, c.NewCum, want)
						break
					}
				}
			}
		}
	}
}

func prFinal(spec *xferSpec, c07 bool) func(m *Sim, x *Exec, r *xferResult) {
	return func(m *Sim, x *Exec, r *xferResult) {
		generalVerdicts(m, x, false)
		if !r.Connected {
			m.Failf("connect", "handshake failed: %v %v", m.Err[0], m.Err[1])
			return
		}
		if !r.Drained {
			m.Failf("stall", "not drained at %v: buffered A=%d B=%d delivered %s", r.DrainAt, bufAmt(m.As[0]), bufAmt(m.As[1]), deliverySummary(spec, r))
		}
		for _, st := range spec.Streams {
			checkDelivery(m, "delivery", st, r.Written[st.SID], r.Read[st.SID], r.Drained)
		}
		f := runWireMonitors(m, x, monOpts{})
		lateReads(m, spec, r)
		if c07 {
			fullyDeliveredOracle(m, x, spec, f, r)
			forwardTSNOracle(m, x, spec, f)
		} else {
			policyOracle(m, spec, f)
		}
		m.Observe("%s drained=%v", deliverySummary(spec, r), r.Drained)
	}
}

func propC06(j *Job) {
	modes := stdModes()
	type pol struct {
		name string
		typ  byte
		val  uint32
	}
	pols := []pol{{"rel", ReliabilityTypeReliable, 0}, {"rx0", ReliabilityTypeRexmit, 0}, {"rx1", ReliabilityTypeRexmit, 1}, {"rx2", ReliabilityTypeRexmit, 2},
		{"t0", ReliabilityTypeTimed, 0}, {"t500", ReliabilityTypeTimed, 500}, {"t1500", ReliabilityTypeTimed, 1500}}
	var cases []xferCase
	for mi, mode := range modes {
		mtu := uint32(100)
		il := !mode.A.NoInterleave
		P := int(maxPayloadSizeForMTU(mtu, il))
		for _, unordered := range []bool{false, true} {
			for pi, p := range pols {
				for _, frag := range []int{1, 3} {
					if !j.Thorough() && (mi+pi+frag)%2 == 1 && p.typ != ReliabilityTypeTimed {
						// quick tier: half of the grid (alternating), all timed policies
						continue
					}
					size := 20
					if frag == 3 {
						size = 2*P + 10
					}
					msgs := []msgSpec{{Size: size, PPI: 53}, {Size: size + 1, PPI: 51}, {Size: size + 2, PPI: 53}, {Size: size + 3, PPI: 51}}
					if unordered && p.typ != ReliabilityTypeReliable {
						// two control messages: they are ordered among themselves
						msgs[2].PPI = PayloadTypeWebRTCDCEP
						msgs[3].PPI = PayloadTypeWebRTCDCEP
					}
					kns := []int{0, int(p.val) + 2}
					if p.typ == ReliabilityTypeTimed {
						kns = []int{0, 3, 5}
					}
					for _, kn := range kns {
						k := 1
						if kn == 0 && j.Thorough() {
							k = 2
						}
						spec := &xferSpec{
							A: withBase(mode.A, mtu, 0xFFFFFFFA, 4000), B: withBase(mode.B, mtu, 50, 4000),
							Streams: []streamSpec{
								{SID: 1, From: 0, Unordered: unordered, RelType: p.typ, RelVal: p.val, Msgs: msgs},
								{SID: 2, From: 0, Msgs: []msgSpec{{Size: 30, PPI: 53}, {Size: P + 3, PPI: 53}}},
								{SID: 3, From: 0, Unordered: true, Msgs: []msgSpec{{Size: 2*P + 4, PPI: 51}, {Size: 2*P + 5, PPI: 51}}},
							},
							Faults:     faultSet{Drop: true, Dup: true, Late: true, Swap: true},
							Interleave: true,
						}
						if kn > 0 {
							fr := 0
							if frag == 3 {
								fr = 1
							}
							spec.Kill = []killRule{{SID: 1, Msg: 1, Frag: fr, N: kn}}
							k = 1
							if j.Thorough() && p.typ == ReliabilityTypeRexmit && p.val == 0 {
								k = 2
							}
						}
						cases = append(cases, xferCase{Name: fmt.Sprintf("P/%s/U%v/%s/f%d/kill%d", mode.Name, unordered, p.name, frag, kn), K: k, Spec: spec})
					}
				}
			}
		}
	}
	if j.Thorough() {
		cases = append(cases, famKS(modes, 3, true, []time.Duration{0, 300 * time.Millisecond}, 4)...)
	} else {
		cases = append(cases, famKS(modes, 2, true, []time.Duration{0}, 3)...)
	}
	// T8: a timed message of 8 fragments needs two congestion-window flights; the round trip is
	// longer than the lifetime, so the second flight is first sent after the message expired and
	// its lost fragments must not be retransmitted.
	for _, mode := range modes {
		mtu := uint32(100)
		il := !mode.A.NoInterleave
		P := int(maxPayloadSizeForMTU(mtu, il))
		lives := []uint32{300, 900}
		if j.Thorough() {
			lives = []uint32{300, 500, 700, 900, 1100, 1500}
		}
		for _, life := range lives {
			for _, lost := range [][]int{{5, 6, 7}, {4}, {5}, {0, 6}} {
				var kills []killRule
				for _, f := range lost {
					kills = append(kills, killRule{SID: 1, Msg: 0, Frag: f, N: 2})
				}
				spec := &xferSpec{
					A: withBase(mode.A, mtu, 0xFFFFFFFA, 4000), B: withBase(mode.B, mtu, 50, 4000),
					Delay: 250 * time.Millisecond,
					Streams: []streamSpec{
						{SID: 1, From: 0, RelType: ReliabilityTypeTimed, RelVal: life, Msgs: []msgSpec{{Size: 7*P + 5, PPI: 53}, {Size: 9, PPI: 51}}},
						{SID: 2, From: 0, Msgs: []msgSpec{{Size: 30, PPI: 53}}},
					},
					Faults: faultSet{Drop: true, Late: true},
					Kill:   kills,
				}
				k := 0
				if j.Thorough() {
					k = 1
				}
				cases = append(cases, xferCase{Name: fmt.Sprintf("T8/%s/life%d/lost%v", mode.Name, life, lost), K: k, Spec: spec})
			}
		}
	}
	// blocking writes with a deadline on an unordered stream that also carries data-channel control
	// messages (always ordered and reliable): writes that give up while the window is closed leave
	// no trace in the sequence numbers of what is written afterwards
	for _, mode := range modes[:2] {
		a := withBase(mode.A, 228, 0xFFFFFFF0, 4000)
		a.BlockWrite = true
		b := withBase(mode.B, 228, 9, 4000)
		b.RecvBuf = 1500
		var msgs []msgSpec
		for i := 0; i < 14; i++ {
			ppi := PayloadProtocolIdentifier(53)
			if i%4 == 0 {
				ppi = PayloadTypeWebRTCDCEP
			}
			msgs = append(msgs, msgSpec{Size: 400, PPI: ppi})
		}
		cases = append(cases, xferCase{Name: fmt.Sprintf("BD/%s/unordered+dcep", mode.Name), K: 0,
			Spec: &xferSpec{A: a, B: b, PauseReader: 3 * time.Second, NoSackComplete: true, WriteTimeout: 500 * time.Millisecond,
				Streams: []streamSpec{{SID: 1, From: 0, Unordered: true, Msgs: msgs}}}})
	}
	runCases(j, cases, func(spec *xferSpec) func(m *Sim, x *Exec, r *xferResult) { return prFinal(spec, false) })
	for _, mode := range modes {
		for _, lim := range []uint32{0, 2} {
			j.Explore(fmt.Sprintf("PRR/%s/rx%d", mode.Name, lim), prAfterPeerResetScenario(withBase(mode.A, 228, 0xFFFFFFFA, 4000), withBase(mode.B, 228, 50, 4000), lim, 0), Budget{}, nil)
			if lim == 0 {
				for _, ro := range []int{1, 2} {
					j.Explore(fmt.Sprintf("PRR/%s/reopen%d", mode.Name, ro), prAfterPeerResetScenario(withBase(mode.A, 228, 0xFFFFFFFA, 4000), withBase(mode.B, 228, 50, 4000), lim, ro), Budget{}, nil)
				}
			}
		}
	}
}

func propC07(j *Job) {
	modes := stdModes()
	var cases []xferCase
	for _, mode := range modes {
		mtu := uint32(100)
		il := !mode.A.NoInterleave
		P := int(maxPayloadSizeForMTU(mtu, il))
		type shape struct {
			name string
			size int
			frag int // fragment to kill, -1 all
		}
		shapes := []shape{{"whole", 20, -1}, {"frag2of3", 2*P + 10, 1}, {"frag1of3", 2*P + 10, 0}}
		positions := [][]int{{0}, {1}, {3}, {1, 2}}
		mixes := []string{"ordered", "unordered", "mixed", "dcep"}
		for _, sh := range shapes {
			for pi, pos := range positions {
				for _, mix := range mixes {
					for rc := 0; rc < 3; rc++ {
						recvSame, recvOpp := rc == 1, rc == 2
						if !j.Thorough() && (rc > 0 && (pi%2 == 1)) {
							continue
						}
						msgs := make([]msgSpec, 4)
						for i := range msgs {
							msgs[i] = msgSpec{Size: sh.size + i, PPI: 53}
						}
						st := streamSpec{SID: 1, From: 0, RelType: ReliabilityTypeRexmit, RelVal: 0, Msgs: msgs, RecvSameCfg: recvSame, RecvOpposite: recvOpp}
						switch mix {
						case "unordered":
							st.Unordered = true
						case "mixed":
							// messages alternate unordered / ordered on one stream
							for i := range msgs {
								msgs[i].Rel = &relParams{Unordered: i%2 == 0, Type: ReliabilityTypeRexmit, Val: 0}
							}
						case "dcep":
							st.Unordered = true
							msgs[2].PPI = PayloadTypeWebRTCDCEP
						}
						var kills []killRule
						for _, p := range pos {
							kills = append(kills, killRule{SID: 1, Msg: p, Frag: sh.frag, N: 1})
						}
						spec := &xferSpec{
							A: withBase(mode.A, mtu, 0xFFFFFFF9, 4000), B: withBase(mode.B, mtu, 50, 4000),
							Streams: []streamSpec{st,
								{SID: 2, From: 0, Msgs: []msgSpec{{Size: P + 3, PPI: 53}, {Size: 30, PPI: 53}, {Size: 11, PPI: 53}}}},
							Faults:     faultSet{Drop: true, Late: true, Swap: true},
							Interleave: true,
							Kill:       kills,
						}
						k := 0
						if pi == 0 || j.Thorough() {
							k = 1
						}
						if pi == 0 && rc == 0 && j.Thorough() {
							k = 2
						}
						cases = append(cases, xferCase{Name: fmt.Sprintf("A/%s/%s/pos%v/%s/recv%d", mode.Name, sh.name, pos, mix, rc), K: k, Spec: spec})
						if rc == 0 {
							// slow writer: the skip reaches the receiver before anything else of that stream
							slow := *spec
							slow.WriteGap = 300 * time.Millisecond
							cases = append(cases, xferCase{Name: fmt.Sprintf("A/%s/%s/pos%v/%s/slow", mode.Name, sh.name, pos, mix), K: 0, Spec: &slow})
						}
					}
				}
			}
		}
	}
	cases = append(cases, famW5(modes, 2)...)
	if j.Thorough() {
		cases = append(cases, withSuspend(famW5(modes, 1), 1)...)
	}
	// a partially reliable stream alone on the association: consecutive TSNs belong to
	// consecutive messages, so one FORWARD-TSN covers a lost message together with later ones the
	// receiver already holds completely (they must be handed to the reader parked in ReadSCTP)
	for _, mode := range modes {
		for _, lost := range [][]int{{0}, {1}, {0, 2}, {1, 2}} {
			for _, un := range []bool{false, true} {
				var msgs []msgSpec
				for i := 0; i < 5; i++ {
					msgs = append(msgs, msgSpec{Size: 20 + i, PPI: 53})
				}
				var kills []killRule
				for _, l := range lost {
					kills = append(kills, killRule{SID: 1, Msg: l, Frag: -1, N: 1})
				}
				spec := &xferSpec{
					A: withBase(mode.A, 100, 0xFFFFFFFC, 4000), B: withBase(mode.B, 100, 50, 4000),
					Streams: []streamSpec{{SID: 1, From: 0, Unordered: un, RelType: ReliabilityTypeRexmit, RelVal: 0, Gap: 2 * time.Millisecond, Msgs: msgs}},
					Faults:  faultSet{Drop: true, Late: true},
					Kill:    kills,
				}
				k := 0
				if j.Thorough() {
					k = 1
				}
				cases = append(cases, xferCase{Name: fmt.Sprintf("P1/%s/U%v/lost%v", mode.Name, un, lost), K: k, Spec: spec})
			}
		}
	}
	cases = append(cases, famM1(modes, j.Thorough())...)
	if j.Thorough() {
		cases = append(cases, famKS(modes, 3, true, []time.Duration{0, 300 * time.Millisecond}, 4)...)
	} else {
		cases = append(cases, famKS(modes, 2, true, []time.Duration{0, 300 * time.Millisecond}, 3)...)
	}
	runCases(j, cases, func(spec *xferSpec) func(m *Sim, x *Exec, r *xferResult) { return prFinal(spec, true) })
	for _, mode := range modes {
		j.Explore(fmt.Sprintf("PRR/%s/rx0", mode.Name), prAfterPeerResetScenario(withBase(mode.A, 228, 0xFFFFFFFA, 4000), withBase(mode.B, 228, 50, 4000), 0, 0), Budget{}, nil)
	}
	for _, mode := range modes {
		j.Explore(fmt.Sprintf("FR/%s", mode.Name), fwdAcrossResetScenario(withBase(mode.A, 228, 0xFFFFFFF9, 4000), withBase(mode.B, 228, 50, 4000)), Budget{}, nil)
		// several readers blocked on the stream whose queued messages a skip report releases
		j.Explore(fmt.Sprintf("RS/%s/readers2", mode.Name), readersGapScenario(withBase(mode.A, 228, 0xFFFFFFFE, 4000), withBase(mode.B, 228, 0xFFFFFFF0, 4000), 2, true), Budget{D: map[bool]int{false: 0, true: 1}[j.Thorough()]}, nil)
		for _, v := range []string{"crossing", "lost-sacks", "lost-sacks+resp", "late-sack", "resp-unregistered"} {
			j.Explore(fmt.Sprintf("FG/%s/%s", mode.Name, v), fwdAfterResetScenario(withBase(mode.A, 228, 0xFFFFFFF9, 4000), withBase(mode.B, 228, 50, 4000), v), Budget{}, nil)
		}
	}
	for _, mode := range modes {
		j.Explore(fmt.Sprintf("FB/%s", mode.Name), fwdBacklogScenario(withBase(mode.A, 228, 0xFFFFFFF9, 4000), withBase(mode.B, 228, 50, 4000)), Budget{}, nil)
	}
}

// famM1: three streams share the TSN space round-robin: an unreliable stream loses a message
// (abandoned), a second unreliable stream loses nothing, and a reliable stream loses one first
// transmission right behind, so the skip point stops between messages of the healthy stream:
// the FORWARD-TSN then names sequence numbers its receiver has already delivered.
func famM1(modes []modeSpec, thorough bool) []xferCase {
	var out []xferCase
	for _, mode := range modes {
		mtu := uint32(100)
		for _, gap := range []time.Duration{0, 300 * time.Millisecond} {
			for _, lost := range [][2]int{{0, 0}, {0, 1}, {1, 1}} {
				for _, un := range []bool{false, true} {
					if un && !thorough {
						continue
					}
					mk := func(n, size int) []msgSpec {
						var ms []msgSpec
						for i := 0; i < n; i++ {
							ms = append(ms, msgSpec{Size: size + i, PPI: 53})
						}
						return ms
					}
					spec := &xferSpec{
						A: withBase(mode.A, mtu, 0xFFFFFFF7, 4000), B: withBase(mode.B, mtu, 50, 4000),
						Streams: []streamSpec{
							{SID: 3, From: 0, Unordered: un, RelType: ReliabilityTypeRexmit, RelVal: 0, Msgs: mk(3, 58)},
							{SID: 1, From: 0, RelType: ReliabilityTypeRexmit, RelVal: 0, Msgs: mk(5, 61)},
							{SID: 2, From: 0, Msgs: mk(3, 64)},
						},
						Faults:     faultSet{Drop: true, Late: true, Swap: true},
						Interleave: true,
						WriteGap:   gap,
						Kill:       []killRule{{SID: 3, Msg: lost[0], Frag: -1, N: 1}, {SID: 2, Msg: lost[1], Frag: -1, N: 1}},
					}
					k := 0
					if thorough || (gap == 0 && lost == [2]int{0, 0}) {
						k = 1
					}
					out = append(out, xferCase{Name: fmt.Sprintf("M1/%s/gap%v/lost%v/U%v", mode.Name, gap, lost, un), K: k, Spec: spec})
				}
			}
		}
	}
	return out
}

// prAfterPeerResetScenario: the peer has reset its direction of a stream (the local side read
// end-of-stream) while the local direction stays open and keeps its retransmission limit: a
// message written then and lost is sent no more often than the limit allows.
// reopen: 0 = not at all; 1 = while the message is outstanding the application opens the
// identifier again (the table entry went with the peer's reset) and gives the new incarnation
// the reliable policy; 2 = the message was written reliable and the new incarnation gets
// "no retransmission".  The message keeps the policy it was written under.
func prAfterPeerResetScenario(a, b epCfg, limit uint32, reopen int) *Scenario {
	return &Scenario{
		Name:    "pr-after-peer-reset",
		Horizon: 120 * time.Second,
		Body: func(m *Sim) {
			if !m.Connect(a, b) {
				m.Failf("connect", "handshake failed: %v %v", m.Err[0], m.Err[1])
				m.closeFailedTransports()
				m.CloseBoth()
				return
			}
			sa, _ := m.As[0].OpenStream(1, PayloadTypeWebRTCBinary)
			sb, _ := m.As[1].OpenStream(1, PayloadTypeWebRTCBinary)
			m.streamsSeen = append(m.streamsSeen, sa, sb)
			sa.SetReliabilityParams(false, ReliabilityTypeRexmit, limit)
			if reopen == 2 {
				sa.SetReliabilityParams(false, ReliabilityTypeReliable, 0)
			}
			var got []string
			rdB := m.Go("readB", func() {
				buf := make([]byte, 2000)
				for {
					n, _, err := sb.ReadSCTP(buf)
					if err != nil {
						return
					}
					m.mu.Lock()
					got = append(got, string(buf[:n]))
					m.mu.Unlock()
				}
			})
			eofA := false
			rdA := m.Go("readA", func() {
				buf := make([]byte, 2000)
				for {
					if _, _, err := sa.ReadSCTP(buf); err != nil {
						eofA = true
						return
					}
				}
			})
			_, _ = sa.WriteSCTP(payload(1, 0, 30), PayloadTypeWebRTCBinary)
			m.Sleep(500 * time.Millisecond)
			_ = sb.Close() // B resets its outgoing direction
			if !m.WaitUntil("reset-at-A", 20*time.Second, func() bool { return eofA }) {
				m.Failf("pr.base", "A never saw the end of the peer's direction")
			}
			m.Sleep(time.Second)
			if sa.State() != StreamStateOpen {
				m.Failf("pr.base", "A's direction is %v after the peer reset its own", sa.State())
			}
			// every DATA packet from A is lost from now on for 20 s
			lossy := true
			m.W.killFn = func(p *wpkt) bool {
				if !lossy || p.from != 0 || p.dec == nil {
					return false
				}
				for _, c := range p.dec.Chunks {
					if c.Typ == wDATA || c.Typ == wIDATA {
						return true
					}
				}
				return false
			}
			ev0 := len(m.W.events)
			msg := payload(1, 1, 40)
			if _, err := sa.WriteSCTP(msg, PayloadTypeWebRTCBinary); err != nil {
				m.Failf("pr.base", "write on the still open direction: %v", err)
			}
			if reopen != 0 {
				m.Sleep(300 * time.Millisecond)
				if s2, err := m.As[0].OpenStream(1, PayloadTypeWebRTCBinary); err == nil && s2 != sa {
					m.streamsSeen = append(m.streamsSeen, s2)
					if reopen == 1 {
						s2.SetReliabilityParams(false, ReliabilityTypeReliable, 0)
					} else {
						s2.SetReliabilityParams(false, ReliabilityTypeRexmit, 0)
					}
				}
			}
			m.Sleep(20 * time.Second)
			lossy = false
			n, fwd := 0, 0
			for _, ev := range m.W.events[ev0:] {
				if ev.Kind != "send" || ev.From != 0 || ev.Pkt.dec == nil {
					continue
				}
				for _, c := range ev.Pkt.dec.Chunks {
					if (c.Typ == wDATA || c.Typ == wIDATA) && string(c.Data) == string(msg) {
						n++
					}
					if c.Typ == wFWDTSN || c.Typ == wIFWDTSN {
						fwd++
					}
				}
			}
			if reopen == 2 {
				okMsg := m.WaitUntil("reliable-delivered", 60*time.Second, func() bool {
					m.mu.Lock()
					defer m.mu.Unlock()
					for _, g := range got {
						if g == string(msg) {
							return true
						}
					}
					return false
				})
				if !okMsg || fwd > 0 {
					m.Failf("policy.reliable-abandoned", "a message written under the reliable policy was still outstanding when the identifier was opened again with 'no retransmission': delivered=%v, %d forward-TSN chunks sent, on the wire %d times", okMsg, fwd, n)
				}
				m.Observe("sent=%d fwd=%d ok=%v", n, fwd, okMsg)
				m.CloseBoth()
				m.Join(rdA, rdB)
				return
			}
			if n > int(limit)+1 {
				m.Failf("policy.rexmit", "after the peer reset its direction of the stream a message with retransmission limit %d was put on the wire %d times in 20 s of total loss (%d forward-TSN chunks)", limit, n, fwd)
			}
			if reopen != 0 {
				// two incarnations of the identifier now exist on this side; what the first one
				// may still send is outside the property (the new one owns the identifier)
				m.Observe("sent=%d fwd=%d", n, fwd)
				m.CloseBoth()
				m.Join(rdA, rdB)
				return
			}
			// the skip reaches the peer's stream (which it still reads): a reliable message
			// written on the half-closed stream afterwards is delivered
			sa.SetReliabilityParams(false, ReliabilityTypeReliable, 0)
			later := payload(1, 2, 41)
			if _, err := sa.WriteSCTP(later, PayloadTypeWebRTCBinary); err != nil {
				m.Failf("pr.base", "write after the abandoned message: %v", err)
			}
			okLater := m.WaitUntil("later-delivered", 60*time.Second, func() bool {
				m.mu.Lock()
				defer m.mu.Unlock()
				for _, g := range got {
					if g == string(later) {
						return true
					}
				}
				return false
			})
			if !okLater {
				m.Failf("skip.blocks-later", "after a message was abandoned on a stream whose peer had reset its own direction, the reliable message written next is not delivered within 60 s (receiver waits for SSN/MID %d/%d, sender has %d bytes buffered, %d forward-TSN chunks were sent)", sb.reassemblyQueue.nextSSN, sb.reassemblyQueue.nextMID, bufAmt(m.As[0]), fwd)
			}
			m.Observe("sent=%d fwd=%d later=%v", n, fwd, okLater)
			m.CloseBoth()
			m.Join(rdA, rdB)
		},
		Final: func(m *Sim, x *Exec) { generalVerdicts(m, x, false) },
	}
}

// fwdBacklogScenario: the receiving application is behind on AcceptStream (the backlog of 16
// is full) when the first message of yet another stream - partially reliable - arrives, is
// turned away and abandoned.  Once the application has caught up, what the sender writes
// on that stream afterwards is delivered.
func fwdBacklogScenario(a, b epCfg) *Scenario {
	return &Scenario{
		Name:    "fwd-backlog",
		Horizon: 200 * time.Second,
		Body: func(m *Sim) {
			if !m.Connect(a, b) {
				m.Failf("connect", "handshake failed: %v %v", m.Err[0], m.Err[1])
				m.closeFailedTransports()
				m.CloseBoth()
				return
			}
			A, B := m.As[0], m.As[1]
			for sid := uint16(1); sid <= uint16(acceptChSize); sid++ {
				s, _ := A.OpenStream(sid, PayloadTypeWebRTCBinary)
				m.streamsSeen = append(m.streamsSeen, s)
				_, _ = s.WriteSCTP(payload(sid, 0, 20), PayloadTypeWebRTCBinary)
			}
			m.Sleep(2 * time.Second)
			s100, _ := A.OpenStream(100, PayloadTypeWebRTCBinary)
			m.streamsSeen = append(m.streamsSeen, s100)
			s100.SetReliabilityParams(false, ReliabilityTypeRexmit, 0)
			_, _ = s100.WriteSCTP(payload(100, 0, 30), PayloadTypeWebRTCBinary)
			m.Sleep(10 * time.Second) // turned away at B, retransmission limit 0: abandoned, skip announced
			// the application catches up
			got := map[uint16][]string{}
			var ts []*vsched.Thread
			acc := m.Go("acceptB", func() {
				for {
					s, err := B.AcceptStream()
					if err != nil {
						return
					}
					m.mu.Lock()
					m.streamsSeen = append(m.streamsSeen, s)
					m.mu.Unlock()
					sid := s.StreamIdentifier()
					ts = append(ts, m.Go(fmt.Sprintf("readB.%d", sid), func() {
						buf := make([]byte, 2000)
						for {
							n, _, err := s.ReadSCTP(buf)
							if err != nil {
								return
							}
							m.mu.Lock()
							got[sid] = append(got[sid], string(buf[:n]))
							m.mu.Unlock()
						}
					}))
				}
			})
			m.Sleep(2 * time.Second)
			s100.SetReliabilityParams(false, ReliabilityTypeReliable, 0)
			want := payload(100, 1, 31)
			if _, err := s100.WriteSCTP(want, PayloadTypeWebRTCBinary); err != nil {
				m.Failf("fwd.base", "write after the skip: %v", err)
			}
			ok := m.WaitUntil("delivered", 60*time.Second, func() bool {
				m.mu.Lock()
				defer m.mu.Unlock()
				for _, g := range got[100] {
					if g == string(want) {
						return true
					}
				}
				return false
			})
			if !ok {
				m.mu.Lock()
				n := len(got)
				m.mu.Unlock()
				m.Failf("skip.blocks-later", "the first message of stream 100 was abandoned while the receiver's accept backlog was full; the reliable message written on that stream afterwards is not delivered 60 s after the application caught up (%d streams accepted and read, sender has %d bytes buffered)", n, bufAmt(A))
			}
			m.Observe("delivered=%v", ok)
			m.CloseBoth()
			m.Join(acc)
			m.Join(ts...)
		},
		Final: func(m *Sim, x *Exec) { generalVerdicts(m, x, false) },
	}
}

// fwdAcrossResetScenario: the last message of a stream's first incarnation is abandoned; the
// skip reaches the peer but every SACK is lost for a while, so the sender still holds the
// abandoned chunk when the stream has been closed in both directions and opened again.  The
// first message of the new incarnation is abandoned too.  The skip announced then speaks for
// the new incarnation only: what is written on it afterwards is delivered.
func fwdAcrossResetScenario(a, b epCfg) *Scenario {
	return &Scenario{
		Name:    "fwd-across-reset",
		Horizon: 300 * time.Second,
		Body: func(m *Sim) {
			if !m.Connect(a, b) {
				m.Failf("connect", "handshake failed: %v %v", m.Err[0], m.Err[1])
				m.closeFailedTransports()
				m.CloseBoth()
				return
			}
			A, B := m.As[0], m.As[1]
			loseSacks, loseData := false, 0
			m.W.killFn = func(p *wpkt) bool {
				if p.dec == nil {
					return false
				}
				if p.from == 1 && loseSacks {
					only := true
					for _, c := range p.dec.Chunks {
						if c.Typ != wSACK {
							only = false
						}
					}
					return only
				}
				if p.from == 0 && loseData > 0 {
					for _, c := range p.dec.Chunks {
						if c.Typ == wDATA || c.Typ == wIDATA {
							loseData--
							return true
						}
					}
				}
				return false
			}
			open := func() (*Stream, *Stream) {
				sa, err1 := A.OpenStream(1, PayloadTypeWebRTCBinary)
				sb, err2 := B.OpenStream(1, PayloadTypeWebRTCBinary)
				if err1 != nil || err2 != nil {
					m.Failf("fwd.base", "OpenStream: %v %v", err1, err2)
					return nil, nil
				}
				m.streamsSeen = append(m.streamsSeen, sa, sb)
				sa.SetReliabilityParams(false, ReliabilityTypeRexmit, 0)
				return sa, sb
			}
			type rd struct {
				got []string
				eof bool
			}
			read := func(name string, s *Stream, r *rd) *vsched.Thread {
				return m.Go(name, func() {
					buf := make([]byte, 2000)
					for {
						n, _, err := s.ReadSCTP(buf)
						if err != nil {
							m.mu.Lock()
							r.eof = true
							m.mu.Unlock()
							return
						}
						m.mu.Lock()
						r.got = append(r.got, string(buf[:n]))
						m.mu.Unlock()
					}
				})
			}
			sa, sb := open()
			if sa == nil {
				m.CloseBoth()
				return
			}
			var rb1, ra1 rd
			t1, t2 := read("readB.1", sb, &rb1), read("readA.1", sa, &ra1)
			for i := 0; i < 3; i++ {
				_, _ = sa.WriteSCTP(payload(1, i, 30+i), PayloadTypeWebRTCBinary)
			}
			m.Sleep(2 * time.Second)
			// the fourth message is lost and abandoned; from now on no SACK gets through
			loseSacks, loseData = true, 1
			_, _ = sa.WriteSCTP(payload(1, 3, 33), PayloadTypeWebRTCBinary)
			m.Sleep(5 * time.Second)
			_ = sa.Close()
			if !m.WaitUntil("eof-at-B", 60*time.Second, func() bool { m.mu.Lock(); defer m.mu.Unlock(); return rb1.eof }) {
				m.Failf("fwd.base", "B never saw the end of the first incarnation")
			}
			_ = sb.Close()
			if !m.WaitUntil("eof-at-A", 60*time.Second, func() bool { m.mu.Lock(); defer m.mu.Unlock(); return ra1.eof }) {
				m.Failf("fwd.base", "A never saw the end of the first incarnation")
			}
			m.WaitUntil("unregistered", 60*time.Second, func() bool {
				_, inA := A.streams[1]
				_, inB := B.streams[1]
				return !inA && !inB && len(A.reconfigs) == 0 && len(B.reconfigs) == 0
			})
			m.Join(t1, t2)
			// second incarnation: its first message is lost and abandoned as well
			sa2, sb2 := open()
			if sa2 == nil {
				m.CloseBoth()
				return
			}
			var rb2, ra2 rd
			t3, t4 := read("readB.2", sb2, &rb2), read("readA.2", sa2, &ra2)
			held := A.inflightQueue.size()
			loseData = 1
			_, _ = sa2.WriteSCTP(payload(1, 10, 40), PayloadTypeWebRTCBinary)
			m.Sleep(5 * time.Second)
			loseSacks = false
			sa2.SetReliabilityParams(false, ReliabilityTypeReliable, 0)
			var want []string
			for i := 1; i <= 3; i++ {
				d := payload(1, 10+i, 40+i)
				_, _ = sa2.WriteSCTP(d, PayloadTypeWebRTCBinary)
				want = append(want, string(d))
			}
			ok := m.WaitUntil("delivered", 60*time.Second, func() bool {
				m.mu.Lock()
				defer m.mu.Unlock()
				n := 0
				for _, g := range rb2.got {
					for _, w := range want {
						if g == w {
							n++
						}
					}
				}
				return n == len(want)
			})
			if !ok {
				m.mu.Lock()
				n := len(rb2.got)
				m.mu.Unlock()
				m.Failf("skip.blocks-later", "stream 1 was re-opened while the sender still held %d unacknowledged chunk(s) of its first incarnation (SACKs lost); after the first message of the new incarnation was abandoned, the three reliable messages written next are not delivered within 60 s (%d messages read on the new incarnation, receiver waits for SSN/MID %d/%d, sender has %d bytes buffered)", held, n, sb2.reassemblyQueue.nextSSN, sb2.reassemblyQueue.nextMID, bufAmt(A))
			}
			m.Observe("held=%d delivered=%v", held, ok)
			m.CloseBoth()
			m.Join(t3, t4)
		},
		Final: func(m *Sim, x *Exec) { generalVerdicts(m, x, false) },
	}
}

// fwdAfterResetScenario: the answers of B travel slowly.  A (retransmission limit 0) sends m0,
// later m1, closes stream 1 - B reads both, performs the reset, closes its own direction - and
// loses a message of stream 2.  Only now does B's first SACK (for m0) reach A: the skip report
// A builds covers m1 and the lost message.  It reaches a B that has no stream 1 any more.  When
// both directions are reset and A opens the identifier again, the new incarnation's messages
// are delivered: the late skip report has not left a stream with an advanced cursor behind.
//
// variant "crossing": everything from B is slow, so the skip report is built before A has B's
// answer to its reset request (A cannot know that B has performed it).  variant "lost-sacks":
// the network is fast, but B's SACKs are lost for a while: A learns that the reset was performed,
// its cumulative ack point stays behind, and the skip report is built by the T3 expiry afterwards.
func fwdAfterResetScenario(a, b epCfg, variant string) *Scenario {
	return &Scenario{
		Name:    "fwd-after-reset",
		Horizon: 300 * time.Second,
		Setup: func(m *Sim) {
			if variant == "crossing" {
				m.W.delay = [2]time.Duration{10 * time.Millisecond, 600 * time.Millisecond}
			}
		},
		Body: func(m *Sim) {
			if !m.Connect(a, b) {
				m.Failf("connect", "handshake failed: %v %v", m.Err[0], m.Err[1])
				m.closeFailedTransports()
				m.CloseBoth()
				return
			}
			A, B := m.As[0], m.As[1]
			loseData := 0
			loseSacks := variant != "crossing"
			loseResp := 0
			if variant == "lost-sacks+resp" {
				loseResp = 1 // the first answer to A's reset request is lost: B's own request arrives first
			}
			firstSack := variant == "late-sack" // B's first SACK is not lost but held up for a second
			m.W.delayFn = func(p *wpkt) time.Duration {
				if !firstSack || p.dec == nil || p.from != 1 || len(p.dec.Chunks) != 1 || p.dec.Chunks[0].Typ != wSACK {
					return 0
				}
				firstSack = false
				p.noFault = true
				return time.Second
			}
			m.W.killFn = func(p *wpkt) bool {
				if p.dec != nil && p.from == 1 && loseResp > 0 {
					for _, c := range p.dec.Chunks {
						if c.Typ == wRECONFIG && strings.Contains(c.Summary(), "Resp") && strings.Contains(c.Summary(), "result=1") {
							loseResp--
							return true
						}
					}
				}
				if p.dec != nil && p.from == 1 && loseSacks {
					if p.tag == "delayed" {
						return false
					}
					only := len(p.dec.Chunks) > 0
					for _, c := range p.dec.Chunks {
						if c.Typ != wSACK {
							only = false
						}
					}
					if only && firstSack {
						return false // this one is held up by delayFn instead
					}
					return only
				}
				if p.dec == nil || p.from != 0 || loseData == 0 {
					return false
				}
				for _, c := range p.dec.Chunks {
					if (c.Typ == wDATA || c.Typ == wIDATA) && c.SID == 2 {
						loseData--
						return true
					}
				}
				return false
			}
			// B: every stream it is handed gets a reader; end-of-stream is answered by closing
			type got struct {
				sid  uint16
				data string
			}
			var gots []got
			accepted := 0
			var rts []*vsched.Thread
			acc := m.Go("acceptB", func() {
				for {
					s, err := B.AcceptStream()
					if err != nil {
						return
					}
					m.mu.Lock()
					accepted++
					m.streamsSeen = append(m.streamsSeen, s)
					m.mu.Unlock()
					rts = append(rts, m.Go(fmt.Sprintf("readB.%d.%d", s.streamIdentifier, accepted), func() {
						buf := make([]byte, 2000)
						for {
							n, _, err := s.ReadSCTP(buf)
							if err != nil {
								_ = s.Close()
								return
							}
							m.mu.Lock()
							gots = append(gots, got{s.streamIdentifier, string(buf[:n])})
							m.mu.Unlock()
						}
					}))
				}
			})
			s1, _ := A.OpenStream(1, PayloadTypeWebRTCBinary)
			s2, _ := A.OpenStream(2, PayloadTypeWebRTCBinary)
			m.streamsSeen = append(m.streamsSeen, s1, s2)
			s1.SetReliabilityParams(false, ReliabilityTypeRexmit, 0)
			s2.SetReliabilityParams(false, ReliabilityTypeRexmit, 0)
			eofA := false
			ra := m.Go("readA.1", func() {
				buf := make([]byte, 2000)
				for {
					if _, _, err := s1.ReadSCTP(buf); err != nil {
						eofA = true
						return
					}
				}
			})
			if variant == "resp-unregistered" {
				// m0 is abandoned before the reset (its SACKs are lost, its skip report arrives);
				// the reset's first answer is lost and B's own request unregisters the identifier
				// at A; the repeated request is answered while the identifier is unregistered;
				// only then a message of stream 2 is lost and abandoned: the next skip report
				// still starts below m0
				loseResp = 1
				_, _ = s1.WriteSCTP(payload(1, 0, 30), PayloadTypeWebRTCBinary)
				m.Sleep(1200 * time.Millisecond)
				_ = s1.Close()
				m.Sleep(2500 * time.Millisecond)
				loseData = 1
				_, _ = s2.WriteSCTP(payload(2, 0, 32), PayloadTypeWebRTCBinary)
				m.Sleep(9 * time.Second)
				loseSacks = false
			} else {
				_, _ = s1.WriteSCTP(payload(1, 0, 30), PayloadTypeWebRTCBinary)
				m.Sleep(300 * time.Millisecond) // B's delayed acknowledgement of m0 is on its slow way
				_, _ = s1.WriteSCTP(payload(1, 1, 31), PayloadTypeWebRTCBinary)
				_ = s1.Close()
				m.Sleep(50 * time.Millisecond)
				loseData = 1
				_, _ = s2.WriteSCTP(payload(2, 0, 32), PayloadTypeWebRTCBinary)
			}
			if loseSacks && variant != "resp-unregistered" {
				if variant == "late-sack" {
					// after the held-up SACK has arrived (cumulative point one further, still short of
					// the reset's last TSN) another message of stream 2 is lost and abandoned: the
					// next skip report reaches beyond what B has already passed
					m.Sleep(1500 * time.Millisecond)
					loseData = 1
					_, _ = s2.WriteSCTP(payload(2, 1, 33), PayloadTypeWebRTCBinary)
				}
				m.Sleep(3 * time.Second) // the T3 expiry builds the skip report meanwhile
				loseSacks = false
			}
			// let everything settle: both directions of stream 1 reset, nothing outstanding
			if !m.WaitUntil("eof-at-A", 60*time.Second, func() bool { return eofA }) {
				m.Failf("fwd.base", "A never saw the end of B's direction of stream 1")
			}
			m.WaitUntil("settled", 60*time.Second, func() bool {
				return len(A.reconfigs) == 0 && len(B.reconfigs) == 0 && drained(A) && drained(B)
			})
			m.Sleep(3 * time.Second)
			m.Join(ra)
			// the identifier is opened again, reliable and ordered
			n1, err := A.OpenStream(1, PayloadTypeWebRTCBinary)
			if err != nil {
				m.Failf("reopen", "OpenStream(1) on A after both directions were reset: %v", err)
				m.CloseBoth()
				return
			}
			m.streamsSeen = append(m.streamsSeen, n1)
			var want []string
			for i := 0; i < 3; i++ {
				d := payload(1, 20+i, 40+i)
				want = append(want, string(d))
				_, _ = n1.WriteSCTP(d, PayloadTypeWebRTCBinary)
			}
			ok := m.WaitUntil("new-incarnation-delivered", 30*time.Second, func() bool {
				m.mu.Lock()
				defer m.mu.Unlock()
				k := 0
				for _, g := range gots {
					if g.sid == 1 && k < len(want) && g.data == want[k] {
						k++
					}
				}
				return k == len(want)
			})
			if !ok {
				m.mu.Lock()
				n := 0
				for _, g := range gots {
					if g.sid == 1 {
						n++
					}
				}
				acc := accepted
				m.mu.Unlock()
				cur := "no stream 1 at B"
				if st := B.streams[1]; st != nil {
					cur = fmt.Sprintf("B's stream 1 waits for SSN %d / MID %d", st.reassemblyQueue.nextSSN, st.reassemblyQueue.nextMID)
				}
				m.Failf("skip.destroyed", "stream 1 was reset in both directions and opened again; its three reliable ordered messages are not delivered within 30 s (%d messages of stream 1 read at B in all, %d streams handed to B's application; %s; A has %d bytes buffered): a skip report that arrived after the reset re-created the stream with an advanced cursor", n, acc, cur, bufAmt(A))
			}
			m.Observe("ok=%v accepted=%d", ok, accepted)
			m.CloseBoth()
			m.Join(acc)
			m.Join(rts...)
		},
		Final: func(m *Sim, x *Exec) { generalVerdicts(m, x, false) },
	}
}
