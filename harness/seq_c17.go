package sctp

import (
	"fmt"
	"math"
)

func init() { register("C17", propC17) }

func propC17(j *Job) {
	c17Scheduler(j)
	c17EndToEnd(j)
}

type pqShape struct {
	frags int
	size  int
}

type pqOp struct {
	peek   bool // look at the next chunk and leave it (what the sender does when the window is closed)
	pop    bool
	stream uint16
	shape  pqShape
}

func (o pqOp) String() string {
	if o.peek {
		return "peek"
	}
	if o.pop {
		return "pop"
	}
	return fmt.Sprintf("push(s%d,%dx%d)", o.stream, o.shape.frags, o.shape.size)
}

type pqEvent struct {
	pop     bool
	stream  uint16
	msg     int // global message number
	frag    int
	size    int
	last    bool
	first   bool
	backlog map[uint16]int // chunks queued per stream BEFORE this event (pops only)
}

type pqPolicyCfg struct {
	name    string
	make    func() *pendingQueue
	weights map[uint16]float64
	inter   bool
}

func c17Policies() []pqPolicyCfg {
	w := map[uint16]uint16{1: 1, 2: 2, 3: 5}
	return []pqPolicyCfg{
		{name: "message", make: func() *pendingQueue { return newPendingQueue(nil) }},
		{name: "rr", inter: true, make: func() *pendingQueue {
			q := newPendingQueue(func() InterleavingStreamScheduler { return newRoundRobinPendingQueuePolicy() })
			_ = q.setInterleaving(true)
			return q
		}},
		{name: "wfq", inter: true, weights: map[uint16]float64{1: 1, 2: 2, 3: 5}, make: func() *pendingQueue {
			q := newPendingQueue(func() InterleavingStreamScheduler { return newWeightedFairQueueingPendingQueuePolicy(w) })
			_ = q.setInterleaving(true)
			return q
		}},
		{name: "wfq-equal", inter: true, weights: map[uint16]float64{1: 1, 2: 1, 3: 1}, make: func() *pendingQueue {
			q := newPendingQueue(func() InterleavingStreamScheduler { return newWeightedFairQueueingPendingQueuePolicy(nil) })
			_ = q.setInterleaving(true)
			return q
		}},
	}
}

// pqRun replays ops on a fresh queue and returns the event trace, checking the step-local oracles.
func pqRun(pc pqPolicyCfg, ops []pqOp, fail func(oracle, msg string)) []pqEvent {
	q := pc.make()
	var trace []pqEvent
	queued := map[uint16][]*chunkPayloadData{} // reference: per-stream FIFO of chunk pointers
	meta := map[*chunkPayloadData]pqEvent{}
	nChunks, nBytes := 0, 0
	msgNo := 0
	for _, op := range ops {
		if op.peek {
			// a look without taking: it must not commit the scheduler to anything
			_ = q.peek()
			continue
		}
		if !op.pop {
			var head *chunkPayloadData
			unordered := op.stream == 2
			for f := 0; f < op.shape.frags; f++ {
				c := &chunkPayloadData{streamIdentifier: op.stream, userData: make([]byte, op.shape.size), unordered: unordered,
					beginningFragment: f == 0, endingFragment: f == op.shape.frags-1, head: head, iData: pc.inter,
					fragmentSequenceNumber: uint32(f), messageIdentifier: uint32(msgNo)}
				if head == nil {
					head = c
				}
				q.push(c)
				queued[op.stream] = append(queued[op.stream], c)
				ev := pqEvent{stream: op.stream, msg: msgNo, frag: f, size: op.shape.size, first: f == 0, last: f == op.shape.frags-1}
				meta[c] = ev
				trace = append(trace, ev)
				nChunks++
				nBytes += op.shape.size
			}
			msgNo++
		} else {
			c := q.peek()
			if (c == nil) != (nChunks == 0) {
				fail("peek.empty", fmt.Sprintf("peek()==nil is %v with %d chunks queued", c == nil, nChunks))
				return trace
			}
			if c == nil {
				continue
			}
			if c2 := q.peek(); c2 != c {
				fail("peek.stable", "two consecutive peeks return different chunks")
				return trace
			}
			fifo := queued[c.streamIdentifier]
			if len(fifo) == 0 || fifo[0] != c {
				fail("fifo", fmt.Sprintf("peek returned a chunk of stream %d that is not the oldest queued chunk of that stream", c.streamIdentifier))
				return trace
			}
			backlog := map[uint16]int{}
			for s, l := range queued {
				if len(l) > 0 {
					backlog[s] = len(l)
				}
			}
			if err := q.pop(c); err != nil {
				fail("pop.error", fmt.Sprintf("pop of the peeked chunk failed: %v", err))
				return trace
			}
			queued[c.streamIdentifier] = fifo[1:]
			ev := meta[c]
			ev.pop = true
			ev.backlog = backlog
			trace = append(trace, ev)
			nChunks--
			nBytes -= len(c.userData)
		}
		if q.size() != nChunks || q.getNumBytes() != nBytes {
			fail("counters", fmt.Sprintf("size=%d bytes=%d, expected %d/%d", q.size(), q.getNumBytes(), nChunks, nBytes))
			return trace
		}
		// mode switch refused while non-empty, allowed (and harmless) when empty is not exercised here
		if nChunks > 0 {
			if err := q.setInterleaving(!pc.inter); err == nil {
				fail("modeswitch", "setInterleaving changed the mode while the queue was not empty")
				return trace
			}
		}
	}
	return trace
}

// pqCheckTrace applies the trace-level oracles.
func pqCheckTrace(pc pqPolicyCfg, trace []pqEvent, fail func(oracle, msg string)) {
	var pops []pqEvent
	for _, e := range trace {
		if e.pop {
			pops = append(pops, e)
		}
	}
	if !pc.inter {
		// fragments of one message are popped back to back
		for i := 1; i < len(pops); i++ {
			if !pops[i-1].last && (pops[i].msg != pops[i-1].msg || pops[i].frag != pops[i-1].frag+1) {
				fail("contiguity", fmt.Sprintf("after fragment %d of message %d came fragment %d of message %d", pops[i-1].frag, pops[i-1].msg, pops[i].frag, pops[i].msg))
				return
			}
		}
		return
	}
	// per message fragment order is implied by per-stream FIFO (checked in pqRun)
	streams := []uint16{1, 2, 3}
	for ai := 0; ai < len(streams); ai++ {
		for bi := ai + 1; bi < len(streams); bi++ {
			a, b := streams[ai], streams[bi]
			// maximal runs of pops during which both a and b are backlogged before every pop of the run
			start := -1
			flush := func(end int) {
				if start < 0 {
					return
				}
				seg := pops[start:end]
				start = -1
				if pc.weights == nil {
					// round robin: service counts differ by at most one in every sub-interval
					for x := 0; x < len(seg); x++ {
						ca, cb := 0, 0
						for y := x; y < len(seg); y++ {
							if seg[y].stream == a {
								ca++
							}
							if seg[y].stream == b {
								cb++
							}
							if ca-cb > 1 || cb-ca > 1 {
								fail("rr.round", fmt.Sprintf("streams %d and %d both backlogged but served %d vs %d times in one interval", a, b, ca, cb))
								return
							}
						}
					}
				} else {
					wa, wb := pc.weights[a], pc.weights[b]
					lmax := 0.0
					for _, e := range trace {
						if float64(e.size) > lmax {
							lmax = float64(e.size)
						}
					}
					for x := 0; x < len(seg); x++ {
						sa, sb := 0.0, 0.0
						for y := x; y < len(seg); y++ {
							if seg[y].stream == a {
								sa += float64(seg[y].size)
							}
							if seg[y].stream == b {
								sb += float64(seg[y].size)
							}
							if math.Abs(sa/wa-sb/wb) > lmax/wa+lmax/wb+1e-9 {
								fail("wfq.bound", fmt.Sprintf("streams %d(w=%v) and %d(w=%v) continuously backlogged: normalised service %.3f vs %.3f exceeds Lmax bound %.3f", a, wa, b, wb, sa/wa, sb/wb, lmax/wa+lmax/wb))
								return
							}
						}
					}
				}
			}
			for i, e := range pops {
				if e.backlog[a] > 0 && e.backlog[b] > 0 {
					if start < 0 {
						start = i
					}
				} else {
					flush(i)
				}
			}
			flush(len(pops))
		}
	}
	// no starvation: a backlogged stream is served within nBacklogged pops (round robin)
	if pc.weights == nil {
		for i, e := range pops {
			for s := range e.backlog {
				// find next service of s
				served := false
				nb := len(e.backlog)
				for y := i; y < len(pops) && y < i+nb; y++ {
					if pops[y].stream == s {
						served = true
						break
					}
					if pops[y].backlog[s] == 0 {
						served = true // no longer backlogged
						break
					}
				}
				if !served && i+nb <= len(pops) {
					fail("rr.starvation", fmt.Sprintf("stream %d backlogged at pop %d but not served within %d pops", s, i, nb))
					return
				}
			}
		}
	}
}

func c17Scheduler(j *Job) {
	P := 72
	shapes := []pqShape{{1, 1}, {1, P}, {2, 4}, {3, P}}
	var alphabet []pqOp
	alphabet = append(alphabet, pqOp{pop: true}, pqOp{peek: true})
	for _, s := range []uint16{1, 2, 3} {
		for _, sh := range shapes {
			alphabet = append(alphabet, pqOp{stream: s, shape: sh})
		}
	}
	depth := 5
	if j.Thorough() {
		depth = 7
	}
	item := 0
	for _, pc := range c17Policies() {
		pc := pc
		caseName := "pq/" + pc.name
		for first := range alphabet {
			item++
			if !j.mine(item) {
				continue
			}
			j.Stats.Cases++
			var rec func(path []pqOp, pushes int)
			rec = func(path []pqOp, pushes int) {
				if j.capped() {
					return
				}
				bad := false
				fail := func(oracle, msg string) {
					bad = true
					j.failSeq("pq."+oracle, caseName, fmt.Sprintf("%s after %v: %s", pc.name, path, msg), path)
				}
				trace := pqRun(pc, path, fail)
				j.Stats.Steps += int64(len(path))
				j.Stats.NewStates++
				if !bad {
					pqCheckTrace(pc, trace, fail)
				}
				if bad || len(path) >= depth {
					return
				}
				for _, op := range alphabet {
					// pops pad the tail: allow up to depth+4 when only pops remain
					rec(append(append([]pqOp{}, path...), op), pushes)
				}
			}
			rec([]pqOp{alphabet[first]}, 0)
		}
	}
	// long drain runs: push a fixed backlog then pop everything (fairness over long intervals)
	if j.mine(0) {
		for _, pc := range c17Policies() {
			for _, sh := range shapes {
				var ops []pqOp
				for r := 0; r < 4; r++ {
					for _, s := range []uint16{1, 2, 3} {
						ops = append(ops, pqOp{stream: s, shape: sh}, pqOp{stream: s, shape: shapes[(r+int(s))%len(shapes)]})
					}
				}
				for k := 0; k < 80; k++ {
					ops = append(ops, pqOp{pop: true})
				}
				// the same with a look at the queue (window closed) between the first stream's
				// messages and the others'
				if sh.frags > 1 {
					ops2 := []pqOp{{stream: 1, shape: pqShape{14, P}}, {pop: true}, {pop: true}, {pop: true}, {peek: true}, {stream: 3, shape: pqShape{14, P}}}
					for k := 0; k < 26; k++ {
						ops2 = append(ops2, pqOp{pop: true})
					}
					bad2 := false
					fail2 := func(oracle, msg string) {
						bad2 = true
						j.failSeq("pq."+oracle, "pq/"+pc.name+"/drain-after-peek", fmt.Sprintf("%s: %s", pc.name, msg), nil)
					}
					tr := pqRun(pc, ops2, fail2)
					if !bad2 {
						pqCheckTrace(pc, tr, fail2)
					}
				}
				bad := false
				fail := func(oracle, msg string) {
					bad = true
					j.failSeq("pq."+oracle, "pq/"+pc.name+"/drain", fmt.Sprintf("%s drain %v: %s", pc.name, sh, msg), nil)
				}
				trace := pqRun(pc, ops, fail)
				if !bad {
					pqCheckTrace(pc, trace, fail)
				}
				j.Stats.Steps += int64(len(ops))
				j.Stats.NewStates++
			}
		}
	}
	// late joiners: a stream becomes active after another one has been served for a while and
	// is still backlogged (non-initial scheduler state), then everything drains
	if j.mine(1) {
		for _, pc := range c17Policies() {
			for served := 1; served <= 7; served++ {
				for _, joiner := range []uint16{2, 3} {
					for _, sh := range shapes {
						var ops []pqOp
						for r := 0; r < 4; r++ {
							ops = append(ops, pqOp{stream: 1, shape: pqShape{3, P}})
						}
						for k := 0; k < served; k++ {
							ops = append(ops, pqOp{pop: true})
						}
						for r := 0; r < 6; r++ {
							ops = append(ops, pqOp{stream: joiner, shape: sh})
						}
						for k := 0; k < 40; k++ {
							ops = append(ops, pqOp{pop: true})
						}
						bad := false
						fail := func(oracle, msg string) {
							bad = true
							j.failSeq("pq."+oracle, "pq/"+pc.name+"/latejoin", fmt.Sprintf("%s: stream %d joins after %d chunks of stream 1 were served (%v): %s", pc.name, joiner, served, sh, msg), nil)
						}
						trace := pqRun(pc, ops, fail)
						if !bad {
							pqCheckTrace(pc, trace, fail)
						}
						j.Stats.Steps += int64(len(ops))
						j.Stats.NewStates++
					}
				}
			}
		}
	}
	j.Stats.Execs += int(j.Stats.NewStates)
	j.sample(map[string]any{"engine": "seq", "what": "all push/pop sequences on the real pendingQueue", "alphabet": fmt.Sprint(alphabet), "depth": depth, "policies": "message, rr, wfq(1:2:5), wfq-equal"})
}
