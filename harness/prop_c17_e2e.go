package sctp

func c17EndToEnd(j *Job) {}
