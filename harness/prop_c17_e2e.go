package sctp

import (
	"fmt"
	"strings"
	"time"
)

// wrongKindScenario: one real endpoint (interleaving on/off) against a scripted peer that did
// / did not offer interleaving; a DATA-class or FORWARD-class chunk of either kind is injected
// with a new, duplicate or out-of-window TSN.  Exactly the wrong-kind cells must be answered
// with a protocol-violation ABORT.
func wrongKindScenario(localIL, peerIL bool, inject string, tsnKind string, peerNoIFwd ...bool) *Scenario {
	return &Scenario{
		Name:    "wrongkind",
		Horizon: 60 * time.Second,
		Setup:   func(m *Sim) { m.W.delay = [2]time.Duration{time.Millisecond, time.Millisecond} },
		Body: func(m *Sim) {
			cfg := epCfg{Server: true, NoInterleave: !localIL, MTU: 228, RTOMax: 4000, InitTSN: 50}
			p := newScripted(m, cfg, peerIL, false)
			p.noIFwd = len(peerNoIFwd) > 0 && peerNoIFwd[0]
			if !p.connectServer() {
				m.Failf("e2.base", "handshake failed")
				c03Teardown(m, p)
				return
			}
			a := p.a
			negotiated := localIL && peerIL
			md, _ := a.Metadata()
			if md.MessageInterleavingEnabled != negotiated {
				m.Failf("kind.negotiation", "local=%v peer=%v: interleaving=%v", localIL, peerIL, md.MessageInterleavingEnabled)
			}
			p.startReader(1)
			p.sendMsg(1, 20, 1) // right kind, establishes a cumulative point
			peerLast := a.payloadQueue.cumulativeTSN
			tsn := peerLast + 1
			switch tsnKind {
			case "dup":
				tsn = peerLast
			case "far":
				tsn = peerLast + a.payloadQueue.maxTSNOffset + 9
			}
			if inject == "ABANDON" {
				// the endpoint itself abandons a message towards this peer: whatever it announces
				// the skip with is of the negotiated kind (nothing at all if the peer does not
				// support that kind)
				pr, err := a.OpenStream(4, PayloadTypeWebRTCBinary)
				if err == nil {
					m.streamsSeen = append(m.streamsSeen, pr)
					pr.SetReliabilityParams(false, ReliabilityTypeRexmit, 0)
					p.ackAll()
					ev1 := len(m.W.events)
					_, _ = pr.WriteSCTP(payload(4, 0, 40), PayloadTypeWebRTCBinary)
					m.Sleep(3500 * time.Millisecond)
					p.settle(0)
					for _, ev := range m.W.events[ev1:] {
						if ev.Kind != "send" || ev.From != 0 || ev.Pkt.dec == nil {
							continue
						}
						for _, c := range ev.Pkt.dec.Chunks {
							if (c.Typ == wFWDTSN && negotiated) || (c.Typ == wIFWDTSN && !negotiated) {
								m.Failf("kind.fwd", "local interleaving=%v, peer offers I-DATA=%v without I-FORWARD-TSN=%v: the endpoint announced an abandoned message with %s", localIL, peerIL, p.noIFwd, wTypeName(c.Typ))
							}
						}
					}
				}
				m.Observe("abandon")
				c03Teardown(m, p)
				return
			}
			var raw []byte
			wantAbort := false
			switch inject {
			case "DATA":
				raw = p.pkt(chunkBytes(wDATA, 3, wDataVal(tsn, 1, 7, 53, []byte("kind-test"))))
				wantAbort = negotiated
			case "IDATA":
				raw = p.pkt(chunkBytes(wIDATA, 3, wIDataVal(tsn, 1, 7, 53, []byte("kind-test"))))
				wantAbort = !negotiated
			case "FWD":
				raw = p.pkt(chunkBytes(wFWDTSN, 0, wFwdVal(tsn, nil)))
				wantAbort = negotiated
			case "IFWD":
				raw = p.pkt(chunkBytes(wIFWDTSN, 0, wIFwdVal(tsn, nil)))
				wantAbort = !negotiated
			}
			out := p.inject(raw)
			gotAbort := false
			for _, o := range out {
				if o.dec == nil {
					continue
				}
				for _, c := range o.dec.Chunks {
					if c.Typ == wABORT {
						gotAbort = true
						okCause := false
						for _, cs := range c.Causes {
							if cs.Typ == 13 {
								okCause = true
							}
						}
						if !okCause {
							m.Failf("kind.abort-cause", "ABORT without a protocol-violation cause: %s", c.Summary())
						}
					}
				}
			}
			if gotAbort != wantAbort {
				m.Failf("kind.abort", "local interleaving=%v peer=%v: %s with %s TSN: ABORT sent=%v, want %v", localIL, peerIL, inject, tsnKind, gotAbort, wantAbort)
			}
			m.Observe("abort=%v", gotAbort)
			c03Teardown(m, p)
		},
		Final: func(m *Sim, x *Exec) { generalVerdicts(m, x, false) },
	}
}

// contiguityOracle: without interleaving the fragments of one message occupy consecutive
// TSNs; with interleaving the fragments of each message leave in fragment order.
func contiguityOracle(m *Sim, f *wireFacts) {
	for snd := 0; snd < 2; snd++ {
		order := f.XmitOrder[snd] // first-transmission order == TSN assignment order
		type key struct {
			sid uint16
			u   bool
			mid uint32
		}
		lastFSN := map[key]uint32{}
		var open *xmitRec
		var openTSN uint32
		for _, tsn := range order {
			r := f.Xmit[snd][tsn]
			if r.Typ == wDATA {
				if open != nil {
					if r.SID != open.SID || r.SSN != open.SSN || r.U != open.U || r.B || tsn != openTSN+1 {
						m.Failf("kind.contiguity", "endpoint %d: TSN %d (sid %d ssn %d %v) interrupts the fragments of a message of stream %d that started earlier", snd, tsn, r.SID, r.SSN, r.B, open.SID)
						return
					}
				} else if !r.B {
					m.Failf("kind.contiguity", "endpoint %d: TSN %d is a non-first fragment without a preceding first fragment", snd, tsn)
					return
				}
				open, openTSN = r, tsn
				if r.E {
					open = nil
				}
				continue
			}
			k := key{r.SID, r.U, r.MID}
			if r.B {
				if _, dup := lastFSN[k]; dup {
					m.Failf("kind.fragorder", "endpoint %d: message (sid %d mid %d) started twice", snd, r.SID, r.MID)
					return
				}
				lastFSN[k] = 0
			} else {
				prev, ok := lastFSN[k]
				if !ok || r.FSN != prev+1 {
					m.Failf("kind.fragorder", "endpoint %d: fragment %d of message (sid %d mid %d) sent after fragment %d", snd, r.FSN, r.SID, r.MID, prev)
					return
				}
				lastFSN[k] = r.FSN
			}
		}
	}
}

func c17EndToEnd(j *Job) {
	twoInitCases(j, "C17")
	// negotiation over all 16 option combinations (kind monitor on every packet)
	extraMon = monOpts{Kind: true}
	for opt := 0; opt < 16; opt++ {
		for ri, r := range []struct{ a, b bool }{{false, true}, {false, false}} {
			ha := epCfg{Server: r.a, NoInterleave: opt&1 != 0, ZeroChecksum: opt&2 != 0, RTOMax: 4000, InitTSN: 0xFFFFFFFE, MTU: 228}
			hb := epCfg{Server: r.b, NoInterleave: opt&4 != 0, ZeroChecksum: opt&8 != 0, RTOMax: 4000, InitTSN: 5, MTU: 228}
			k := 0
			if j.Thorough() {
				k = 1
			}
			j.Explore(fmt.Sprintf("neg/%d/opt%d", ri, opt), hsScenario(&hsSpec{A: ha, B: hb, Faults: allFaults}), Budget{K: k}, nil)
		}
	}
	extraMon = monOpts{}
	// a legacy Config value after the option functions does not undo an explicit choice
	for opt := 0; opt < 4; opt++ {
		for ri, r := range []struct{ a, b bool }{{false, true}, {true, false}} {
			ha := epCfg{Server: r.a, NoInterleave: opt&1 != 0, LegacyLast: true, RTOMax: 4000, InitTSN: 0xFFFFFFFE, MTU: 228}
			hb := epCfg{Server: r.b, NoInterleave: opt&2 != 0, RTOMax: 4000, InitTSN: 5, MTU: 228}
			j.Explore(fmt.Sprintf("neg/legacy-last/%d/opt%d", ri, opt), hsScenario(&hsSpec{A: ha, B: hb}), Budget{}, nil)
		}
	}
	// tokens exchanged out of band: what the token offered decides, whatever option the association
	// itself was created with afterwards (both sides frame their data alike)
	for _, assocIL := range [][2]bool{{false, true}, {true, false}, {false, false}} {
		for _, tokIL := range [][2]bool{{true, true}, {true, false}} {
			mk := func(i int, il bool) epCfg {
				return epCfg{NoInterleave: !il, RTOMax: 4000, InitTSN: []uint32{0xFFFFFFFE, 5}[i], MTU: 228}
			}
			tok := [2]epCfg{mk(0, tokIL[0]), mk(1, tokIL[1])}
			j.Explore(fmt.Sprintf("neg/snap/assoc%v/tok%v", assocIL, tokIL), hsScenario(&hsSpec{A: mk(0, assocIL[0]), B: mk(1, assocIL[1]), SNAP: true, SnapTok: &tok}), Budget{}, nil)
		}
	}
	// wrong-kind matrix
	for _, l := range []bool{false, true} {
		for _, p := range []bool{false, true} {
			for _, inj := range []string{"DATA", "IDATA", "FWD", "IFWD"} {
				for _, tk := range []string{"new", "dup", "far"} {
					j.Explore(fmt.Sprintf("kind/l%v/p%v/%s/%s", l, p, inj, tk), wrongKindScenario(l, p, inj, tk), Budget{}, nil)
				}
			}
		}
	}
	// a peer that offers I-DATA without I-FORWARD-TSN: interleaving is negotiated all the same
	// and a plain FORWARD-TSN / DATA is still the wrong kind
	for _, l := range []bool{false, true} {
		for _, inj := range []string{"DATA", "IDATA", "FWD"} {
			for _, tk := range []string{"new", "dup", "far"} {
				j.Explore(fmt.Sprintf("kind-noifwd/l%v/%s/%s", l, inj, tk), wrongKindScenario(l, true, inj, tk, true), Budget{}, nil)
			}
		}
		j.Explore(fmt.Sprintf("kind-noifwd/l%v/ABANDON", l), wrongKindScenario(l, true, "ABANDON", "new", true), Budget{}, nil)
		j.Explore(fmt.Sprintf("kind/l%v/ptrue/ABANDON", l), wrongKindScenario(l, true, "ABANDON", "new"), Budget{}, nil)
	}
	// contiguity / fragment order on the wire with concurrent writers: all schedules with <= D deviations
	for _, mode := range stdModes() {
		mtu := uint32(100)
		il := !mode.A.NoInterleave
		P := int(maxPayloadSizeForMTU(mtu, il))
		spec := &xferSpec{A: withBase(mode.A, mtu, 0xFFFFFFFC, 4000), B: withBase(mode.B, mtu, 3, 4000),
			Streams: []streamSpec{
				{SID: 1, From: 0, Msgs: []msgSpec{{Size: 3*P + 1, PPI: 53}, {Size: 5, PPI: 53}}},
				{SID: 2, From: 0, Unordered: true, Msgs: []msgSpec{{Size: 2*P + 2, PPI: 51}, {Size: 6, PPI: 51}}},
				{SID: 3, From: 0, Msgs: []msgSpec{{Size: 2 * P, PPI: 51}}},
			}}
		spec.Final = func(m *Sim, x *Exec, r *xferResult) {
			generalVerdicts(m, x, false)
			f := runWireMonitors(m, x, monOpts{Kind: true})
			contiguityOracle(m, f)
			for _, st := range spec.Streams {
				checkDelivery(m, "delivery", st, r.Written[st.SID], r.Read[st.SID], true)
			}
			m.Observe("%s", deliverySummary(spec, r))
		}
		res := &xferResult{}
		d := 1
		if j.Thorough() {
			d = 2
		}
		j.Explore("wire/"+mode.Name+"/"+strings.Repeat("w", 3), xferScenario(spec, res), Budget{D: d}, nil)
		if j.capped() {
			return
		}
	}
}

// twoInitScenario: a real server receives two INITs with different option sets before any
// COOKIE-ECHO (a peer instance that went away, or a retry with another configuration) and
// is then associated by the second one.  Everything the server negotiates - DATA vs I-DATA,
// FORWARD-TSN kind, zero checksum - must follow the INIT that its cookie answers.
func twoInitScenario(srvIL, srvZC bool, first, second [2]bool, cksum bool) *Scenario {
	return &Scenario{
		Name:    "twoinit",
		Horizon: 60 * time.Second,
		Body: func(m *Sim) {
			cfg := epCfg{Server: true, NoInterleave: !srvIL, ZeroChecksum: srvZC, MTU: 228, RTOMax: 4000, InitTSN: 0xFFFFFFF5}
			p := newScripted(m, cfg, first[0], first[1])
			p.dialT = m.Go("dial", func() { m.Dial(0, p.cfg) })
			p.settle(100 * time.Millisecond)
			sendInit := func() bool {
				init := chunkBytes(wINIT, 0, wInitVal(p.tag, p.arwnd, 65535, 65535, p.tsn0, p.initParams()...))
				w := wNewPacket(5000, 5000, 0)
				w.rawChunk(init)
				p.cookie = nil
				out := p.inject(w.bytes(true))
				return len(out) > 0 && p.cookie != nil
			}
			if !sendInit() {
				m.Failf("twoinit.base", "no INIT-ACK for the first INIT")
				c03Teardown(m, p)
				return
			}
			p.ourIL, p.ourZC = second[0], second[1]
			if !sendInit() {
				m.Failf("twoinit.base", "no INIT-ACK for the second INIT")
				c03Teardown(m, p)
				return
			}
			p.inject(p.pkt(chunkBytes(wCOOKIEECHO, 0, p.cookie)))
			m.S.Join(p.dialT)
			p.a = m.As[0]
			if p.a == nil {
				m.Failf("twoinit.base", "server did not get established by the second cookie: %v", m.Err[0])
				c03Teardown(m, p)
				return
			}
			a := p.a
			wantIL := srvIL && second[0]
			wantZC := second[1] // the peer's advertisement decides what the server may send
			if a.useInterleaving != wantIL {
				m.Failf("twoinit.interleaving", "server uses interleaving=%v, the INIT it answered calls for %v (first INIT il=%v, second il=%v, server il=%v)", a.useInterleaving, wantIL, first[0], second[0], srvIL)
			}
			s, err := a.OpenStream(3, PayloadTypeWebRTCBinary)
			if err != nil {
				m.Failf("twoinit.base", "OpenStream: %v", err)
				c03Teardown(m, p)
				return
			}
			m.streamsSeen = append(m.streamsSeen, s)
			ev0 := len(m.W.events)
			_, _ = s.WriteSCTP(payload(3, 0, 40), PayloadTypeWebRTCBinary)
			p.settle(0)
			seen := false
			for _, ev := range m.W.events[ev0:] {
				if ev.Kind != "send" || ev.From != 0 || ev.Pkt.dec == nil {
					continue
				}
				for _, c := range ev.Pkt.dec.Chunks {
					if c.Typ != wDATA && c.Typ != wIDATA {
						continue
					}
					seen = true
					if (c.Typ == wIDATA) != wantIL {
						m.Failf("twoinit.kind", "server frames user data as %s towards a peer whose INIT (the second one) negotiated interleaving=%v", wTypeName(c.Typ), wantIL)
					}
					zero := be32(ev.Pkt.data[8:12]) == 0
					if cksum && zero && !wantZC {
						m.Failf("twoinit.cksum", "server sends a zero checksum although the INIT it answered did not advertise acceptance (the earlier INIT did)")
					}
				}
			}
			if !seen {
				m.Failf("twoinit.base", "no DATA emitted by the server")
			}
			// an abandoned message: the forward-TSN variant follows the second INIT too
			if pr, err := a.OpenStream(4, PayloadTypeWebRTCBinary); err == nil {
				m.streamsSeen = append(m.streamsSeen, pr)
				pr.SetReliabilityParams(false, ReliabilityTypeRexmit, 0)
				p.ackAll()
				ev1 := len(m.W.events)
				_, _ = pr.WriteSCTP(payload(4, 0, 40), PayloadTypeWebRTCBinary)
				m.Sleep(3500 * time.Millisecond) // nothing is acknowledged: T3 abandons it
				p.settle(0)
				fwdSeen := false
				for _, ev := range m.W.events[ev1:] {
					if ev.Kind != "send" || ev.From != 0 || ev.Pkt.dec == nil {
						continue
					}
					for _, c := range ev.Pkt.dec.Chunks {
						if c.Typ != wFWDTSN && c.Typ != wIFWDTSN {
							continue
						}
						fwdSeen = true
						if (c.Typ == wIFWDTSN) != wantIL {
							m.Failf("twoinit.kind.fwd", "server announces the abandoned message with %s towards a peer whose INIT (the second one) negotiated interleaving=%v", wTypeName(c.Typ), wantIL)
						}
					}
				}
				if !fwdSeen {
					m.Failf("twoinit.base", "no forward-TSN chunk for the abandoned message")
				}
			}
			m.Observe("il=%v zc=%v", a.useInterleaving, a.sendZeroChecksum)
			c03Teardown(m, p)
		},
		Final: func(m *Sim, x *Exec) { generalVerdicts(m, x, false) },
	}
}

func twoInitCases(j *Job, prop string) {
	bools := []bool{false, true}
	for _, srvIL := range bools {
		for _, srvZC := range bools {
			for f := 0; f < 4; f++ {
				for s := 0; s < 4; s++ {
					if f == s {
						continue
					}
					first, second := [2]bool{f&1 != 0, f&2 != 0}, [2]bool{s&1 != 0, s&2 != 0}
					// C17 looks at the interleaving dimension, C13 at the checksum dimension
					if prop == "C17" && first[0] == second[0] {
						continue
					}
					if prop == "C13" && first[1] == second[1] {
						continue
					}
					j.Explore(fmt.Sprintf("twoinit/srv-il%v-zc%v/first%v/second%v", srvIL, srvZC, first, second), twoInitScenario(srvIL, srvZC, first, second, prop == "C13"), Budget{}, nil)
					if j.capped() {
						return
					}
				}
			}
		}
	}
}
