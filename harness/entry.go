package sctp

import (
	"github.com/pion/sctp/internal/vsched"
	"encoding/json"
	"fmt"
	"os"
	"runtime/debug"
	"strconv"
	"sync/atomic"
	"testing"
	"time"
)

// Job is one worker invocation: property, tier, shard.
type Job struct {
	T        *testing.T
	Prop     string
	Tier     string
	Shard    int
	NShards  int
	Out      string
	Deadline time.Time
	Stats    *Stats
	Replay   *FoundViolation
	progress *os.File
	Seed     int
	caseNo   int
}

func (j *Job) Thorough() bool { return j.Tier == "thorough" }

// Explore runs one case (scenario x budget) of the job.
func (j *Job) Explore(caseName string, sc *Scenario, b Budget, classify func(x *Exec) string) {
	if j.Replay != nil {
		if j.Replay.Case != caseName {
			return
		}
		x := runExec(j.T, sc, j.Replay.Prefix, nil, true)
		fmt.Printf("REPLAY case=%s prefix=%v\n", caseName, j.Replay.Prefix)
		for _, l := range renderTrace(x) {
			fmt.Println(l)
		}
		for _, v := range x.Viol {
			fmt.Printf("REPLAY-VIOLATION oracle=%s %s\n", v.Oracle, v.Msg)
		}
		if x.Out != nil {
			for _, p := range x.Out.Panics {
				fmt.Printf("REPLAY-VIOLATION oracle=panic %s\n", p)
			}
			if os.Getenv("VERIF_TRACE") != "" {
				for i, st := range x.Out.Steps {
					ch := 0
					if i < len(j.Replay.Prefix) {
						ch = j.Replay.Prefix[i]
					}
					if st.N > 1 {
						fmt.Printf("  step %d n=%d choice=%d %s cats=%v\n", i, st.N, ch, st.Sig, st.Cats)
					}
				}
			}
		}
		j.Stats.Execs++
		return
	}
	shard, nshards := j.Shard, j.NShards
	if b.K == 0 && b.D == 0 {
		// single-execution case: distribute whole cases over the shards
		j.caseNo++
		if !j.mine(j.caseNo) {
			return
		}
		shard, nshards = 0, 1
	}
	e := &Explorer{T: j.T, Prop: j.Prop, Case: caseName, Sc: sc, Budget: b, Stats: j.Stats, Shard: shard, NShards: nshards,
		Deadline: j.Deadline, Classify: classify, maxViol: 40, progress: j.progress}
	e.Run()
	j.Stats.BudgetDone[caseName] = fmt.Sprintf("k=%d d=%d capped=%v", b.K, b.D, j.Stats.Capped)
}

var registry = map[string]func(j *Job){}

func register(prop string, f func(j *Job)) { registry[prop] = f }

var watchdogTick atomic.Int64

func envInt(name string, def int) int {
	if v := os.Getenv(name); v != "" {
		if n, err := strconv.Atoi(v); err == nil {
			return n
		}
	}
	return def
}

// TestVerif is the single entry point of the worker binary.
func TestVerif(t *testing.T) {
	prop := os.Getenv("VERIF_PROP")
	if prop == "" {
		t.Skip("VERIF_PROP not set")
	}
	f := registry[prop]
	if f == nil {
		t.Fatalf("unknown property %q", prop)
	}
	debug.SetGCPercent(400)
	j := &Job{T: t, Prop: prop, Tier: os.Getenv("VERIF_TIER"), Shard: envInt("VERIF_SHARD", 0), NShards: envInt("VERIF_NSHARDS", 1),
		Out: os.Getenv("VERIF_OUT"), Stats: newStats(), Seed: envInt("VERIF_SEED", 0)}
	if j.Tier == "" {
		j.Tier = "quick"
	}
	if b := envInt("VERIF_BUDGET_S", 0); b > 0 {
		j.Deadline = time.Now().Add(time.Duration(b) * time.Second)
	}
	if p := os.Getenv("VERIF_PROGRESS"); p != "" {
		if fh, err := os.Create(p); err == nil {
			j.progress = fh
			defer fh.Close()
		}
	}
	if rp := os.Getenv("VERIF_REPLAY"); rp != "" {
		b, err := os.ReadFile(rp)
		if err != nil {
			t.Fatal(err)
		}
		var fv FoundViolation
		if err := json.Unmarshal(b, &fv); err != nil {
			t.Fatal(err)
		}
		j.Replay = &fv
	}
	start := time.Now()
	f(j)
	if j.Out != "" {
		res := map[string]any{"prop": prop, "tier": j.Tier, "shard": j.Shard, "nshards": j.NShards, "wall_s": time.Since(start).Seconds(), "stats": j.Stats}
		if err := writeJSON(j.Out, res); err != nil {
			t.Fatal(err)
		}
	}
	if dir := os.Getenv("VERIF_COVOUT"); dir != "" {
		_ = writeJSON(fmt.Sprintf("%s/%s-%s-%d.json", dir, prop, j.Tier, j.Shard), vsched.CovDump())
	}
	fmt.Printf("VERIF-DONE prop=%s shard=%d/%d execs=%d steps=%d violations=%d wall=%.1fs\n", prop, j.Shard, j.NShards, j.Stats.Execs, j.Stats.Steps, len(j.Stats.Violations), time.Since(start).Seconds())
}
