package sctp

import (
	"bytes"
	"fmt"
	"math/bits"
	"time"
)

// Always-on monitors over the wire trace of an execution (independent decoder) and
// white-box invariants evaluated at quiescent points.

type monOpts struct {
	Codec, Cksum, Sack, Flow, Kind bool
	// SackComplete: also demand that every delivered-and-acceptable TSN is reported.
	SackComplete bool
	SnapZC       [2]bool // SNAP: endpoint i advertised zero checksum out of band
	SnapIL       [2]bool
	Snap         bool
	SnapARwnd    [2]uint32 // SNAP: receive window endpoint i advertised in its token (0: unknown)
}

func allMonitors() monOpts {
	return monOpts{Codec: true, Cksum: true, Sack: true, Flow: true, Kind: true, SackComplete: true}
}

func sna32lte(a, b uint32) bool { return a == b || int32(b-a) > 0 }
func sna32lt(a, b uint32) bool  { return a != b && int32(b-a) > 0 }

type xmitRec struct {
	Times []time.Duration
	Len   int
	SID   uint16
	U     bool
	PPI   uint32
	SSN   uint16
	MID   uint32
	B, E  bool
	FSN   uint32
	Data  string
	Typ   uint8
}

type wireFacts struct {
	Xmit       [2]map[uint32]*xmitRec // per sender: tsn -> record
	XmitOrder  [2][]uint32
	InitTSN    [2]uint32
	HaveInit   [2]bool
	ZCAdvert   [2]bool // endpoint i advertised zero-checksum acceptance (edmid 1) on the wire
	ILAdvert   [2]bool
	FwdAdvert  [2]bool
	IFwdAdvert [2]bool
	Negotiated bool // both INIT and INIT-ACK seen
	FwdTSNs    [2][]*wChunk
	Sacks      [2][]*wChunk
	Aborts     [2][]*wChunk
}

func paramZC(ps []wTLV) (bool, bool) {
	found, ok := false, false
	for _, p := range ps {
		if p.Typ == 0x8001 {
			found = true
			ok = len(p.Val) >= 4 && be32(p.Val) == 1
		}
	}
	return found, ok
}

func paramExts(ps []wTLV) (il, fwd, ifwd bool) {
	for _, p := range ps {
		if p.Typ == 0x8008 {
			for _, t := range p.Val {
				switch t {
				case wIDATA:
					il = true
				case wFWDTSN:
					fwd = true
				case wIFWDTSN:
					ifwd = true
				}
			}
		}
	}
	return
}

// runWireMonitors scans the event trace once, in order.
func runWireMonitors(m *Sim, x *Exec, o monOpts) *wireFacts {
	f := &wireFacts{}
	f.Xmit[0], f.Xmit[1] = map[uint32]*xmitRec{}, map[uint32]*xmitRec{}
	mtu := [2]int{int(initialMTU), int(initialMTU)}
	for i := 0; i < 2; i++ {
		if m.Cfg[i].MTU != 0 {
			mtu[i] = int(m.Cfg[i].MTU)
		}
	}
	var tsnWindow [2]uint32
	for i := 0; i < 2; i++ {
		rb := m.Cfg[i].RecvBuf
		if rb == 0 {
			rb = initialRecvBufSize
		}
		tsnWindow[i] = getMaxTSNOffset(rb)
	}
	// state for M-cksum: zcKnown[x] = peer of x advertised ZC and that advert was delivered to x
	var zcKnown [2]bool
	if o.Snap {
		zcKnown[0], zcKnown[1] = o.SnapZC[1], o.SnapZC[0]
		f.ILAdvert = o.SnapIL
	}
	// M-sack state per receiver y
	type rstate struct {
		mustReport   map[uint32]bool // delivered while certainly inside the TSN window
		delivered    map[uint32]bool
		fwdPoint     uint32
		haveFwd      bool
		base         uint32 // peer initial TSN - 1
		haveBase     bool
		lastCum      uint32
		haveCum      bool
		shutdownSeen bool
	}
	var rs [2]*rstate
	for i := range rs {
		rs[i] = &rstate{delivered: map[uint32]bool{}, mustReport: map[uint32]bool{}}
	}
	// M-flow state per sender x
	type sstate struct {
		outstanding map[uint32]int
		ackPoint    uint32
		haveAck     bool
		lastARwnd   uint32
		haveARwnd   bool
	}
	var ss [2]*sstate
	for i := range ss {
		ss[i] = &sstate{outstanding: map[uint32]int{}}
	}
	if o.Snap {
		for i := range ss {
			if w := o.SnapARwnd[1-i]; w != 0 {
				ss[i].lastARwnd, ss[i].haveARwnd = w, true
			}
		}
	}
	ilInit, ilAck := false, false
	haveInitPkt, haveAckPkt := false, false

	for i := range x.Events {
		ev := &x.Events[i]
		p := ev.Pkt
		switch ev.Kind {
		case "send":
			snd := ev.From
			if p.decErr != nil || p.dec == nil {
				if o.Codec {
					m.Failf("codec.malformed", "endpoint %d emitted a packet the independent decoder rejects: %v (%x)", snd, p.decErr, p.data)
				}
				continue
			}
			d := p.dec
			if o.Codec {
				monCodec(m, snd, p)
			}
			hasInitOrCookie, hasData := false, false
			for ci := range d.Chunks {
				c := &d.Chunks[ci]
				switch c.Typ {
				case wINIT, wINITACK:
					hasInitOrCookie = hasInitOrCookie || c.Typ == wINIT
					f.InitTSN[snd], f.HaveInit[snd] = c.InitTSN, true
					_, zok := paramZC(c.Params)
					f.ZCAdvert[snd] = zok
					il, fw, ifw := paramExts(c.Params)
					f.ILAdvert[snd], f.FwdAdvert[snd], f.IFwdAdvert[snd] = il, fw, ifw
					if c.Typ == wINIT {
						ilInit, haveInitPkt = il, true
					} else {
						ilAck, haveAckPkt = il, true
					}
				case wCOOKIEECHO:
					hasInitOrCookie = true
				case wDATA, wIDATA:
					hasData = true
					rec := f.Xmit[snd][c.TSN]
					first := rec == nil
					if first {
						rec = &xmitRec{Len: len(c.Data), SID: c.SID, U: c.U, PPI: c.PPI, SSN: c.SSN, MID: c.MID, B: c.B, E: c.E, FSN: c.FSN, Data: string(c.Data), Typ: c.Typ}
						f.Xmit[snd][c.TSN] = rec
						f.XmitOrder[snd] = append(f.XmitOrder[snd], c.TSN)
					}
					rec.Times = append(rec.Times, ev.At)
					if o.Kind {
						want := f.ILAdvert[0] && f.ILAdvert[1]
						if (c.Typ == wIDATA) != want {
							m.Failf("kind.data", "endpoint %d sent %s although interleaving negotiated=%v", snd, wTypeName(c.Typ), want)
						}
					}
					if o.Flow && first {
						st := ss[snd]
						out := 0
						for _, l := range st.outstanding {
							out += l
						}
						if ev.snap != nil && out > 0 {
							if uint32(out+len(c.Data)) > ev.snap.cwnd {
								m.Failf("flow.cwnd", "endpoint %d sent new TSN %d (%dB) with %dB outstanding > cwnd %d", snd, c.TSN, len(c.Data), out, ev.snap.cwnd)
							}
							if st.haveARwnd && uint32(out+len(c.Data)) > st.lastARwnd {
								m.Failf("flow.rwnd", "endpoint %d sent new TSN %d (%dB) with %dB outstanding > peer a_rwnd %d", snd, c.TSN, len(c.Data), out, st.lastARwnd)
							}
						}
						st.outstanding[c.TSN] = len(c.Data)
					}
				case wSACK:
					f.Sacks[snd] = append(f.Sacks[snd], c)
					if o.Sack {
						r := rs[snd]
						monSack(m, snd, c, r.delivered, r.mustReport, r.haveFwd, r.fwdPoint, r.haveBase, r.base, r.haveCum, r.lastCum, o.SackComplete && !r.shutdownSeen)
						r.lastCum, r.haveCum = c.CumAck, true
					}
				case wFWDTSN, wIFWDTSN:
					f.FwdTSNs[snd] = append(f.FwdTSNs[snd], c)
					if o.Kind {
						want := f.ILAdvert[0] && f.ILAdvert[1]
						if (c.Typ == wIFWDTSN) != want {
							m.Failf("kind.fwd", "endpoint %d sent %s although interleaving negotiated=%v", snd, wTypeName(c.Typ), want)
						}
					}
				case wABORT:
					f.Aborts[snd] = append(f.Aborts[snd], c)
				case wSHUTDOWN, wSHUTDOWNACK:
					rs[snd].shutdownSeen = true
					rs[1-snd].shutdownSeen = true
				}
			}
			if o.Flow && hasData && p.dec.Len > mtu[snd] {
				m.Failf("flow.mtu", "endpoint %d emitted a %d-byte packet carrying user data (MTU %d)", snd, p.dec.Len, mtu[snd])
			}
			if o.Cksum {
				if d.CksumZero {
					if hasInitOrCookie {
						m.Failf("cksum.emit", "endpoint %d emitted zero checksum on an INIT/COOKIE-ECHO packet", snd)
					} else if !zcKnown[snd] {
						m.Failf("cksum.emit", "endpoint %d emitted zero checksum but its peer has not advertised acceptance (%s)", snd, d.Summary())
					}
				} else if !d.CksumOK {
					m.Failf("cksum.emit", "endpoint %d emitted a wrong CRC32c (%s)", snd, d.Summary())
				}
			}
		case "deliver", "inject":
			rcv := 1 - ev.From
			if p.dec == nil {
				continue
			}
			for ci := range p.dec.Chunks {
				c := &p.dec.Chunks[ci]
				switch c.Typ {
				case wINIT, wINITACK:
					if _, zok := paramZC(c.Params); zok {
						zcKnown[rcv] = true
					} else {
						zcKnown[rcv] = false
					}
					r := rs[rcv]
					if !r.haveBase {
						r.base, r.haveBase = c.InitTSN-1, true
					}
					// the window of the first flight: what the peer advertised in the handshake
					if st := ss[rcv]; !st.haveAck && !st.haveARwnd {
						st.lastARwnd, st.haveARwnd = c.ARwnd, true
					}
				case wDATA, wIDATA:
					r := rs[rcv]
					r.delivered[c.TSN] = true
					// certainly acceptable: within the TSN window of the last cumulative point the
					// receiver itself announced (its real point can only be further ahead)
					ref, okRef := r.base, r.haveBase
					if r.haveCum {
						ref = r.lastCum
					}
					if okRef && c.TSN-ref <= tsnWindow[rcv] {
						r.mustReport[c.TSN] = true
					}
				case wFWDTSN, wIFWDTSN:
					r := rs[rcv]
					if !r.haveFwd || sna32lt(r.fwdPoint, c.NewCum) {
						r.fwdPoint, r.haveFwd = c.NewCum, true
					}
				case wSACK:
					st := ss[rcv]
					if st.haveAck && sna32lt(c.CumAck, st.ackPoint) {
						continue // old SACK: dropped by the sender
					}
					st.ackPoint, st.haveAck = c.CumAck, true
					st.lastARwnd, st.haveARwnd = c.ARwnd, true
					for tsn := range st.outstanding {
						if sna32lte(tsn, c.CumAck) {
							delete(st.outstanding, tsn)
						}
					}
					for _, g := range c.Gaps {
						for t := uint32(g.Start); t <= uint32(g.End); t++ {
							delete(st.outstanding, c.CumAck+t)
						}
					}
				case wSHUTDOWN:
					st := ss[rcv]
					for tsn := range st.outstanding {
						if sna32lte(tsn, c.CumAck) {
							delete(st.outstanding, tsn)
						}
					}
				}
			}
		}
	}
	f.Negotiated = haveInitPkt && haveAckPkt
	_, _ = ilInit, ilAck
	return f
}

func monSack(m *Sim, y int, c *wChunk, delivered, mustReport map[uint32]bool, haveFwd bool, fwdPoint uint32, haveBase bool, base uint32,
	haveCum bool, lastCum uint32, complete bool) {
	if haveCum && sna32lt(c.CumAck, lastCum) {
		m.Failf("sack.monotone", "endpoint %d: SACK cum %d after cum %d (moved backwards)", y, c.CumAck, lastCum)
	}
	if haveBase {
		// every TSN in (base, cum] was delivered or forwarded
		n := c.CumAck - base
		if n < 1<<20 {
			for t := base + 1; sna32lte(t, c.CumAck); t++ {
				if !delivered[t] && !(haveFwd && sna32lte(t, fwdPoint)) {
					m.Failf("sack.cum", "endpoint %d: SACK cum %d covers TSN %d that was neither delivered nor forwarded", y, c.CumAck, t)
					break
				}
			}
		} else if n != 0 && int32(n) > 0 {
			m.Failf("sack.cum", "endpoint %d: SACK cum %d is %d beyond the initial TSN", y, c.CumAck, n)
		}
	}
	inGap := map[uint32]bool{}
	for _, g := range c.Gaps {
		if g.Start == 0 || g.Start > g.End {
			m.Failf("sack.gap", "endpoint %d: malformed gap block %d-%d", y, g.Start, g.End)
			continue
		}
		for t := uint32(g.Start); t <= uint32(g.End); t++ {
			tsn := c.CumAck + t
			inGap[tsn] = true
			if !delivered[tsn] {
				m.Failf("sack.gap", "endpoint %d: SACK (cum %d) gap block %d-%d names TSN %d that was never delivered", y, c.CumAck, g.Start, g.End, tsn)
				break
			}
		}
	}
	if complete {
		for tsn := range mustReport {
			if sna32lt(c.CumAck, tsn) && !inGap[tsn] && !(haveFwd && sna32lte(tsn, fwdPoint)) {
				m.Failf("sack.complete", "endpoint %d: TSN %d was delivered but the next SACK (cum %d gaps %v) does not report it", y, tsn, c.CumAck, c.Gaps)
				break
			}
		}
	}
}

// monCodec: emitted packet well formed; pion's own decode re-encodes to the same bytes;
// mandatory parameters present.
func monCodec(m *Sim, snd int, p *wpkt) {
	d := p.dec
	for i := range d.Chunks {
		c := &d.Chunks[i]
		switch c.Typ {
		case wINITACK:
			has := false
			for _, t := range c.Params {
				if t.Typ == 7 && len(t.Val) > 0 {
					has = true
				}
			}
			if !has {
				m.Failf("codec.mandatory", "endpoint %d emitted INIT-ACK without state cookie", snd)
			}
		case wHEARTBEAT, wHBACK:
			if len(c.Params) != 1 || c.Params[0].Typ != 1 {
				m.Failf("codec.mandatory", "endpoint %d emitted %s without a Heartbeat Info parameter (value %d bytes)", snd, wTypeName(c.Typ), len(c.Val))
			}
		case wDATA, wIDATA:
			if len(c.Data) == 0 {
				m.Failf("codec.mandatory", "endpoint %d emitted %s with no user data", snd, wTypeName(c.Typ))
			}
		case wCOOKIEECHO:
			if len(c.Cookie) == 0 {
				m.Failf("codec.mandatory", "endpoint %d emitted empty COOKIE-ECHO", snd)
			}
		}
	}
	if len(d.Chunks) == 0 {
		m.Failf("codec.malformed", "endpoint %d emitted a packet without chunks", snd)
	}
	// pion decode + re-encode stability
	pk := &packet{}
	if err := pk.unmarshal(!d.CksumZero, p.data); err != nil {
		m.Failf("codec.selfdecode", "endpoint %d emitted a packet its own decoder rejects: %v (%s)", snd, err, d.Summary())
		return
	}
	raw, err := pk.marshal(!d.CksumZero)
	if err != nil {
		m.Failf("codec.reencode", "re-encode failed: %v (%s)", err, d.Summary())
		return
	}
	if !bytes.Equal(raw, p.data) {
		m.Failf("codec.reencode", "endpoint %d: decode+re-encode changes the packet (%s): %x vs %x", snd, d.Summary(), p.data, raw)
	}
}

// ---------------------------------------------------------------------------------
// white-box invariants (evaluated only while every thread is parked)

func pendingContents(q *pendingQueue) (chunks int, nbytes int, ok bool) {
	walk := func(b *pendingBaseQueue) {
		if b == nil {
			return
		}
		for _, c := range b.queue {
			chunks++
			nbytes += len(c.userData)
		}
	}
	switch p := q.policy.(type) {
	case *messagePendingQueuePolicy:
		walk(p.unorderedQueue)
		walk(p.orderedQueue)
	case *interleavingStreamSchedulerPolicy:
		switch sch := p.scheduler.(type) {
		case *roundRobinPendingQueuePolicy:
			for _, b := range sch.streamQueues {
				walk(b)
			}
		case *weightedFairQueueingPendingQueuePolicy:
			for _, b := range sch.streamQueues {
				walk(b)
			}
		default:
			return 0, 0, false
		}
	default:
		return 0, 0, false
	}
	return chunks, nbytes, true
}

func reassemblyHeld(r *reassemblyQueue) int {
	n := 0
	for _, s := range r.ordered {
		for _, c := range s.chunks {
			n += len(c.userData)
		}
	}
	for _, s := range r.unordered {
		for _, c := range s.chunks {
			n += len(c.userData)
		}
	}
	for _, c := range r.unorderedChunks {
		n += len(c.userData)
	}
	for _, s := range r.orderedMID {
		for _, c := range s.chunks {
			n += len(c.userData)
		}
	}
	for _, s := range r.unorderedMID {
		for _, c := range s.chunks {
			n += len(c.userData)
		}
	}
	for _, s := range r.unorderedMIDMap {
		for _, c := range s.chunks {
			n += len(c.userData)
		}
	}
	return n
}

// checkInvariants verifies the structural invariants of one association.
func checkInvariants(m *Sim, a *Association, who string) {
	if a == nil {
		return
	}
	q := a.inflightQueue
	sum := 0
	for i := 0; i < q.chunks.Len(); i++ {
		c := q.chunks.At(i)
		sum += len(c.userData)
		if i > 0 && c.tsn != q.chunks.At(i-1).tsn+1 {
			m.Failf("inv.inflight", "%s: in-flight TSNs not contiguous at %d", who, c.tsn)
		}
	}
	if q.chunks.Len() > 0 && q.chunks.Front().tsn != a.cumulativeTSNAckPoint+1 {
		m.Failf("inv.inflight", "%s: in-flight queue starts at %d but ack point is %d", who, q.chunks.Front().tsn, a.cumulativeTSNAckPoint)
	}
	if sum != q.nBytes {
		m.Failf("inv.inflight", "%s: inflight nBytes=%d but chunks hold %d", who, q.nBytes, sum)
	}
	if nc, nb, ok := pendingContents(a.pendingQueue); ok {
		if nc != a.pendingQueue.nChunks || nb != a.pendingQueue.nBytes {
			m.Failf("inv.pending", "%s: pending counters chunks=%d bytes=%d but contents chunks=%d bytes=%d", who, a.pendingQueue.nChunks, a.pendingQueue.nBytes, nc, nb)
		}
	}
	pop := 0
	for _, w := range a.payloadQueue.tsnBitmask {
		pop += bits.OnesCount64(w)
	}
	if pop != a.payloadQueue.chunkSize {
		m.Failf("inv.recvq", "%s: receive queue chunkSize=%d but bitmap has %d bits", who, a.payloadQueue.chunkSize, pop)
	}
	for sid, s := range a.streams {
		held := reassemblyHeld(s.reassemblyQueue)
		if held != s.reassemblyQueue.getNumBytes() {
			m.Failf("inv.reassembly", "%s stream %d: reassembly nBytes=%d but chunks hold %d", who, sid, s.reassemblyQueue.getNumBytes(), held)
		}
	}
}

func (m *Sim) invariantsAll() {
	for _, h := range m.quiescentHooks {
		h()
	}
	if !m.InvOn {
		return
	}
	for i, a := range m.As {
		checkInvariants(m, a, fmt.Sprintf("ep%d", i))
	}
}

var _ = fmt.Sprint
