package sctp

import (
	"context"
	"errors"
	"io"
	"net"
	"os"
	"strings"
	"sync"
	"testing"
	"time"
)

// Engine E4 (complement of C20 only): the concurrent API programs run free, on real
// goroutines over an in-memory pipe, in a binary built with -race and WITHOUT the shims.
// A cooperative scheduler's hand-offs are happens-before edges, so unsynchronised accesses
// can only be seen here.  This pass samples schedules; it never decides a property alone.

type rpEnd struct {
	in     chan []byte
	peer   *rpEnd
	closed chan struct{}
	once   sync.Once
	mu     sync.Mutex
	rdl    time.Time
	rdlCh  chan struct{}
}

func newRacePipe() (*rpEnd, *rpEnd) {
	a := &rpEnd{in: make(chan []byte, 4096), closed: make(chan struct{}), rdlCh: make(chan struct{}, 1)}
	b := &rpEnd{in: make(chan []byte, 4096), closed: make(chan struct{}), rdlCh: make(chan struct{}, 1)}
	a.peer, b.peer = b, a
	return a, b
}

func (e *rpEnd) Read(p []byte) (int, error) {
	for {
		e.mu.Lock()
		dl := e.rdl
		e.mu.Unlock()
		var timer <-chan time.Time
		if !dl.IsZero() {
			d := time.Until(dl)
			if d <= 0 {
				return 0, os.ErrDeadlineExceeded
			}
			timer = time.After(d)
		}
		select {
		case b := <-e.in:
			return copy(p, b), nil
		case <-e.closed:
			return 0, io.EOF
		case <-timer:
			return 0, os.ErrDeadlineExceeded
		case <-e.rdlCh:
		}
	}
}

func (e *rpEnd) Write(p []byte) (int, error) {
	select {
	case <-e.closed:
		return 0, io.ErrClosedPipe
	default:
	}
	b := append([]byte(nil), p...)
	select {
	case e.peer.in <- b:
	default: // full: drop
	}
	return len(p), nil
}

func (e *rpEnd) Close() error {
	e.once.Do(func() { close(e.closed) })
	return nil
}
func (e *rpEnd) LocalAddr() net.Addr  { return wireAddr(0) }
func (e *rpEnd) RemoteAddr() net.Addr { return wireAddr(1) }
func (e *rpEnd) SetDeadline(t time.Time) error {
	return e.SetReadDeadline(t)
}
func (e *rpEnd) SetReadDeadline(t time.Time) error {
	e.mu.Lock()
	e.rdl = t
	e.mu.Unlock()
	select {
	case e.rdlCh <- struct{}{}:
	default:
	}
	return nil
}
func (e *rpEnd) SetWriteDeadline(time.Time) error { return nil }

// raceAbandoned counts programs of this worker that did not finish.  A tree on which the
// free-running programs hang is not judged by this pass at all (it decides data races
// only); after two of them the remaining programs are skipped instead of waiting each out.
var raceAbandoned int

func raceProgram(t *testing.T, prog string, il bool) {
	if raceAbandoned >= 2 {
		t.Logf("RACE-PASS-INCONCLUSIVE program %q: skipped, %d earlier programs did not finish", prog, raceAbandoned)
		return
	}
	ca, cb := newRacePipe()
	var a, b *Association
	var wg sync.WaitGroup
	wg.Add(2)
	block := strings.Contains(prog, "W1b")
	go func() {
		defer wg.Done()
		a, _ = ClientWithOptions(WithNetConn(ca), WithLoggerFactory(nopLoggerFactory{}), WithEnableInterleaving(il), WithMTU(228), WithBlockWrite(block))
	}()
	go func() {
		defer wg.Done()
		opts := []ServerOption{WithNetConn(cb), WithLoggerFactory(nopLoggerFactory{}), WithEnableInterleaving(il), WithMTU(228)}
		if block {
			opts = append(opts, WithMaxReceiveBufferSize(1500))
		}
		b, _ = ServerWithOptions(opts...)
	}()
	wg.Wait()
	if a == nil || b == nil {
		t.Logf("RACE-PASS-INCONCLUSIVE program %q: handshake failed", prog)
		_ = ca.Close()
		_ = cb.Close()
		return
	}
	sa1, _ := a.OpenStream(1, PayloadTypeWebRTCBinary)
	sa2, _ := a.OpenStream(2, PayloadTypeWebRTCBinary)
	sb1, _ := b.OpenStream(1, PayloadTypeWebRTCBinary)
	sb2, _ := b.OpenStream(2, PayloadTypeWebRTCBinary)
	has := func(x string) bool { return strings.Contains(prog, x) }
	var work, readers sync.WaitGroup
	writer := func(s *Stream, n, size int) {
		work.Add(1)
		go func() {
			defer work.Done()
			for i := 0; i < n; i++ {
				if _, err := s.WriteSCTP(payload(s.StreamIdentifier(), i, size), PayloadTypeWebRTCBinary); err != nil {
					return
				}
			}
		}()
	}
	reader := func(s *Stream) {
		readers.Add(1)
		go func() {
			defer readers.Done()
			buf := make([]byte, 4000)
			for {
				if _, _, err := s.ReadSCTP(buf); err != nil {
					if errors.Is(err, ErrReadDeadlineExceeded) {
						_ = s.SetReadDeadline(time.Time{})
						continue
					}
					return
				}
			}
		}()
	}
	one := func(f func()) {
		work.Add(1)
		go func() { defer work.Done(); f() }()
	}
	if has("W1b") {
		// blocking-write mode against a small peer buffer that nobody empties: the writers
		// end up waiting for the window; two of them share the stream
		writer(sa1, 8, 500)
		writer(sa1, 8, 500)
	} else if has("W1") {
		writer(sa1, 6, 150)
	}
	if has("De") {
		one(func() {
			_ = sb1.SetReadDeadline(time.Now().Add(20 * time.Millisecond))
			time.Sleep(40 * time.Millisecond)
			buf := make([]byte, 4000)
			for i := 0; i < 3; i++ {
				if _, _, err := sb1.ReadSCTP(buf); errors.Is(err, ErrReadDeadlineExceeded) {
					_ = sb1.SetReadDeadline(time.Now().Add(20 * time.Millisecond))
				} else if err != nil {
					return
				}
			}
		})
	}
	if has("W2") {
		writer(sa2, 6, 300)
	}
	if has("Wb") {
		writer(sb1, 6, 120)
	}
	if has("R1") {
		reader(sb1)
	}
	if has("R1x") {
		reader(sb1)
	}
	if has("R2") {
		reader(sb2)
	}
	if has("Ra") {
		reader(sa1)
	}
	if has("Q") {
		one(func() {
			sa1.OnBufferedAmountLow(func() { _ = sa1.BufferedAmount() })
			sa1.SetBufferedAmountLowThreshold(100)
			_ = sa1.BufferedAmount()
			_ = a.BufferedAmount()
			sa1.SetReliabilityParams(false, ReliabilityTypeReliable, 0)
			_, _ = a.Metadata()
			_ = a.SRTT()
			_ = a.CWND()
			_ = a.RWND()
			_ = a.BytesSent()
			_ = sa1.State()
			a.SetMaxMessageSize(60000)
			_ = a.MaxMessageSize()
			a.ActiveHeartbeat()
		})
	}
	if has("D") {
		one(func() {
			_ = sb1.SetReadDeadline(time.Now().Add(2 * time.Millisecond))
			_ = sb1.SetReadDeadline(time.Time{})
			_ = sb1.SetReadDeadline(time.Now().Add(time.Second))
		})
	}
	if has("Xs") {
		one(func() { _ = sa1.Close() })
	}
	if has("Xh") {
		one(func() {
			ctx, cancel := context.WithTimeout(context.Background(), 3*time.Second)
			defer cancel()
			_ = a.Shutdown(ctx)
		})
	}
	if has("Xhb") {
		one(func() {
			ctx, cancel := context.WithTimeout(context.Background(), 3*time.Second)
			defer cancel()
			_ = b.Shutdown(ctx)
		})
	}
	if has("Xc") {
		one(func() { _ = a.Close() })
	}
	if has("Xcb") {
		one(func() { _ = b.Close() })
	}
	if has("Xa") {
		one(func() { a.Abort("race pass") })
	}
	// Only data races are decided here.  Liveness of these calls is decided by the cooperative
	// engine in virtual time; a wall-clock wait on a loaded machine proves nothing, so a slow
	// or stuck program is abandoned and logged as inconclusive, never failed.
	waitFor := func(what string, d time.Duration, f func()) bool {
		done := make(chan struct{})
		go func() { f(); close(done) }()
		select {
		case <-done:
			return true
		case <-time.After(d):
			t.Logf("RACE-PASS-INCONCLUSIVE program %q: %s not finished after %v (abandoned)", prog, what, d)
			raceAbandoned++
			return false
		}
	}
	ok := waitFor("calls", 60*time.Second, work.Wait)
	time.Sleep(20 * time.Millisecond)
	if ok {
		ok = waitFor("close", 30*time.Second, func() { _ = a.Close(); _ = b.Close() })
	}
	_ = ca.Close()
	_ = cb.Close()
	if ok {
		waitFor("readers", 30*time.Second, readers.Wait)
	}
}

// TestVerifRace is run by `./check C20 ...` in a -race build.
func TestVerifRace(t *testing.T) {
	if os.Getenv("VERIF_RACE") == "" {
		t.Skip("VERIF_RACE not set")
	}
	progs := []string{
		"W1 W2 R1 R2", "W1 Q R1", "W1 R1 Xs", "W1 R1 Xh", "W1 R1 Xc", "W1 R1 Xa", "R1 R1x W1 Xcb", "W1 R1 D", "W1 Wb R1 Ra",
		"Xc Xcb W1", "Xa Xc R1", "Xh Xhb W1 Wb R1 Ra", "W1 Q Xs R1", "R1 R1x Xa",
		"W1 Xs De", "W1 Xa De", "W1b Xh", "W1b Xc", "W1b Xa",
	}
	reps := envInt("VERIF_RACE_REPS", 3)
	shard, n := envInt("VERIF_SHARD", 0), envInt("VERIF_NSHARDS", 1)
	i := 0
	for r := 0; r < reps; r++ {
		for _, p := range progs {
			for _, il := range []bool{false, true} {
				i++
				if i%n != shard {
					continue
				}
				raceProgram(t, p, il)
			}
		}
	}
}
