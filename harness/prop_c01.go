package sctp

import (
	"fmt"
	"time"
)

func init() { register("C01", propC01) }

type modeSpec struct {
	Name string
	A, B epCfg
}

func stdModes() []modeSpec {
	return []modeSpec{
		{Name: "DATA", A: epCfg{NoInterleave: true}, B: epCfg{Server: true, NoInterleave: true}},
		{Name: "IDATA-rr", A: epCfg{RoundRobin: true}, B: epCfg{Server: true, RoundRobin: true}},
		{Name: "IDATA-wfq", A: epCfg{}, B: epCfg{Server: true}},
	}
}

type tsnPair struct{ A, B uint32 }

func stdTSNPairs() []tsnPair {
	return []tsnPair{{1000, 70000}, {0xFFFFFFFD, 0xFFFFFFD8}}
}

func withBase(c epCfg, mtu uint32, tsn uint32, rtoMax float64) epCfg {
	c.MTU = mtu
	c.InitTSN = tsn
	c.RTOMax = rtoMax
	return c
}

// generalVerdicts are the verdicts every two-endpoint execution is subject to.
func generalVerdicts(m *Sim, x *Exec, leak bool) {
	if x.Out.Deadlock {
		m.Failf("deadlock", "%s", x.Out.DeadlockMsg)
	}
	if len(x.Stuck) > 0 && !x.Out.Deadlock {
		m.Failf("stuck-call", "harness threads still blocked at the horizon: %v", x.Stuck)
	}
	if leak && len(x.Leaked) > 0 {
		m.Failf("leak", "%d goroutines left after teardown: %v", len(x.Leaked), x.Leaked)
	}
}

func propC01(j *Job) {
	for _, mode := range stdModes() {
		for ti, tp := range stdTSNPairs() {
			mtu := uint32(100)
			il := !mode.A.NoInterleave
			P := int(maxPayloadSizeForMTU(mtu, il))
			sizes := []int{1, P - 1, P, P + 1, 3 * P}
			var msgs []msgSpec
			for i, sz := range sizes {
				msgs = append(msgs, msgSpec{Size: sz, PPI: PayloadProtocolIdentifier(51 + i%3)})
			}
			spec := &xferSpec{
				A:       withBase(mode.A, mtu, tp.A, 4000),
				B:       withBase(mode.B, mtu, tp.B, 4000),
				Streams: []streamSpec{{SID: 1, From: 0, Msgs: msgs}},
				Faults:  faultSet{Drop: true, Dup: true, Late: true, Swap: true},
			}
			res := &xferResult{}
			spec.Final = func(m *Sim, x *Exec, r *xferResult) {
				generalVerdicts(m, x, false)
				if !r.Connected {
					m.Failf("connect", "handshake failed without faults: %v %v", m.Err[0], m.Err[1])
					return
				}
				for _, st := range spec.Streams {
					checkDelivery(m, "delivery", st, r.Written[st.SID], r.Read[st.SID], true)
				}
				runWireMonitors(m, x, allMonitors())
				m.Observe("%s drained=%v", deliverySummary(spec, r), r.Drained)
			}
			sc := xferScenario(spec, res)
			k := 1
			if j.Thorough() {
				k = 2
			}
			j.Explore(fmt.Sprintf("W1/%s/tsn%d/mtu%d", mode.Name, ti, mtu), sc, Budget{K: k}, nil)
		}
	}
	_ = time.Second
}
