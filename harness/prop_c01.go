package sctp

import (
	"fmt"
	"time"
)

func init() {
	register("C01", propC01)
	register("C02", propC02)
}

type modeSpec struct {
	Name string
	A, B epCfg
}

func stdModes() []modeSpec {
	return []modeSpec{
		{Name: "DATA", A: epCfg{NoInterleave: true}, B: epCfg{Server: true, NoInterleave: true}},
		{Name: "IDATA-rr", A: epCfg{RoundRobin: true}, B: epCfg{Server: true, RoundRobin: true}},
		{Name: "IDATA-wfq", A: epCfg{}, B: epCfg{Server: true}},
	}
}

func withBase(c epCfg, mtu uint32, tsn uint32, rtoMax float64) epCfg {
	c.MTU = mtu
	c.InitTSN = tsn
	c.RTOMax = rtoMax
	return c
}

// extraMon: wire monitors a property wants on every scenario it runs (set by the property
// function around its exploration; the scenarios call generalVerdicts in their Final).
var extraMon monOpts

// generalVerdicts are the verdicts every two-endpoint execution is subject to.
func generalVerdicts(m *Sim, x *Exec, leak bool) {
	if extraMon != (monOpts{}) && !m.monDone {
		m.monDone = true
		runWireMonitors(m, x, extraMon)
	}
	if x.Out.Deadlock {
		m.Failf("deadlock", "%s", x.Out.DeadlockMsg)
	}
	if len(x.Stuck) > 0 && !x.Out.Deadlock {
		m.Failf("stuck-call", "harness threads still blocked at the horizon: %v", x.Stuck)
	}
	if leak && len(x.Leaked) > 0 {
		m.Failf("leak", "%d goroutines left after teardown: %v", len(x.Leaked), x.Leaked)
	}
}

func healTime(x *Exec) time.Duration {
	var h time.Duration
	for _, ev := range x.Events {
		switch ev.Kind {
		case "drop", "dup", "late", "swap", "kill":
			if ev.At > h {
				h = ev.At
			}
		}
		if ev.Pkt != nil && ev.Pkt.tag != "" && ev.Kind == "deliver" && ev.At > h {
			h = ev.At // a delayed / duplicated copy arriving is still part of the fault prefix
		}
	}
	return h
}

// deliveryFinal is the C01 oracle (+ always-on monitors).
func deliveryFinal(spec *xferSpec, withStall bool, mon monOpts) func(m *Sim, x *Exec, r *xferResult) {
	return func(m *Sim, x *Exec, r *xferResult) {
		generalVerdicts(m, x, false)
		if !r.Connected {
			m.Failf("connect", "handshake failed without faults: %v %v", m.Err[0], m.Err[1])
			return
		}
		for _, st := range spec.Streams {
			checkDelivery(m, "delivery", st, r.Written[st.SID], r.Read[st.SID], true)
		}
		lateReads(m, spec, r)
		o := mon
		if spec.NoSackComplete {
			o.SackComplete = false
		}
		runWireMonitors(m, x, o)
		if withStall {
			rtoMax := 4 * time.Second
			if spec.A.RTOMax != 0 {
				rtoMax = time.Duration(spec.A.RTOMax) * time.Millisecond
			}
			h := healTime(x)
			if spec.PauseReader > h {
				h = spec.PauseReader
			}
			bound := h + 8*rtoMax
			if !r.Drained {
				m.Failf("stall", "not drained %v after the last fault (heal at %v): buffered A=%d B=%d, delivered %s", r.DrainAt-h, h, bufAmt(m.As[0]), bufAmt(m.As[1]), deliverySummary(spec, r))
			} else if r.DrainAt > bound {
				m.Failf("stall.late", "drained only at %v, more than 8 RTOmax after the heal point %v", r.DrainAt, h)
			}
			for i, b := range r.BufAtDrain {
				if r.Drained && b != 0 {
					m.Failf("stall.buffered", "endpoint %d reports %d buffered bytes after everything was acknowledged", i, b)
				}
			}
		}
		m.Observe("%s drained=%v", deliverySummary(spec, r), r.Drained)
	}
}

func bufAmt(a *Association) int {
	if a == nil {
		return -1
	}
	return a.pendingQueue.getNumBytes() + a.inflightQueue.getNumBytes()
}

func runCases(j *Job, cases []xferCase, final func(spec *xferSpec) func(m *Sim, x *Exec, r *xferResult)) {
	for _, c := range cases {
		if j.capped() {
			return
		}
		spec := c.Spec
		spec.Final = final(spec)
		if spec.BeforeClose == nil {
			spec.BeforeClose = func(m *Sim, r *xferResult) {
				for i := 0; i < 2; i++ {
					if m.As[i] != nil {
						r.BufAtDrain[i] = m.As[i].BufferedAmount()
					}
				}
			}
		}
		res := &xferResult{}
		j.Explore(c.Name, xferScenario(spec, res), Budget{K: c.K, D: c.D}, nil)
	}
}

func propC01(j *Job) {
	modes := stdModes()
	var cases []xferCase
	if j.Thorough() {
		cases = append(cases, famW1(modes, []uint32{0, 3, 4, 6, 7}, 2)...)
		cases = append(cases, famW1(modes, []uint32{1, 2, 5, 8, 9, 10, 11, 12}, 1)...)
		cases = append(cases, famW2(modes, 2)...)
		cases = append(cases, famW3(modes, 1)...)
		cases = append(cases, famW4(modes, 2)...)
		cases = append(cases, famW5(modes, 3)...)
		cases = append(cases, withSuspend(famW1(modes, []uint32{6}, 1), 1)...)
		cases = append(cases, withSuspend(famW2(modes, 0), 2)...)
		cases = append(cases, famKS(modes, 3, false, []time.Duration{0, 300 * time.Millisecond}, 4)...)
		cases = append(cases, famZ7(modes, 1)...)
	} else {
		cases = append(cases, famW1(modes, []uint32{0, 4}, 1)...)
		cases = append(cases, famW1(modes, []uint32{1, 2, 3, 5, 6, 7, 8}, 0)...)
		cases = append(cases, famW1(modes[:1], []uint32{6}, 2)...)
		cases = append(cases, famW2(modes, 1)...)
		cases = append(cases, famW3(modes[:1], 0)...)
		cases = append(cases, famW4(modes, 1)...)
		cases = append(cases, famW5(modes, 2)...)
		cases = append(cases, famKS(modes, 2, false, []time.Duration{0}, 3)...)
		cases = append(cases, famZ6([]int{33000})...)
	}
	cases = append(cases, famZ8([]int{32769, 32770, 32771})...)
	cases = append(cases, famZ9(modes, 1)...)
	// a receive buffer whose tracking window is not a multiple of 64 TSNs while window/64 is a
	// power of two (round-6 seeds C01-r6B, C02-r6A: the bitmap ring sized from the unrounded value)
	cases = append(cases, famZ4([]uint32{256 << 10}, []int{2300})...)
	// an outage that swallows a chunk and several of its retransmissions: delivered all the same
	// once the network is back (round-5 seed C01-r5A: a retransmission timer that gives up)
	if j.Thorough() {
		cases = append(cases, famZ2(modes, 1)...)
	} else {
		cases = append(cases, famZ2(modes[:2], 0)...)
	}
	cases = append(cases, famWrapPause()...)
	runCases(j, cases, func(spec *xferSpec) func(m *Sim, x *Exec, r *xferResult) {
		return deliveryFinal(spec, false, monOpts{})
	})
	// a write parked in blocking-write mode while its stream is closed: if it returns success the
	// message is delivered before end-of-stream (scenario of C14)
	for _, mode := range modes[:2] {
		a, b := withBase(mode.A, 1200, 0xFFFFFFFA, 4000), withBase(mode.B, 1200, 0xFFFFFFF0, 4000)
		a.BlockWrite = true
		b.RecvBuf = 1500
		spec := &resetSpec{A: a, B: b, SIDs: []uint16{5}, Sizes: []int{1000, 400, 1000, 300, 200}, Cycles: 2, BackSizes: []int{12}, SlowReader: 300 * time.Millisecond, CloseWhileWriting: 100 * time.Millisecond}
		j.Explore(fmt.Sprintf("R/%s/close-while-blocked", mode.Name), resetScenario(spec), Budget{K: 0}, nil)
	}
	_ = fmt.Sprint
}

// famWrapPause: the stream sequence numbers wrap while the reader pauses, so that messages from
// both sides of the wrap wait in the reassembly queue together (no fault needed).
func famWrapPause() []xferCase {
	var out []xferCase
	for _, start := range []uint16{65530, 65535} {
		a := withBase(epCfg{NoInterleave: true}, 228, 0xFFFFFFF0, 4000)
		b := withBase(epCfg{Server: true, NoInterleave: true}, 228, 9, 4000)
		var msgs []msgSpec
		for i := 0; i < 12; i++ {
			msgs = append(msgs, msgSpec{Size: 20 + i, PPI: 53})
		}
		out = append(out, xferCase{Name: fmt.Sprintf("WP/ssn%d", start), K: 0,
			Spec: &xferSpec{A: a, B: b, PreOpen: true, SSNStart: start, PauseReader: 700 * time.Millisecond,
				Streams: []streamSpec{{SID: 1, From: 0, Msgs: msgs}}}})
	}
	return out
}

func propC02(j *Job) {
	modes := stdModes()
	var cases []xferCase
	if j.Thorough() {
		cases = append(cases, famW1(modes, []uint32{0, 6}, 2)...)
		cases = append(cases, famW2(modes, 2)...)
		cases = append(cases, famZ1(modes, 2)...)
		cases = append(cases, famZ2(modes, 1)...)
		cases = append(cases, famZ4([]uint32{504000, 520000, 1048576}, []int{300, 1500, 4200})...)
		cases = append(cases, famW5(modes, 2)...)
		cases = append(cases, famZ5(modes, []time.Duration{400 * time.Millisecond, 500 * time.Millisecond}, []int{1, 2, 3}, 2)...)
		cases = append(cases, withSuspend(famZ1(modes[:1], 1), 1)...)
		cases = append(cases, withSuspend(famZ2(modes[:1], 0), 2)...)
		cases = append(cases, famKS(modes, 3, false, []time.Duration{0, 300 * time.Millisecond}, 4)...)
		cases = append(cases, famZ7(modes, 1)...)
	} else {
		cases = append(cases, famW1(modes, []uint32{6}, 1)...)
		cases = append(cases, famW2(modes[:1], 1)...)
		cases = append(cases, famZ1(modes, 1)...)
		cases = append(cases, famZ2(modes[:2], 0)...)
		cases = append(cases, famZ2(modes[:1], 1)...)
		cases = append(cases, famZ4([]uint32{520000, 1048576}, []int{300, 4200})...)
		cases = append(cases, famZ5(modes[:1], []time.Duration{400 * time.Millisecond, 500 * time.Millisecond}, []int{2}, 1)...)
		cases = append(cases, famKS(modes[:2], 2, false, []time.Duration{0}, 3)...)
		cases = append(cases, famZ7(modes, 0)...)
	}
	cases = append(cases, famZ9(modes, 1)...)
	cases = append(cases, famZS([]int{1000, 4300})...)
	cases = append(cases, famZ4([]uint32{256 << 10}, []int{2300})...)
	cases = append(cases, famWrapPause()...)
	cases = append(cases, famZR(modes, []int{2, 3, 4})...)
	runCases(j, cases, func(spec *xferSpec) func(m *Sim, x *Exec, r *xferResult) { return deliveryFinal(spec, true, monOpts{}) })
	// reliable streams next to a partially reliable one whose message is lost and abandoned:
	// whatever else is lost (the FORWARD-TSN, its acknowledgement), the reliable data still gets
	// through and both sides drain
	var mixed []xferCase
	for _, mode := range modes {
		mtu := uint32(100)
		il := !mode.A.NoInterleave
		P := int(maxPayloadSizeForMTU(mtu, il))
		for _, nf := range []int{1, 5} {
			// nf = 5: the abandoned message fills the initial congestion window, the reliable
			// message behind it waits in the pending queue and nothing comes back that could
			// trigger anything: only the retransmission timer can announce the abandonment, and
			// it has to keep doing so when the announcement is lost
			first := 20
			if nf > 1 {
				first = nf * P
			}
			spec := &xferSpec{
				A: withBase(mode.A, mtu, 0xFFFFFFFA, 4000), B: withBase(mode.B, mtu, 50, 4000),
				Streams: []streamSpec{
					{SID: 1, From: 0, RelType: ReliabilityTypeRexmit, RelVal: 0, Msgs: []msgSpec{{Size: first, PPI: 53}, {Size: 21, PPI: 51}}},
					{SID: 2, From: 0, Msgs: []msgSpec{{Size: 3*P + 1, PPI: 53}, {Size: 30, PPI: 53}}},
				},
				Faults:     faultSet{Drop: true, Late: true},
				Interleave: true,
				Kill:       []killRule{{SID: 1, Msg: 0, Frag: -1, N: 1}},
			}
			k := 1
			if j.Thorough() {
				k = 2
			}
			mixed = append(mixed, xferCase{Name: fmt.Sprintf("MX/%s/frags%d", mode.Name, nf), K: k, Spec: spec})
		}
	}
	// several messages in progress at once, each of which fits the peer's receive buffer while
	// their sum does not (with interleaving the scheduler spreads the link over all of them)
	var multi []xferCase
	for _, mode := range modes {
		a, b := withBase(mode.A, 228, 0xFFFFFFFA, 4000), withBase(mode.B, 228, 50, 4000)
		b.RecvBuf = 1500
		var sts []streamSpec
		for sid := uint16(1); sid <= 3; sid++ {
			sts = append(sts, streamSpec{SID: sid, From: 0, Msgs: []msgSpec{{Size: 900, PPI: 53}, {Size: 40, PPI: 51}}})
		}
		multi = append(multi, xferCase{Name: fmt.Sprintf("MB/%s/3x900-rbuf1500", mode.Name), K: 0,
			Spec: &xferSpec{A: a, B: b, Streams: sts, Interleave: true}})
	}
	for _, c := range multi {
		spec := c.Spec
		full := false
		spec.BeforeClose = func(m *Sim, r *xferResult) {
			for i := 0; i < 2; i++ {
				if m.As[i] != nil {
					r.BufAtDrain[i] = m.As[i].BufferedAmount()
				}
			}
			// the receiver's window is closed and every message it holds is incomplete
			b := m.As[1]
			if b == nil {
				return
			}
			b.lock.RLock()
			credit := b.getMyReceiverWindowCredit()
			readable := false
			for _, s := range b.streams {
				if s.reassemblyQueue.isReadable() {
					readable = true
				}
			}
			b.lock.RUnlock()
			full = !r.Drained && credit == 0 && !readable
		}
		inner := deliveryFinal(spec, true, monOpts{})
		spec.Final = func(m *Sim, x *Exec, r *xferResult) {
			if full {
				generalVerdicts(m, x, false)
				m.Failf("stall.window-full-of-fragments", "not drained: the receiver's buffer (%d bytes) is full of fragments of %d messages none of which is complete, its window is 0 and every further fragment is dropped; buffered A=%d, delivered %s", spec.B.RecvBuf, len(spec.Streams), bufAmt(m.As[0]), deliverySummary(spec, r))
				return
			}
			inner(m, x, r)
		}
		res := &xferResult{}
		j.Explore(c.Name, xferScenario(spec, res), Budget{K: c.K, D: c.D}, nil)
	}
	runCases(j, mixed, func(spec *xferSpec) func(m *Sim, x *Exec, r *xferResult) {
		return func(m *Sim, x *Exec, r *xferResult) {
			generalVerdicts(m, x, false)
			if !r.Connected {
				m.Failf("connect", "handshake failed without faults: %v %v", m.Err[0], m.Err[1])
				return
			}
			if !r.Drained {
				m.Failf("stall", "not drained at %v: buffered A=%d B=%d, delivered %s", r.DrainAt, bufAmt(m.As[0]), bufAmt(m.As[1]), deliverySummary(spec, r))
			}
			for _, st := range spec.Streams {
				if st.RelType == ReliabilityTypeReliable {
					checkDelivery(m, "delivery", st, r.Written[st.SID], r.Read[st.SID], true)
				}
			}
			m.Observe("%s drained=%v", deliverySummary(spec, r), r.Drained)
		}
	})
}
