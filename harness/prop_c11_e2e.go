package sctp

import (
	"fmt"
	"time"
)

// C11, association level: one real receiver, the harness is a hostile / sloppy sender.

type c11Cfg struct {
	rbuf  uint32
	limit uint32
	il    bool
}

const (
	rvNext = iota
	rvGap
	rvFrag
	rvDup
	rvFar
	rvAbs5
	rvUFrag
	rvFwd
	rvReset
	rvReadOne
	rvReadAll
	rvBigBurst
	rvDeadlineClose
	nC11Events
)

var c11Names = []string{"data-next", "data-gap", "data-fragB", "data-dup", "data-far", "data-tsn5", "udata-frag", "fwd+2", "reset-req", "read-one", "read-all", "burst", "deadline-close"}

// heldTotal: user bytes held for reassembly or unread delivery, in the registered streams and
// in the stream objects the application still holds after a reset unregistered them (extra).
func heldTotal(a *Association, extra ...*Stream) (int, string) {
	n := 0
	bad := ""
	cum := a.payloadQueue.cumulativeTSN
	w := a.payloadQueue.maxTSNOffset
	check := func(c *chunkPayloadData) {
		n += len(c.userData)
		if d := c.tsn - cum; d != 0 && d < 1<<31 && d > w {
			bad = fmt.Sprintf("chunk with TSN %d is stored although the cumulative point is %d and the window %d", c.tsn, cum, w)
		}
	}
	all := map[*Stream]bool{}
	var list []*Stream
	for _, s := range a.streams {
		all[s] = true
		list = append(list, s)
	}
	for _, s := range extra {
		if s != nil && !all[s] {
			all[s] = true
			list = append(list, s)
		}
	}
	for _, s := range list {
		r := s.reassemblyQueue
		for _, set := range r.ordered {
			for _, c := range set.chunks {
				check(c)
			}
		}
		for _, set := range r.unordered {
			for _, c := range set.chunks {
				check(c)
			}
		}
		for _, c := range r.unorderedChunks {
			check(c)
		}
		for _, set := range r.orderedMID {
			for _, c := range set.chunks {
				check(c)
			}
		}
		for _, set := range r.unorderedMID {
			for _, c := range set.chunks {
				check(c)
			}
		}
		for _, set := range r.unorderedMIDMap {
			for _, c := range set.chunks {
				check(c)
			}
		}
	}
	return n, bad
}

func c11Scenario(cfg c11Cfg, seq []int) *Scenario {
	return &Scenario{
		Name:    "rwnd",
		Horizon: 300 * time.Second,
		Setup: func(m *Sim) {
			m.InvOn = true
			m.W.onQuiescent = m.invariantsAll
			m.W.delay = [2]time.Duration{time.Millisecond, time.Millisecond}
		},
		Body: func(m *Sim) {
			ecfg := epCfg{Server: true, NoInterleave: !cfg.il, MTU: 1191, RTOMax: 4000, InitTSN: 5, RecvBuf: cfg.rbuf, MaxReasm: cfg.limit}
			p := newScripted(m, ecfg, cfg.il, false)
			p.tsn0, p.tsn = 0xFFFF0000, 0xFFFF0000
			if !p.connectServer() {
				m.Failf("e2.base", "handshake with the scripted peer failed")
				c03Teardown(m, p)
				return
			}
			a := p.a
			s1, _ := a.OpenStream(1, PayloadTypeWebRTCBinary)
			m.streamsSeen = append(m.streamsSeen, s1)
			W := a.payloadQueue.maxTSNOffset
			seqNo := func() uint32 {
				if p.il {
					v := p.mid[1]
					p.mid[1]++
					return v
				}
				v := uint32(p.ssn[1])
				p.ssn[1]++
				return v
			}
			aborted := false
			for step, ev := range seq {
				if a.getState() != established || aborted {
					break
				}
				peerLast := a.payloadQueue.cumulativeTSN
				lastTSN, haveLast := a.payloadQueue.getLastTSNReceived()
				creditBefore := a.getMyReceiverWindowCredit()
				heldBefore, _ := heldTotal(a, s1)
				ev0 := len(m.W.events)
				expectNoGrowth := false
				switch ev {
				case rvNext:
					p.inject(p.pkt(p.dataChunk(peerLast+1, 1, seqNo(), 0, 53, 3, payload(1, step, 400), 0)))
					if creditBefore == 0 && (!haveLast || !sna32lt(peerLast+1, lastTSN)) {
						expectNoGrowth = true
					}
				case rvGap:
					p.inject(p.pkt(p.dataChunk(peerLast+3, 1, seqNo(), 0, 53, 3, payload(1, step, 400), 0)))
					if creditBefore == 0 && (!haveLast || !sna32lt(peerLast+3, lastTSN)) {
						expectNoGrowth = true
					}
				case rvFrag:
					p.inject(p.pkt(p.dataChunk(peerLast+1, 1, seqNo(), 0, 53, 2, payload(1, step, 400), 0)))
					if creditBefore == 0 && (!haveLast || !sna32lt(peerLast+1, lastTSN)) {
						expectNoGrowth = true
					}
				case rvDup:
					p.inject(p.pkt(p.dataChunk(peerLast, 1, 0, 0, 53, 3, payload(1, step, 400), 0)))
					expectNoGrowth = true
				case rvFar:
					p.inject(p.pkt(p.dataChunk(peerLast+W+5, 1, seqNo(), 0, 53, 3, payload(1, step, 400), 0)))
					expectNoGrowth = true
				case rvAbs5:
					p.inject(p.pkt(p.dataChunk(5, 1, seqNo(), 0, 53, 3, payload(1, step, 400), 0)))
					expectNoGrowth = true
				case rvUFrag:
					p.inject(p.pkt(p.dataChunk(peerLast+2, 1, 9000+uint32(step), 0, 53, 2|4, payload(1, step, 300), 0)))
				case rvFwd:
					sq := uint32(p.ssn[1])
					if p.il {
						sq = p.mid[1]
						p.inject(p.pkt(chunkBytes(wIFWDTSN, 0, wIFwdVal(peerLast+2, []wFwdStream{{SID: 1, MID: sq}, {SID: 1, MID: 9000 + uint32(step), Unordered: true}}))))
						p.mid[1] = sq + 1
					} else {
						p.inject(p.pkt(chunkBytes(wFWDTSN, 0, wFwdVal(peerLast+2, []wFwdStream{{SID: 1, SSN: uint16(sq)}}))))
						p.ssn[1] = uint16(sq) + 1
					}
				case rvReset:
					v := cat(u32(p.tsn0+uint32(step)), u32(0), u32(peerLast), u16(1))
					p.inject(p.pkt(chunkBytes(wRECONFIG, 0, wTLVBytes(13, v, true))))
				case rvReadOne, rvReadAll:
					buf := make([]byte, 70000)
					for k := 0; k < 50; k++ {
						if s, ok := a.streams[1]; !ok || !s.reassemblyQueue.isReadable() {
							break
						} else if _, _, err := s.ReadSCTP(buf); err != nil {
							break
						}
						if ev == rvReadOne {
							break
						}
					}
					p.settle(0)
				case rvDeadlineClose:
					// the application's read deadline has expired and it closes the stream: the
					// stream object goes straight to "closed" but stays registered until the peer
					// resets its direction, and keeps receiving
					_ = s1.SetReadDeadline(time.Now().Add(-time.Second))
					p.settle(0)
					_ = s1.Close()
					p.settle(0)
				case rvBigBurst:
					// a sender that ignores the window: ten in-order messages back to back
					for k := 0; k < 10 && a.getState() == established; k++ {
						pl := a.payloadQueue.cumulativeTSN
						p.inject(p.pkt(p.dataChunk(pl+1, 1, seqNo(), 0, 53, 3, payload(1, 100+step*10+k, 400), 0)))
					}
				}
				for _, e2 := range m.W.events[ev0:] {
					if e2.Kind == "send" && e2.From == 0 && e2.Pkt.dec != nil {
						for _, c := range e2.Pkt.dec.Chunks {
							if c.Typ == wABORT {
								aborted = true
							}
						}
					}
				}
				where := fmt.Sprintf("step %d (%s) of %v", step, c11Names[ev], c11SeqNames(seq))
				if ev == rvFwd {
					// fragments of unordered messages at or below the new cumulative point were
					// skipped by the sender: they can never complete and must be gone
					for _, st := range a.streams {
						for _, c := range st.reassemblyQueue.unorderedChunks {
							if sna32LTE(c.tsn, peerLast+2) {
								m.Failf("rwnd.purge", "%s: unordered fragment with TSN %d is still held after a FORWARD-TSN to %d (its message can never complete; %d bytes stay counted)", where, c.tsn, peerLast+2, len(c.userData))
							}
						}
					}
				}
				held, bad := heldTotal(a, s1)
				if bad != "" {
					m.Failf("rwnd.window", "%s: %s", where, bad)
				}
				want := uint32(0)
				if uint32(held) < cfg.rbuf {
					want = cfg.rbuf - uint32(held)
				}
				credit := a.getMyReceiverWindowCredit()
				if credit != want {
					// classified apart: the figure is right for the registered streams and only
					// ignores what an already reset stream still holds for its reader
					oracle := "rwnd.credit"
					if reg, _ := heldTotal(a); reg != held && uint32(reg) < cfg.rbuf && credit == cfg.rbuf-uint32(reg) {
						oracle = "rwnd.credit.after-reset"
					}
					m.Failf(oracle, "%s: advertised credit %d but buffer %d minus %d held bytes is %d", where, credit, cfg.rbuf, held, want)
				}
				if expectNoGrowth && held > heldBefore {
					m.Failf("rwnd.admission", "%s: held bytes grew %d -> %d (credit before %d) although the chunk must not be stored", where, heldBefore, held, creditBefore)
				}
				// the last SACK of this event advertises exactly that credit
				for i := len(m.W.events) - 1; i >= ev0; i-- {
					e2 := m.W.events[i]
					if e2.Kind != "send" || e2.From != 0 || e2.Pkt.dec == nil {
						continue
					}
					found := false
					for _, c := range e2.Pkt.dec.Chunks {
						if c.Typ == wSACK {
							found = true
							if ev != rvReadOne && ev != rvReadAll && ev != rvBigBurst && c.ARwnd != credit {
								m.Failf("rwnd.sack", "%s: SACK advertises a_rwnd %d, the credit is %d", where, c.ARwnd, credit)
							}
						}
					}
					if found {
						break
					}
				}
				if ev == rvReadAll {
					// nothing readable is left; if no partial message is held the window is full again
					if held == 0 && credit != cfg.rbuf {
						m.Failf("rwnd.full", "%s: everything was read but the credit is %d of %d", where, credit, cfg.rbuf)
					}
				}
				nChunks := 0
				for _, st := range a.streams {
					r := st.reassemblyQueue
					nChunks += r.orderedDataEntryCount() + r.unorderedDataEntryCount()
					for _, set := range r.orderedMID {
						nChunks += len(set.chunks)
					}
				}
				if uint32(nChunks) > W+1 {
					m.Failf("rwnd.bound", "%s: %d chunks stored, TSN window is %d", where, nChunks, W)
				}
			}
			m.Observe("%s", snapAssoc(a))
			c03Teardown(m, p)
		},
		Final: func(m *Sim, x *Exec) { generalVerdicts(m, x, false) },
	}
}

func c11SeqNames(seq []int) []string {
	out := make([]string, len(seq))
	for i, e := range seq {
		out[i] = c11Names[e]
	}
	return out
}

func c11Association(j *Job) {
	depth := 4
	if j.Thorough() {
		depth = 5
	}
	var cfgs []c11Cfg
	for _, rb := range []uint32{1500, 3000, 504000} {
		for _, lim := range []uint32{0, 4} {
			for _, il := range []bool{false, true} {
				if !j.Thorough() && ((rb == 3000) != il || (lim == 4) != (rb == 1500)) {
					continue
				}
				cfgs = append(cfgs, c11Cfg{rbuf: rb, limit: lim, il: il})
			}
		}
	}
	for _, il := range []bool{false, true} {
		for _, kind := range []string{"middle", "first-unordered"} {
			j.Explore(fmt.Sprintf("EF/il%v/%s", il, kind), c11EmptyFloodScenario(il, kind, 300), Budget{}, nil)
		}
	}
	for _, cfg := range cfgs {
		seq := make([]int, depth)
		var rec func(i int)
		rec = func(i int) {
			if j.capped() {
				return
			}
			if i == depth {
				s := append([]int(nil), seq...)
				j.Explore(fmt.Sprintf("R/rbuf%d/lim%d/il%v/%v", cfg.rbuf, cfg.limit, cfg.il, s), c11Scenario(cfg, s), Budget{}, nil)
				return
			}
			for e := 0; e < nC11Events; e++ {
				seq[i] = e
				rec(i + 1)
			}
		}
		rec(0)
	}
}

// heldChunks counts the chunk descriptors held for reassembly or unread delivery.
func heldChunks(a *Association, extra ...*Stream) int {
	n := 0
	seen := map[*Stream]bool{}
	var list []*Stream
	for _, s := range a.streams {
		seen[s] = true
		list = append(list, s)
	}
	for _, s := range extra {
		if s != nil && !seen[s] {
			list = append(list, s)
		}
	}
	for _, s := range list {
		r := s.reassemblyQueue
		for _, set := range r.ordered {
			n += len(set.chunks)
		}
		for _, set := range r.unordered {
			n += len(set.chunks)
		}
		n += len(r.unorderedChunks)
		for _, set := range r.orderedMID {
			n += len(set.chunks)
		}
		for _, set := range r.unorderedMID {
			n += len(set.chunks)
		}
		for _, set := range r.unorderedMIDMap {
			n += len(set.chunks)
		}
	}
	return n
}

// c11EmptyFloodScenario: a peer that ignores the window sends DATA / I-DATA chunks without
// user data, with consecutive TSNs (middle fragments of one message, or first fragments of
// ever new unordered messages).  The byte window never closes on them; what the endpoint
// holds must stay bounded all the same: it never holds more chunks than user bytes.
func c11EmptyFloodScenario(il bool, kind string, n int) *Scenario {
	return &Scenario{
		Name:    "empty-flood",
		Horizon: 300 * time.Second,
		Setup:   func(m *Sim) { m.W.delay = [2]time.Duration{time.Millisecond, time.Millisecond} },
		Body: func(m *Sim) {
			ecfg := epCfg{Server: true, NoInterleave: !il, MTU: 1191, RTOMax: 4000, InitTSN: 5, RecvBuf: 1500}
			p := newScripted(m, ecfg, il, false)
			p.tsn0, p.tsn = 0xFFFFFF00, 0xFFFFFF00
			if !p.connectServer() {
				m.Failf("e2.base", "handshake with the scripted peer failed")
				c03Teardown(m, p)
				return
			}
			a := p.a
			s1 := p.startReader(1)
			p.sendMsg(1, 30, 1)
			worst, worstBytes := 0, 0
			for i := 0; i < n && a.getState() == established; i++ {
				var c []byte
				switch kind {
				case "middle":
					// middle fragments of the next message of stream 1
					seq := uint32(p.ssn[1])
					if p.il {
						seq = p.mid[1]
					}
					c = p.dataChunk(p.tsn, 1, seq, uint32(1+i), 53, 0, nil, 0)
				default:
					// first fragments of ever new unordered messages
					c = p.dataChunk(p.tsn, 1, uint32(1000+i), 0, 53, 2|4, nil, 0)
				}
				p.tsn++
				p.inject(p.pkt(c))
				if a.getState() != established {
					break
				}
				held := heldChunks(a, s1)
				bytes, _ := heldTotal(a, s1)
				if held-bytes > worst-worstBytes {
					worst, worstBytes = held, bytes
				}
			}
			if worst > worstBytes+1 {
				m.Failf("memory.empty-chunks", "after %d chunks without user data (%s) the endpoint holds %d chunk descriptors for %d user bytes and is still established: what a peer can make it hold is not bounded by the receive buffer", n, kind, worst, worstBytes)
			}
			m.Observe("state=%s worst=%d/%d", getAssociationStateString(a.getState()), worst, worstBytes)
			c03Teardown(m, p)
		},
		Final: func(m *Sim, x *Exec) { generalVerdicts(m, x, false) },
	}
}
