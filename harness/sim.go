package sctp

import (
	"context"
	"errors"
	"fmt"
	"io"
	"os"
	"regexp"
	"runtime"
	"runtime/debug"
	"strings"
	"sync"
	"testing"
	"testing/synctest"
	"time"
	"unsafe"

	"github.com/pion/logging"
	"github.com/pion/sctp/internal/vsched"
)

// ---------------------------------------------------------------------------------
// quiet logger

type nopLogger struct{}

func (nopLogger) Trace(string)          {}
func (nopLogger) Tracef(string, ...any) {}
func (nopLogger) Debug(string)          {}
func (nopLogger) Debugf(string, ...any) {}
func (nopLogger) Info(string)           {}
func (nopLogger) Infof(string, ...any)  {}
func (nopLogger) Warn(string)           {}
func (nopLogger) Warnf(string, ...any)  {}
func (nopLogger) Error(string)          {}
func (nopLogger) Errorf(string, ...any) {}

type nopLoggerFactory struct{}

func (nopLoggerFactory) NewLogger(string) logging.LeveledLogger { return nopLogger{} }

// ---------------------------------------------------------------------------------
// deterministic replacement of globalMathRandomGenerator

type detRand struct {
	mu    sync.Mutex
	queue []uint32
	state uint64
}

func (g *detRand) Uint32() uint32 {
	g.mu.Lock()
	defer g.mu.Unlock()
	if len(g.queue) > 0 {
		v := g.queue[0]
		g.queue = g.queue[1:]
		return v
	}
	g.state = g.state*6364136223846793005 + 1442695040888963407
	return uint32(g.state>>33) | 1
}
func (g *detRand) Uint64() uint64 { return uint64(g.Uint32())<<32 | uint64(g.Uint32()) }
func (g *detRand) Intn(n int) int { return int(g.Uint32() % uint32(n)) }
func (g *detRand) GenerateString(n int, runes string) string {
	r := []rune(runes)
	b := make([]rune, n)
	for i := range b {
		b[i] = r[g.Intn(len(r))]
	}
	return string(b)
}
func (g *detRand) push(v ...uint32) {
	g.mu.Lock()
	g.queue = append(g.queue[:0], v...)
	g.mu.Unlock()
}

// ---------------------------------------------------------------------------------

type epCfg struct {
	Server       bool
	NoInterleave bool
	RoundRobin   bool
	WFQWeights   map[uint16]uint16
	ZeroChecksum bool
	MTU          uint32
	RecvBuf      uint32
	MaxMsg       uint32
	RTOMax       float64
	MinCwnd      uint32
	BlockWrite   bool
	InitTSN      uint32
	Tag          uint32
	MaxReasm     uint32
	// LegacyLast: a legacy Config value (transport, logger, name only) is passed after the
	// option functions: it must not undo what they chose
	LegacyLast bool
}

func (c epCfg) String() string {
	return fmt.Sprintf("{srv=%v il=%v rr=%v zc=%v mtu=%d rbuf=%d rtomax=%v tsn=%d blk=%v}",
		c.Server, !c.NoInterleave, c.RoundRobin, c.ZeroChecksum, c.MTU, c.RecvBuf, c.RTOMax, c.InitTSN, c.BlockWrite)
}

type Violation struct {
	Oracle string `json:"oracle"`
	Msg    string `json:"msg"`
}

type apiEvent struct {
	At     time.Duration
	Thread string
	Call   string
	Result string
}

// Sim is the per-execution harness state.
type Sim struct {
	T    *testing.T
	S    *vsched.Sched
	W    *wire
	Rand *detRand
	As   [2]*Association
	Err  [2]error
	Cfg  [2]epCfg

	mu    sync.Mutex
	viol  []Violation
	hist  []apiEvent
	notes []string
	obs   []string // observation strings forming the outcome class

	streamsSeen    []*Stream
	dialCancel     [2]context.CancelFunc
	inWrite        map[*Stream]int // harness writes in progress (blocked inside WriteSCTP)
	inWriteID      map[*Stream]int // running number of the write in progress on a stream
	failedWrite    map[*Stream]map[int]bool
	quiescentHooks []func()
	wroteBytes     map[*Stream]int // bytes accepted by harness writes, per stream
	monDone        bool
	InvOn          bool // evaluate white-box invariants at quiescent points
}

// Failf records a violation.  It must be callable while the caller holds m.mu (oracles often
// iterate over harness state under that mutex), so it must not wait for it: harness threads
// run one at a time under the scheduler, a failed TryLock therefore means "held by the caller".
func (m *Sim) Failf(oracle, format string, args ...any) {
	locked := m.mu.TryLock()
	m.viol = append(m.viol, Violation{Oracle: oracle, Msg: fmt.Sprintf(format, args...)})
	if locked {
		m.mu.Unlock()
	}
}

func (m *Sim) Observe(format string, args ...any) {
	m.mu.Lock()
	m.obs = append(m.obs, fmt.Sprintf(format, args...))
	m.mu.Unlock()
}

func (m *Sim) Logf(call string, format string, args ...any) {
	th := "?"
	if t := m.S.Cur(); t != nil {
		th = t.Name
	}
	m.mu.Lock()
	m.hist = append(m.hist, apiEvent{At: m.S.Now(), Thread: th, Call: call, Result: fmt.Sprintf(format, args...)})
	m.mu.Unlock()
}

func (m *Sim) conn(i int) *wconn { return &wconn{w: m.W, id: i} }

func (m *Sim) options(i int, c epCfg) []any {
	opts := []any{
		WithNetConn(m.conn(i)),
		WithLoggerFactory(nopLoggerFactory{}),
		WithName(fmt.Sprintf("ep%d", i)),
	}
	if c.NoInterleave {
		opts = append(opts, WithEnableInterleaving(false))
	}
	if c.RoundRobin {
		opts = append(opts, WithInterleavingOptions(WithInterleavingRoundRobinScheduler()))
	}
	if len(c.WFQWeights) > 0 {
		var io []AssociationInterleavingOption
		for sid, wgt := range c.WFQWeights {
			io = append(io, WithInterleavingWeightedFairQueueingWeight(sid, wgt))
		}
		opts = append(opts, WithInterleavingOptions(io...))
	}
	if c.ZeroChecksum {
		opts = append(opts, WithEnableZeroChecksum(true))
	}
	if c.MTU != 0 {
		opts = append(opts, WithMTU(c.MTU))
	}
	if c.RecvBuf != 0 {
		opts = append(opts, WithMaxReceiveBufferSize(c.RecvBuf))
	}
	if c.MaxMsg != 0 {
		opts = append(opts, WithMaxMessageSize(c.MaxMsg))
	}
	if c.RTOMax != 0 {
		opts = append(opts, WithRTOMax(c.RTOMax))
	}
	if c.MinCwnd != 0 {
		opts = append(opts, WithMinCwnd(c.MinCwnd))
	}
	if c.BlockWrite {
		opts = append(opts, WithBlockWrite(true))
	}
	if c.MaxReasm != 0 {
		opts = append(opts, WithMaxReassemblyQueueEntries(c.MaxReasm))
	}
	if c.LegacyLast {
		opts = append(opts, Config{NetConn: m.conn(i), LoggerFactory: nopLoggerFactory{}, Name: fmt.Sprintf("ep%d", i)})
	}
	return opts
}

// Dial creates endpoint i (blocking until the handshake completes or fails).
func (m *Sim) Dial(i int, c epCfg) (*Association, error) {
	m.Cfg[i] = c
	tsn, tag := c.InitTSN, c.Tag
	if tag == 0 {
		tag = 0x1000 + uint32(i)
	}
	m.Rand.push(tsn, tag)
	var a *Association
	var err error
	if c.Server {
		var so []ServerOption
		for _, o := range m.options(i, c) {
			so = append(so, o.(ServerOption))
		}
		a, err = ServerWithOptions(so...)
	} else {
		var co []ClientOption
		for _, o := range m.options(i, c) {
			co = append(co, o.(ClientOption))
		}
		// ClientWithOptions is createClientWithOptionsWithContext(context.Background(), ...);
		// the harness passes a cancellable context so that "dial cancelled" can be injected.
		ctx, cancel := context.WithCancel(context.Background())
		m.mu.Lock()
		m.dialCancel[i] = cancel
		m.mu.Unlock()
		a, err = createClientWithOptionsWithContext(ctx, co...)
	}
	m.As[i], m.Err[i] = a, err
	m.Logf(fmt.Sprintf("dial%d", i), "err=%v", err)
	return a, err
}

// Connect runs both handshakes on two harness threads and waits for both.
func (m *Sim) Connect(ca, cb epCfg) bool {
	ta := m.S.Go("connA", func() { m.Dial(0, ca) })
	tb := m.S.Go("connB", func() { m.Dial(1, cb) })
	m.S.Join(ta)
	m.S.Join(tb)
	return m.Err[0] == nil && m.Err[1] == nil
}

// CloseBoth closes both associations (if created) from the calling thread.
func (m *Sim) CloseBoth() {
	for i := 0; i < 2; i++ {
		if m.As[i] != nil {
			err := m.As[i].Close()
			m.Logf(fmt.Sprintf("close%d", i), "err=%v", err)
		}
	}
}

// lock naming for the lock-order graph
func (m *Sim) nameLock(p unsafe.Pointer) (name string) {
	defer func() {
		// the namer runs inside lock acquisitions of library goroutines: it must never take
		// the execution down (an unnamed lock is only a cosmetic loss)
		if r := recover(); r != nil {
			name = ""
			if os.Getenv("VERIF_DEBUG_NAMER") != "" {
				fmt.Fprintf(os.Stderr, "NAMER-PANIC %v\n%s\n", r, debug.Stack())
			}
		}
	}()
	for i, a := range m.As {
		if a == nil {
			continue
		}
		pre := fmt.Sprintf("ep%d.", i)
		switch p {
		case unsafe.Pointer(&a.lock):
			return "assoc.lock"
		case unsafe.Pointer(&a.timerMu):
			return "assoc.timerMu"
		case unsafe.Pointer(&a.rtoMgr.mutex):
			return "rtoMgr.mutex"
		case unsafe.Pointer(&a.ackTimer.mutex):
			return "ackTimer.mutex"
		}
		for _, t := range []*rtxTimer{a.t1Init, a.t1Cookie, a.t2Shutdown, a.t3RTX, a.tReconfig} {
			if t != nil && p == unsafe.Pointer(&t.mutex) {
				return "rtxTimer.mutex"
			}
		}
		_ = pre
	}
	// (never wait for the harness mutex here: the caller is inside a lock acquisition)
	if !m.mu.TryLock() {
		return ""
	}
	seen := m.streamsSeen
	m.mu.Unlock()
	for _, s := range seen {
		if s == nil {
			continue // a failed OpenStream was recorded
		}
		if p == unsafe.Pointer(&s.lock) {
			return "stream.lock"
		}
		if p == unsafe.Pointer(&s.writeLock) {
			return "stream.writeLock"
		}
	}
	// (streams created by inbound data stay unnamed until the harness has accepted them; the
	// scheduler retries the naming on every acquisition of an unnamed lock.  Scanning a.streams
	// here would race with the read loop in a wake window.)
	return ""
}

// ---------------------------------------------------------------------------------
// execution runner

type Exec struct {
	Out         *vsched.Outcome
	Viol        []Violation
	Hist        []apiEvent
	Events      []wireEvent
	Obs         []string
	Leaked      []string
	ArmedTimers []int
	Stuck       []string
	Elapsed     time.Duration // virtual
	Internal    string        // harness-internal problem (not a property violation)
	Prefix      []int
}

type Scenario struct {
	Name    string
	Horizon time.Duration
	// MaxSteps overrides the scheduler's step budget (default 200000) for long workloads.
	MaxSteps int
	Body     func(m *Sim)
	// Setup runs on the scheduler goroutine before the body thread starts.
	Setup func(m *Sim)
	// Final runs on the root goroutine after the scheduler stopped (all quiescent).
	Final func(m *Sim, x *Exec)
}

var bubbleRe = regexp.MustCompile(`synctest bubble (\d+)`)

// runExec executes the scenario once under the given choice prefix.
func runExec(t *testing.T, sc *Scenario, prefix []int, sigs []string, keepSigs bool) *Exec {
	x := &Exec{}
	goroutineBaseline = runtime.NumGoroutine()
	func() {
		defer func() {
			if r := recover(); r != nil {
				msg := fmt.Sprint(r)
				if strings.Contains(msg, "blocked goroutines remain") {
					return // leaked goroutines were already recorded below
				}
				x.Internal = "panic in runner: " + msg
			}
		}()
		synctest.Test(t, func(t *testing.T) {
			m := &Sim{T: t, Rand: &detRand{state: 12345}, inWrite: map[*Stream]int{}, wroteBytes: map[*Stream]int{}, inWriteID: map[*Stream]int{}, failedWrite: map[*Stream]map[int]bool{}}
			globalMathRandomGenerator = m.Rand
			vsched.Namer = m.nameLock
			var start time.Time
			out := vsched.Run(vsched.Config{Prefix: prefix, Sigs: sigs, Horizon: sc.Horizon, KeepSigs: keepSigs, MaxSteps: sc.MaxSteps}, func(s *vsched.Sched) {
				sc.Body(m)
			}, func(s *vsched.Sched) {
				m.S = s
				m.W = newWire(s)
				s.SetEnv(m.W)
				m.W.onSend = func(ev *wireEvent) {
					if a := m.As[ev.From]; a != nil {
						ev.snap = &sendSnap{cwnd: a.CWND(), rwnd: a.RWND()}
					}
				}
				start = time.Now()
				if sc.Setup != nil {
					sc.Setup(m)
				}
			})
			x.Out = out
			x.Elapsed = time.Since(start)
			x.Stuck = m.S.Blocked()
			x.Leaked = leakedGoroutines()
			x.ArmedTimers = m.S.StopArmedTimers()
			x.Hist = m.hist
			x.Events = m.W.events
			if sc.Final != nil {
				sc.Final(m, x)
			}
			x.Viol = append(x.Viol, m.viol...)
			x.Obs = m.obs
		})
	}()
	return x
}

// goroutine accounting: the full stack dump is only taken when the process-wide goroutine
// count says that something of this execution is still alive.
var goroutineBaseline int

func leakedGoroutines() []string {
	// inside the bubble at this point: the runner goroutine, the scheduler (caller) and whatever leaked
	if n := runtime.NumGoroutine(); goroutineBaseline > 0 && n <= goroutineBaseline+2 {
		return nil
	}
	return leakedGoroutinesSlow()
}

// leakedGoroutinesSlow lists goroutines of the current bubble other than the caller.
func leakedGoroutinesSlow() []string {
	buf := make([]byte, 1<<20)
	n := runtime.Stack(buf, true)
	blocks := strings.Split(string(buf[:n]), "\n\n")
	if len(blocks) == 0 {
		return nil
	}
	mine := bubbleRe.FindStringSubmatch(blocks[0])
	if mine == nil {
		return nil
	}
	var out []string
	for _, b := range blocks[1:] {
		hdr, rest, _ := strings.Cut(b, "\n")
		mm := bubbleRe.FindStringSubmatch(hdr)
		if mm == nil || mm[1] != mine[1] {
			continue
		}
		if strings.Contains(hdr, "synctest.Run") || strings.Contains(rest, "testingSynctestTest") {
			continue
		}
		// summarise: header + first sctp frame
		frame := ""
		for _, l := range strings.Split(rest, "\n") {
			if strings.Contains(l, "pion/sctp.") && !strings.Contains(l, "internal/v") {
				frame = strings.TrimSpace(l)
				break
			}
		}
		if frame == "" {
			lines := strings.Split(rest, "\n")
			if len(lines) > 0 {
				frame = strings.TrimSpace(lines[0])
			}
		}
		st := hdr
		if i := strings.Index(hdr, "["); i >= 0 {
			st = hdr[i:]
		}
		out = append(out, st+" "+frame)
	}
	return out
}

// ---------------------------------------------------------------------------------
// helpers used by scenario bodies

func (m *Sim) Go(name string, f func()) *vsched.Thread { return m.S.Go(name, f) }
func (m *Sim) Join(ts ...*vsched.Thread) {
	for _, t := range ts {
		m.S.Join(t)
	}
}

// Sleep lets virtual time pass for the calling harness thread.
func (m *Sim) Sleep(d time.Duration) {
	time.Sleep(d)
	m.S.Yield()
}

// payload returns the deterministic content of message msg of stream sid: a pseudo-random
// byte sequence seeded by (sid, msg), so that neither messages nor their fragments collide.
func payload(sid uint16, msg int, n int) []byte {
	b := make([]byte, n)
	x := uint32(sid)*2654435761 + uint32(msg)*40503 + 12345
	for i := range b {
		x = x*1664525 + 1013904223
		b[i] = byte(x >> 24)
	}
	if n >= 4 {
		b[0], b[1], b[2] = byte(msg), byte(msg>>8), byte(int(sid)+msg>>16)
	}
	if n == 1 {
		b[0] = byte(int(sid)*131 + msg*31 + 3)
	}
	return b
}

type rmsg struct {
	Data string
	PPI  PayloadProtocolIdentifier
	At   time.Duration // virtual time at which the read returned (0 if not recorded)
}

// readAll reads messages from s until an error; returns them and the error.
func (m *Sim) readAll(s *Stream, bufSize int, max int) ([]rmsg, error) {
	var out []rmsg
	buf := make([]byte, bufSize)
	for max <= 0 || len(out) < max {
		n, ppi, err := s.ReadSCTP(buf)
		if err != nil {
			return out, err
		}
		out = append(out, rmsg{Data: string(buf[:n]), PPI: ppi})
		m.S.Yield()
	}
	return out, nil
}

func isEOF(err error) bool { return errors.Is(err, io.EOF) }

var _ = context.Background
