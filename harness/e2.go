package sctp

import (
	"context"
	"fmt"
	"sort"
	"strings"
	"time"

	"github.com/pion/sctp/internal/vsched"
)

// Engine E2: one real association (endpoint 0) under the controlled scheduler; the harness
// plays the peer with hand-built packets (independent encoder) and reads the endpoint's
// answers off the wire.

type scripted struct {
	m        *Sim
	a        *Association
	cfg      epCfg
	tag      uint32 // our verification tag (the endpoint puts it into packets it sends us)
	aTag     uint32 // the endpoint's tag (we put it into packets we send)
	aTSN0    uint32 // endpoint's initial TSN
	tsn      uint32 // next TSN we send
	tsn0     uint32
	il       bool // interleaving negotiated
	ourIL    bool
	noIFwd   bool // ourIL: advertise I-DATA without I-FORWARD-TSN (allowed: the latter is only needed with PR-SCTP)
	ourZC    bool
	arwnd    uint32
	seenEv   int
	ssn      map[uint16]uint16
	mid      map[uint16]uint32
	recvd    map[uint32]*wChunk // DATA chunks the endpoint sent us, by TSN
	cum      uint32             // highest TSN received in sequence from the endpoint
	cookie   []byte
	dialT    *vsched.Thread
	rdT      []*vsched.Thread
	readMu   map[uint16]*[]rmsg
	readErr  map[uint16]error
	used     map[uint32]bool // every TSN ever put into a packet for the endpoint
	arwndNow uint32          // a_rwnd to advertise in honest SACKs (0: arwnd)
	// base "est-unread": complete honest messages the application has not read yet
	unread     *Stream
	unreadWant []string
}

// sackCum is the cumulative point the endpoint currently has for its own data.
func (p *scripted) sackCum(a *Association) uint32 { return a.cumulativeTSNAckPoint }

func newScripted(m *Sim, cfg epCfg, ourIL, ourZC bool) *scripted {
	p := &scripted{m: m, cfg: cfg, tag: 0xABCD0001, tsn0: 0xFFFFFFFF, ourIL: ourIL, ourZC: ourZC, arwnd: 1 << 20,
		ssn: map[uint16]uint16{}, mid: map[uint16]uint32{}, recvd: map[uint32]*wChunk{}, readMu: map[uint16]*[]rmsg{}, readErr: map[uint16]error{}}
	p.tsn = p.tsn0
	return p
}

func (p *scripted) initParams() [][]byte {
	ext := []byte{130, 192}
	if p.ourIL {
		ext = append(ext, 64)
		if !p.noIFwd {
			ext = append(ext, 194)
		}
	}
	ps := [][]byte{wTLVBytes(0x8008, ext, false)}
	if p.ourZC {
		ps = append([][]byte{wTLVBytes(0x8001, u32(1), true)}, ps...)
	}
	return ps
}

// settle lets the endpoint process everything and returns the packets it emitted meanwhile.
func (p *scripted) settle(maxWait time.Duration) []*wpkt {
	m := p.m
	_ = maxWait
	m.S.WaitIdle()
	var out []*wpkt
	for _, ev := range m.W.events[p.seenEv:] {
		if ev.Kind == "send" && ev.From == 0 {
			out = append(out, ev.Pkt)
			p.absorb(ev.Pkt)
		}
	}
	p.seenEv = len(m.W.events)
	// drain our own inbox (nobody reads endpoint 1)
	m.W.mu.Lock()
	m.W.ep[1].inbox = nil
	m.W.mu.Unlock()
	return out
}

// absorb records what the endpoint sent us (honest receiver bookkeeping).
func (p *scripted) absorb(pk *wpkt) {
	if pk.dec == nil {
		return
	}
	for i := range pk.dec.Chunks {
		c := &pk.dec.Chunks[i]
		switch c.Typ {
		case wDATA, wIDATA:
			p.recvd[c.TSN] = c
			for {
				if _, ok := p.recvd[p.cum+1]; !ok {
					break
				}
				p.cum++
			}
		case wINIT, wINITACK:
			p.aTag, p.aTSN0 = c.InitTag, c.InitTSN
			p.cum = c.InitTSN - 1
			il, _, _ := paramExts(c.Params)
			p.il = il && p.ourIL
			for _, t := range c.Params {
				if t.Typ == 7 {
					p.cookie = t.Val
				}
			}
		}
	}
}

func (p *scripted) pkt(chunks ...[]byte) []byte {
	w := wNewPacket(5000, 5000, p.aTag)
	for _, c := range chunks {
		w.rawChunk(c)
	}
	return w.bytes(true)
}

func chunkBytes(typ, flags uint8, val []byte) []byte {
	return wNewPacket(0, 0, 0).chunk(typ, flags, val).b[12:]
}

// inject sends raw bytes to the endpoint and settles.
func (p *scripted) inject(b []byte) []*wpkt {
	if d, _ := wDecode(b); d != nil {
		for _, c := range d.Chunks {
			if c.Typ == wDATA || c.Typ == wIDATA {
				if p.used == nil {
					p.used = map[uint32]bool{}
				}
				p.used[c.TSN] = true
			}
		}
	}
	p.m.W.inject(0, b)
	return p.settle(3 * time.Second)
}

// establishAsServerPeer: the endpoint is a client; we answer its INIT.
func (p *scripted) connectClient() bool {
	m := p.m
	p.dialT = m.Go("dial", func() { m.Dial(0, p.cfg) })
	out := p.settle(2 * time.Second)
	if len(out) == 0 || out[0].dec == nil || out[0].dec.Chunks[0].Typ != wINIT {
		return false
	}
	cookie := []byte("cookie-cookie-cookie-cookie-1234")
	iack := chunkBytes(wINITACK, 0, wInitVal(p.tag, p.arwnd, 65535, 65535, p.tsn0, append([][]byte{wTLVBytes(7, cookie, true)}, p.initParams()...)...))
	out = p.inject(p.pkt(iack))
	gotEcho := false
	for _, o := range out {
		if o.dec != nil && o.dec.Chunks[0].Typ == wCOOKIEECHO {
			gotEcho = true
		}
	}
	if !gotEcho {
		return false
	}
	p.inject(p.pkt(chunkBytes(wCOOKIEACK, 0, nil)))
	m.S.Join(p.dialT)
	p.a = m.As[0]
	return p.a != nil
}

// connectServer: the endpoint is a server; we send INIT and echo its cookie.
func (p *scripted) connectServer() bool {
	m := p.m
	p.dialT = m.Go("dial", func() { m.Dial(0, p.cfg) })
	p.settle(100 * time.Millisecond)
	init := chunkBytes(wINIT, 0, wInitVal(p.tag, p.arwnd, 65535, 65535, p.tsn0, p.initParams()...))
	w := wNewPacket(5000, 5000, 0)
	w.rawChunk(init)
	out := p.inject(w.bytes(true))
	if len(out) == 0 || p.cookie == nil {
		return false
	}
	p.inject(p.pkt(chunkBytes(wCOOKIEECHO, 0, p.cookie)))
	m.S.Join(p.dialT)
	p.a = m.As[0]
	return p.a != nil
}

// dataChunk builds a DATA / I-DATA chunk as negotiated.
func (p *scripted) dataChunk(tsn uint32, sid uint16, seq uint32, fsn uint32, ppi uint32, flags uint8, data []byte, forceKind int) []byte {
	useI := p.il
	if forceKind == 1 {
		useI = false
	} else if forceKind == 2 {
		useI = true
	}
	if useI {
		v := ppi
		if flags&2 == 0 {
			v = fsn
		}
		return chunkBytes(wIDATA, flags, wIDataVal(tsn, sid, seq, v, data))
	}
	return chunkBytes(wDATA, flags, wDataVal(tsn, sid, uint16(seq), ppi, data))
}

// sendMsg sends one honest ordered message (fragmented into nfrag pieces) and returns its bytes.
func (p *scripted) sendMsg(sid uint16, size int, nfrag int) []byte {
	data := payload(sid+100, int(p.tsn-p.tsn0), size)
	seq := uint32(p.ssn[sid])
	if p.il {
		seq = p.mid[sid]
		p.mid[sid]++
	} else {
		p.ssn[sid]++
	}
	per := (size + nfrag - 1) / nfrag
	for f := 0; f < nfrag; f++ {
		lo, hi := f*per, (f+1)*per
		if hi > size {
			hi = size
		}
		var fl uint8
		if f == 0 {
			fl |= 2
		}
		if f == nfrag-1 {
			fl |= 1
		}
		p.inject(p.pkt(p.dataChunk(p.tsn, sid, seq, uint32(f), 53, fl, data[lo:hi], 0)))
		p.tsn++
	}
	return data
}

// fillGaps sends filler messages on stream sid for every TSN up to maxUsed the endpoint has
// not received, so that honest traffic can continue after arbitrary DATA chunks; it reports
// false when the hole is too large to fill.
func (p *scripted) fillGaps(sid uint16) bool {
	a := p.a
	last := a.payloadQueue.cumulativeTSN
	var far bool
	maxNear := last
	for u := range p.used {
		d := u - last
		if d == 0 || d >= 1<<31 {
			continue // at or behind the cumulative point
		}
		if d > 64 {
			far = true
		} else if sna32lt(maxNear, u) {
			maxNear = u
		}
	}
	if far {
		return false
	}
	for t := last + 1; sna32lte(t, maxNear); t++ {
		if a.payloadQueue.hasChunk(t) {
			continue
		}
		seq := uint32(p.ssn[sid])
		if p.il {
			seq = p.mid[sid]
			p.mid[sid]++
		} else {
			p.ssn[sid]++
		}
		p.inject(p.pkt(p.dataChunk(t, sid, seq, 0, 53, 3, []byte("filler"), 0)))
	}
	p.tsn = maxNear + 1
	return true
}

// ackAll sends an honest SACK for everything received so far.
func (p *scripted) ackAll() []*wpkt {
	var gaps []wGap
	var tsns []uint32
	for t := range p.recvd {
		if sna32lt(p.cum, t) {
			tsns = append(tsns, t)
		}
	}
	sort.Slice(tsns, func(i, j int) bool { return sna32lt(tsns[i], tsns[j]) })
	for i := 0; i < len(tsns); {
		k := i
		for k+1 < len(tsns) && tsns[k+1] == tsns[k]+1 {
			k++
		}
		gaps = append(gaps, wGap{uint16(tsns[i] - p.cum), uint16(tsns[k] - p.cum)})
		i = k + 1
	}
	rw := p.arwnd
	if p.arwndNow != 0 {
		rw = p.arwndNow
	}
	return p.inject(p.pkt(chunkBytes(wSACK, 0, wSackVal(p.cum, rw, gaps, nil))))
}

// startReader spawns a reader on the endpoint's stream sid (opened locally).
func (p *scripted) startReader(sid uint16) *Stream {
	s, err := p.a.OpenStream(sid, PayloadTypeWebRTCBinary)
	if err != nil {
		return nil
	}
	p.m.streamsSeen = append(p.m.streamsSeen, s)
	lst := &[]rmsg{}
	p.readMu[sid] = lst
	p.rdT = append(p.rdT, p.m.Go(fmt.Sprintf("e2read%d", sid), func() {
		buf := make([]byte, 70000)
		for {
			n, ppi, err := s.ReadSCTP(buf)
			if err != nil {
				p.m.mu.Lock()
				p.readErr[sid] = err
				p.m.mu.Unlock()
				return
			}
			p.m.mu.Lock()
			*lst = append(*lst, rmsg{Data: string(buf[:n]), PPI: ppi})
			p.m.mu.Unlock()
		}
	}))
	return s
}

// assembled returns the complete messages of stream sid the endpoint has sent us so far
// (reassembled from the DATA chunks on the wire), in TSN order.
func (p *scripted) assembled(sid uint16) []string {
	var tsns []uint32
	for t, c := range p.recvd {
		if c.SID == sid {
			tsns = append(tsns, t)
		}
	}
	sort.Slice(tsns, func(i, j int) bool { return sna32lt(tsns[i], tsns[j]) })
	var out []string
	var cur strings.Builder
	open := false
	if !p.il {
		var last uint32
		for _, t := range tsns {
			c := p.recvd[t]
			if c.B {
				cur.Reset()
				open = true
			} else if !open || t != last+1 {
				open = false
				continue
			}
			cur.Write(c.Data)
			last = t
			if c.E && open {
				out = append(out, cur.String())
				open = false
			}
		}
		return out
	}
	// I-DATA: group by (U, MID), order fragments by FSN
	type key struct {
		u   bool
		mid uint32
	}
	groups := map[key][]*wChunk{}
	var order []key
	for _, t := range tsns {
		c := p.recvd[t]
		k := key{c.U, c.MID}
		if _, ok := groups[k]; !ok {
			order = append(order, k)
		}
		groups[k] = append(groups[k], c)
	}
	for _, k := range order {
		g := groups[k]
		sort.Slice(g, func(i, j int) bool { return g[i].FSN < g[j].FSN })
		if !g[0].B || !g[len(g)-1].E {
			continue
		}
		okc := true
		for i, c := range g {
			if i > 0 && c.FSN != g[i-1].FSN+1 {
				okc = false
			}
		}
		if !okc {
			continue
		}
		cur.Reset()
		for _, c := range g {
			cur.Write(c.Data)
		}
		out = append(out, cur.String())
	}
	return out
}

// snapshot: the transfer state a dropped / ignored packet must leave untouched.
func snapAssoc(a *Association) string {
	var b strings.Builder
	fmt.Fprintf(&b, "st=%d next=%d ack=%d adv=%d peerLast=%d rq=%d fr=%v ", a.getState(), a.myNextTSN-a.initialTSN, a.cumulativeTSNAckPoint-a.initialTSN,
		a.advancedPeerTSNAckPoint-a.initialTSN, a.payloadQueue.cumulativeTSN, a.payloadQueue.chunkSize, a.inFastRecovery)
	q := a.inflightQueue
	for i := 0; i < q.chunks.Len(); i++ {
		c := q.chunks.At(i)
		fmt.Fprintf(&b, "[%d %d a%v ab%v n%d]", c.tsn-a.initialTSN, len(c.userData), c.acked, c.abandoned(), c.nSent)
	}
	fmt.Fprintf(&b, " pend=%d/%d rc=%d rr=%d", a.pendingQueue.nChunks, a.pendingQueue.nBytes, len(a.reconfigs), len(a.reconfigRequests))
	// the retransmission timer of outstanding reset requests: a packet that is to be ignored
	// neither starts nor stops it
	if a.tReconfig != nil {
		fmt.Fprintf(&b, " trc=%v", a.tReconfig.isRunning())
	}
	// ... nor does it feed the round-trip estimator
	if a.rtoMgr != nil {
		fmt.Fprintf(&b, " rto=%.0f srtt=%.0f", a.rtoMgr.getRTO(), a.rtoMgr.srtt)
	}
	for _, sid := range vsched.SortedKeys(a.streams) {
		s := a.streams[sid]
		r := s.reassemblyQueue
		fmt.Fprintf(&b, " s%d{re=%d ssn=%d mid=%d buf=%d err=%v st=%d seq=%d}", sid, r.getNumBytes(), r.nextSSN, r.nextMID, s.bufferedAmount, s.readErr, s.state, s.sequenceNumber)
	}
	return b.String()
}

var _ = context.Background
