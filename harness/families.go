package sctp

import (
	"fmt"
	"time"
)

// Scenario families shared by the two-endpoint properties.

type xferCase struct {
	Name string
	Spec *xferSpec
	K    int // fault budget for this case
	D    int // schedule-deviation budget for this case
}

var allFaults = faultSet{Drop: true, Dup: true, Late: true, Swap: true}

func sizesFor(mtu uint32, il bool) []int {
	P := int(maxPayloadSizeForMTU(mtu, il))
	return []int{1, P - 1, P, P + 1, 3 * P}
}

func msgsOf(sizes []int) []msgSpec {
	var msgs []msgSpec
	for i, sz := range sizes {
		msgs = append(msgs, msgSpec{Size: sz, PPI: PayloadProtocolIdentifier(51 + i%3)})
	}
	return msgs
}

// famW1: one reliable ordered stream A->B with boundary message sizes.  tsnOffsets: initial
// TSN of A = 2^32 - off (off 0 means 1000: the non-wrapping reference).
func famW1(modes []modeSpec, offs []uint32, k int) []xferCase {
	var out []xferCase
	for _, mode := range modes {
		for _, off := range offs {
			tsnA, tsnB := uint32(0)-off, uint32(0)-off-40
			if off == 0 {
				tsnA, tsnB = 1000, 70000
			}
			mtu := uint32(100)
			il := !mode.A.NoInterleave
			out = append(out, xferCase{
				Name: fmt.Sprintf("W1/%s/off%d", mode.Name, off),
				K:    k,
				Spec: &xferSpec{
					A:       withBase(mode.A, mtu, tsnA, 4000),
					B:       withBase(mode.B, mtu, tsnB, 4000),
					Streams: []streamSpec{{SID: 1, From: 0, Msgs: msgsOf(sizesFor(mtu, il))}},
					Faults:  allFaults,
				},
			})
		}
	}
	return out
}

// famW2: two streams each way, written by concurrent harness threads.
func famW2(modes []modeSpec, k int) []xferCase {
	var out []xferCase
	for _, mode := range modes {
		mtu := uint32(228)
		il := !mode.A.NoInterleave
		P := int(maxPayloadSizeForMTU(mtu, il))
		mk := func(sid uint16, from int) streamSpec {
			return streamSpec{SID: sid, From: from, Msgs: []msgSpec{{Size: 2*P + 5, PPI: 51}, {Size: 7, PPI: 53}}}
		}
		out = append(out, xferCase{
			Name: fmt.Sprintf("W2/%s", mode.Name),
			K:    k,
			Spec: &xferSpec{
				A:       withBase(mode.A, mtu, 0xFFFFFFFB, 4000),
				B:       withBase(mode.B, mtu, 0xFFFFFFFE, 4000),
				Streams: []streamSpec{mk(1, 0), mk(2, 0), mk(11, 1), mk(12, 1)},
				Faults:  allFaults,
			},
		})
	}
	return out
}

// famW3: one maximum-size message (many packets) followed by a 1-byte message.
func famW3(modes []modeSpec, k int) []xferCase {
	var out []xferCase
	for _, mode := range modes {
		out = append(out, xferCase{
			Name: fmt.Sprintf("W3/%s", mode.Name),
			K:    k,
			Spec: &xferSpec{
				A:       withBase(mode.A, 0, 0xFFFFFFE0, 4000),
				B:       withBase(mode.B, 0, 77, 4000),
				Streams: []streamSpec{{SID: 1, From: 0, Msgs: []msgSpec{{Size: 65536, PPI: 53}, {Size: 1, PPI: 51}}}},
				Faults:  faultSet{Drop: true, Swap: true},
			},
		})
	}
	return out
}

// famW4: lowered MaxMessageSize with sizes at the limit.
func famW4(modes []modeSpec, k int) []xferCase {
	var out []xferCase
	for _, mode := range modes {
		a := withBase(mode.A, 228, 5, 4000)
		a.MaxMsg = 600
		b := withBase(mode.B, 228, 6, 4000)
		b.MaxMsg = 600
		out = append(out, xferCase{
			Name: fmt.Sprintf("W4/%s", mode.Name),
			K:    k,
			Spec: &xferSpec{A: a, B: b, Faults: allFaults,
				Streams: []streamSpec{{SID: 1, From: 0, Msgs: []msgSpec{{Size: 599, PPI: 51}, {Size: 600, PPI: 53}}}}},
		})
	}
	return out
}

// famW5: a partially reliable stream (rexmit 0) shares the association with a reliable
// ordered stream carrying fragmented messages; writes alternate so that TSNs interleave.
func famW5(modes []modeSpec, k int) []xferCase {
	var out []xferCase
	for _, mode := range modes {
		mtu := uint32(100)
		il := !mode.A.NoInterleave
		P := int(maxPayloadSizeForMTU(mtu, il))
		for _, unordered := range []bool{false, true} {
			out = append(out, xferCase{
				Name: fmt.Sprintf("W5/%s/prU%v", mode.Name, unordered),
				K:    k,
				Spec: &xferSpec{
					A: withBase(mode.A, mtu, 0xFFFFFFFC, 4000),
					B: withBase(mode.B, mtu, 3, 4000),
					Streams: []streamSpec{
						{SID: 1, From: 0, Unordered: unordered, RelType: ReliabilityTypeRexmit, RelVal: 0, Msgs: []msgSpec{{Size: 9, PPI: 51}, {Size: 10, PPI: 51}}},
						{SID: 2, From: 0, Msgs: []msgSpec{{Size: 2 * P, PPI: 53}, {Size: 5, PPI: 53}}},
					},
					Interleave: true,
					Faults:     faultSet{Drop: true, Late: true},
				},
			})
		}
	}
	return out
}

// famZ1: small receive buffer and a reader that pauses until the window is closed.
func famZ1(modes []modeSpec, k int) []xferCase {
	var out []xferCase
	for _, mode := range modes {
		for _, rb := range []uint32{1500, 3000} {
			a := withBase(mode.A, 228, 0xFFFFFFF0, 4000)
			b := withBase(mode.B, 228, 9, 4000)
			b.RecvBuf = rb
			var msgs []msgSpec
			for i := 0; i < 8; i++ {
				msgs = append(msgs, msgSpec{Size: 400, PPI: 53})
			}
			out = append(out, xferCase{
				Name: fmt.Sprintf("Z1/%s/rbuf%d", mode.Name, rb),
				K:    k,
				Spec: &xferSpec{A: a, B: b, Faults: allFaults, PauseReader: 3 * time.Second, NoSackComplete: true,
					Streams: []streamSpec{{SID: 1, From: 0, Msgs: msgs}}},
			})
		}
	}
	return out
}

// famZ2: burst loss: the first m transmissions of every DATA TSN of a window are lost.
func famZ2(modes []modeSpec, k int) []xferCase {
	var out []xferCase
	for _, mode := range modes {
		for _, m := range []int{1, 3, 5} {
			a := withBase(mode.A, 228, 0xFFFFFFF0, 4000)
			b := withBase(mode.B, 228, 9, 4000)
			var msgs []msgSpec
			for i := 0; i < 6; i++ {
				msgs = append(msgs, msgSpec{Size: 150, PPI: 53})
			}
			out = append(out, xferCase{
				Name: fmt.Sprintf("Z2/%s/burst%d", mode.Name, m),
				K:    k,
				Spec: &xferSpec{A: a, B: b, Faults: allFaults, KillIdx: []int{0, 1, 2, 3, 4, 5}, KillN: m, Horizon: 400 * time.Second, DrainWait: 300 * time.Second,
					Streams: []streamSpec{{SID: 1, From: 0, Msgs: msgs}}},
			})
		}
	}
	return out
}

// famZR: one chunk is lost again and again (original, the retransmission that a loss declared
// from later acknowledgements triggers, the tail-loss probe, ...) while everything behind it
// gets through and nothing more is written: only the retransmission timer is left to repair it.
func famZR(modes []modeSpec, repeats []int) []xferCase {
	var out []xferCase
	for _, mode := range modes {
		// gap 0: the four go out back to back (the loss is declared by the reordering timer);
		// gap 50 ms: by the time a later one is acknowledged the lost one is old enough to be
		// declared lost by that very acknowledgement
		for _, gap := range []time.Duration{0, 50 * time.Millisecond} {
			for idx := 0; idx < 4; idx++ {
				for _, n := range repeats {
					a := withBase(mode.A, 228, 0xFFFFFFFD, 4000)
					b := withBase(mode.B, 228, 9, 4000)
					var msgs []msgSpec
					for i := 0; i < 4; i++ {
						msgs = append(msgs, msgSpec{Size: 150, PPI: 53})
					}
					out = append(out, xferCase{
						Name: fmt.Sprintf("ZR/%s/gap%v/idx%d/lost%d", mode.Name, gap, idx, n),
						K:    0,
						Spec: &xferSpec{A: a, B: b, KillIdx: []int{idx}, KillN: n, Horizon: 400 * time.Second, DrainWait: 300 * time.Second,
							Interleave: gap > 0, WriteGap: gap,
							Streams: []streamSpec{{SID: 1, From: 0, Msgs: msgs}}},
					})
				}
			}
		}
	}
	return out
}

// famZ4: windows larger than the workload straddling the 2^32 wrap: the first chunk is lost
// and many small messages follow (reordering span of several bitmap words).
func famZ4(rbufs []uint32, counts []int) []xferCase {
	var out []xferCase
	for _, rb := range rbufs {
		for _, n := range counts {
			a := withBase(epCfg{NoInterleave: true}, 1191, uint32(0)-uint32(n/2), 4000)
			b := withBase(epCfg{Server: true, NoInterleave: true}, 1191, 9, 4000)
			b.RecvBuf = rb
			a.MinCwnd = 1 << 20 // let the sender burst so that the span is reached
			var msgs []msgSpec
			for i := 0; i < n; i++ {
				msgs = append(msgs, msgSpec{Size: 4, PPI: 53})
			}
			out = append(out, xferCase{
				Name: fmt.Sprintf("Z4/rbuf%d/n%d", rb, n),
				K:    0,
				Spec: &xferSpec{A: a, B: b, KillIdx: []int{0}, KillN: 1, Streams: []streamSpec{{SID: 1, From: 0, Msgs: msgs}}},
			})
		}
	}
	return out
}

// famZ5: timer-versus-packet coincidence.  The one-way delay is chosen so that the SACK for
// the first message reaches the sender at the very instant its T3-rtx expires (RTO.initial
// 1 s = 2*delay + delayed-ack 200 ms, or 2*delay with an immediate SACK); the schedule
// deviation budget then orders the expiry callback against the SACK handler both ways, at
// every lock acquisition.  A later message loses its first transmissions, so only a T3-rtx
// that still works repairs it.
func famZ5(modes []modeSpec, delays []time.Duration, kills []int, d int) []xferCase {
	var out []xferCase
	for _, mode := range modes {
		for _, dl := range delays {
			for _, kn := range kills {
				a := withBase(mode.A, 228, 0xFFFFFFFE, 4000)
				b := withBase(mode.B, 228, 9, 4000)
				out = append(out, xferCase{
					Name: fmt.Sprintf("Z5/%s/delay%v/kill%d", mode.Name, dl, kn),
					D:    d,
					Spec: &xferSpec{A: a, B: b, Delay: dl, SuspendTimers: true, Kill: []killRule{{SID: 1, Msg: 1, Frag: -1, N: kn}},
						Horizon: 200 * time.Second, DrainWait: 120 * time.Second,
						Streams: []streamSpec{{SID: 1, From: 0, Gap: 5 * time.Second, Msgs: []msgSpec{{Size: 10, PPI: 53}, {Size: 11, PPI: 53}}}}},
				})
			}
		}
	}
	return out
}

// withSuspend re-labels cases so that timer expiries may be postponed past the next packet
// delivery (d schedule deviations per execution) in addition to their fault budget.
func withSuspend(cases []xferCase, d int) []xferCase {
	var out []xferCase
	for _, c := range cases {
		sp := *c.Spec
		sp.SuspendTimers = true
		out = append(out, xferCase{Name: c.Name + "/suspend", Spec: &sp, K: c.K, D: d})
	}
	return out
}

// famKS: exhaustive loss patterns.  Three streams (unreliable ordered, reliable ordered,
// unreliable unordered / reliable unordered when !pr) write one-chunk messages round-robin, so
// the i-th DATA TSN belongs to stream i%3; for every subset of at most maxLost TSN indices the
// first transmission of exactly those TSNs is lost (no choice points: one execution each).
func famKS(modes []modeSpec, maxLost int, pr bool, gaps []time.Duration, rounds int) []xferCase {
	var out []xferCase
	n := 3 * rounds
	var subsets [][]int
	var rec func(start int, cur []int)
	rec = func(start int, cur []int) {
		subsets = append(subsets, append([]int(nil), cur...))
		if len(cur) == maxLost {
			return
		}
		for i := start; i < n; i++ {
			rec(i+1, append(cur, i))
		}
	}
	rec(0, nil)
	for _, mode := range modes {
		for _, gap := range gaps {
			for _, sub := range subsets {
				mk := func(size int) []msgSpec {
					var ms []msgSpec
					for i := 0; i < rounds; i++ {
						ms = append(ms, msgSpec{Size: size + i, PPI: 53})
					}
					return ms
				}
				s1 := streamSpec{SID: 1, From: 0, Msgs: mk(58)}
				s3 := streamSpec{SID: 3, From: 0, Unordered: true, Msgs: mk(50)}
				if pr {
					s1.RelType, s1.RelVal = ReliabilityTypeRexmit, 0
					s3.RelType, s3.RelVal = ReliabilityTypeRexmit, 0
				}
				spec := &xferSpec{
					A: withBase(mode.A, 100, 0xFFFFFFFB, 4000), B: withBase(mode.B, 100, 50, 4000),
					Streams:    []streamSpec{s1, {SID: 2, From: 0, Msgs: mk(64)}, s3},
					Interleave: true,
					WriteGap:   gap,
					KillIdx:    sub,
					KillN:      1,
				}
				out = append(out, xferCase{Name: fmt.Sprintf("KS/%s/pr%v/gap%v/lost%v", mode.Name, pr, gap, sub), K: 0, Spec: spec})
			}
		}
	}
	return out
}

// famZ6: a very long backlog of tiny ordered messages builds up in front of a paused reader
// (more than 2^15 unread messages on one stream fit the default receive buffer).
func famZ6(counts []int) []xferCase {
	var out []xferCase
	for _, n := range counts {
		a := withBase(epCfg{NoInterleave: true}, 1191, 0xFFFFF000, 4000)
		b := withBase(epCfg{Server: true, NoInterleave: true}, 1191, 9, 4000)
		a.MinCwnd = 1 << 20
		var msgs []msgSpec
		for i := 0; i < n; i++ {
			msgs = append(msgs, msgSpec{Size: 7 + i%2, PPI: 53})
		}
		out = append(out, xferCase{
			Name: fmt.Sprintf("Z6/backlog%d", n),
			K:    0,
			Spec: &xferSpec{A: a, B: b, PauseReader: 20 * time.Second, Horizon: 400 * time.Second, DrainWait: 200 * time.Second,
				Streams: []streamSpec{{SID: 1, From: 0, Msgs: msgs}}},
		})
	}
	return out
}

// famZ8: the reader keeps reading, the packet with the second message is lost three times, and
// the messages that overtake it reach a stream sequence number 2^15-1, 2^15 and 2^15+1 ahead
// of the one the reader waits for (16-bit serial numbers have no order at exactly 2^15).
func famZ8(counts []int) []xferCase {
	var out []xferCase
	for _, n := range counts {
		a := withBase(epCfg{NoInterleave: true}, 1191, 0xFFFFF000, 4000)
		b := withBase(epCfg{Server: true, NoInterleave: true}, 1191, 9, 4000)
		a.MinCwnd = 1 << 20
		b.RecvBuf = 5 << 20
		var msgs []msgSpec
		for i := 0; i < n; i++ {
			msgs = append(msgs, msgSpec{Size: 7 + i%2, PPI: 53})
		}
		out = append(out, xferCase{
			Name: fmt.Sprintf("Z8/ahead%d", n-2),
			K:    0,
			Spec: &xferSpec{A: a, B: b, Horizon: 400 * time.Second, DrainWait: 200 * time.Second, Kill: []killRule{{SID: 1, Msg: 1, Frag: -1, N: 3}},
				Streams: []streamSpec{{SID: 1, From: 0, Msgs: msgs}}},
		})
	}
	return out
}

// famZ9: the peer's window is small but not zero (a lagging reader behind a small receive
// buffer) when a chunk is lost: the earliest outstanding chunk is retransmitted although it
// does not fit the window the sender believes in (nothing else would ever reopen it).
func famZ9(modes []modeSpec, k int) []xferCase {
	var out []xferCase
	for _, mode := range modes {
		for _, rb := range []uint32{2500, 3000} {
			a := withBase(mode.A, 1200, 0xFFFFFFF0, 4000)
			b := withBase(mode.B, 1200, 9, 4000)
			b.RecvBuf = rb
			out = append(out, xferCase{
				Name: fmt.Sprintf("Z9/%s/rbuf%d", mode.Name, rb),
				K:    k,
				Spec: &xferSpec{A: a, B: b, Faults: faultSet{Drop: true}, PauseReader: 5 * time.Second, NoSackComplete: true,
					Streams: []streamSpec{{SID: 1, From: 0, Msgs: []msgSpec{{Size: 800, PPI: 53}, {Size: 801, PPI: 53}, {Size: 802, PPI: 53}, {Size: 40, PPI: 53}}}}},
			})
		}
	}
	return out
}

// famZ7: blocking-write mode against a window that closes: single-chunk messages, so that the
// zero-window probe carries the last (only) chunk of a write; the reader resumes later.
func famZ7(modes []modeSpec, k int) []xferCase {
	var out []xferCase
	for _, mode := range modes {
		for _, sz := range []int{150, 400} {
			a := withBase(mode.A, 228, 0xFFFFFFF0, 4000)
			a.BlockWrite = true
			b := withBase(mode.B, 228, 9, 4000)
			b.RecvBuf = 1500
			var msgs []msgSpec
			for i := 0; i < 14; i++ {
				msgs = append(msgs, msgSpec{Size: sz, PPI: 53})
			}
			out = append(out, xferCase{
				Name: fmt.Sprintf("Z7/%s/block/size%d", mode.Name, sz),
				K:    k,
				Spec: &xferSpec{A: a, B: b, Faults: allFaults, PauseReader: 3 * time.Second, NoSackComplete: true,
					Streams: []streamSpec{{SID: 1, From: 0, Msgs: msgs}}},
			})
			// the same with a write deadline that expires while the window is closed: the writes
			// that give up leave no trace, those accepted before and after are all delivered
			out = append(out, xferCase{
				Name: fmt.Sprintf("Z7/%s/block-deadline/size%d", mode.Name, sz),
				K:    0,
				Spec: &xferSpec{A: a, B: b, Faults: allFaults, PauseReader: 3 * time.Second, NoSackComplete: true, WriteTimeout: 500 * time.Millisecond,
					Streams: []streamSpec{{SID: 1, From: 0, Msgs: msgs}}},
			})
		}
	}
	return out
}

// famZS: a burst of single-chunk packets of which every other one is lost, so that the receiver
// holds as many isolated TSNs as its tracking window admits for that many packets.  The
// acknowledgement that has to name them all is larger than the 8192-byte buffer the peer reads
// its transport with as soon as there are more than 2041 holes.  After the burst the network is
// perfect.
func famZS(counts []int) []xferCase {
	var out []xferCase
	for _, n := range counts {
		a := withBase(epCfg{NoInterleave: true}, 100, uint32(0)-uint32(n/2), 4000)
		b := withBase(epCfg{Server: true, NoInterleave: true}, 100, 9, 4000)
		a.MinCwnd = 1 << 20 // the burst goes out at once
		var msgs []msgSpec
		var kill []int
		for i := 0; i < n; i++ {
			msgs = append(msgs, msgSpec{Size: 60, PPI: 53})
			if i%2 == 1 {
				kill = append(kill, i)
			}
		}
		out = append(out, xferCase{
			Name: fmt.Sprintf("ZS/n%d", n),
			K:    0,
			Spec: &xferSpec{A: a, B: b, KillIdx: kill, KillN: 1, Horizon: 900 * time.Second, DrainWait: 300 * time.Second,
				Streams: []streamSpec{{SID: 1, From: 0, Msgs: msgs}}},
		})
		if n > 4000 {
			// the sender's own receive buffer is small: the size of the SACKs it has to read
			// is decided by the peer's window, not by its own
			a2 := a
			a2.RecvBuf = 128 << 10
			out = append(out, xferCase{
				Name: fmt.Sprintf("ZS/n%d/rbufA128k", n),
				K:    0,
				Spec: &xferSpec{A: a2, B: b, KillIdx: kill, KillN: 1, Horizon: 900 * time.Second, DrainWait: 300 * time.Second,
					Streams: []streamSpec{{SID: 1, From: 0, Msgs: msgs}}},
			})
		}
	}
	return out
}
