package sctp

import (
	"fmt"
	"time"
)

// helpers for the explicit-state component searches (engine "seq")

func (j *Job) failSeq(oracle, caseName, msg string, sample any) {
	for _, v := range j.Stats.Violations {
		if v.Oracle == oracle && v.Case == caseName {
			return // one finding per (oracle, case)
		}
	}
	if len(j.Stats.Violations) >= 60 {
		return
	}
	fv := FoundViolation{Property: j.Prop, Oracle: oracle, Msg: msg, Case: caseName, Sig: j.Prop + "/" + oracle, Repro: "deterministic"}
	if sample != nil {
		fv.Trace = []string{fmt.Sprint(sample)}
	}
	j.Stats.Violations = append(j.Stats.Violations, fv)
}

func (j *Job) sample(s any) {
	if len(j.Stats.Samples) < 4 {
		j.Stats.Samples = append(j.Stats.Samples, s)
	}
}

func (j *Job) capped() bool {
	if !j.Deadline.IsZero() && time.Now().After(j.Deadline) {
		j.Stats.Capped = true
		return true
	}
	return false
}

// mine tells whether work item i belongs to this shard.
func (j *Job) mine(i int) bool { return j.NShards <= 1 || i%j.NShards == j.Shard }

func (j *Job) extra(k string, v any) {
	if j.Stats.Extra == nil {
		j.Stats.Extra = map[string]any{}
	}
	if old, ok := j.Stats.Extra[k]; ok {
		switch o := old.(type) {
		case int:
			if n, ok := v.(int); ok {
				j.Stats.Extra[k] = o + n
				return
			}
		case int64:
			if n, ok := v.(int64); ok {
				j.Stats.Extra[k] = o + n
				return
			}
		}
	}
	j.Stats.Extra[k] = v
}
