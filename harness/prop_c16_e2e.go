package sctp

import (
	"crypto/sha1"
	"encoding/hex"
	"fmt"
	"sort"
	"strings"
	"time"
)

// C16 end to end: the same workload over the same network behaviour at shifted initial
// TSNs and shifted SSN/MID start values must give the same normalised history.

type shiftCfg struct {
	tsnA, tsnB uint32
	ssn        uint16
	mid        uint32
}

func normChunk(c *wChunk, initSelf, initPeer uint32, sh shiftCfg) string {
	switch c.Typ {
	case wDATA:
		return fmt.Sprintf("DATA t%d s%d n%d p%d %s l%d", int32(c.TSN-initSelf), c.SID, int16(c.SSN-sh.ssn), c.PPI, flagStr(c), len(c.Data))
	case wIDATA:
		return fmt.Sprintf("IDATA t%d s%d m%d f%d p%d %s l%d", int32(c.TSN-initSelf), c.SID, int32(c.MID-sh.mid), c.FSN, c.PPI, flagStr(c), len(c.Data))
	case wSACK:
		var d []int32
		for _, x := range c.Dups {
			d = append(d, int32(x-initPeer))
		}
		return fmt.Sprintf("SACK c%d w%d g%v d%v", int32(c.CumAck-initPeer), c.ARwnd, c.Gaps, d)
	case wFWDTSN:
		var ss []string
		for _, s := range c.Streams {
			ss = append(ss, fmt.Sprintf("%d:%d", s.SID, int16(s.SSN-sh.ssn)))
		}
		sort.Strings(ss)
		return fmt.Sprintf("FWD c%d %v", int32(c.NewCum-initSelf), ss)
	case wIFWDTSN:
		var ss []string
		for _, s := range c.Streams {
			ss = append(ss, fmt.Sprintf("%d:%v:%d", s.SID, s.Unordered, int32(s.MID-sh.mid)))
		}
		sort.Strings(ss)
		return fmt.Sprintf("IFWD c%d %v", int32(c.NewCum-initSelf), ss)
	case wSHUTDOWN:
		return fmt.Sprintf("SHUTDOWN c%d", int32(c.CumAck-initPeer))
	case wRECONFIG:
		var ps []string
		for _, p := range c.Params {
			switch {
			case p.Typ == 13 && len(p.Val) >= 12:
				ps = append(ps, fmt.Sprintf("req r%d l%d %x", int32(be32(p.Val)-initSelf), int32(be32(p.Val[8:])-initSelf), p.Val[12:]))
			case p.Typ == 16 && len(p.Val) >= 8:
				ps = append(ps, fmt.Sprintf("resp r%d =%d", int32(be32(p.Val)-initPeer), be32(p.Val[4:])))
			}
		}
		return "RECONFIG " + strings.Join(ps, ",")
	case wINIT, wINITACK:
		return wTypeName(c.Typ)
	}
	return wTypeName(c.Typ)
}

func normHistory(x *Exec, sh shiftCfg) []string {
	init := [2]uint32{sh.tsnA, sh.tsnB}
	var out []string
	for _, ev := range x.Events {
		if ev.Pkt.dec == nil {
			out = append(out, fmt.Sprintf("%v %s %d undecodable", ev.At, ev.Kind, ev.From))
			continue
		}
		var cs []string
		for i := range ev.Pkt.dec.Chunks {
			cs = append(cs, normChunk(&ev.Pkt.dec.Chunks[i], init[ev.From], init[1-ev.From], sh))
		}
		out = append(out, fmt.Sprintf("%v %s %d [%s]", ev.At, ev.Kind, ev.From, strings.Join(cs, " + ")))
	}
	for _, h := range x.Hist {
		out = append(out, fmt.Sprintf("%v %s %s -> %s", h.At, h.Thread, h.Call, h.Result))
	}
	return out
}

func c16Family(j *Job) []xferCase {
	modes := stdModes()
	var cases []xferCase
	k := 1
	cases = append(cases, famW1(modes, []uint32{0}, k)...)
	for _, c := range famW5(modes, 1) {
		cases = append(cases, c)
	}
	for _, mode := range modes[:2] {
		// kill scenario with abandoned messages (FORWARD-TSN paths)
		mtu := uint32(100)
		il := !mode.A.NoInterleave
		P := int(maxPayloadSizeForMTU(mtu, il))
		spec := &xferSpec{A: withBase(mode.A, mtu, 0, 4000), B: withBase(mode.B, mtu, 0, 4000), Faults: faultSet{Drop: true, Late: true}, Interleave: true,
			Streams: []streamSpec{
				{SID: 1, From: 0, RelType: ReliabilityTypeRexmit, RelVal: 0, Msgs: []msgSpec{{Size: 20, PPI: 53}, {Size: 2*P + 3, PPI: 53}, {Size: 22, PPI: 53}}},
				{SID: 2, From: 0, Msgs: []msgSpec{{Size: P + 3, PPI: 53}, {Size: 30, PPI: 53}}},
				{SID: 12, From: 1, Unordered: true, Msgs: []msgSpec{{Size: 2*P + 1, PPI: 51}, {Size: 9, PPI: 51}}},
			},
			Kill: []killRule{{SID: 1, Msg: 1, Frag: 1, N: 1}}}
		cases = append(cases, xferCase{Name: "KILL/" + mode.Name, K: 1, Spec: spec})
		// two consecutive ordered messages abandoned together: with the shifted cursors their
		// sequence numbers lie on both sides of the wrap inside one FORWARD-TSN
		for ki, lost := range [][2]int{{0, 1}, {1, 2}} {
			s2 := &xferSpec{A: withBase(mode.A, mtu, 0, 4000), B: withBase(mode.B, mtu, 0, 4000), Faults: faultSet{Drop: true, Late: true}, Interleave: true,
				Streams: []streamSpec{
					{SID: 1, From: 0, RelType: ReliabilityTypeRexmit, RelVal: 0, Msgs: []msgSpec{{Size: 20, PPI: 53}, {Size: 21, PPI: 53}, {Size: 22, PPI: 53}, {Size: 23, PPI: 53}, {Size: 24, PPI: 53}}},
					{SID: 2, From: 0, Msgs: []msgSpec{{Size: P + 3, PPI: 53}, {Size: 30, PPI: 53}}},
				},
				Kill: []killRule{{SID: 1, Msg: lost[0], Frag: -1, N: 1}, {SID: 1, Msg: lost[1], Frag: -1, N: 1}}}
			cases = append(cases, xferCase{Name: fmt.Sprintf("KILL2.%d/%s", ki, mode.Name), K: 0, Spec: s2})
		}
	}
	// a window of several thousand TSNs behind one lost chunk (receive-side bitmap words far
	// apart): the shifted runs put the lost TSN right below the wrap
	for _, c := range famZ4([]uint32{1048576}, []int{4200}) {
		c.Name = "WIN/" + c.Name
		cases = append(cases, c)
	}
	return cases
}

func c16EndToEnd(j *Job) {
	// skip reports across a reset and re-open while the TSN wraps (scenario of C07): the reset's
	// last TSN lies just below 2^32, the new incarnation's chunks just above zero
	for _, tsn := range []uint32{0xFFFFFFFB, 0xFFFFFFFC, 0xFFFFFFFD} {
		for _, mode := range stdModes()[:2] {
			j.Explore(fmt.Sprintf("FR/%s/tsn%x", mode.Name, tsn), fwdAcrossResetScenario(withBase(mode.A, 228, tsn, 4000), withBase(mode.B, 228, 50, 4000)), Budget{}, nil)
		}
	}
	for _, t0 := range []uint32{1000, 0x7FFFFFF0, 0xFFFFFF00, 0xFFFFFFF8, 0xFFFFFFFF} {
		j.Explore(fmt.Sprintf("throttle/tsn%#x", t0), throttleScenario(t0), Budget{}, nil)
	}
	// stream reset / reopen cycles with reconfiguration sequence numbers running past their wrap
	for _, mode := range stdModes() {
		for ti, tp := range [][2]uint32{{0xFFFFFFFF, 0xFFFFFFFF}, {0xFFFFFFFE, 0x7FFFFFFF}, {1000, 70000}} {
			spec := &resetSpec{A: withBase(mode.A, 100, tp[0], 4000), B: withBase(mode.B, 100, tp[1], 4000), SIDs: []uint16{5}, Sizes: []int{9, 150}, Cycles: 3,
				Faults: allFaults, SSNStart: 65535, MIDStart: 0xFFFFFFFF, BackSizes: []int{12}}
			k := 0
			if ti == 0 {
				k = 1
			}
			j.Explore(fmt.Sprintf("reset-wrap/%s/tsn%d", mode.Name, ti), resetScenario(spec), Budget{K: k}, nil)
		}
	}
	cases := c16Family(j)
	ref := shiftCfg{tsnA: 1000, tsnB: 70000}
	var shifts []shiftCfg
	// every offset up to 80 on the sending side, fault free; a few with faults, on one side and on both
	for off := uint32(0); off <= 80; off++ {
		shifts = append(shifts, shiftCfg{tsnA: uint32(0) - off, tsnB: 70000, ssn: 0, mid: 0})
	}
	faulty := []shiftCfg{
		{tsnA: 0xFFFFFFFF, tsnB: 70000}, {tsnA: 0xFFFFFFFE, tsnB: 0xFFFFFFFD}, {tsnA: 0xFFFFFFFA, tsnB: 0xFFFFFFF6, ssn: 65533, mid: 0xFFFFFFFD},
		{tsnA: 0xFFFFFFF4, tsnB: 1000, ssn: 65535, mid: 0xFFFFFFFF}, {tsnA: 1000, tsnB: 70000, ssn: 65534, mid: 0xFFFFFFFE}, {tsnA: 0x7FFFFFFE, tsnB: 0x80000000, ssn: 32766, mid: 0x7FFFFFFE},
	}
	for _, c := range cases {
		base := c.Spec
		refHist := map[string]string{}
		refFull := map[string][]string{}
		run := func(sh shiftCfg, k int, isRef bool, label string) {
			spec := *base
			spec.A.InitTSN, spec.B.InitTSN = sh.tsnA, sh.tsnB
			spec.PreOpen, spec.SSNStart, spec.MIDStart = true, sh.ssn, sh.mid
			spec.Final = func(m *Sim, x *Exec, r *xferResult) {
				generalVerdicts(m, x, false)
				m.Observe("%s", deliverySummary(&spec, r))
			}
			res := &xferResult{}
			classify := func(x *Exec) string {
				h := normHistory(x, sh)
				sum := sha1.Sum([]byte(strings.Join(h, "\n")))
				key := fmt.Sprint(x.Prefix)
				hs := hex.EncodeToString(sum[:8])
				if isRef {
					refHist[key] = hs
					if len(x.Prefix) <= 1 {
						refFull[key] = h
					}
					return hs
				}
				want, ok := refHist[key]
				if !ok {
					j.failSeq("shift.shape", c.Name+"/"+label, fmt.Sprintf("%s: choice prefix %v does not exist in the unshifted run (the execution tree has a different shape)", label, x.Prefix), nil)
				} else if want != hs {
					diff := ""
					if rf, ok := refFull[key]; ok {
						for i := 0; i < len(rf) && i < len(h); i++ {
							if rf[i] != h[i] {
								diff = fmt.Sprintf("first difference at line %d:\n  unshifted: %s\n  shifted:   %s", i, rf[i], h[i])
								break
							}
						}
						if diff == "" {
							diff = fmt.Sprintf("histories have %d vs %d lines", len(rf), len(h))
						}
					}
					j.failSeq("shift.history", c.Name+"/"+label, fmt.Sprintf("%s prefix %v: normalised history differs from the unshifted run. %s", label, x.Prefix, diff), nil)
				}
				return hs
			}
			// differential runs must not be sharded by branch (the reference map is per process): shard by case
			saveShard, saveN := j.Shard, j.NShards
			j.Shard, j.NShards = 0, 1
			j.Explore(c.Name+"/"+label, xferScenario(&spec, res), Budget{K: k}, classify)
			j.Shard, j.NShards = saveShard, saveN
		}
		j.caseNo++
		if !j.mine(j.caseNo) {
			continue
		}
		run(ref, c.K, true, "ref")
		for si, sh := range shifts {
			if strings.HasPrefix(c.Name, "WIN/") && si%16 != 0 {
				continue // heavy case: every 16th offset only
			}
			run(sh, 0, false, fmt.Sprintf("tsnA=2^32-%d", uint32(0)-sh.tsnA))
		}
		for i, sh := range faulty {
			run(sh, c.K, false, fmt.Sprintf("shift%d", i))
		}
		if j.capped() {
			return
		}
	}
}

// throttleScenario: a peer that keeps asking for stream resets it is not ready for (the reset
// point lies ahead of what it has sent) can have at most maxReconfigRequests of them pending.
// The comparison of the reset point with the cumulative TSN must not depend on where in the
// number space the association happens to be.
func throttleScenario(tsn0 uint32) *Scenario {
	return &Scenario{
		Name:    "reconfig-throttle",
		Horizon: 120 * time.Second,
		Setup:   func(m *Sim) { m.W.delay = [2]time.Duration{time.Millisecond, time.Millisecond} },
		Body: func(m *Sim) {
			cfg := epCfg{Server: true, NoInterleave: true, MTU: 1191, RTOMax: 4000, InitTSN: 7}
			p := newScripted(m, cfg, false, false)
			p.tsn0, p.tsn = tsn0, tsn0
			if !p.connectServer() {
				m.Failf("e2.base", "handshake with the scripted peer failed")
				c03Teardown(m, p)
				return
			}
			a := p.a
			n := maxReconfigRequests + 3
			for i := 0; i < n && a.getState() == established; i++ {
				// outgoing reset request i for stream 100+i, to be performed once TSN tsn0+99 has arrived
				v := cat(u32(tsn0+uint32(i)), u32(0), u32(tsn0+99), u16(uint16(100+i)))
				m.W.inject(0, p.pkt(chunkBytes(wRECONFIG, 0, wTLVBytes(13, v, true))))
				if i%50 == 49 {
					p.settle(0)
				}
			}
			p.settle(0)
			if got := len(a.reconfigRequests); got > maxReconfigRequests {
				m.Failf("shift.throttle", "with the peer's TSNs starting at %#x, %d reset requests that cannot be performed yet are pending (limit %d): the limit is applied with a comparison that does not survive the wrap", tsn0, got, maxReconfigRequests)
			}
			m.Observe("pending=%d", len(a.reconfigRequests))
			c03Teardown(m, p)
		},
		Final: func(m *Sim, x *Exec) { generalVerdicts(m, x, false) },
	}
}
