package sctp

func c16EndToEnd(j *Job) {}
